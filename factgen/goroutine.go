package main

import (
	"fmt"
	"go/ast"
	"go/token"
	"go/types"
)

// 6. goroutineAccess
//
// For every closure started as a goroutine — passed to (*errgroup.Group).Go /
// TryGo, or the function literal of a `go` statement — inside any non-generated
// function of the module, compute the footprint of accesses to SHARED objects:
//
//	var:<name>            a variable of the enclosing function captured by the closure
//	global:<pkg>.<name>   a package-level variable of this module
//	<Type>.<Field>        a field reached through a captured pointer-typed variable
//	                      (or a pointer derived from one: p := msg.Payload; &x.F; ...)
//	<Type>.*              whole-object access through such a pointer (*p = v)
//	opaque:<callee>(<T>)  such a pointer handed to code we cannot see (outside the
//	                      module / interface method / function value)
//
// with access "R" or "W".  Accesses are collected in the closure body and,
// `depth` levels deep, in the bodies of functions of this module called with
// such a pointer as argument or receiver.
//
// Writes:  x.F = v, x.F op= v, x.F++, x.F[i] = v, copy(x.F, ..), *p = v, v = ..,
// (and `x.F = append(x.F, ..)`, which is just an assignment).  Everything else is a read.
// Entry = (enclosing top-level function, "g<N>" in source order, "R"|"W", object).

type gaCtx struct {
	w     *world
	out   set4
	fn    string
	g     string
	depth int
}

func (c *gaCtx) rec(access, object string) {
	c.out[[4]string{c.fn, c.g, access, object}] = true
}

func (w *world) goroutineAccess(depth int) [][4]string {
	out := set4{}
	for _, s := range w.sites(w.modPkgs) {
		if s.decl == nil {
			continue
		}
		info := s.pkg.TypesInfo
		ord := 0
		ast.Inspect(s.decl.Body, func(n ast.Node) bool {
			var target ast.Expr
			switch n := n.(type) {
			case *ast.GoStmt:
				// `go f(args)`: the goroutine body is f; arguments are evaluated by the parent.
				target = n.Call.Fun
			case *ast.CallExpr:
				se, ok := unparen(n.Fun).(*ast.SelectorExpr)
				if !ok || len(n.Args) != 1 {
					return true
				}
				fn, ok := info.Uses[se.Sel].(*types.Func)
				if !ok {
					return true
				}
				if name := nondetName(fn); name != "errgroup.Go" && name != "errgroup.TryGo" {
					return true
				}
				target = n.Args[0]
			default:
				return true
			}
			c := &gaCtx{w: w, out: out, fn: s.name, g: fmt.Sprintf("g%d", ord), depth: depth}
			ord++
			switch t := unparen(target).(type) {
			case *ast.FuncLit:
				c.closure(info, t)
			default:
				// a named function / method value started as goroutine
				var fn *types.Func
				switch f := t.(type) {
				case *ast.Ident:
					fn, _ = info.Uses[f].(*types.Func)
				case *ast.SelectorExpr:
					fn, _ = info.Uses[f.Sel].(*types.Func)
				}
				if fi := w.funcs[fn]; fi != nil && fi.decl.Body != nil {
					c.rec("R", "func:"+fi.name)
					a := &bodyAnalysis{c: c, info: fi.pkg.TypesInfo, taint: map[types.Object]bool{}, visited: map[*types.Func]bool{fn: true}}
					a.run(fi.decl.Body, depth)
				} else {
					c.rec("R", "opaque:"+types.ExprString(t))
				}
			}
			return true // nested goroutines get their own ordinal
		})
	}
	return out.sorted()
}

// bodyAnalysis scans one function body with a set of tainted (shared-pointer) objects.
type bodyAnalysis struct {
	c       *gaCtx
	info    *types.Info
	lit     *ast.FuncLit          // non-nil: record captured variables of this closure
	taint   map[types.Object]bool // pointer-typed variables pointing into shared memory
	visited map[*types.Func]bool
}

func (c *gaCtx) closure(info *types.Info, lit *ast.FuncLit) {
	a := &bodyAnalysis{c: c, info: info, lit: lit, taint: map[types.Object]bool{}, visited: map[*types.Func]bool{}}
	// roots: captured variables of pointer type
	ast.Inspect(lit.Body, func(n ast.Node) bool {
		if id, ok := n.(*ast.Ident); ok {
			if v := a.captured(id); v != nil && isPointer(v.Type()) {
				a.taint[v] = true
			}
		}
		return true
	})
	a.run(lit.Body, c.depth)
}

func isPointer(t types.Type) bool {
	if t == nil {
		return false
	}
	_, ok := t.Underlying().(*types.Pointer)
	return ok
}

// captured returns the variable if id refers to a local variable (or parameter /
// receiver / named result) of an ENCLOSING function of a.lit.
func (a *bodyAnalysis) captured(id *ast.Ident) *types.Var {
	if a.lit == nil {
		return nil
	}
	v, ok := a.info.Uses[id].(*types.Var)
	if !ok || v.IsField() || v.Pkg() == nil || v.Parent() == nil || v.Parent() == v.Pkg().Scope() {
		return nil
	}
	if v.Pos() >= a.lit.Pos() && v.Pos() < a.lit.End() {
		return nil // declared inside the closure (incl. its params / named results)
	}
	return v
}

func (a *bodyAnalysis) global(id *ast.Ident) *types.Var {
	v, ok := a.info.Uses[id].(*types.Var)
	if !ok || v.IsField() || v.Pkg() == nil || v.Parent() != v.Pkg().Scope() || !a.c.w.inModule(v.Pkg().Path()) {
		return nil
	}
	return v
}

// derived reports whether e denotes memory reachable from a tainted pointer
// (without going through a call).
func (a *bodyAnalysis) derived(e ast.Expr) bool {
	switch x := unparen(e).(type) {
	case *ast.Ident:
		o := a.info.Uses[x]
		return o != nil && a.taint[o]
	case *ast.StarExpr:
		return a.derived(x.X)
	case *ast.SelectorExpr:
		if sel := a.info.Selections[x]; sel != nil && sel.Kind() == types.FieldVal {
			return a.derived(x.X)
		}
	case *ast.IndexExpr:
		return a.derived(x.X)
	case *ast.SliceExpr:
		return a.derived(x.X)
	case *ast.UnaryExpr:
		if x.Op == token.AND {
			return a.derived(x.X)
		}
	}
	return false
}

// fieldName names the field selected by se as "<OwnerType>.<Field>".
func fieldName(sel *types.Selection) string {
	t := sel.Recv()
	idx := sel.Index()
	for _, i := range idx[:len(idx)-1] {
		st, ok := deref(t).Underlying().(*types.Struct)
		if !ok {
			break
		}
		t = st.Field(i).Type()
	}
	owner := "struct"
	if n := namedOf(t); n != nil {
		owner = n.Obj().Name()
	}
	return owner + "." + sel.Obj().Name()
}

func typeName(t types.Type) string {
	if n := namedOf(t); n != nil {
		return n.Obj().Name()
	}
	return types.TypeString(deref(t), func(p *types.Package) string { return p.Name() })
}

// writeTarget strips index/slice/paren from an assignment target:
// x.F[i] = v mutates what x.F holds.
func writeTarget(e ast.Expr) ast.Expr {
	for {
		switch x := e.(type) {
		case *ast.ParenExpr:
			e = x.X
		case *ast.IndexExpr:
			e = x.X
		case *ast.SliceExpr:
			e = x.X
		default:
			return e
		}
	}
}

// varWrittenThrough: for a write to target, the local variable whose own storage
// is modified (k.f = v modifies k when no pointer indirection is involved).
func (a *bodyAnalysis) varWrittenThrough(e ast.Expr) *ast.Ident {
	for {
		switch x := e.(type) {
		case *ast.ParenExpr:
			e = x.X
		case *ast.Ident:
			return x
		case *ast.SelectorExpr:
			sel := a.info.Selections[x]
			if sel == nil || sel.Kind() != types.FieldVal || sel.Indirect() {
				return nil
			}
			e = x.X
		case *ast.IndexExpr:
			tv, ok := a.info.Types[x.X]
			if !ok {
				return nil
			}
			if _, isArr := tv.Type.Underlying().(*types.Array); !isArr {
				return nil
			}
			e = x.X
		default:
			return nil
		}
	}
}

func (a *bodyAnalysis) run(body ast.Node, depth int) {
	// 1. propagate taint to local pointer variables (fixpoint)
	for changed := true; changed; {
		changed = false
		mark := func(lhs ast.Expr, rhs ast.Expr) {
			id, ok := unparen(lhs).(*ast.Ident)
			if !ok || id.Name == "_" {
				return
			}
			o := a.info.ObjectOf(id)
			if o == nil || a.taint[o] || !isPointer(o.Type()) {
				return
			}
			if a.derived(rhs) {
				a.taint[o] = true
				changed = true
			}
		}
		ast.Inspect(body, func(n ast.Node) bool {
			switch n := n.(type) {
			case *ast.AssignStmt:
				if len(n.Lhs) == len(n.Rhs) {
					for i := range n.Lhs {
						mark(n.Lhs[i], n.Rhs[i])
					}
				}
			case *ast.ValueSpec:
				if len(n.Names) == len(n.Values) {
					for i := range n.Names {
						mark(n.Names[i], n.Values[i])
					}
				}
			case *ast.RangeStmt:
				// for _, p := range x.Ptrs  → p points into shared memory
				if n.Value != nil && a.derived(n.X) {
					if id, ok := n.Value.(*ast.Ident); ok {
						if o := a.info.ObjectOf(id); o != nil && !a.taint[o] && isPointer(o.Type()) {
							a.taint[o] = true
							changed = true
						}
					}
				}
			}
			return true
		})
	}

	// 2. classify write targets
	writes := map[ast.Node]bool{}   // selector / star / ident nodes that are written
	alsoRead := map[ast.Node]bool{} // op= and ++/--
	markWrite := func(lhs ast.Expr, rw bool) {
		t := writeTarget(lhs)
		writes[t] = true
		if rw || t != unparen(lhs) { // x.F[i] = v also reads x.F
			alsoRead[t] = true
		}
		if _, isIdent := t.(*ast.Ident); !isIdent {
			if id := a.varWrittenThrough(t); id != nil {
				writes[id] = true
				alsoRead[id] = true
			}
		}
	}
	ast.Inspect(body, func(n ast.Node) bool {
		switch n := n.(type) {
		case *ast.AssignStmt:
			for _, l := range n.Lhs {
				markWrite(l, n.Tok != token.ASSIGN && n.Tok != token.DEFINE)
			}
		case *ast.IncDecStmt:
			markWrite(n.X, true)
		case *ast.RangeStmt:
			if n.Tok == token.ASSIGN {
				if n.Key != nil {
					markWrite(n.Key, false)
				}
				if n.Value != nil {
					markWrite(n.Value, false)
				}
			}
		case *ast.CallExpr:
			if id, ok := unparen(n.Fun).(*ast.Ident); ok {
				if b, ok := a.info.Uses[id].(*types.Builtin); ok && len(n.Args) > 0 {
					switch b.Name() {
					case "copy", "clear":
						markWrite(n.Args[0], true)
					case "delete":
						markWrite(n.Args[0], true)
					}
				}
			}
		}
		return true
	})

	// 3. record accesses
	emit := func(n ast.Node, object string) {
		if writes[n] {
			a.c.rec("W", object)
			if alsoRead[n] {
				a.c.rec("R", object)
			}
		} else {
			a.c.rec("R", object)
		}
	}
	ast.Inspect(body, func(n ast.Node) bool {
		switch n := n.(type) {
		case *ast.Ident:
			if v := a.captured(n); v != nil {
				emit(n, "var:"+v.Name())
			} else if v := a.global(n); v != nil {
				emit(n, "global:"+a.c.w.rel(v.Pkg().Path())+"."+v.Name())
			}
		case *ast.SelectorExpr:
			sel := a.info.Selections[n]
			if sel != nil && sel.Kind() == types.FieldVal && a.derived(n.X) {
				emit(n, fieldName(sel))
			}
		case *ast.StarExpr:
			if writes[n] && a.derived(n.X) {
				if tv, ok := a.info.Types[n.X]; ok {
					emit(n, typeName(tv.Type)+".*")
				}
			}
		case *ast.CallExpr:
			a.call(n, depth)
		}
		return true
	})
}

// call handles one call expression inside an analysed body: shared pointers
// flowing into a callee.
func (a *bodyAnalysis) call(call *ast.CallExpr, depth int) {
	if tv, ok := a.info.Types[call.Fun]; ok && (tv.IsType() || tv.IsBuiltin()) {
		return
	}
	// which actuals are shared pointers?
	var recvExpr ast.Expr
	var fn *types.Func
	switch f := unparen(call.Fun).(type) {
	case *ast.Ident:
		fn, _ = a.info.Uses[f].(*types.Func)
	case *ast.SelectorExpr:
		fn, _ = a.info.Uses[f.Sel].(*types.Func)
		if sel := a.info.Selections[f]; sel != nil && sel.Kind() == types.MethodVal {
			recvExpr = f.X
		}
	case *ast.IndexExpr: // generic instantiation f[T](..)
		if id, ok := unparen(f.X).(*ast.Ident); ok {
			fn, _ = a.info.Uses[id].(*types.Func)
		} else if se, ok := unparen(f.X).(*ast.SelectorExpr); ok {
			fn, _ = a.info.Uses[se.Sel].(*types.Func)
		}
	}
	sharedPtr := func(e ast.Expr) bool {
		if !a.derived(e) {
			return false
		}
		tv, ok := a.info.Types[e]
		return ok && isPointer(tv.Type)
	}
	anyShared := false
	var sharedTypes []string
	for _, arg := range call.Args {
		if sharedPtr(arg) {
			anyShared = true
			sharedTypes = append(sharedTypes, typeName(a.info.Types[arg].Type))
		}
	}
	recvShared := false
	if recvExpr != nil && a.derived(recvExpr) {
		// pointer receiver (explicit pointer or implicit &x on addressable shared memory)
		if fn != nil {
			if sig, ok := fn.Type().(*types.Signature); ok && sig.Recv() != nil {
				if isPointer(sig.Recv().Type()) || types.IsInterface(sig.Recv().Type()) {
					if tv, ok := a.info.Types[recvExpr]; ok {
						recvShared = true
						anyShared = true
						sharedTypes = append(sharedTypes, typeName(tv.Type))
					}
				}
			}
		}
	}
	if !anyShared {
		return
	}
	if fn != nil {
		fn = fn.Origin()
	}
	fi := a.c.w.funcs[fn]
	if fn == nil || fi == nil || fi.decl.Body == nil {
		name := "?"
		if fn != nil {
			name = fn.Name()
			if fn.Pkg() != nil {
				name = fn.Pkg().Name() + "." + name
			}
			if sig, ok := fn.Type().(*types.Signature); ok && sig.Recv() != nil {
				name = typeName(sig.Recv().Type()) + "." + fn.Name()
				if fn.Pkg() != nil {
					name = fn.Pkg().Name() + "." + name
				}
			}
		} else {
			name = types.ExprString(call.Fun)
		}
		for _, t := range sharedTypes {
			a.c.rec("R", "opaque:"+name+"("+t+")")
		}
		return
	}
	if depth <= 0 {
		for _, t := range sharedTypes {
			a.c.rec("R", "opaque:"+fi.name+"("+t+")")
		}
		return
	}
	if a.visited[fn] {
		return
	}
	sub := &bodyAnalysis{c: a.c, info: fi.pkg.TypesInfo, taint: map[types.Object]bool{}, visited: map[*types.Func]bool{fn: true}}
	for f := range a.visited {
		sub.visited[f] = true
	}
	sub.bindCallee(a.info, call, fn, fi, sharedPtr)
	if recvShared && fi.decl.Recv != nil && len(fi.decl.Recv.List) == 1 && len(fi.decl.Recv.List[0].Names) == 1 {
		if o := fi.pkg.TypesInfo.Defs[fi.decl.Recv.List[0].Names[0]]; o != nil && isPointer(o.Type()) {
			sub.taint[o] = true
		}
	}
	if len(sub.taint) == 0 {
		return
	}
	sub.run(fi.decl.Body, depth-1)
}

// bindCallee taints the parameters of fi that receive a shared pointer actual.
func (sub *bodyAnalysis) bindCallee(callerInfo *types.Info, call *ast.CallExpr, fn *types.Func, fi *funcInfo, shared func(ast.Expr) bool) {
	sig, ok := fn.Type().(*types.Signature)
	if !ok {
		return
	}
	// parameter objects in declaration order (these are the Defs used in the body)
	var params []types.Object
	if fi.decl.Type.Params != nil {
		for _, fld := range fi.decl.Type.Params.List {
			if len(fld.Names) == 0 {
				params = append(params, nil)
				continue
			}
			for _, nm := range fld.Names {
				params = append(params, fi.pkg.TypesInfo.Defs[nm])
			}
		}
	}
	for i, arg := range call.Args {
		if !shared(arg) {
			continue
		}
		j := i
		if sig.Variadic() && j >= len(params)-1 {
			continue // pointer inside the variadic slice: not tracked (slice, not pointer)
		}
		if j < len(params) && params[j] != nil && isPointer(params[j].Type()) {
			sub.taint[params[j]] = true
		}
	}
}
