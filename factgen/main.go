// Command factgen extracts semantic FACTS from the current source of the GOAT
// repository (default /repo) and writes them as a Lean 4 source file plus a
// JSON copy.  All facts are computed from resolved go/types objects (never from
// line numbers or raw text), so the tool keeps working when the source is
// refactored: it reports whatever the current tree contains.
//
// Usage:
//
//	factgen [-repo /repo] [-out .../Facts.lean] [-json .../facts.json] [-msgs msgreg.txt]
//
// Facts (see the doc comment of each `def` in the generated Lean file):
// mapRanges, nondetUses, nondetUsesPkg, seqWriters, seqCallers, keeperStoreFields,
// storeWriters, storeEscapes, goroutineAccess, anteDecorators, msgServerFirstChecks,
// registeredMsgs(+Known, Services, Methods; runtime data supplied via -msgs).
package main

import (
	"flag"
	"fmt"
	"go/ast"
	"go/token"
	"go/types"
	"os"
	"path/filepath"
	"regexp"
	"sort"
	"strings"

	"golang.org/x/tools/go/packages"
)

// ---------------------------------------------------------------------------
// loaded world

type funcInfo struct {
	pkg  *packages.Package
	file *ast.File
	decl *ast.FuncDecl
	name string // qualified: "x/locking/keeper.Keeper.EndBlocker"
}

type world struct {
	modPath string
	fset    *token.FileSet
	// every non-test package of the module that was loaded (roots + module deps), sorted by path
	modPkgs []*packages.Package
	byPath  map[string]*packages.Package
	// declaration of every function of the module (including generated files; generated
	// files are only excluded as *reporting sites*, not as call targets)
	funcs map[*types.Func]*funcInfo
	cg    *callGraph // lazily built (extract.go)
}

func (w *world) inModule(path string) bool {
	return path == w.modPath || strings.HasPrefix(path, w.modPath+"/")
}

func (w *world) rel(pkgPath string) string {
	if pkgPath == w.modPath {
		return "."
	}
	return strings.TrimPrefix(pkgPath, w.modPath+"/")
}

// isGeneratedFile reports whether the file must be excluded as a reporting site.
func (w *world) isGeneratedFile(f *ast.File) bool {
	name := filepath.Base(w.fset.Position(f.Package).Filename)
	if strings.HasSuffix(name, "_test.go") || strings.HasSuffix(name, ".pb.go") ||
		strings.HasSuffix(name, ".pb.gw.go") || strings.HasSuffix(name, ".pulsar.go") {
		return true
	}
	return ast.IsGenerated(f)
}

func recvTypeName(fd *ast.FuncDecl) string {
	if fd.Recv == nil || len(fd.Recv.List) == 0 {
		return ""
	}
	t := fd.Recv.List[0].Type
	for {
		switch x := t.(type) {
		case *ast.StarExpr:
			t = x.X
		case *ast.ParenExpr:
			t = x.X
		case *ast.IndexExpr:
			t = x.X
		case *ast.IndexListExpr:
			t = x.X
		case *ast.Ident:
			return x.Name
		default:
			return "?"
		}
	}
}

func (w *world) qualFunc(pkg *packages.Package, fd *ast.FuncDecl) string {
	s := w.rel(pkg.PkgPath) + "."
	if r := recvTypeName(fd); r != "" {
		s += r + "."
	}
	return s + fd.Name.Name
}

// site is one top-level declaration that can contain code: a function or a
// package-level var/const initialiser (name "<pkg>.<pkg-init>").
type site struct {
	pkg  *packages.Package
	file *ast.File
	decl *ast.FuncDecl // nil for package-level initialisers
	root ast.Node
	name string
}

// sites enumerates every reporting site of the given packages (non-generated files only).
func (w *world) sites(pkgs []*packages.Package) []site {
	var out []site
	for _, p := range pkgs {
		for _, f := range p.Syntax {
			if w.isGeneratedFile(f) {
				continue
			}
			for _, d := range f.Decls {
				switch d := d.(type) {
				case *ast.FuncDecl:
					if d.Body == nil {
						continue
					}
					out = append(out, site{p, f, d, d, w.qualFunc(p, d)})
				case *ast.GenDecl:
					if d.Tok == token.VAR || d.Tok == token.CONST {
						out = append(out, site{p, f, nil, d, w.rel(p.PkgPath) + ".<pkg-init>"})
					}
				}
			}
		}
	}
	return out
}

// inspectStack is ast.Inspect with the ancestor stack (stack[len-1] is the parent of n).
func inspectStack(root ast.Node, fn func(n ast.Node, stack []ast.Node) bool) {
	var stack []ast.Node
	ast.Inspect(root, func(n ast.Node) bool {
		if n == nil {
			stack = stack[:len(stack)-1]
			return true
		}
		ok := fn(n, stack)
		if ok {
			stack = append(stack, n)
		}
		return ok
	})
}

func unparen(e ast.Expr) ast.Expr {
	for {
		p, ok := e.(*ast.ParenExpr)
		if !ok {
			return e
		}
		e = p.X
	}
}

func deref(t types.Type) types.Type {
	if t == nil {
		return nil
	}
	if p, ok := t.Underlying().(*types.Pointer); ok {
		return p.Elem()
	}
	return t
}

func namedOf(t types.Type) *types.Named {
	t = types.Unalias(deref(t))
	n, _ := t.(*types.Named)
	return n
}

// ---------------------------------------------------------------------------
// loading

func load(repo string, patterns []string) (*world, error) {
	env := os.Environ()
	env = append(env, "GOFLAGS=-mod=mod", "GOPROXY=off", "GOSUMDB=off", "GOTOOLCHAIN=local")
	cfg := &packages.Config{
		Dir: repo,
		Mode: packages.NeedName | packages.NeedFiles | packages.NeedSyntax | packages.NeedTypes |
			packages.NeedTypesInfo | packages.NeedDeps | packages.NeedImports | packages.NeedModule,
		Env:   env,
		Tests: false,
		Fset:  token.NewFileSet(),
	}
	roots, err := packages.Load(cfg, patterns...)
	if err != nil {
		return nil, err
	}
	if len(roots) == 0 {
		return nil, fmt.Errorf("no packages matched %v in %s", patterns, repo)
	}
	var modPath string
	for _, r := range roots {
		if r.Module != nil {
			modPath = r.Module.Path
			break
		}
	}
	if modPath == "" {
		return nil, fmt.Errorf("cannot determine module path of %s", repo)
	}
	w := &world{modPath: modPath, fset: cfg.Fset, byPath: map[string]*packages.Package{}, funcs: map[*types.Func]*funcInfo{}}
	var loadErrs []string
	packages.Visit(roots, nil, func(p *packages.Package) {
		if !w.inModule(p.PkgPath) {
			return
		}
		for _, e := range p.Errors {
			loadErrs = append(loadErrs, fmt.Sprintf("%s: %s", p.PkgPath, e))
		}
		if p.Types == nil || p.TypesInfo == nil {
			loadErrs = append(loadErrs, p.PkgPath+": no type information")
			return
		}
		w.modPkgs = append(w.modPkgs, p)
		w.byPath[p.PkgPath] = p
	})
	if len(loadErrs) > 0 {
		return nil, fmt.Errorf("module packages have errors:\n  %s", strings.Join(loadErrs, "\n  "))
	}
	sort.Slice(w.modPkgs, func(i, j int) bool { return w.modPkgs[i].PkgPath < w.modPkgs[j].PkgPath })
	for _, p := range w.modPkgs {
		for _, f := range p.Syntax {
			for _, d := range f.Decls {
				fd, ok := d.(*ast.FuncDecl)
				if !ok {
					continue
				}
				if obj, ok := p.TypesInfo.Defs[fd.Name].(*types.Func); ok {
					w.funcs[obj] = &funcInfo{p, f, fd, w.qualFunc(p, fd)}
				}
			}
		}
	}
	return w, nil
}

// ---------------------------------------------------------------------------
// package sets

func (w *world) corePkgs() []*packages.Package {
	re := regexp.MustCompile("^" + regexp.QuoteMeta(w.modPath) + `/x/[^/]+/(keeper|module|types)$`)
	var out []*packages.Package
	for _, p := range w.modPkgs {
		if re.MatchString(p.PkgPath) || p.PkgPath == w.modPath+"/app" {
			out = append(out, p)
		}
	}
	return out
}

func (w *world) pkgPkgs() []*packages.Package {
	var out []*packages.Package
	for _, p := range w.modPkgs {
		if strings.HasPrefix(p.PkgPath, w.modPath+"/pkg/") || p.PkgPath == w.modPath+"/pkg" {
			out = append(out, p)
		}
	}
	return out
}

// ---------------------------------------------------------------------------
// main

type Facts struct {
	Repo                 string      `json:"repo"`
	Module               string      `json:"module"`
	Packages             []string    `json:"packages"`
	MapRanges            [][2]string `json:"mapRanges"`
	NondetUses           [][2]string `json:"nondetUses"`
	NondetUsesPkg        [][2]string `json:"nondetUsesPkg"`
	SeqWriters           [][2]string `json:"seqWriters"`
	SeqCallers           [][2]string `json:"seqCallers"`
	SeqReach             [][2]string `json:"seqReach"`
	NondetReach          [][2]string `json:"nondetReach"`
	KeeperStoreFields    [][3]string `json:"keeperStoreFields"`
	StoreWriters         [][3]string `json:"storeWriters"`
	StoreEscapes         [][3]string `json:"storeEscapes"`
	RegisteredMsgsKnown  bool        `json:"registeredMsgsKnown"`
	RegisteredMsgs       []string    `json:"registeredMsgs"`
	RegisteredServices   []string    `json:"registeredMsgServices"`
	RegisteredMethods    [][2]string `json:"registeredMsgMethods"`
	GoroutineAccess      [][4]string `json:"goroutineAccess"`
	AnteDecorators       []string    `json:"anteDecorators"`
	MsgServerFirstChecks [][2]string `json:"msgServerFirstChecks"`
	AppWiring            [][2]string `json:"appWiring"`
	ModuleOrder          [][2]string `json:"moduleOrder"`
}

func main() {
	repo := flag.String("repo", "/repo", "root of the repository to analyse")
	out := flag.String("out", "/verif/lean/GoatModel/Generated/Facts.lean", "Lean output file")
	jsonOut := flag.String("json", "/verif/.build/facts.json", "JSON output file")
	msgs := flag.String("msgs", "", "output of /verif/harness/cmd/msgreg (optional)")
	pats := flag.String("patterns", "./x/...,./app/...,./pkg/...", "comma separated package patterns to load")
	depth := flag.Int("depth", 1, "interprocedural depth for goroutineAccess (calls into this module)")
	msgMods := flag.String("msgserver-modules", "bitcoin,relayer", "x/<module>s whose msgServer methods are classified in msgServerFirstChecks ('*' = all)")
	flag.Parse()

	w, err := load(*repo, strings.Split(*pats, ","))
	if err != nil {
		fmt.Fprintln(os.Stderr, "factgen:", err)
		os.Exit(1)
	}

	var f Facts
	f.Repo = *repo
	f.Module = w.modPath
	for _, p := range w.modPkgs {
		f.Packages = append(f.Packages, w.rel(p.PkgPath))
	}
	f.MapRanges = w.mapRanges(w.corePkgs())
	f.NondetUses = w.nondetUses(w.corePkgs())
	f.NondetUsesPkg = w.nondetUses(w.pkgPkgs())
	f.NondetReach = w.nondetReach(f.NondetUses)
	ks := w.keeperStores()
	f.KeeperStoreFields = ks.fieldTable()
	f.StoreWriters, f.StoreEscapes = w.storeWriters(ks)
	f.SeqWriters = seqWriters(f.StoreWriters, "relayer")
	f.SeqCallers = w.seqCallers([]string{"SetProposalSeq", "UpdateRandao"})
	f.SeqReach = w.seqReach(f.StoreWriters)
	f.GoroutineAccess = w.goroutineAccess(*depth)
	f.AnteDecorators = w.anteDecorators()
	f.MsgServerFirstChecks = w.msgServerFirstChecks(strings.Split(*msgMods, ","))
	f.AppWiring = w.appWiring()
	f.ModuleOrder = w.moduleOrder()
	f.RegisteredMsgs = []string{}
	f.RegisteredServices = []string{}
	if *msgs != "" {
		if err := readMsgs(*msgs, &f); err != nil {
			fmt.Fprintln(os.Stderr, "factgen:", err)
			os.Exit(1)
		}
	}

	if err := writeFile(*out, renderLean(&f)); err != nil {
		fmt.Fprintln(os.Stderr, "factgen:", err)
		os.Exit(1)
	}
	if *jsonOut != "" {
		if err := writeFile(*jsonOut, renderJSON(&f)); err != nil {
			fmt.Fprintln(os.Stderr, "factgen:", err)
			os.Exit(1)
		}
	}
	fmt.Fprintf(os.Stderr, "factgen: %d module packages; mapRanges=%d nondetUses=%d nondetUsesPkg=%d seqWriters=%d seqCallers=%d storeWriters=%d storeEscapes=%d goroutineAccess=%d anteDecorators=%d msgServerFirstChecks=%d registeredMsgs=%d(known=%v)\n",
		len(w.modPkgs), len(f.MapRanges), len(f.NondetUses), len(f.NondetUsesPkg), len(f.SeqWriters), len(f.SeqCallers),
		len(f.StoreWriters), len(f.StoreEscapes), len(f.GoroutineAccess), len(f.AnteDecorators), len(f.MsgServerFirstChecks),
		len(f.RegisteredMsgs), f.RegisteredMsgsKnown)
}

func writeFile(path string, data []byte) error {
	if err := os.MkdirAll(filepath.Dir(path), 0o755); err != nil {
		return err
	}
	return os.WriteFile(path, data, 0o644)
}
