package main

import (
	"bufio"
	"fmt"
	"go/ast"
	"go/constant"
	"go/token"
	"go/types"
	"os"
	"regexp"
	"sort"
	"strings"

	"golang.org/x/tools/go/packages"
)

// ---------------------------------------------------------------------------
// small set helpers

type set2 map[[2]string]bool
type set3 map[[3]string]bool
type set4 map[[4]string]bool

func (s set2) sorted() [][2]string {
	out := make([][2]string, 0, len(s))
	for k := range s {
		out = append(out, k)
	}
	sort.Slice(out, func(i, j int) bool { return lessN(out[i][:], out[j][:]) })
	return out
}
func (s set3) sorted() [][3]string {
	out := make([][3]string, 0, len(s))
	for k := range s {
		out = append(out, k)
	}
	sort.Slice(out, func(i, j int) bool { return lessN(out[i][:], out[j][:]) })
	return out
}
func (s set4) sorted() [][4]string {
	out := make([][4]string, 0, len(s))
	for k := range s {
		out = append(out, k)
	}
	sort.Slice(out, func(i, j int) bool { return lessN(out[i][:], out[j][:]) })
	return out
}
func lessN(a, b []string) bool {
	for i := range a {
		if a[i] != b[i] {
			return a[i] < b[i]
		}
	}
	return false
}

// ---------------------------------------------------------------------------
// 1. mapRanges

func (w *world) mapRanges(pkgs []*packages.Package) [][2]string {
	// A multiset would lose nothing here: two ranges over the same expression in
	// the same function are disambiguated with a "#n" suffix so that a NEW
	// occurrence is always visible in a diff.
	count := map[[2]string]int{}
	for _, s := range w.sites(pkgs) {
		info := s.pkg.TypesInfo
		ast.Inspect(s.root, func(n ast.Node) bool {
			rs, ok := n.(*ast.RangeStmt)
			if !ok {
				return true
			}
			tv, ok := info.Types[rs.X]
			if !ok || tv.Type == nil {
				return true
			}
			under := tv.Type.Underlying()
			if p, ok := under.(*types.Pointer); ok { // range over *[N]T is legal; over *map is not, but be safe
				under = p.Elem().Underlying()
			}
			isMap := false
			switch u := under.(type) {
			case *types.Map:
				isMap = true
			case *types.Interface: // type parameter constrained to maps only
				if tp, ok := types.Unalias(tv.Type).(*types.TypeParam); ok {
					isMap = typeParamCoreIsMap(tp)
				}
				_ = u
			}
			if isMap {
				// the ranged map is named by its TYPE, not by the expression: renaming a local variable is not a new range
				count[[2]string{s.name, types.TypeString(tv.Type, func(p *types.Package) string { return p.Name() })}]++
			}
			return true
		})
	}
	out := set2{}
	for k, n := range count {
		out[k] = true
		for i := 2; i <= n; i++ {
			out[[2]string{k[0], fmt.Sprintf("%s#%d", k[1], i)}] = true
		}
	}
	return out.sorted()
}

func typeParamCoreIsMap(tp *types.TypeParam) bool {
	iface, ok := tp.Constraint().Underlying().(*types.Interface)
	if !ok {
		return false
	}
	any := false
	for i := 0; i < iface.NumEmbeddeds(); i++ {
		switch t := iface.EmbeddedType(i).(type) {
		case *types.Union:
			for j := 0; j < t.Len(); j++ {
				if _, ok := t.Term(j).Type().Underlying().(*types.Map); ok {
					any = true
				}
			}
		default:
			if _, ok := t.Underlying().(*types.Map); ok {
				any = true
			}
		}
	}
	return any
}

// exprDesc is a short deterministic description of an expression: the variable
// name for identifiers, otherwise its canonical source form (go/types.ExprString).
func exprDesc(e ast.Expr) string {
	e = unparen(e)
	if id, ok := e.(*ast.Ident); ok {
		return id.Name
	}
	return types.ExprString(e)
}

// ---------------------------------------------------------------------------
// 2. nondetUses

var nondetByPkg = map[string]map[string]bool{
	// nil set = everything in the package
	"math/rand":    nil,
	"math/rand/v2": nil,
	"crypto/rand":  nil,
	"time": {"Now": true, "Since": true, "Until": true, "After": true, "AfterFunc": true, "Sleep": true,
		"NewTimer": true, "NewTicker": true, "Tick": true},
	"runtime": {"NumGoroutine": true, "GOMAXPROCS": true, "NumCPU": true, "Gosched": true},
	"os":      {"Getenv": true, "LookupEnv": true, "Environ": true, "Hostname": true, "Getpid": true},
	// wall-clock deadlines in disguise
	"context": {"WithTimeout": true, "WithDeadline": true, "WithTimeoutCause": true, "WithDeadlineCause": true},
	"sync":    {"Pool": true},
}

// nondetName classifies a referenced object; "" = not a nondeterminism source.
func nondetName(obj types.Object) string {
	if obj == nil || obj.Pkg() == nil {
		return ""
	}
	if _, isPkgName := obj.(*types.PkgName); isPkgName {
		return ""
	}
	path := obj.Pkg().Path()
	// (*errgroup.Group).Go
	if fn, ok := obj.(*types.Func); ok && path == "golang.org/x/sync/errgroup" {
		if sig, ok := fn.Type().(*types.Signature); ok && sig.Recv() != nil {
			if n := namedOf(sig.Recv().Type()); n != nil && n.Obj().Name() == "Group" && (fn.Name() == "Go" || fn.Name() == "TryGo") {
				return "errgroup." + fn.Name()
			}
		}
		return ""
	}
	names, ok := nondetByPkg[path]
	if !ok {
		return ""
	}
	// only package-level objects and methods of package-level types
	switch o := obj.(type) {
	case *types.Func:
		if sig, ok := o.Type().(*types.Signature); ok && sig.Recv() != nil {
			if names != nil { // selected-names packages: methods never match (time.Time.Unix etc. are fine)
				return ""
			}
			if n := namedOf(sig.Recv().Type()); n != nil {
				return path + "." + n.Obj().Name() + "." + o.Name()
			}
			return path + ".?." + o.Name()
		}
	case *types.Var:
		if o.IsField() || o.Parent() != o.Pkg().Scope() {
			return ""
		}
	case *types.TypeName, *types.Const:
		if obj.Parent() != obj.Pkg().Scope() {
			return ""
		}
	default:
		return ""
	}
	if names != nil && !names[obj.Name()] {
		return ""
	}
	return path + "." + obj.Name()
}

func (w *world) nondetUses(pkgs []*packages.Package) [][2]string {
	out := set2{}
	for _, s := range w.sites(pkgs) {
		info := s.pkg.TypesInfo
		ast.Inspect(s.root, func(n ast.Node) bool {
			switch n := n.(type) {
			case *ast.GoStmt:
				out[[2]string{s.name, "go-stmt"}] = true
			case *ast.SelectStmt:
				out[[2]string{s.name, "select-stmt"}] = true
			case *ast.Ident:
				if what := nondetName(info.Uses[n]); what != "" {
					out[[2]string{s.name, what}] = true
				}
			}
			return true
		})
	}
	// type declarations (struct fields of type sync.Pool, rand.Rand ...) are not
	// inside var/func sites: scan them too
	for _, p := range pkgs {
		for _, f := range p.Syntax {
			if w.isGeneratedFile(f) {
				continue
			}
			for _, d := range f.Decls {
				gd, ok := d.(*ast.GenDecl)
				if !ok || gd.Tok != token.TYPE {
					continue
				}
				ast.Inspect(gd, func(n ast.Node) bool {
					if id, ok := n.(*ast.Ident); ok {
						if what := nondetName(p.TypesInfo.Uses[id]); what != "" {
							out[[2]string{w.rel(p.PkgPath) + ".<type-decl>", what}] = true
						}
					}
					return true
				})
			}
		}
	}
	return out.sorted()
}

// ---------------------------------------------------------------------------
// 3/4. keeper stores

type storeField struct {
	module string // "relayer"
	name   string // "Sequence"
	typ    string // "collections.Sequence"
}

type keeperStores struct {
	fields map[*types.Var]storeField
}

func (ks *keeperStores) fieldTable() [][3]string {
	out := set3{}
	for _, f := range ks.fields {
		out[[3]string{f.module, f.name, f.typ}] = true
	}
	return out.sorted()
}

func isCollectionsType(t types.Type) (string, bool) {
	n := namedOf(t)
	if n == nil || n.Obj().Pkg() == nil {
		return "", false
	}
	path := n.Obj().Pkg().Path()
	if path == "cosmossdk.io/collections" || strings.HasPrefix(path, "cosmossdk.io/collections/") {
		if name := n.Obj().Name(); name == "Schema" || name == "SchemaBuilder" {
			return "", false // schema metadata, not a store
		}
		return n.Obj().Pkg().Name() + "." + n.Obj().Name(), true
	}
	return "", false
}

// keeperStores finds, for every package <module>/x/<m>/keeper, the struct type
// `Keeper` and those of its fields whose type comes from cosmossdk.io/collections.
func (w *world) keeperStores() *keeperStores {
	ks := &keeperStores{fields: map[*types.Var]storeField{}}
	re := regexp.MustCompile("^" + regexp.QuoteMeta(w.modPath) + `/x/([^/]+)/keeper$`)
	for _, p := range w.modPkgs {
		m := re.FindStringSubmatch(p.PkgPath)
		if m == nil {
			continue
		}
		tn, ok := p.Types.Scope().Lookup("Keeper").(*types.TypeName)
		if !ok {
			continue
		}
		st, ok := tn.Type().Underlying().(*types.Struct)
		if !ok {
			continue
		}
		for i := 0; i < st.NumFields(); i++ {
			f := st.Field(i)
			if tname, ok := isCollectionsType(f.Type()); ok {
				ks.fields[f] = storeField{m[1], f.Name(), tname}
			}
		}
	}
	return ks
}

var storeMutators = map[string]bool{"Set": true, "Remove": true, "Next": true, "Clear": true}

// methods of collections types known NOT to mutate the store
var storeReaders = map[string]bool{
	"Get": true, "Has": true, "Peek": true, "Iterate": true, "IterateRaw": true, "Walk": true,
	"KeyCodec": true, "ValueCodec": true, "GetName": true, "GetPrefix": true,
	"MatchExact": true, "Indexes": true, "IndexesList": true,
}

// storeWriters returns
//
//	writers: (module, "Field.Method", function) for every call of a mutating method
//	         (Set/Remove/Next/Clear, plus any method not known to be read-only) on a
//	         collections-typed field of an x/<module>/keeper.Keeper, whole module;
//	escapes: (module, "Field:<how>", function) for every OTHER reference to such a field
//	         that is not the receiver of a method call (address taken, passed as argument,
//	         copied to a local ...) — places where a write could hide from `writers`.
//
// The field is identified by its types.Var (via types.Info.Selections), so access
// through embedding (msgServer{Keeper}) or differently named receivers is resolved.
func (w *world) storeWriters(ks *keeperStores) (writers, escapes [][3]string) {
	wr, esc := set3{}, set3{}
	for _, s := range w.sites(w.modPkgs) {
		info := s.pkg.TypesInfo
		// local aliases:  x := k.Field  /  x := &k.Field
		alias := map[types.Object]storeField{}
		fieldOf := func(e ast.Expr) (storeField, bool) {
			e = unparen(e)
			if u, ok := e.(*ast.UnaryExpr); ok && u.Op == token.AND {
				e = unparen(u.X)
			}
			se, ok := e.(*ast.SelectorExpr)
			if !ok {
				return storeField{}, false
			}
			sel := info.Selections[se]
			if sel == nil || sel.Kind() != types.FieldVal {
				return storeField{}, false
			}
			v, _ := sel.Obj().(*types.Var)
			sf, ok := ks.fields[v]
			return sf, ok
		}
		ast.Inspect(s.root, func(n ast.Node) bool {
			switch n := n.(type) {
			case *ast.AssignStmt:
				if len(n.Lhs) == len(n.Rhs) {
					for i, r := range n.Rhs {
						if sf, ok := fieldOf(r); ok {
							if id, ok := unparen(n.Lhs[i]).(*ast.Ident); ok {
								if o := info.ObjectOf(id); o != nil {
									alias[o] = sf
								}
							}
						}
					}
				}
			case *ast.ValueSpec:
				if len(n.Names) == len(n.Values) {
					for i, r := range n.Values {
						if sf, ok := fieldOf(r); ok {
							if o := info.ObjectOf(n.Names[i]); o != nil {
								alias[o] = sf
							}
						}
					}
				}
			}
			return true
		})

		record := func(sf storeField, method string) {
			if storeMutators[method] || !storeReaders[method] {
				wr[[3]string{sf.module, sf.name + "." + method, s.name}] = true
			}
		}

		inspectStack(s.root, func(n ast.Node, stack []ast.Node) bool {
			var sf storeField
			var ok bool
			switch n := n.(type) {
			case *ast.SelectorExpr:
				sel := info.Selections[n]
				if sel == nil || sel.Kind() != types.FieldVal {
					return true
				}
				v, _ := sel.Obj().(*types.Var)
				sf, ok = ks.fields[v]
			case *ast.Ident:
				if o := info.Uses[n]; o != nil {
					sf, ok = alias[o]
				}
			}
			if !ok {
				return true
			}
			// find the nearest non-paren ancestor
			i := len(stack) - 1
			child := n
			for i >= 0 {
				if _, isParen := stack[i].(*ast.ParenExpr); !isParen {
					break
				}
				child = stack[i]
				i--
			}
			how := "other"
			if i >= 0 {
				switch p := stack[i].(type) {
				case *ast.SelectorExpr:
					if p.X == child {
						if ms := info.Selections[p]; ms != nil && ms.Kind() == types.MethodVal {
							record(sf, p.Sel.Name)
							return true
						}
						how = "field:" + p.Sel.Name
					}
				case *ast.UnaryExpr:
					if p.Op == token.AND {
						how = "addr"
					}
				case *ast.CallExpr:
					how = "arg"
					if tv, ok := info.Types[p.Fun]; ok && !tv.IsType() {
						how = "arg:" + calleeName(info, p)
					}
				case *ast.AssignStmt:
					how = "rhs"
					for _, l := range p.Lhs {
						if l == child {
							how = "assigned"
						}
					}
				case *ast.ValueSpec, *ast.KeyValueExpr, *ast.CompositeLit, *ast.ReturnStmt:
					how = "copied"
				}
			}
			esc[[3]string{sf.module, sf.name + ":" + how, s.name}] = true
			return true
		})
	}
	return wr.sorted(), esc.sorted()
}

func calleeName(info *types.Info, call *ast.CallExpr) string {
	var id *ast.Ident
	switch f := unparen(call.Fun).(type) {
	case *ast.Ident:
		id = f
	case *ast.SelectorExpr:
		id = f.Sel
	case *ast.IndexExpr:
		return calleeName(info, &ast.CallExpr{Fun: f.X})
	case *ast.IndexListExpr:
		return calleeName(info, &ast.CallExpr{Fun: f.X})
	}
	if id == nil {
		return "?"
	}
	if o := info.Uses[id]; o != nil && o.Pkg() != nil {
		return o.Pkg().Name() + "." + o.Name()
	}
	return id.Name
}

func seqWriters(storeWriters [][3]string, module string) [][2]string {
	out := set2{}
	for _, e := range storeWriters {
		if e[0] == module {
			out[[2]string{e[2], e[1]}] = true
		}
	}
	return out.sorted()
}

// seqCallers lists every reference (call or method value) to the relayer
// Keeper methods with the given names, or to a same-named method of any interface
// declared in this module that the relayer Keeper implements (RelayerKeeper in
// x/bitcoin/types, x/goat/types, ...).
func (w *world) seqCallers(names []string) [][2]string {
	want := map[string]bool{}
	for _, n := range names {
		want[n] = true
	}
	var keeper *types.Named
	if p := w.byPath[w.modPath+"/x/relayer/keeper"]; p != nil {
		if tn, ok := p.Types.Scope().Lookup("Keeper").(*types.TypeName); ok {
			keeper, _ = tn.Type().(*types.Named)
		}
	}
	out := set2{}
	if keeper == nil {
		return out.sorted()
	}
	isTarget := func(fn *types.Func) bool {
		if fn == nil || !want[fn.Name()] || fn.Pkg() == nil || !w.inModule(fn.Pkg().Path()) {
			return false
		}
		sig, ok := fn.Type().(*types.Signature)
		if !ok || sig.Recv() == nil {
			return false
		}
		rt := sig.Recv().Type()
		if n := namedOf(rt); n != nil && n.Obj() == keeper.Obj() {
			return true
		}
		if iface, ok := rt.Underlying().(*types.Interface); ok {
			// interface method: the relayer keeper must be able to stand behind it
			return types.Implements(keeper, iface) || types.Implements(types.NewPointer(keeper), iface) ||
				methodSetHas(keeper, fn.Name())
		}
		return false
	}
	// static references between the module's own functions (for lifting helpers to the entry points that use them)
	sites := w.sites(w.modPkgs)
	declOf := map[*types.Func]string{} // function object -> site name
	for _, s := range sites {
		if s.decl != nil {
			if fn, ok := s.pkg.TypesInfo.Defs[s.decl.Name].(*types.Func); ok {
				declOf[fn] = s.name
			}
		}
	}
	usedBy := map[string]map[string]bool{} // site name of a helper -> names of the sites that refer to it
	direct := map[string]map[string]bool{} // site name -> target names referred to directly
	for _, s := range sites {
		info := s.pkg.TypesInfo
		ast.Inspect(s.root, func(n ast.Node) bool {
			id, ok := n.(*ast.Ident)
			if !ok {
				return true
			}
			fn, ok := info.Uses[id].(*types.Func)
			if !ok {
				return true
			}
			if isTarget(fn) {
				if direct[s.name] == nil {
					direct[s.name] = map[string]bool{}
				}
				direct[s.name][fn.Name()] = true
			}
			if callee, ok := declOf[fn]; ok && callee != s.name {
				if usedBy[callee] == nil {
					usedBy[callee] = map[string]bool{}
				}
				usedBy[callee][s.name] = true
			}
			return true
		})
	}
	// An entry point is where the application hands control to a module: functions nothing else in the module refers to (message-server and query-server
	// methods are reached through generated code only), block hooks, genesis and the request processors.  A reference found in any other function (a helper a refactoring may
	// introduce) is attributed to the entry points from which that helper is reachable, so that extracting or inlining a
	// helper does not change the fact.
	isEntry := func(name string) bool {
		return strings.HasSuffix(name, ".InitGenesis") ||
			strings.HasSuffix(name, ".ExportGenesis") || strings.HasSuffix(name, ".EndBlocker") || strings.HasSuffix(name, ".BeginBlocker") ||
			strings.HasSuffix(name, "Request") || strings.HasSuffix(name, "ProposalHandler") || len(usedBy[name]) == 0
	}
	for site, targets := range direct {
		roots := map[string]bool{}
		seen := map[string]bool{}
		var up func(n string, depth int)
		up = func(n string, depth int) {
			if seen[n] {
				return
			}
			seen[n] = true
			if isEntry(n) || depth > 6 {
				roots[n] = true
				return
			}
			for c := range usedBy[n] {
				up(c, depth+1)
			}
		}
		up(site, 0)
		for r := range roots {
			for t := range targets {
				out[[2]string{r, t}] = true
			}
		}
	}
	return out.sorted()
}

func methodSetHas(n *types.Named, name string) bool {
	ms := types.NewMethodSet(types.NewPointer(n))
	for i := 0; i < ms.Len(); i++ {
		if ms.At(i).Obj().Name() == name {
			return true
		}
	}
	return false
}

// ---------------------------------------------------------------------------
// 7. anteDecorators

func (w *world) anteDecorators() []string {
	out := []string{}
	p := w.byPath[w.modPath+"/app"]
	if p == nil {
		return out
	}
	fnObj, _ := p.Types.Scope().Lookup("NewAnteHandler").(*types.Func)
	fi := w.funcs[fnObj]
	if fi == nil || fi.decl.Body == nil {
		return out
	}
	info := p.TypesInfo
	isDecoratorSlice := func(t types.Type) bool {
		sl, ok := t.Underlying().(*types.Slice)
		if !ok {
			return false
		}
		n := namedOf(sl.Elem())
		return n != nil && n.Obj().Name() == "AnteDecorator" && n.Obj().Pkg() != nil &&
			n.Obj().Pkg().Path() == "github.com/cosmos/cosmos-sdk/types"
	}
	describe := func(e ast.Expr) string {
		e = unparen(e)
		if u, ok := e.(*ast.UnaryExpr); ok && u.Op == token.AND {
			e = unparen(u.X)
		}
		switch x := e.(type) {
		case *ast.CallExpr:
			return calleeName(info, x)
		case *ast.CompositeLit:
			if tv, ok := info.Types[x]; ok {
				if n := namedOf(tv.Type); n != nil && n.Obj().Pkg() != nil {
					return n.Obj().Pkg().Name() + "." + n.Obj().Name()
				}
			}
		case *ast.Ident:
			if o := info.Uses[x]; o != nil && o.Pkg() != nil && o.Parent() == o.Pkg().Scope() {
				return o.Pkg().Name() + "." + o.Name()
			}
			return "var:" + x.Name
		}
		return "expr:" + types.ExprString(e)
	}
	// composite literals of type []sdk.AnteDecorator, in source order, followed by
	// anything appended to a []sdk.AnteDecorator (append(x, a, b)).
	ast.Inspect(fi.decl.Body, func(n ast.Node) bool {
		switch n := n.(type) {
		case *ast.CompositeLit:
			if tv, ok := info.Types[n]; ok && isDecoratorSlice(tv.Type) {
				for _, el := range n.Elts {
					if kv, ok := el.(*ast.KeyValueExpr); ok {
						el = kv.Value
					}
					out = append(out, describe(el))
				}
				return false
			}
		case *ast.CallExpr:
			if id, ok := unparen(n.Fun).(*ast.Ident); ok {
				if b, ok := info.Uses[id].(*types.Builtin); ok && b.Name() == "append" && len(n.Args) > 1 {
					if tv, ok := info.Types[n]; ok && isDecoratorSlice(tv.Type) && !n.Ellipsis.IsValid() {
						for _, a := range n.Args[1:] {
							out = append(out, describe(a))
						}
					}
				}
			}
		}
		return true
	})
	return out
}

// ---------------------------------------------------------------------------
// 8. msgServerFirstChecks

func (w *world) msgServerFirstChecks(modules []string) [][2]string {
	out := set2{}
	all := false
	wantMod := map[string]bool{}
	for _, m := range modules {
		if m == "*" {
			all = true
		}
		wantMod[strings.TrimSpace(m)] = true
	}
	re := regexp.MustCompile("^" + regexp.QuoteMeta(w.modPath) + `/x/([^/]+)/keeper$`)
	relayerTypes := w.modPath + "/x/relayer/types"
	for _, p := range w.modPkgs {
		m := re.FindStringSubmatch(p.PkgPath)
		if m == nil || !(all || wantMod[m[1]]) {
			continue
		}
		tp := w.byPath[w.modPath+"/x/"+m[1]+"/types"]
		if tp == nil {
			continue
		}
		tn, ok := tp.Types.Scope().Lookup("MsgServer").(*types.TypeName)
		if !ok {
			continue
		}
		iface, ok := tn.Type().Underlying().(*types.Interface)
		if !ok {
			continue
		}
		// every named type of the keeper package implementing the generated MsgServer
		scope := p.Types.Scope()
		for _, name := range scope.Names() {
			stn, ok := scope.Lookup(name).(*types.TypeName)
			if !ok || stn.IsAlias() {
				continue
			}
			named, ok := stn.Type().(*types.Named)
			if !ok || types.IsInterface(named) {
				continue
			}
			if !types.Implements(named, iface) && !types.Implements(types.NewPointer(named), iface) {
				continue
			}
			for i := 0; i < iface.NumMethods(); i++ {
				mname := iface.Method(i).Name()
				if !token.IsExported(mname) {
					continue
				}
				obj, _, _ := types.LookupFieldOrMethod(types.NewPointer(named), true, p.Types, mname)
				fn, _ := obj.(*types.Func)
				fi := w.funcs[fn]
				label := m[1] + "." + name + "." + mname
				if fi == nil || fi.decl.Body == nil {
					out[[2]string{label, "unresolved"}] = true
					continue
				}
				found := false
				info := fi.pkg.TypesInfo
				isRelayerProposer := func(e ast.Expr) bool {
					se, ok := unparen(e).(*ast.SelectorExpr)
					if !ok {
						return false
					}
					sel := info.Selections[se]
					if sel == nil || sel.Kind() != types.FieldVal {
						return false
					}
					v := sel.Obj()
					if v.Name() != "Proposer" || v.Pkg() == nil || v.Pkg().Path() != relayerTypes {
						return false
					}
					rn := namedOf(sel.Recv())
					return rn != nil && rn.Obj().Name() == "Relayer"
				}
				ast.Inspect(fi.decl.Body, func(n ast.Node) bool {
					switch n := n.(type) {
					case *ast.Ident:
						if f, ok := info.Uses[n].(*types.Func); ok && f.Pkg() != nil && w.inModule(f.Pkg().Path()) {
							if f.Name() == "VerifyProposal" || f.Name() == "VerifyNonProposal" {
								out[[2]string{label, f.Name()}] = true
								found = true
							}
						}
					case *ast.BinaryExpr:
						if (n.Op == token.NEQ || n.Op == token.EQL) && (isRelayerProposer(n.X) || isRelayerProposer(n.Y)) {
							out[[2]string{label, "ProposerCompare"}] = true
							found = true
						}
					}
					return true
				})
				if !found {
					out[[2]string{label, "none"}] = true
				}
			}
		}
	}
	return out.sorted()
}

// ---------------------------------------------------------------------------
// 5. registered msgs (runtime output of /verif/harness/cmd/msgreg)

func readMsgs(path string, f *Facts) error {
	fh, err := os.Open(path)
	if err != nil {
		return err
	}
	defer fh.Close()
	msgs, svcs := map[string]bool{}, map[string]bool{}
	methods := set2{}
	sc := bufio.NewScanner(fh)
	for sc.Scan() {
		fs := strings.Fields(sc.Text())
		switch {
		case len(fs) == 2 && fs[0] == "msg":
			msgs[fs[1]] = true
		case len(fs) == 2 && fs[0] == "service":
			svcs[fs[1]] = true
		case len(fs) == 3 && fs[0] == "method":
			methods[[2]string{fs[1], fs[2]}] = true
		}
	}
	if err := sc.Err(); err != nil {
		return err
	}
	if len(msgs) == 0 {
		return fmt.Errorf("%s: no `msg <name>` lines found", path)
	}
	f.RegisteredMsgsKnown = true
	f.RegisteredMsgs = sortedKeys(msgs)
	f.RegisteredServices = sortedKeys(svcs)
	f.RegisteredMethods = methods.sorted()
	return nil
}

func sortedKeys(m map[string]bool) []string {
	out := make([]string, 0, len(m))
	for k := range m {
		out = append(out, k)
	}
	sort.Strings(out)
	return out
}

// seqReach: the entry points (functions nothing else in the module refers to, block hooks, genesis, request processors)
// from which a write of the relayer keeper's Sequence or Randao item is statically reachable — through any chain of
// helper functions and through the module's keeper interfaces.  Rows: (entry point, "Sequence.Set" | "Randao.Set" ...).
// Unlike seqWriters/seqCallers this does not change when a helper is extracted or inlined.
func (w *world) seqReach(storeWriters [][3]string) [][2]string {
	sites := w.sites(w.modPkgs)
	declOf := map[*types.Func]string{}
	methodsByName := map[string][]*types.Func{}
	for _, s := range sites {
		if s.decl == nil {
			continue
		}
		if fn, ok := s.pkg.TypesInfo.Defs[s.decl.Name].(*types.Func); ok {
			declOf[fn] = s.name
			if sig, ok := fn.Type().(*types.Signature); ok && sig.Recv() != nil {
				methodsByName[fn.Name()] = append(methodsByName[fn.Name()], fn)
			}
		}
	}
	usedBy := map[string]map[string]bool{}
	edge := func(callee, caller string) {
		if callee == caller {
			return
		}
		if usedBy[callee] == nil {
			usedBy[callee] = map[string]bool{}
		}
		usedBy[callee][caller] = true
	}
	for _, s := range sites {
		info := s.pkg.TypesInfo
		ast.Inspect(s.root, func(n ast.Node) bool {
			id, ok := n.(*ast.Ident)
			if !ok {
				return true
			}
			fn, ok := info.Uses[id].(*types.Func)
			if !ok {
				return true
			}
			if callee, ok := declOf[fn]; ok {
				edge(callee, s.name)
				return true
			}
			// a method of an interface declared in the module: every module type that implements it may stand behind it
			sig, ok := fn.Type().(*types.Signature)
			if !ok || sig.Recv() == nil || fn.Pkg() == nil || !w.inModule(fn.Pkg().Path()) {
				return true
			}
			iface, ok := sig.Recv().Type().Underlying().(*types.Interface)
			if !ok {
				return true
			}
			for _, m := range methodsByName[fn.Name()] {
				rt := m.Type().(*types.Signature).Recv().Type()
				if types.Implements(rt, iface) || types.Implements(types.NewPointer(deref(rt)), iface) {
					edge(declOf[m], s.name)
				}
			}
			return true
		})
	}
	isEntry := func(name string) bool {
		return strings.HasSuffix(name, ".InitGenesis") || strings.HasSuffix(name, ".ExportGenesis") || strings.HasSuffix(name, ".EndBlocker") ||
			strings.HasSuffix(name, ".BeginBlocker") || strings.HasSuffix(name, "Request") || strings.HasSuffix(name, "ProposalHandler") || len(usedBy[name]) == 0
	}
	out := set2{}
	for _, e := range storeWriters {
		if e[0] != "relayer" || !(strings.HasPrefix(e[1], "Sequence.") || strings.HasPrefix(e[1], "Randao.")) {
			continue
		}
		seen := map[string]bool{}
		var up func(n string, depth int)
		up = func(n string, depth int) {
			if seen[n] {
				return
			}
			seen[n] = true
			if isEntry(n) || depth > 8 {
				out[[2]string{n, e[1]}] = true
				return
			}
			for c := range usedBy[n] {
				up(c, depth+1)
			}
		}
		up(e[2], 0)
	}
	return out.sorted()
}

// ---------------------------------------------------------------------------
// call graph of the module's own functions and lifting of facts to entry points

type callGraph struct {
	usedBy map[string]map[string]bool // site name -> names of the sites that refer to it (directly or through a module interface)
}

func (w *world) callGraph() *callGraph {
	if w.cg != nil {
		return w.cg
	}
	sites := w.sites(w.modPkgs)
	declOf := map[*types.Func]string{}
	methodsByName := map[string][]*types.Func{}
	for _, s := range sites {
		if s.decl == nil {
			continue
		}
		if fn, ok := s.pkg.TypesInfo.Defs[s.decl.Name].(*types.Func); ok {
			declOf[fn] = s.name
			if sig, ok := fn.Type().(*types.Signature); ok && sig.Recv() != nil {
				methodsByName[fn.Name()] = append(methodsByName[fn.Name()], fn)
			}
		}
	}
	g := &callGraph{usedBy: map[string]map[string]bool{}}
	edge := func(callee, caller string) {
		if callee == caller || callee == "" {
			return
		}
		if g.usedBy[callee] == nil {
			g.usedBy[callee] = map[string]bool{}
		}
		g.usedBy[callee][caller] = true
	}
	for _, s := range sites {
		info := s.pkg.TypesInfo
		ast.Inspect(s.root, func(n ast.Node) bool {
			id, ok := n.(*ast.Ident)
			if !ok {
				return true
			}
			fn, ok := info.Uses[id].(*types.Func)
			if !ok {
				return true
			}
			if callee, ok := declOf[fn]; ok {
				edge(callee, s.name)
				return true
			}
			sig, ok := fn.Type().(*types.Signature)
			if !ok || sig.Recv() == nil || fn.Pkg() == nil || !w.inModule(fn.Pkg().Path()) {
				return true
			}
			iface, ok := sig.Recv().Type().Underlying().(*types.Interface)
			if !ok {
				return true
			}
			for _, m := range methodsByName[fn.Name()] {
				rt := m.Type().(*types.Signature).Recv().Type()
				if types.Implements(rt, iface) || types.Implements(types.NewPointer(deref(rt)), iface) {
					edge(declOf[m], s.name)
				}
			}
			return true
		})
	}
	w.cg = g
	return g
}

// isEntry: where the application (or a generated service descriptor) hands control to the module — functions nothing
// else in the module refers to, block hooks, genesis, request processors, proposal handlers.
func (g *callGraph) isEntry(name string) bool {
	return strings.HasSuffix(name, ".InitGenesis") || strings.HasSuffix(name, ".ExportGenesis") || strings.HasSuffix(name, ".EndBlocker") ||
		strings.HasSuffix(name, ".BeginBlocker") || strings.HasSuffix(name, "Request") || strings.HasSuffix(name, "ProposalHandler") ||
		strings.HasSuffix(name, ".<pkg-init>") || strings.HasSuffix(name, ".<type-decl>") || len(g.usedBy[name]) == 0
}

// entriesOf: the entry points from which the site is reachable
func (g *callGraph) entriesOf(site string) []string {
	roots := map[string]bool{}
	seen := map[string]bool{}
	var up func(n string, depth int)
	up = func(n string, depth int) {
		if seen[n] {
			return
		}
		seen[n] = true
		if g.isEntry(n) || depth > 8 {
			roots[n] = true
			return
		}
		for c := range g.usedBy[n] {
			up(c, depth+1)
		}
	}
	up(site, 0)
	return sortedKeys(roots)
}

// nondetReach: nondetUses lifted to entry points: (entry point, what) — renaming or splitting the helper that reads the
// clock does not change it.
func (w *world) nondetReach(uses [][2]string) [][2]string {
	g := w.callGraph()
	out := set2{}
	for _, u := range uses {
		for _, e := range g.entriesOf(u[0]) {
			out[[2]string{e, u[1]}] = true
		}
	}
	return out.sorted()
}

// ---------------------------------------------------------------------------
// appWiring: how package app configures baseapp / the runtime: every reference (call or value) to a function or method
// of cosmos-sdk/baseapp or cosmos-sdk/runtime whose name starts with "Set", and every reference to a package-level
// function of cosmos-sdk/baseapp, by enclosing function.  A new handler, hook or execution option (optimistic execution,
// a pre-blocker, another mempool, …) shows up here.

func (w *world) appWiring() [][2]string {
	out := set2{}
	for _, p := range w.modPkgs {
		if p.PkgPath != w.modPath+"/app" {
			continue
		}
		for _, s := range w.sites([]*packages.Package{p}) {
			ast.Inspect(s.root, func(n ast.Node) bool {
				id, ok := n.(*ast.Ident)
				if !ok {
					return true
				}
				fn, ok := s.pkg.TypesInfo.Uses[id].(*types.Func)
				if !ok || fn.Pkg() == nil {
					return true
				}
				pp := fn.Pkg().Path()
				isBase := strings.HasSuffix(pp, "/cosmos-sdk/baseapp")
				isRuntime := strings.HasSuffix(pp, "/cosmos-sdk/runtime")
				sig, _ := fn.Type().(*types.Signature)
				method := sig != nil && sig.Recv() != nil
				if (isBase || isRuntime) && strings.HasPrefix(fn.Name(), "Set") || (isBase && !method) {
					out[[2]string{s.name, fn.Pkg().Name() + "." + fn.Name()}] = true
				}
				return true
			})
		}
	}
	return out.sorted()
}

// ---------------------------------------------------------------------------
// moduleOrder: the hook orders of the runtime module configuration in package app (PreBlockers, BeginBlockers,
// EndBlockers, InitGenesis): (list name, "<position>:<module name>"), module names resolved to their constant values.

func (w *world) moduleOrder() [][2]string {
	out := set2{}
	want := map[string]bool{"PreBlockers": true, "BeginBlockers": true, "EndBlockers": true, "InitGenesis": true, "ExportGenesis": true}
	for _, p := range w.modPkgs {
		if p.PkgPath != w.modPath+"/app" {
			continue
		}
		for _, s := range w.sites([]*packages.Package{p}) {
			ast.Inspect(s.root, func(n ast.Node) bool {
				kv, ok := n.(*ast.KeyValueExpr)
				if !ok {
					return true
				}
				key, ok := kv.Key.(*ast.Ident)
				if !ok || !want[key.Name] {
					return true
				}
				lit, ok := kv.Value.(*ast.CompositeLit)
				if !ok {
					return true
				}
				for i, e := range lit.Elts {
					name := "?"
					if tv, ok := s.pkg.TypesInfo.Types[e]; ok && tv.Value != nil && tv.Value.Kind() == constant.String {
						name = constant.StringVal(tv.Value)
					}
					out[[2]string{key.Name, fmt.Sprintf("%d:%s", i, name)}] = true
				}
				return true
			})
		}
	}
	return out.sorted()
}
