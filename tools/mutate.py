#!/usr/bin/env python3
"""Automated red team: single-token mutants of the Go files the properties anchor in.

  mutate.py prepare N            N isolated workers under /tmp/mutw/<i>: a copy of /verif (with its build
                                 outputs) and a scratch worktree of /repo each
  mutate.py run N [regex]        distribute the mutation sites (tools/gomut) over the N workers; for every mutant:
                                 apply it in the worker's repo copy, `go build ./...`, run the quick checks of the
                                 properties anchored in that file (VERIF_REPO = the worker's repo) until one reports a
                                 violation; survivors are then run against the package's existing tests
                                 results -> /verif/mutants/results.jsonl (appended; finished sites are skipped)
  mutate.py report               summary + list of survivors
  mutate.py clean                remove the workers

Nothing here is registered in MANIFEST.json; /repo itself is never modified.
"""
import json, os, re, subprocess, sys, threading, time

VERIF = os.path.dirname(os.path.dirname(os.path.abspath(__file__)))
REPO = "/repo"
ROOT = "/tmp/mutw"
OUT = os.path.join(VERIF, "mutants", "results.jsonl")
GOENV = dict(os.environ, GOFLAGS="-mod=mod", GOPROXY="off", GOSUMDB="off", GOTOOLCHAIN="local",
             GOCACHE="/tmp/gocache-iso")  # scratch worktrees get their own build cache: it is wiped with them (the shared one grew to 114 GB)
COST = {"C04": 1, "C17": 1, "C20": 2, "C03": 2, "C05": 2, "C01": 2, "C11": 2, "C12": 2, "C13": 2, "C14": 2, "C15": 2, "C16": 2, "C09": 3,
        "C19": 3, "C18": 3, "C02": 4, "C10": 4, "C08": 4, "C06": 4, "C07": 5}


def sh(cmd, cwd=None, env=None, timeout=3600):
    p = subprocess.run(cmd, cwd=cwd, env=env, shell=isinstance(cmd, str), stdout=subprocess.PIPE, stderr=subprocess.STDOUT, text=True, timeout=timeout)
    return p.returncode, p.stdout


def sites(rx=None):
    fileprops = {}
    for l in open(os.path.join(VERIF, "properties.jsonl")):
        p = json.loads(l)
        for f in p["anchors"]["files"]:
            if f.endswith(".go"):
                fileprops.setdefault(f, []).append(p["id"])
    files = sorted(f for f in fileprops if os.path.exists(os.path.join(REPO, f)) and (not rx or re.search(rx, f)))
    gomut = os.path.join(VERIF, ".build", "gomut")
    if not os.path.exists(gomut):
        sh(["go", "build", "-o", gomut, "."], cwd=os.path.join(VERIF, "tools", "gomut"), env=GOENV)
    rc, out = sh([gomut] + files, cwd=REPO)
    res = []
    for l in out.split("\n"):
        if l.startswith("{"):
            s = json.loads(l)
            s["props"] = sorted(fileprops[s["file"]], key=lambda p: COST.get(p, 3))
            s["id"] = "%s:%d:%d:%s>%s" % (s["file"], s["line"], s["off"], s["old"], s["new"])
            res.append(s)
    return res


def prepare(n):
    os.makedirs(ROOT, exist_ok=True)
    for i in range(n):
        w = os.path.join(ROOT, str(i))
        if not os.path.exists(w):
            os.makedirs(w)
            sh(["git", "-C", REPO, "worktree", "add", "-f", "--detach", os.path.join(w, "repo"), "HEAD"])
        head = sh(["git", "-C", REPO, "rev-parse", "HEAD"])[1].strip()
        sh(["git", "-C", os.path.join(w, "repo"), "checkout", "--", "."])
        sh(["git", "-C", os.path.join(w, "repo"), "checkout", "--detach", head])
        sh(["rsync", "-a", "--exclude", ".git", "--exclude", "replays", "--exclude", "mutants", "--exclude", "seeded", VERIF + "/", os.path.join(w, "verif") + "/"])
    print("workers ready:", n)


def worker(i, todo, lock):
    w = os.path.join(ROOT, str(i))
    repo, verif = os.path.join(w, "repo"), os.path.join(w, "verif")
    env = dict(GOENV, VERIF_REPO=repo)
    for s in todo:
        t0 = time.time()
        sh(["git", "-C", repo, "checkout", "--", "."])
        path = os.path.join(repo, s["file"])
        data = open(path, "rb").read()
        if data[s["off"]:s["off"] + s["len"]].decode() != s["old"]:
            res = {"status": "stale-site"}
        else:
            open(path, "wb").write(data[:s["off"]] + s["new"].encode() + data[s["off"] + s["len"]:])
            rc, out = sh("go build ./... ", cwd=repo, env=GOENV)
            if rc != 0 and re.search(r"resource temporarily unavailable|cannot allocate|pthread_create", out):
                time.sleep(60)
                rc, out = sh("go build ./... ", cwd=repo, env=GOENV)
            if rc != 0:
                res = {"status": "nocompile"}
            else:
                res = {"status": "survived", "checks": {}}
                for pid in s["props"]:
                    rc, out = sh([os.path.join(verif, "check"), pid, "quick"], cwd=verif, env=env, timeout=3000)
                    lines = [l for l in out.split("\n") if l.startswith("VIOLATION")]
                    res["checks"][pid] = rc
                    if rc == 1:
                        res["status"] = "killed"
                        res["by"] = pid
                        res["concrete"] = any("no-failing-input-found" not in l for l in lines)
                        break
                    if rc not in (0, 1):
                        res["status"] = "check-error"
                        res["by"] = pid
                        res["out"] = out[-400:]
                        break
                if res["status"] == "survived":
                    pkg = "./" + os.path.dirname(s["file"]) + "/..."
                    rc, out = sh("go test -vet=off -count=1 %s" % pkg, cwd=repo, env=GOENV, timeout=1800)
                    res["suite_rc"] = rc
                    if rc != 0:
                        res["status"] = "killed-by-suite"
        sh(["git", "-C", repo, "checkout", "--", "."])
        res.update(id=s["id"], file=s["file"], line=s["line"], func=s["func"], old=s["old"], new=s["new"], wall=round(time.time() - t0, 1))
        with lock:
            with open(OUT, "a") as f:
                f.write(json.dumps(res) + "\n")
            print(i, res["status"], res.get("by", ""), s["id"], flush=True)


def run(n, rx=None):
    os.makedirs(os.path.dirname(OUT), exist_ok=True)
    done = set()
    if os.path.exists(OUT):
        done = {json.loads(l)["id"] for l in open(OUT) if l.strip()}
    todo = [s for s in sites(rx) if s["id"] not in done]
    print("sites to run:", len(todo))
    lock = threading.Lock()
    ths = [threading.Thread(target=worker, args=(i, todo[i::n], lock)) for i in range(n)]
    for t in ths:
        t.start()
    for t in ths:
        t.join()


def report():
    rs = [json.loads(l) for l in open(OUT) if l.strip()]
    import collections
    c = collections.Counter(r["status"] for r in rs)
    print(dict(c))
    k = [r for r in rs if r["status"] == "killed"]
    print("killed with a concrete failing input:", sum(1 for r in k if r.get("concrete")), "of", len(k))
    for r in rs:
        if r["status"] in ("survived", "check-error"):
            print(r["status"], r["id"], r["func"], r.get("checks"), r.get("out", "")[:200])


def clean():
    if os.path.isdir(ROOT):
        for i in os.listdir(ROOT):
            sh(["git", "-C", REPO, "worktree", "remove", "--force", os.path.join(ROOT, i, "repo")])
        sh(["rm", "-rf", ROOT])


if __name__ == "__main__":
    a = sys.argv[1:]
    if not a:
        print(__doc__); sys.exit(2)
    if a[0] == "prepare":
        prepare(int(a[1]))
    elif a[0] == "run":
        run(int(a[1]), a[2] if len(a) > 2 else None)
    elif a[0] == "report":
        report()
    elif a[0] == "clean":
        clean()
