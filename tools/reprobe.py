#!/usr/bin/env python3
"""Regression of the repaired findings: for every `fixed` entry of known_findings.json the fix commit is
reverted in a scratch worktree of /repo (under /tmp, removed afterwards) and the property's quick check is
run against that tree (VERIF_REPO): it must report a violation again.  Evidence files are restored
afterwards (they belong to runs on the unchanged tree).  Not registered in MANIFEST.json.

  reprobe.py [F-id ...]
"""
import json, os, subprocess, sys, shutil

VERIF = os.path.dirname(os.path.dirname(os.path.abspath(__file__)))
REPO = "/repo"


def sh(cmd, **kw):
    p = subprocess.run(cmd, stdout=subprocess.PIPE, stderr=subprocess.STDOUT, text=True, **kw)
    return p.returncode, p.stdout


def main(ids):
    kf = json.load(open(os.path.join(VERIF, "known_findings.json")))["findings"]
    wt = "/tmp/reprobe_wt_%d" % os.getpid()
    sh(["git", "-C", REPO, "worktree", "add", "-f", "--detach", wt, "HEAD"])
    evdir = os.path.join(VERIF, "evidence")
    bad = 0
    try:
        for f in kf:
            if f.get("status") != "fixed" or (ids and f["id"] not in ids):
                continue
            sh(["git", "-C", wt, "checkout", "-q", "--", "."])
            sh(["git", "-C", wt, "reset", "-q", "--hard", "HEAD"])
            rc, out = sh(["git", "-C", wt, "revert", "-n", f["commit"]])
            if rc != 0:
                print("%-4s %s: revert failed: %s" % (f["id"], f["property"], out[-200:]))
                bad += 1
                continue
            pid = f["property"]
            evp = os.path.join(evdir, pid + ".json")
            saved = open(evp).read() if os.path.exists(evp) else None
            rc, out = sh([os.path.join(VERIF, "check"), pid, "quick"], cwd=VERIF, env=dict(os.environ, VERIF_REPO=wt), timeout=3600)
            if saved is not None:
                open(evp, "w").write(saved)
            lines = [l for l in out.split("\n") if l.startswith("VIOLATION")]
            concrete = any("no-failing-input-found" not in l for l in lines)
            print("%-4s %s reverted %s: rc=%d %s %s" % (f["id"], pid, f["commit"], rc, "CAUGHT" if rc == 1 else "MISSED", "(concrete input)" if concrete else "(no failing input found)" if lines else ""))
            if rc != 1:
                bad += 1
    finally:
        sh(["git", "-C", REPO, "worktree", "remove", "--force", wt])
        # the harness binary / generated facts were built against the scratch tree: rebuild from /repo
        sh([os.path.join(VERIF, "check"), "setup"], cwd=VERIF)
    return 1 if bad else 0


if __name__ == "__main__":
    sys.exit(main(sys.argv[1:]))
