#!/usr/bin/env python3
"""Try one hand-written mutation of /repo against some checks and undo it straight afterwards.

  trymut.py <file> <line> <old> <new> <check-id>[,<check-id>...] [tier]

The text <old> on <line> of /repo/<file> is replaced by <new>; `go build ./...` must pass; the checks run against /repo;
/repo is restored (git checkout) and the evidence files are put back.  Nothing is committed anywhere."""
import os, subprocess, sys, shutil
VERIF = os.path.dirname(os.path.dirname(os.path.abspath(__file__)))
REPO = "/repo"
GOENV = dict(os.environ, GOFLAGS="-mod=mod", GOPROXY="off", GOSUMDB="off", GOTOOLCHAIN="local")

def main():
    f, line, old, new, ids = sys.argv[1], int(sys.argv[2]), sys.argv[3], sys.argv[4], sys.argv[5].split(",")
    tier = sys.argv[6] if len(sys.argv) > 6 else "quick"
    path = os.path.join(REPO, f)
    if subprocess.run(["git", "-C", REPO, "status", "--porcelain", "--untracked-files=no"], capture_output=True, text=True).stdout.strip():
        print("refusing: /repo has uncommitted changes"); return 2
    lines = open(path).read().split("\n")
    if old not in lines[line - 1]:
        print("old text not on that line:", lines[line - 1]); return 2
    lines[line - 1] = lines[line - 1].replace(old, new, 1)
    ev = os.path.join(VERIF, "evidence"); bak = os.path.join(VERIF, ".build", "evidence.bak")
    shutil.rmtree(bak, ignore_errors=True); shutil.copytree(ev, bak)
    rc = 0
    try:
        open(path, "w").write("\n".join(lines))
        b = subprocess.run("go build ./...", shell=True, cwd=REPO, env=GOENV, capture_output=True, text=True)
        if b.returncode != 0:
            print("does not compile:", b.stderr[-400:]); return 3
        for pid in ids:
            p = subprocess.run([os.path.join(VERIF, "check"), pid, tier], cwd=VERIF, capture_output=True, text=True)
            out = [l for l in (p.stdout + p.stderr).split("\n") if l.startswith(("OK", "VIOLATION", "KNOWN"))]
            print(pid, "rc=%d" % p.returncode, " | ".join(x[:200] for x in out if not x.startswith("KNOWN")))
            rc = rc or p.returncode
    finally:
        subprocess.run(["git", "-C", REPO, "checkout", "--", "."])
        shutil.rmtree(ev, ignore_errors=True); shutil.copytree(bak, ev)
        # never leave a harness binary built against the mutant behind
        subprocess.run(["go", "build", "-tags", "verif", "-o", os.path.join(VERIF, ".build", "kdrive"), "./cmd/kdrive"], cwd=os.path.join(VERIF, "harness"), env=GOENV)
    return 0

if __name__ == "__main__":
    sys.exit(main())
