#!/usr/bin/env python3
"""Seeded-change bookkeeping (red-team changes kept under /verif/seeded/<name>/).

  seeded.py confirm <name>          confirm patch + demonstration in a fresh scratch worktree under /tmp
                                    (demo fails with the patch, passes without; touched packages' tests pass)
  seeded.py run <name> [tier] [ids] apply the patch to /repo, run the named checks (default: the change's own
                                    property, quick), undo the patch straight afterwards; result -> seeded/<name>/result.json
  seeded.py matrix                  print the table change x check from the stored results

Nothing here is registered in MANIFEST.json; it never commits anything to /repo.
"""
import json, os, subprocess, sys, shutil, time

VERIF = os.path.dirname(os.path.dirname(os.path.abspath(__file__)))
REPO = "/repo"
GOENV = dict(os.environ, GOFLAGS="-mod=mod", GOPROXY="off", GOSUMDB="off", GOTOOLCHAIN="local",
             GOCACHE="/tmp/gocache-iso")  # scratch worktrees get their own build cache: it is wiped with them (the shared one grew to 114 GB)


def sh(cmd, cwd=None, env=None, timeout=3600):
    p = subprocess.run(cmd, cwd=cwd, env=env, shell=isinstance(cmd, str), stdout=subprocess.PIPE, stderr=subprocess.STDOUT, text=True, timeout=timeout)
    return p.returncode, p.stdout


def load(name):
    d = os.path.join(VERIF, "seeded", name)
    return d, json.load(open(os.path.join(d, "meta.json")))


def confirm(name):
    d, meta = load(name)
    wt = "/tmp/seedconfirm_%s_%d" % (name, os.getpid())
    rc, out = sh(["git", "-C", REPO, "worktree", "add", "-f", "--detach", wt, "HEAD"])
    res = {"name": name}
    try:
        # demo in place
        demo_rel = meta["demo_path"]
        src = os.path.join(d, "demo")
        for root, _, files in os.walk(src):
            for f in files:
                rel = os.path.relpath(os.path.join(root, f), src)
                dst = os.path.join(wt, rel)
                os.makedirs(os.path.dirname(dst), exist_ok=True)
                shutil.copyfile(os.path.join(root, f), dst)
        cmd = meta["demo_cmd"]
        for root in ("/tmp/rt3/", "/tmp/rt2/", "/tmp/rt/"):
            cmd = cmd.replace(root + meta["property"], wt)
        rc0, out0 = sh("export GOFLAGS=-mod=mod GOPROXY=off GOSUMDB=off GOTOOLCHAIN=local; cd %s && %s" % (wt, cmd), env=GOENV)
        res["demo_without_patch_rc"] = rc0
        rc, out = sh(["git", "-C", wt, "apply", os.path.join(d, "patch.diff")])
        res["patch_applies"] = rc == 0
        if rc != 0:
            res["apply_out"] = out[-500:]
        rc1, out1 = sh("export GOFLAGS=-mod=mod GOPROXY=off GOSUMDB=off GOTOOLCHAIN=local; cd %s && %s" % (wt, cmd), env=GOENV)
        res["demo_with_patch_rc"] = rc1
        res["demo_with_patch_tail"] = out1[-600:]
        # existing tests of the touched packages (demo moved aside)
        for root, _, files in os.walk(src):
            for f in files:
                rel = os.path.relpath(os.path.join(root, f), src)
                os.remove(os.path.join(wt, rel))
        pkgs = sorted({"./" + os.path.dirname(f) + "/..." for f in meta.get("files", [])}) or ["./..."]
        rcb, outb = sh("cd %s && go build ./... && go test -p 8 -vet=off -count=1 %s" % (wt, " ".join(pkgs)), env=GOENV)
        res["suite_touched_rc"] = rcb
        if rcb != 0:
            res["suite_tail"] = outb[-800:]
        res["confirmed"] = bool(rc0 == 0 and rc1 != 0 and res["patch_applies"] and rcb == 0)
    finally:
        sh(["git", "-C", REPO, "worktree", "remove", "--force", wt])
    json.dump(res, open(os.path.join(d, "confirm.json"), "w"), indent=1)
    print(json.dumps(res, indent=1))
    return 0 if res.get("confirmed") else 1


def run(name, tier="quick", ids=None):
    d, meta = load(name)
    ids = ids or [meta["property"]]
    rc, out = sh(["git", "-C", REPO, "status", "--porcelain"])
    if out.strip():
        print("refusing: /repo working tree is not clean:\n" + out)
        return 2
    rc, out = sh(["git", "-C", REPO, "apply", os.path.join(d, "patch.diff")])
    if rc != 0:
        print("patch does not apply: " + out)
        return 2
    results = {}
    # evidence files belong to runs on the unchanged tree: keep them aside while a seeded change is applied
    evdir = os.path.join(VERIF, "evidence")
    saved = {pid: open(os.path.join(evdir, pid + ".json")).read() for pid in ids if os.path.exists(os.path.join(evdir, pid + ".json"))}
    try:
        for pid in ids:
            t0 = time.time()
            rc, out = sh([os.path.join(VERIF, "check"), pid, tier], cwd=VERIF, timeout=7200)
            lines = [l for l in out.split("\n") if l.startswith("VIOLATION") or l.startswith("OK ") or l.startswith("KNOWN-FINDING")]
            detail = ""
            for l in lines:
                if l.startswith("VIOLATION") and "replay=" in l:
                    path = l.split("replay=")[1].split()[0]
                    try:
                        hdr = [x for x in open(path, errors="replace").read().split("\n")[:14] if x.startswith("# detail=") or x.startswith("# broken") or x.startswith("# errors")]
                        detail = " | ".join(hdr)[:500]
                    except OSError:
                        pass
                    break
            results[pid] = {"rc": rc, "lines": [l[:300] for l in lines if not l.startswith("KNOWN")], "detail": detail, "wall_s": round(time.time() - t0, 1),
                            "caught": rc == 1, "concrete": any(l.startswith("VIOLATION") and "no-failing-input-found" not in l for l in lines)}
            print(pid, tier, "rc=%d" % rc, "; ".join(results[pid]["lines"])[:400], detail[:300])
    finally:
        sh(["git", "-C", REPO, "checkout", "--", "."])
        for pid, txt in saved.items():
            open(os.path.join(evdir, pid + ".json"), "w").write(txt)
        rc, out = sh(["git", "-C", REPO, "status", "--porcelain"])
        if out.strip():
            print("WARNING: /repo not clean after undo:\n" + out)
    p = os.path.join(d, "result.json")
    old = json.load(open(p)) if os.path.exists(p) else {}
    old.setdefault(tier, {}).update(results)
    json.dump(old, open(p, "w"), indent=1)
    return 0


def run_isolated(name, tier="quick", ids=None):
    """like run(), but in a private copy of /verif and a scratch worktree of /repo under /tmp/seedw (so that /repo and
    /verif stay usable meanwhile); the copy and the worktree are kept for the next call, `seeded.py clean` removes them"""
    d, meta = load(name)
    ids = ids or [meta["property"]]
    w = os.environ.get("SEEDW", "/tmp/seedw")   # several workers: one directory each
    repo, verif = os.path.join(w, "repo"), os.path.join(w, "verif")
    os.makedirs(w, exist_ok=True)
    if not os.path.exists(repo):
        sh(["git", "-C", REPO, "worktree", "add", "-f", "--detach", repo, "HEAD"])
    sh(["git", "-C", repo, "checkout", "--detach", sh(["git", "-C", REPO, "rev-parse", "HEAD"])[1].strip()])
    sh(["git", "-C", repo, "checkout", "--", "."])
    sh(["git", "-C", repo, "clean", "-fdq"])
    # the copy holds the COMMITTED state of /verif (so that edits in progress never leak into a run); build outputs are
    # carried over once and then kept
    if not os.path.exists(os.path.join(verif, "lean", ".lake")):
        sh(["rsync", "-a", "--exclude", ".git", "--exclude", "replays", "--exclude", "mutants", "--exclude", "seeded", VERIF + "/", verif + "/"])
    sh("git -C %s archive HEAD -- . ':!seeded' ':!mutants' | tar -x -C %s" % (VERIF, verif))
    rc, out = sh(["git", "-C", repo, "apply", os.path.join(d, "patch.diff")])
    if rc != 0:
        print("patch does not apply: " + out)
        return 2
    results = {}
    env = dict(GOENV, VERIF_REPO=repo)
    try:
        for pid in ids:
            t0 = time.time()
            rc, out = sh([os.path.join(verif, "check"), pid, tier], cwd=verif, env=env, timeout=7200)
            lines = [l for l in out.split("\n") if l.startswith("VIOLATION") or l.startswith("OK ") or l.startswith("KNOWN-FINDING")]
            detail = ""
            for l in lines:
                if l.startswith("VIOLATION") and "replay=" in l:
                    path = l.split("replay=")[1].split()[0]
                    try:
                        hdr = [x for x in open(path, errors="replace").read().split("\n")[:14] if x.startswith("# detail=") or x.startswith("# broken") or x.startswith("# errors")]
                        detail = " | ".join(hdr)[:500]
                    except OSError:
                        pass
                    break
            results[pid] = {"rc": rc, "lines": [l[:300] for l in lines if not l.startswith("KNOWN")], "detail": detail, "wall_s": round(time.time() - t0, 1),
                            "caught": rc == 1, "concrete": any(l.startswith("VIOLATION") and "no-failing-input-found" not in l for l in lines)}
            print(pid, tier, "rc=%d" % rc, "; ".join(results[pid]["lines"])[:400], detail[:300])
    finally:
        sh(["git", "-C", repo, "checkout", "--", "."])
    p = os.path.join(d, "result.json")
    old = json.load(open(p)) if os.path.exists(p) else {}
    old.setdefault(tier, {}).update(results)
    json.dump(old, open(p, "w"), indent=1)
    return 0


def imp(src, name):
    """copy a red-team agent's out/ directory (patch.diff, demo/, meta.json) to seeded/<name>/"""
    d = os.path.join(VERIF, "seeded", name)
    os.makedirs(d, exist_ok=True)
    shutil.copyfile(os.path.join(src, "patch.diff"), os.path.join(d, "patch.diff"))
    shutil.copyfile(os.path.join(src, "meta.json"), os.path.join(d, "meta.json"))
    shutil.rmtree(os.path.join(d, "demo"), ignore_errors=True)
    shutil.copytree(os.path.join(src, "demo"), os.path.join(d, "demo"))
    print("imported", name)
    return 0


def matrix():
    base = os.path.join(VERIF, "seeded")
    for name in sorted(os.listdir(base)):
        p = os.path.join(base, name, "result.json")
        if not os.path.exists(p):
            print("%-28s (not run)" % name)
            continue
        r = json.load(open(p))
        cells = []
        for tier in ("quick", "thorough"):
            for pid, v in sorted(r.get(tier, {}).items()):
                cells.append("%s/%s:%s" % (pid, tier[0], ("CAUGHT" + ("" if v["concrete"] else "(nfi)")) if v["caught"] else "missed"))
        print("%-28s %s" % (name, " ".join(cells)))


if __name__ == "__main__":
    a = sys.argv[1:]
    if not a:
        print(__doc__); sys.exit(2)
    if a[0] == "confirm":
        sys.exit(confirm(a[1]))
    if a[0] == "run":
        sys.exit(run(a[1], a[2] if len(a) > 2 else "quick", a[3].split(",") if len(a) > 3 else None))
    if a[0] == "irun":
        sys.exit(run_isolated(a[1], a[2] if len(a) > 2 else "quick", a[3].split(",") if len(a) > 3 else None))
    if a[0] == "import":
        sys.exit(imp(a[1], a[2]))
    if a[0] == "clean":
        sh(["git", "-C", REPO, "worktree", "remove", "--force", "/tmp/seedw/repo"])
        shutil.rmtree("/tmp/seedw", ignore_errors=True)
    if a[0] == "matrix":
        matrix()
