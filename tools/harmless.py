#!/usr/bin/env python3
"""Behaviour-preserving changes (harmless refactorings written by fresh sub-agents, kept under /verif/harmless/*.diff):
none of the checks may raise an alarm on them.

  harmless.py run [name ...]     apply each patch in an isolated copy (/tmp/harmw: committed /verif + a scratch worktree of
                                 /repo), run ALL twenty quick checks, record harmless/results.json
  harmless.py report
"""
import json, os, subprocess, sys, time
VERIF = os.path.dirname(os.path.dirname(os.path.abspath(__file__)))
REPO = "/repo"
GOENV = dict(os.environ, GOFLAGS="-mod=mod", GOPROXY="off", GOSUMDB="off", GOTOOLCHAIN="local",
             GOCACHE="/tmp/gocache-iso")  # scratch worktrees get their own build cache: it is wiped with them (the shared one grew to 114 GB)
W = os.environ.get("HARMW", "/tmp/harmw")   # several workers: one directory (and one results file, HARMRES) each
IDS = ["C%02d" % i for i in range(1, 21)]


def sh(cmd, cwd=None, env=None, timeout=7200):
    p = subprocess.run(cmd, cwd=cwd, env=env, shell=isinstance(cmd, str), stdout=subprocess.PIPE, stderr=subprocess.STDOUT, text=True, timeout=timeout)
    return p.returncode, p.stdout


def run(names):
    repo, verif = os.path.join(W, "repo"), os.path.join(W, "verif")
    os.makedirs(W, exist_ok=True)
    if not os.path.exists(repo):
        sh(["git", "-C", REPO, "worktree", "add", "-f", "--detach", repo, "HEAD"])
    head = sh(["git", "-C", REPO, "rev-parse", "HEAD"])[1].strip()
    if not os.path.exists(os.path.join(verif, "lean", ".lake")):
        sh(["rsync", "-a", "--exclude", ".git", "--exclude", "replays", "--exclude", "mutants", "--exclude", "seeded", VERIF + "/", verif + "/"])
    sh("git -C %s archive HEAD -- . ':!seeded' ':!mutants' | tar -x -C %s" % (VERIF, verif))
    rp = os.environ.get("HARMRES", os.path.join(VERIF, "harmless", "results.json"))
    res = json.load(open(rp)) if os.path.exists(rp) else {}
    for n in names:
        sh(["git", "-C", repo, "checkout", "--", "."]); sh(["git", "-C", repo, "clean", "-fdq"]); sh(["git", "-C", repo, "checkout", "--detach", head])
        rc, out = sh(["git", "-C", repo, "apply", os.path.join(VERIF, "harmless", n + ".diff")])
        if rc != 0:
            res[n] = {"applies": False, "out": out[-300:]}
            continue
        rc, out = sh("go build ./...", cwd=repo, env=GOENV)
        r = {"applies": True, "builds": rc == 0, "alarms": {}}
        for pid in IDS:
            rc, out = sh([os.path.join(verif, "check"), pid, "quick"], cwd=verif, env=dict(GOENV, VERIF_REPO=repo))
            if rc != 0:
                lines = [l for l in out.split("\n") if l.startswith("VIOLATION")]
                detail = ""
                for l in lines[:1]:
                    try:
                        path = l.split("replay=")[1].split()[0]
                        detail = " | ".join(x for x in open(path, errors="replace").read().split("\n")[:14] if x.startswith(("# detail=", "# broken", "# errors", "# theorem")))[:600]
                    except Exception:
                        pass
                r["alarms"][pid] = {"rc": rc, "line": (lines or [out[-200:]])[0][:200], "detail": detail}
        res[n] = r
        print(n, "alarms:", r["alarms"] or "none", flush=True)
        json.dump(res, open(rp, "w"), indent=1)
        sh(["git", "-C", repo, "checkout", "--", "."])


if __name__ == "__main__":
    a = sys.argv[1:]
    if a and a[0] == "run":
        names = a[1:] or sorted(f[:-5] for f in os.listdir(os.path.join(VERIF, "harmless")) if f.endswith(".diff"))
        run(names)
    else:
        rp = os.path.join(VERIF, "harmless", "results.json")
        for n, r in sorted(json.load(open(rp)).items()):
            print(n, "alarms:", r.get("alarms") or "none")
