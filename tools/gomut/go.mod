module gomut

go 1.23
