// gomut lists single-token mutation sites (comparison / logical operators, negations, small integer
// literals in conditions, early-return error checks) of Go source files as JSON lines:
// {"file":..., "line":..., "func":..., "off":..., "len":..., "old":..., "new":...}
// Used by tools/mutate.py (automated red team); stdlib only.
package main

import (
	"encoding/json"
	"fmt"
	"go/ast"
	"go/parser"
	"go/token"
	"os"
)

type site struct {
	File string `json:"file"`
	Line int    `json:"line"`
	Func string `json:"func"`
	Off  int    `json:"off"`
	Len  int    `json:"len"`
	Old  string `json:"old"`
	New  string `json:"new"`
}

var swaps = map[token.Token][]string{
	token.LSS: {"<="}, token.LEQ: {"<"}, token.GTR: {">="}, token.GEQ: {">"},
	token.EQL: {"!="}, token.NEQ: {"=="}, token.LAND: {"||"}, token.LOR: {"&&"},
}

func main() {
	enc := json.NewEncoder(os.Stdout)
	for _, path := range os.Args[1:] {
		fset := token.NewFileSet()
		f, err := parser.ParseFile(fset, path, nil, 0)
		if err != nil {
			fmt.Fprintln(os.Stderr, err)
			continue
		}
		for _, d := range f.Decls {
			fd, ok := d.(*ast.FuncDecl)
			if !ok || fd.Body == nil {
				continue
			}
			name := fd.Name.Name
			ast.Inspect(fd.Body, func(n ast.Node) bool {
				switch x := n.(type) {
				case *ast.BinaryExpr:
					if news, ok := swaps[x.Op]; ok {
						// `err != nil` / `err == nil` checks are skipped: flipping them breaks every run
						if id, ok := x.X.(*ast.Ident); ok && id.Name == "err" {
							return true
						}
						p := fset.Position(x.OpPos)
						for _, nw := range news {
							enc.Encode(site{path, p.Line, name, p.Offset, len(x.Op.String()), x.Op.String(), nw})
						}
					}
				case *ast.UnaryExpr:
					if x.Op == token.NOT {
						p := fset.Position(x.OpPos)
						enc.Encode(site{path, p.Line, name, p.Offset, 1, "!", ""})
					}
				case *ast.IfStmt:
					// integer literals inside conditions: off by one
					ast.Inspect(x.Cond, func(m ast.Node) bool {
						if bl, ok := m.(*ast.BasicLit); ok && bl.Kind == token.INT && len(bl.Value) < 6 {
							p := fset.Position(bl.ValuePos)
							var v int
							if _, err := fmt.Sscanf(bl.Value, "%d", &v); err == nil && fmt.Sprint(v) == bl.Value {
								enc.Encode(site{path, p.Line, name, p.Offset, len(bl.Value), bl.Value, fmt.Sprint(v + 1)})
							}
						}
						return true
					})
				}
				return true
			})
		}
	}
}
