NOTES = ("Machine-checked proof in Lean 4 about a hand-written executable model, tied to /repo's working tree on every run by a "
         "differential correspondence (real Go code in-process vs compiled Lean driver on the same operation lines) and regenerated source facts. "
         "See DESIGN.md. known_findings.json lists repaired (fixed:) and recorded (known) defects.")
NOT_YET = {}
COMMON_NOTE = ("Trusted: Lean kernel + the three standard axioms (audited per theorem each run); the model is tied to the code only as far as the "
               "differential streams exercise it (counts in the evidence file); harness/generators/canonicalisation; crypto primitives are parameters/hypotheses, not verified.")
META = {
    "C04": {
        "text": "Theorem C04_exact: for every hash function and every (leaf, root, path, 32-bit position) the model of VerifyMerkelProof accepts iff sizes are well-formed, the fold reproduces the root and position < 2^(path length); C04_position_binding: under collision resistance (hypothesis) an accepted leaf is the tree's leaf at that position. The Go function is tied to the model by differential runs over reference trees (genuine/aliased/truncated/extended/permuted/bit-flipped/malformed) with real double-SHA256 on both sides and an independent Python monitor.",
        "note": COMMON_NOTE + " Position binding assumes collision resistance as an explicit hypothesis.",
        "technique": "Lean 4 theorem (exact characterisation + induction over perfect trees) + differential correspondence of VerifyMerkelProof",
    },
}
