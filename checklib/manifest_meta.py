NOTES = ("Machine-checked proof in Lean 4 about a hand-written executable model, tied to /repo's working tree on every run by a "
         "differential correspondence (real Go code in-process vs compiled Lean driver on the same operation lines) and regenerated source facts. "
         "See DESIGN.md. known_findings.json lists repaired (fixed:) and recorded (known) defects.")
NOT_YET = {}
COMMON_NOTE = ("Trusted: Lean kernel + the three standard axioms (audited per theorem each run); the model is tied to the code only as far as the "
               "differential streams exercise it (counts in the evidence file); harness/generators/canonicalisation; crypto primitives are parameters/hypotheses, not verified.")
META = {
    "C01": {
        "text": "Theorem C01_accept_sound: for every crypto instantiation, group size/membership, bitmap and message, the model of VerifyProposal returns ok only if the message names the current proposer/sequence/epoch, every marked bitmap position denotes a current voter, the aggregate signature verifies over the sign-doc of exactly this method, payload, chain, epoch and sequence under the proposer key followed by exactly the marked voters' keys, and 1+marks >= ceil(2(n+1)/3); the five *_needs_quorum theorems show each voted bridge handler succeeds only through that check on its own method and payload encoding. Tied to the real keepers (real relayer keeper under the real bridge handlers, real BLS) by the relayer stream with 26 guard-directed vote classes (marks beyond the voter list, signer/marks mismatch, wrong seq/epoch/method/chain/payload, odd bitmap lengths...).",
        "note": COMMON_NOTE + " BLS verification is an oracle parameter; the driver's oracle is fed by the harness with who really signed what.",
        "technique": "Lean 4 theorem (soundness characterisation of VerifyProposal + handler lemmas) + differential correspondence on the real relayer/bitcoin keepers with real BLS",
    },
    "C04": {
        "text": "Theorem C04_exact: for every hash function and every (leaf, root, path, 32-bit position) the model of VerifyMerkelProof accepts iff sizes are well-formed, the fold reproduces the root and position < 2^(path length); C04_position_binding: under collision resistance (hypothesis) an accepted leaf is the tree's leaf at that position. The Go function is tied to the model by differential runs over reference trees (genuine/aliased/truncated/extended/permuted/bit-flipped/malformed) with real double-SHA256 on both sides and an independent Python monitor.",
        "note": COMMON_NOTE + " Position binding assumes collision resistance as an explicit hypothesis.",
        "technique": "Lean 4 theorem (exact characterisation + induction over perfect trees) + differential correspondence of VerifyMerkelProof",
    },
}
