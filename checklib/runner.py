"""Check runner: builds harness + Lean project from the current trees, audits axioms, runs the
correspondence streams, evaluates monitors, shrinks and writes replays and evidence."""
import json, os, re, shutil, subprocess, sys, time, hashlib
from concurrent.futures import ThreadPoolExecutor

VERIF = os.path.dirname(os.path.dirname(os.path.abspath(__file__)))
REPO = os.environ.get("VERIF_REPO", "/repo")
BUILD = os.path.join(VERIF, ".build")
LEAN = os.path.join(VERIF, "lean")
HARNESS = os.path.join(VERIF, "harness")
DRIVER = os.path.join(LEAN, ".lake", "build", "bin", "driver")
ALLOWED_AXIOMS = {"propext", "Classical.choice", "Quot.sound"}

GOENV = dict(os.environ, GOFLAGS="-mod=mod", GOPROXY="off", GOSUMDB="off", GOTOOLCHAIN="local",
             CGO_ENABLED="1")

import props  # noqa: E402  (property table)
import monitors  # noqa: E402


def log(*a):
    print(*a, file=sys.stderr, flush=True)


def sh(cmd, cwd=None, env=None, timeout=None, inp=None):
    p = subprocess.run(cmd, cwd=cwd, env=env, timeout=timeout, input=inp,
                       stdout=subprocess.PIPE, stderr=subprocess.PIPE, text=True)
    return p.returncode, p.stdout, p.stderr


# ------------------------------------------------------------------------------------------ build

import fcntl


class BuildLock:
    """serialises go/lake builds of concurrently running checks"""
    def __enter__(self):
        os.makedirs(BUILD, exist_ok=True)
        self.f = open(os.path.join(BUILD, ".lock"), "w")
        fcntl.flock(self.f, fcntl.LOCK_EX)
        return self

    def __exit__(self, *a):
        fcntl.flock(self.f, fcntl.LOCK_UN)
        self.f.close()


def sync_gomod():
    """harness go.mod = /repo's go.mod with our module line + replace => /repo (regenerated each run
    so that a dependency change in /repo is followed)."""
    src = open(os.path.join(REPO, "go.mod")).read()
    src = re.sub(r"^module .*$", "module verif/harness", src, count=1, flags=re.M)
    src += "\nrequire github.com/goatnetwork/goat v0.0.0\nreplace github.com/goatnetwork/goat => %s\n" % REPO
    dst = os.path.join(HARNESS, "go.mod")
    if not os.path.exists(dst) or open(dst).read() != src:
        open(dst, "w").write(src)
    shutil.copyfile(os.path.join(REPO, "go.sum"), os.path.join(HARNESS, "go.sum"))


def build_go(cmds):
    os.makedirs(BUILD, exist_ok=True)
    with BuildLock():
        sync_gomod()
        for c in cmds:
            out = os.path.join(BUILD, c)
            tmp = out + ".new.%d" % os.getpid()
            for attempt in range(4):
                rc, so, se = sh(["go", "build", "-tags", "verif", "-o", tmp, "./cmd/" + c], cwd=HARNESS, env=GOENV, timeout=1500)
                if rc != 0 and RESOURCE_RX.search(so + se) and attempt < 3:
                    time.sleep(20 * (attempt + 1))  # fork/thread exhaustion of the machine, not a build error
                    continue
                break
            if rc != 0:
                if os.path.exists(out):
                    os.remove(out)  # never run a stale binary
                return False, (so + se)[-4000:]
            os.replace(tmp, out)
    return True, ""


def build_go_race():
    """the K/A-layer driver built with the Go race detector (C08)"""
    with BuildLock():
        sync_gomod()
        out = os.path.join(BUILD, "kdrive-race")
        tmp = out + ".new.%d" % os.getpid()
        for attempt in range(3):
            rc, so, se = sh(["go", "build", "-race", "-tags", "verif", "-o", tmp, "./cmd/kdrive"], cwd=HARNESS, env=GOENV, timeout=2400)
            if rc != 0 and RESOURCE_RX.search(so + se) and attempt < 2:
                time.sleep(20)
                continue
            break
        if rc != 0:
            if os.path.exists(out):
                os.remove(out)
            return False, (so + se)[-2000:]
        os.replace(tmp, out)
    return True, ""


def build_lean(targets):
    with BuildLock():
        for attempt in range(4):
            rc, so, se = sh(["lake", "build"] + targets, cwd=LEAN, timeout=3000)
            if rc != 0 and RESOURCE_RX.search(so + se) and attempt < 3:
                time.sleep(20 * (attempt + 1))  # fork/thread exhaustion of the machine, not a proof failure
                continue
            break
    return rc == 0, (so + se)


def import_closure(modules):
    """Lean source files (relative to LEAN) reachable through `import` lines from the given modules (our two libraries only)"""
    seen, todo = set(), list(modules)
    while todo:
        m = todo.pop()
        if m in seen or not (m.startswith("GoatModel") or m.startswith("GoatProofs") or m == "Main"):
            continue
        path = os.path.join(LEAN, m.replace(".", "/") + ".lean")
        if not os.path.exists(path):
            continue
        seen.add(m)
        for line in open(path):
            mm = re.match(r"\s*import\s+([\w.]+)", line)
            if mm:
                todo.append(mm.group(1))
    return sorted(m.replace(".", "/") + ".lean" for m in seen)


def grep_forbidden(modules=None):
    """sorry/admit/axiom/native_decide/... in the Lean sources the given modules depend on (comments stripped);
    all sources of the project when no module is given."""
    bad = []
    pat = re.compile(r"\bsorry\b|\badmit\b|^\s*axiom\s|native_decide|bv_decide|implemented_by|\bunsafe\s|maxHeartbeats 0")
    if modules:
        files = [os.path.join(LEAN, f) for f in import_closure(list(modules) + ["GoatModel", "Main"])]
    else:
        files = []
        for root, _, fs in os.walk(LEAN):
            if ".lake" in root:
                continue
            files += [os.path.join(root, f) for f in fs if f.endswith(".lean")]
    for path in files:
        txt = open(path).read()
        txt = re.sub(r"/-.*?-/", lambda m: "\n" * m.group(0).count("\n"), txt, flags=re.S)
        for i, line in enumerate(txt.split("\n"), 1):
            line = line.split("--")[0]
            if pat.search(line):
                bad.append("%s:%d: %s" % (os.path.relpath(path, LEAN), i, line.strip()))
    return bad


def audit_axioms(pid, module, theorems):
    """#print axioms for every property theorem; returns {thm: [axioms]} or raises."""
    os.makedirs(BUILD, exist_ok=True)
    mods = module if isinstance(module, list) else [module]
    src = "".join("import %s\n" % m for m in mods) + "".join("#print axioms %s\n" % t for t in theorems)
    path = os.path.join(BUILD, "Audit_%s.lean" % pid)
    open(path, "w").write(src)
    for attempt in range(4):
        rc, so, se = sh(["lake", "env", "lean", path], cwd=LEAN, timeout=1200)
        if rc != 0 and RESOURCE_RX.search(so + se) and attempt < 3:
            time.sleep(20 * (attempt + 1))
            continue
        break
    out = so + se
    res = {}
    # outputs: "'X' depends on axioms: [a, b]" or "'X' does not depend on any axioms"
    for m in re.finditer(r"'([^']+)' depends on axioms: \[([^\]]*)\]", out, flags=re.S):
        res[m.group(1)] = [a.strip() for a in m.group(2).replace("\n", " ").split(",") if a.strip()]
    for m in re.finditer(r"'([^']+)' does not depend on any axioms", out):
        res[m.group(1)] = []
    missing = [t for t in theorems if t not in res]
    return res, missing, out if (rc != 0 or missing) else ""


# ---------------------------------------------------------------------------------------- streams

def split_res(line):
    """'=> crit ;; info' -> (crit, info)"""
    body = line[3:] if line.startswith("=> ") else line
    if " ;; " in body:
        c, i = body.split(" ;; ", 1)
        return c.strip(), i.strip()
    return body.strip(), ""


class StreamRun:
    def __init__(self, name, seed, n):
        self.name, self.seed, self.n = name, seed, n
        self.ops, self.impl, self.model = [], [], []
        self.classes, self.samples = {}, []
        self.error = None
        self.trace_path = None

    def hard_divs(self):
        return [i for i in range(len(self.ops)) if split_res(self.impl[i])[0] != split_res(self.model[i])[0]]

    def soft_divs(self):
        return [i for i in range(len(self.ops))
                if split_res(self.impl[i])[0] == split_res(self.model[i])[0] and self.impl[i] != self.model[i]]


def parse_trace(text, run):
    cur = None
    for line in text.split("\n"):
        if line.startswith("op "):
            cur = line
        elif line.startswith("=> ") and cur is not None:
            run.ops.append(cur)
            run.impl.append(line)
            cur = None
        elif line.startswith("#class "):
            _, cnt, rest = line.split(" ", 2)
            run.classes[rest] = run.classes.get(rest, 0) + int(cnt)
        elif line.startswith("#sample "):
            run.samples.append(line[8:])


def run_model(trace_text):
    p = subprocess.run([DRIVER], input=trace_text, stdout=subprocess.PIPE, stderr=subprocess.PIPE, text=True, timeout=3000)
    return [l for l in p.stdout.split("\n") if l.startswith("=> ")], p.returncode, p.stderr


def exec_stream(binary, stream, seed, n, replay=None, timeout=3000):
    cmd = [os.path.join(BUILD, binary), "-stream", stream, "-seed", str(seed), "-n", str(n)]
    if replay:
        cmd += ["-replay", replay]
    env = dict(os.environ, GOMEMLIMIT="6GiB")
    p = subprocess.run(cmd, stdout=subprocess.PIPE, stderr=subprocess.PIPE, text=True, timeout=timeout, env=env)
    return p.returncode, p.stdout, p.stderr


# the machine, not the code under test: fork/thread/memory exhaustion when many checks share the sandbox
RESOURCE_RX = re.compile(r"resource temporarily unavailable|cannot allocate memory|failed to create new OS thread|"
                         r"newosproc|out of memory|errno=11|too many open files")


def run_stream(binary, stream, seed, n, replay=None):
    run = StreamRun(stream, seed, n)
    for attempt in range(4):
        try:
            rc, out, err = exec_stream(binary, stream, seed, n, replay)
        except subprocess.TimeoutExpired:
            run.error = "harness timeout"
            return run
        except OSError as e:  # the fork itself failed
            rc, out, err = 1, "", str(e)
        if rc != 0 and RESOURCE_RX.search(err[-20000:]) and attempt < 3:
            log("resource exhaustion while running stream %s (attempt %d): retrying" % (stream, attempt + 1))
            time.sleep(20 * (attempt + 1))
            continue
        break
    if rc != 0:
        m = re.search(r"^(fatal error:|panic:|SIG[A-Z]+:|runtime: ).*$", err, flags=re.M)
        run.error = "harness exit %d: %s%s" % (rc, (m.group(0)[:400] + " ... ") if m else "", err[-2000:])
        try:
            open(os.path.join(BUILD, "last_crash_%s_%d.err" % (stream, seed)), "w").write(err[-400000:])
        except OSError:
            pass
        # keep whatever was produced: the crash point is itself informative
    parse_trace(out, run)
    model, mrc, merr = run_model("\n".join(run.ops) + "\n")
    if mrc != 0 or len(model) != len(run.ops):
        run.error = (run.error or "") + " model driver rc=%d produced %d/%d lines %s" % (mrc, len(model), len(run.ops), merr[-500:])
        model = model + ["=> <missing>"] * (len(run.ops) - len(model))
    run.model = model[:len(run.ops)]
    return run


def div_summary(impl, model):
    ci, cm = split_res(impl)[0], split_res(model)[0]
    items = monitors.differing_items(impl, model)
    if items:
        return ": " + "; ".join("%s %s only: %s" % (k, side, it[:120]) for k, it, side in items[:4])
    return ": impl '%s' vs model '%s'" % (ci[:160], cm[:160])


def still_fails(binary, stream, ops, pred):
    """re-execute `ops` on the real code and the model; pred(run) says whether the failure persists"""
    path = os.path.join(BUILD, "shrink_%d_%s.trace" % (os.getpid(), stream))
    open(path, "w").write("\n".join(ops) + "\n")
    r = run_stream(binary, stream, 0, 0, replay=path)
    try:
        os.remove(path)
    except OSError:
        pass
    return pred(r), r


def shrink(binary, stream, ops, pred, budget_s=60):
    """delta debugging over whole operations"""
    t0 = time.time()
    n = 2
    # oracle lines (facts the model needs; no-ops on the real code) and init lines are never removed
    keep = lambda o: o.startswith("op oracle") or o.startswith("op init.")
    fixed = [(i, o) for i, o in enumerate(ops) if keep(o)]
    cur = [(i, o) for i, o in enumerate(ops) if not keep(o)]

    def assemble(c):
        return [o for _, o in sorted(fixed + c)]
    # first try: only the last operation
    if len(cur) > 1:
        ok, _ = still_fails(binary, stream, assemble(cur[-1:]), pred)
        if ok:
            cur = cur[-1:]
    while len(cur) >= 2 and time.time() - t0 < budget_s:
        chunk = max(1, len(cur) // n)
        reduced = False
        for i in range(0, len(cur), chunk):
            cand = cur[:i] + cur[i + chunk:]
            if not cand:
                continue
            ok, _ = still_fails(binary, stream, assemble(cand), pred)
            if ok:
                cur = cand
                n = max(n - 1, 2)
                reduced = True
                break
            if time.time() - t0 > budget_s:
                break
        if not reduced:
            if chunk == 1:
                break
            n = min(n * 2, len(cur))
    # drop oracle lines not needed any more (those after the last kept op are certainly unused)
    res = assemble(cur)
    return res


# -------------------------------------------------------------------------------------- findings

def load_known():
    p = os.path.join(VERIF, "known_findings.json")
    if not os.path.exists(p):
        return []
    return json.load(open(p)).get("findings", [])


def match_known(pid, witness):
    """witness: dict(kind=..., op=..., impl=..., model=..., detail=...) -> finding entry or None.
    Only `status: known` entries suppress; `fixed` entries suppress nothing."""
    for f in load_known():
        if f.get("property") != pid or f.get("status") != "known":
            continue
        sig = f.get("signature", {})
        ok = True
        for k, rx in sig.items():
            if not re.search(rx, str(witness.get(k, ""))):
                ok = False
        if ok:
            return f
    return None


# -------------------------------------------------------------------------------------- evidence

def write_evidence(pid, tier, seed, cov, assumptions, wall, violations):
    os.makedirs(os.path.join(VERIF, "evidence"), exist_ok=True)
    ev = {
        "property_id": pid, "tier": tier, "seed": seed, "level": "proof",
        "coverage": cov, "assumptions": assumptions, "wall_s": round(wall, 2), "violations": violations,
    }
    json.dump(ev, open(os.path.join(VERIF, "evidence", pid + ".json"), "w"), indent=1)


def write_replay(pid, tag, header, ops, impl=None, model=None):
    d = os.path.join(VERIF, "replays")
    os.makedirs(d, exist_ok=True)
    h = hashlib.sha1(("\n".join(ops) + tag).encode()).hexdigest()[:10]
    path = os.path.join(d, "%s-%s-%s.trace" % (pid, tag, h))
    with open(path, "w") as f:
        for k, v in header.items():
            f.write("# %s=%s\n" % (k, v))
        for i, o in enumerate(ops):
            f.write(o + "\n")
            if impl is not None and i < len(impl):
                f.write(impl[i] + "\n")
            if model is not None and i < len(model):
                f.write("#model " + model[i] + "\n")
    return path


# ------------------------------------------------------------------------------------------ main

def read_header(path):
    h = {}
    for line in open(path):
        m = re.match(r"# (\w+)=(.*)$", line.rstrip("\n"))
        if m:
            h[m.group(1)] = m.group(2)
    return h


def do_setup():
    ok, out = build_go(props.ALL_CMDS)
    if not ok:
        log(out)
        return 1
    fok, fout = props.run_factgen(sh, GOENV)
    if not fok:
        log("factgen: " + fout)
        return 1
    ok, out = build_lean(["GoatModel", "GoatProofs", "driver"])
    if not ok:
        log(out[-6000:])
        return 1
    return 0


def check_property(pid, tier, seed):
    t0 = time.time()
    P = props.PROPS[pid]
    violations = []       # (replay path, suffix)
    known_lines = []
    notes = []

    # 1. build from the current trees
    ok, out = build_go(P.get("cmds", ["kdrive"]))
    if not ok:
        # the harness no longer compiles against /repo: the correspondence cannot be run
        path = write_replay(pid, "harness-build", {"property": pid, "broken": "harness does not build against /repo", "detail": out[-1500:].replace("\n", " | ")}, [])
        violations.append((path, " no-failing-input-found"))
        return finish(pid, tier, seed, t0, P, {}, [], violations, known_lines, notes, {}, [])
    facts_note = None
    if P.get("facts"):
        fok, fout = props.run_factgen(sh, GOENV)
        if not fok:
            notes.append("factgen failed: " + fout[-500:])
    mods = P["module"] if isinstance(P["module"], list) else [P["module"]]
    ok, out = build_lean(["GoatModel", "driver"] + mods)
    obligations = P["theorems"]
    axioms = {}
    discharged = []
    broken_obligation = None
    if not ok:
        # a proof obligation (or a regenerated-facts obligation) no longer checks
        broken = re.findall(r"error: ([^\n]*)", out)[:5]
        files = sorted(set(re.findall(r"(Goat\w+/[\w/]+\.lean):\d+", out)))
        notes.append("lake build failed: %s" % "; ".join(broken))
        broken_obligation = {"property": pid, "broken": "proof obligation(s) no longer check", "files": ",".join(files), "errors": " | ".join(broken)}
        # the executable model may still build: go on and search for a concrete failing input
        ok2, out2 = build_lean(["GoatModel", "driver"])
        if not ok2:
            path = write_replay(pid, "obligation", broken_obligation, [])
            violations.append((path, " no-failing-input-found"))
            return finish(pid, tier, seed, t0, P, {}, [], violations, known_lines, notes, {}, [])
    else:
        axioms, missing, aout = audit_axioms(pid, P["module"], obligations)
        for t in obligations:
            if t in axioms and set(axioms[t]) <= ALLOWED_AXIOMS:
                discharged.append(t)
        bad = [t for t in obligations if t not in discharged]
        forb = grep_forbidden(mods)
        if tier == "thorough":
            # independent re-check of the compiled proof modules by the toolchain's leanchecker (replays every declaration
            # of the .olean files through the kernel)
            rc, so, se = sh(["lake", "env", "leanchecker"] + mods, cwd=LEAN, timeout=3000)
            if rc != 0 and not RESOURCE_RX.search(so + se):
                forb = forb + ["leanchecker: " + (so + se)[-300:].replace("\n", " | ")]
            else:
                notes.append("leanchecker re-checked %s" % " ".join(mods))
        if bad or forb:
            hdr = {"property": pid, "broken": "axiom audit", "theorems": ",".join(bad), "forbidden": " | ".join(forb[:10]), "out": aout[-800:].replace("\n", " | ")}
            path = write_replay(pid, "audit", hdr, [])
            violations.append((path, " no-failing-input-found"))
            discharged = [t for t in discharged if not forb]

    # 2. correspondence: corpus first, then fresh streams
    runs = []
    jobs = []
    corpus_dir = os.path.join(VERIF, "corpus", pid)
    if os.path.isdir(corpus_dir):
        for f in sorted(os.listdir(corpus_dir)):
            if f.endswith(".trace"):
                h = read_header(os.path.join(corpus_dir, f))
                if h.get("regen") == "1":   # application-layer histories are regenerated from (stream, seed(s), n)
                    for sd in (h.get("seeds") or h.get("seed", "1")).split(","):
                        jobs.append((h.get("binary", "kdrive"), h["stream"], int(sd), int(h.get("n", "2000")), None))
                else:
                    jobs.append((h.get("binary", "kdrive"), h.get("stream", P["streams"][0]["name"]), 0, 0, os.path.join(corpus_dir, f)))
    for st in P["streams"]:
        n = st["quick"] if tier == "quick" else st["thorough"]
        nseeds = st.get("quick_seeds", 3) if tier == "quick" else st.get("seeds", 8)
        for k in range(nseeds):
            jobs.append((st.get("binary", "kdrive"), st["name"], seed + 1000003 * k, n, None))
    with ThreadPoolExecutor(max_workers=min(16, max(1, len(jobs)))) as ex:
        futs = [ex.submit(run_stream, *j) for j in jobs]
        runs = [f.result() for f in futs]

    # 2b. C08 "free of data races": the proposal streams once more under the Go race detector (a search tool: it
    # exhibits a schedule; the claim itself is carried by the footprint theorem no_conflicting_access)
    if P.get("race"):
        rc_ = P["race"]
        rok, rout = build_go_race()
        if not rok:
            notes.append("race build failed: " + rout[-300:])
        else:
            nrace = rc_["quick"] if tier == "quick" else rc_["thorough"]
            rseeds = 1 if tier == "quick" else rc_.get("seeds", 4)
            def race_one(k):
                cmd = [os.path.join(BUILD, "kdrive-race"), "-stream", rc_["stream"], "-seed", str(seed + 1000003 * k), "-n", str(nrace)]
                try:
                    p_ = subprocess.run(cmd, stdout=subprocess.DEVNULL, stderr=subprocess.PIPE, text=True, timeout=3000,
                                        env=dict(os.environ, GORACE="halt_on_error=0", GOMEMLIMIT="8GiB"))
                    return seed + 1000003 * k, p_.stderr
                except subprocess.TimeoutExpired:
                    return seed + 1000003 * k, ""
            with ThreadPoolExecutor(max_workers=4) as ex:
                for sd, err in ex.map(race_one, range(rseeds)):
                    if "WARNING: DATA RACE" in err:
                        rep = err[err.index("WARNING: DATA RACE"):][:3000]
                        hdr = {"property": pid, "stream": rc_["stream"], "binary": "kdrive-race", "seed": sd, "n": nrace, "regen": "1", "kind": "race",
                               "detail": rc_.get("what", "the Go race detector reports a data race while proposals are built / checked") + ": " + rep.replace("\n", " | "),
                               "theorem": rc_.get("theorem", "Goat.C08.no_conflicting_access"),
                               "how": "cd harness && go build -race -tags verif -o ../.build/kdrive-race ./cmd/kdrive && ../.build/kdrive-race -stream %s -seed %d -n %d" % (rc_["stream"], sd, nrace)}
                        path = write_replay(pid, "race", hdr, [])
                        violations.append((path, ""))
                        break
            notes.append("race detector: stream %s, %d op(s) x %d seed(s)" % (rc_["stream"], nrace, rseeds))

    mon = monitors.MONITORS.get(pid, monitors.default_monitor)
    soft_total = 0
    for j, r in zip(jobs, runs):
        binary, stream = j[0], j[1]
        if r.error:
            notes.append("%s seed=%d: %s" % (stream, r.seed, r.error))
        soft = r.soft_divs()
        soft_total += len(soft)
        if soft:
            notes.append("%s seed=%d: %d soft divergences (error class only), first: %s | impl %s | model %s" % (
                stream, r.seed, len(soft), r.ops[soft[0]][:200], r.impl[soft[0]][:120], r.model[soft[0]][:120]))
        hard = r.hard_divs()
        mon_hits = mon(pid, r)      # list of (index, detail) on the implementation's own observations
        if not hard and not mon_hits and not r.error:
            continue
        crashed = bool(r.error) and "harness exit" in r.error and re.search(r"panic:|fatal error:|SIGSEGV|nil pointer|goroutine \d+ \[running\]", r.error)
        if r.error and ((not hard and not mon_hits) or (pid == "C19" and crashed)):
            if pid == "C19" and crashed:
                # the real code killed the process: that is the failing input of C19 (the history is regenerated from stream/seed/n)
                hdr = {"property": pid, "stream": stream, "binary": binary, "seed": r.seed, "n": r.n, "regen": "1", "kind": "crash",
                       "detail": "the process running the real application died: " + r.error.replace("\n", " | ")[:1500],
                       "how": "./check %s --replay <this file>" % pid}
                path = write_replay(pid, "crash", hdr, r.ops[-40:], r.impl[-40:], r.model[-40:])
                violations.append((path, ""))
                continue
            hdr = {"property": pid, "stream": stream, "binary": binary, "seed": r.seed, "broken": "correspondence could not be run: " + r.error.replace("\n", " | ")[:1500]}
            path = write_replay(pid, "harness", hdr, r.ops[-20:])
            violations.append((path, " no-failing-input-found"))
            continue
        # first failing point
        if mon_hits:
            idx, detail = mon_hits[0]
            kind = "monitor"
        else:
            # prefer the first divergence on which the property itself fails (the model's verdict there is pinned by a
            # theorem, see monitors.DIV_RULES); otherwise the first divergence
            first = hard[0]
            for i in hard[:400]:
                if monitors.divergence_is_violation(pid, {"op": r.ops[i], "impl": r.impl[i], "model": r.model[i]}):
                    first = i
                    break
            idx, detail = first, "model and implementation differ" + div_summary(r.impl[first], r.model[first])
            if first != hard[0]:
                detail += " (first difference of the run: op #%d%s)" % (hard[0], div_summary(r.impl[hard[0]], r.model[hard[0]])[:200])
            kind = "divergence"
        witness = {"kind": kind, "stream": stream, "op": r.ops[idx], "impl": r.impl[idx], "model": r.model[idx], "detail": detail}
        kf = match_known(pid, witness)
        if kf:
            line = "KNOWN-FINDING: property=%s %s" % (pid, kf["what"])
            if line not in known_lines:
                known_lines.append(line)
            # look for a *different* failure in the same run
            others = [(i, d) for (i, d) in mon_hits if not match_known(pid, {"kind": "monitor", "stream": stream, "op": r.ops[i], "impl": r.impl[i], "model": r.model[i], "detail": d})]
            others_h = [i for i in hard if not match_known(pid, {"kind": "divergence", "stream": stream, "op": r.ops[i], "impl": r.impl[i], "model": r.model[i], "detail": ""})]
            if not others and not others_h:
                continue
            if others:
                idx, detail = others[0]
                kind = "monitor"
            else:
                idx, detail = others_h[0], "model and implementation differ"
                kind = "divergence"
            witness = {"kind": kind, "stream": stream, "op": r.ops[idx], "impl": r.impl[idx], "model": r.model[idx], "detail": detail}
        # shrink: stateless streams -> the single op; stateful -> ddmin on the prefix
        stateless = props.STREAM_STATELESS.get(stream, False)
        regen = stream.startswith("app")
        if regen:
            # application-layer traces are not re-executable op by op: the replay is the generated trace
            # itself (cut after the failing block) plus the recipe to regenerate it
            end = idx
            while end + 1 < len(r.ops) and not r.ops[end].startswith("op a.end"):
                end += 1
            hdr = {"property": pid, "stream": stream, "binary": binary, "seed": r.seed, "n": r.n, "regen": "1", "kind": kind, "detail": detail,
                   "theorem": ",".join(P["theorems"][:3]), "failing_op_index": idx,
                   "how": "./check %s --replay <this file>  (re-runs stream %s with seed %d, n %d against the current tree)" % (pid, stream, r.seed, r.n)}
            is_violation_witness = kind == "monitor" or monitors.divergence_is_violation(pid, witness)
            suffix = ""
            if not is_violation_witness:
                hdr["broken"] = "correspondence model<->implementation on stream %s (first diverging op index %d); no input found on which the property itself fails" % (stream, idx)
                suffix = " no-failing-input-found"
            lo = max(0, idx - 60)
            path = write_replay(pid, kind, hdr, r.ops[lo:end + 1], r.impl[lo:end + 1], r.model[lo:end + 1])
            violations.append((path, suffix))
            continue
        prefix = [r.ops[idx]] if stateless else r.ops[:idx + 1]
        if not stateless:
            # a `reset` starts a fresh world: nothing before it matters
            resets = [k for k, o in enumerate(prefix) if o.startswith("op reset")]
            if resets:
                prefix = prefix[resets[-1] + 1:]

        def pred(rr, kind=kind, wop=r.ops[idx], wimpl=split_res(r.impl[idx])[0], wmodel=split_res(r.model[idx])[0], wdetail=detail):
            # the *same* failure must persist: same operation text, same pair of verdicts / same complaint
            if kind == "monitor":
                return any(rr.ops[i] == wop and d[:40] == wdetail[:40] and rr.impl[i] == r.impl[idx] for (i, d) in mon(pid, rr))
            return any(rr.ops[i] == wop and split_res(rr.impl[i])[0] == wimpl and split_res(rr.model[i])[0] == wmodel
                       for i in rr.hard_divs())
        if not stateless and len(prefix) > 1:
            prefix = shrink(binary, stream, prefix, pred, budget_s=45 if tier == "quick" else 240)
        _, rr = still_fails(binary, stream, prefix, pred)
        is_violation_witness = kind == "monitor" or monitors.divergence_is_violation(pid, witness)
        hdr = {"property": pid, "stream": stream, "binary": binary, "seed": r.seed, "kind": kind, "detail": detail,
               "theorem": ",".join(P["theorems"][:3]), "how": "./check %s --replay <this file>" % pid}
        suffix = ""
        if not is_violation_witness:
            hdr["broken"] = "correspondence model<->implementation on stream %s (first diverging op below); no input found on which the property itself fails" % stream
            suffix = " no-failing-input-found"
        path = write_replay(pid, kind, hdr, rr.ops, rr.impl, rr.model)
        violations.append((path, suffix))

    if broken_obligation:
        concrete = [v for v in violations if v[1] == ""]
        if concrete:
            # the search found an input on which the property fails: that is the replay; name the broken theorem in it
            for path, _ in concrete:
                txt = open(path).read()
                open(path, "w").write("# broken_obligation=%s %s\n" % (broken_obligation["files"], broken_obligation["errors"][:600]) + txt)
        else:
            path = write_replay(pid, "obligation", broken_obligation, [])
            violations.append((path, " no-failing-input-found"))
    return finish(pid, tier, seed, t0, P, axioms, discharged, violations, known_lines, notes, {"soft": soft_total}, runs)


def finish(pid, tier, seed, t0, P, axioms, discharged, violations, known_lines, notes, extra, runs):
    evaluations = sum(len(r.ops) for r in runs)
    classes = {}
    samples = []
    for r in runs:
        for k, v in r.classes.items():
            classes[r.name + ": " + k] = classes.get(r.name + ": " + k, 0) + v
        for s in r.samples[:3]:
            if len(samples) < 8:
                samples.append(s)
    nontrivial = len([k for k in classes])
    thm_samples = []
    for t in P["theorems"][:2]:
        thm_samples.append({"theorem": t, "axioms": axioms.get(t)})
    cov = {
        "obligations": len(P["theorems"]),
        "discharged": len(discharged),
        "obligation_list": [{"theorem": t, "axioms": axioms.get(t), "ok": t in discharged} for t in P["theorems"]],
        "checker_cmd": "cd lean && lake build %s && lake env lean ../.build/Audit_%s.lean  (#print axioms of every property theorem; allowed: propext, Classical.choice, Quot.sound)" % (" ".join(P["module"]) if isinstance(P["module"], list) else P["module"], pid),
        "trusted_base": props.TRUSTED_BASE + P.get("trusted", []),
        "evaluations": evaluations,
        "traces_validated_against_impl": len([r for r in runs if not r.error]),
        "distinct_nontrivial": nontrivial,
        "rule": "guard-directed generator classes (one per guard/boundary of the anchored code, see harness/cmd/*); a case counts as distinct and non-trivial per distinct (stream, generator class, observed outcome class) triple; evaluations = operations executed on the real code and on the Lean model and compared",
        "class_histogram": classes,
        "samples": samples + thm_samples,
        "soft_divergences": extra.get("soft", 0),
        "notes": notes,
        "known_findings_reported": known_lines,
        "partial": P.get("partial", ""),
    }
    write_evidence(pid, tier, seed, cov, P.get("assumptions", []), time.time() - t0, len(violations))
    for l in known_lines:
        print(l)
    for n in notes:
        log("note:", n)
    if violations:
        seen = set()
        violations = [v for v in violations if not (v in seen or seen.add(v))]
        for path, suffix in violations:
            print("VIOLATION property=%s replay=%s%s" % (pid, path, suffix))
        return 1
    print("OK property=%s tier=%s obligations=%d/%d evaluations=%d classes=%d wall=%.1fs" % (
        pid, tier, len(discharged), len(P["theorems"]), evaluations, nontrivial, time.time() - t0))
    return 0


def do_replay(pid, path):
    P = props.PROPS[pid]
    h = read_header(path)
    ok, out = build_go(P.get("cmds", ["kdrive"]))
    if not ok:
        log(out)
        return 2
    ok, out = build_lean(["GoatModel", "driver"])
    if not ok:
        log(out[-3000:])
        return 2
    stream = h.get("stream")
    binary = h.get("binary", "kdrive")
    if not stream:
        print("replay file names a broken obligation/correspondence, no executable trace: " + h.get("broken", ""))
        return 1
    if h.get("regen") == "1":
        r = run_stream(binary, stream, int(h.get("seed", "1")), int(h.get("n", "2000")))
    else:
        r = run_stream(binary, stream, 0, 0, replay=path)
    mon = monitors.MONITORS.get(pid, monitors.default_monitor)
    hits = mon(pid, r)
    hard = r.hard_divs()
    if r.error:
        print("harness/driver error: " + r.error[:3000])
        if "harness exit" in r.error:
            print("VIOLATION property=%s replay=%s" % (pid, path))
            return 1
    show = range(len(r.ops)) if len(r.ops) <= 400 else sorted(set(hard[:20]) | {i for i, _ in hits[:20]})
    for i in show:
        flag = " <== DIFFERS" if i in hard else ""
        print(r.ops[i][:300]); print("   impl ", r.impl[i][:300]); print("   model", r.model[i][:300] + flag)
    for i, d in hits:
        print("MONITOR: op #%d: %s" % (i, d))
    if hits or hard:
        print("VIOLATION property=%s replay=%s" % (pid, path))
        return 1
    print("replay passes: implementation and model agree and the monitor is silent")
    return 0


def main(argv):
    if not argv:
        print(__doc__)
        return 2
    if argv[0] == "setup":
        return do_setup()
    pid = argv[0]
    if pid not in props.PROPS:
        log("unknown property", pid)
        return 2
    if len(argv) >= 3 and argv[1] == "--replay":
        return do_replay(pid, argv[2])
    tier = argv[1] if len(argv) > 1 else os.environ.get("VERIF_TIER", "quick")
    seed = int(os.environ.get("VERIF_SEED", "1"))
    return check_property(pid, tier, seed)
