#!/usr/bin/env python3
"""Regenerates /verif/MANIFEST.json from the property table (checklib/props.py + checklib/manifest_meta.py)."""
import json, os, sys
sys.path.insert(0, os.path.dirname(os.path.abspath(__file__)))
import props, manifest_meta as M
VERIF = os.path.dirname(os.path.dirname(os.path.abspath(__file__)))
allids = [json.loads(l)["id"] for l in open(os.path.join(VERIF, "properties.jsonl"))]
checks = []
for pid in allids:
    if pid not in props.PROPS:
        continue
    meta = M.META[pid]
    checks.append({
        "property_id": pid,
        "quick_cmd": "./check %s quick" % pid,
        "thorough_cmd": "./check %s thorough" % pid,
        "evidence_file": "/verif/evidence/%s.json" % pid,
        "replay_cmd_template": "./check %s --replay {path}" % pid,
        "engine": "lean4-model+correspondence",
        "level_claimed": {"category": "proof", "text": meta["text"], "design_ref": meta.get("design_ref", "DESIGN.md section 8 (%s: plan) and section 13 (as built, findings, seeded changes)" % pid)},
        "level_note": meta["note"],
        "technique": meta["technique"],
    })
na = [{"property_id": pid, "reason": M.NOT_YET.get(pid, "check not built yet in this tree (planned, see DESIGN.md section 12)")} for pid in allids if pid not in props.PROPS]
man = {
    "version": 1,
    "setup_cmd": "./check setup",
    "hooks": {"guard": "verif", "enable": "go build -tags verif (no hook code exists: the harness drives exported keepers and the real app.New in-process)",
              "baseline_off_cmd": "cd /repo && GOFLAGS=-mod=mod go test -vet=off -count=1 ./...", "source_commits": [], "add_only": True},
    "engines": [{"name": "lean4-model+correspondence", "path": "/verif/lean + /verif/harness + /verif/checklib",
                 "serves_properties": [c["property_id"] for c in checks],
                 "kind_free_text": "Lean 4 theorems about a hand-written executable model (GoatModel), tied to /repo on every run by a differential correspondence harness (Go, real code in-process, line protocol to the compiled Lean driver) and by facts regenerated from the source (factgen)"}],
    "checks": checks,
    "notes": M.NOTES,
    "not_applicable": na,
}
json.dump(man, open(os.path.join(VERIF, "MANIFEST.json"), "w"), indent=1)
print("MANIFEST.json: %d checks, %d not claimed" % (len(checks), len(na)))
