"""Executable monitors: the property's statement evaluated on the *implementation's* observed
behaviour (never on the model's).  A monitor returns a list of (op index, detail)."""
import re


def default_monitor(pid, run):
    return []


def kv(op):
    d = {}
    for tok in op.split(" ")[2:]:
        if "=" in tok:
            k, v = tok.split("=", 1)
            d[k] = v
    return d


def crit(line):
    body = line[3:] if line.startswith("=> ") else line
    return body.split(" ;; ")[0].strip()


# For exact-characterisation properties the model *is* the property's statement (theorem Cxx_exact),
# so a differing verdict of the real function on a concrete input is a concrete failing input.
EXACT_STREAM_KINDS = {
    "C04": {"merkle.verify"},
    "C03": {"merkle.verify"},   # "hashes into the Merkle root at the claimed position" (C04_exact) is a clause of C03
    # what the genesis validation of the locking parameters admits is pinned exactly (C11P.validate_bounds / validate_complete):
    # admitting anything else (a negative or >= 1 slash fraction, a window of 0 ...) voids the bounds the conservation and
    # punishment theorems rest on
    "C11": {"lock.validateparams"}, "C13": {"lock.validateparams"}, "C14": {"lock.validateparams"}, "C15": {"lock.validateparams"},
    "C12": {"lock.validateparams"},
    # the decoder of execution-layer request lists is pinned exactly (C19R.decode_none_iff / decode_encode): a list applied
    # with other contents than it carries, or refused / accepted differently, is a request list the modules see wrongly
    "C19": {"req.decode"},
}


VOTED = {"tx.hashes", "tx.pubkey", "tx.process", "tx.replace", "tx.consolidate"}
QUORUM_CLASSES = ("voters-length", "signature", "sequence", "epoch", "not-proposer", "bitmap-length", "validate", "nil-vote")


def div_c01(w):
    """The model accepts only with a genuine quorum (theorem C01_accept_sound + *_needs_quorum).  The
    implementation accepting a voted message that the model rejects for a quorum-related reason is a
    proposal taking effect without the quorum the property demands."""
    kind = w["op"].split(" ")[1]
    return kind in VOTED and crit(w["impl"]) == "ok" and crit(w["model"]) != "ok" and any(c in w["model"] for c in QUORUM_CLASSES)


DIV_RULES = {"C01": div_c01}


def divergence_is_violation(pid, witness):
    kind = witness["op"].split(" ")[1] if witness.get("op") else ""
    if kind in EXACT_STREAM_KINDS.get(pid, set()):
        return True
    f = DIV_RULES.get(pid)
    return bool(f and f(witness))


def mon_c04(pid, run):
    """C04 independent of the Lean model: recompute the fold in Python with hashlib."""
    import hashlib
    hits = []
    for i, op in enumerate(run.ops):
        if not op.startswith("op merkle.verify"):
            continue
        a = kv(op)
        unhex = lambda s: b"" if s in ("-", "") else bytes.fromhex(s)
        txid, root, proof, idx = unhex(a["txid"]), unhex(a["root"]), unhex(a["proof"]), int(a["index"])
        if len(txid) != 32 or len(root) != 32 or len(proof) % 32 != 0:
            want = False
        else:
            n = len(proof) // 32
            cur, j = txid, idx
            for k in range(n):
                nx = proof[32 * k:32 * k + 32]
                data = cur + nx if j & 1 == 0 else nx + cur
                cur = hashlib.sha256(hashlib.sha256(data).digest()).digest()
                j >>= 1
            want = cur == root and idx < (1 << n)
        got = crit(run.impl[i]) == "1"
        if got != want:
            why = "accepted" if got else "rejected"
            hits.append((i, "VerifyMerkelProof %s although fold==root is %s and index<2^nodes is %s" % (
                why, (len(txid) == 32 and len(root) == 32 and len(proof) % 32 == 0 and cur == root) if len(proof) % 32 == 0 and len(txid) == 32 and len(root) == 32 else "n/a (malformed)",
                idx < (1 << (len(proof) // 32)))))
    return hits


MONITORS = {
    "C04": mon_c04,
}


# ------------------------------------------------------------------------- locking monitors
def _lst(s):
    return [] if s in ("-", "") else s.split(",")


def parse_lock_dump(line):
    """'=> lock vals=… idx=… …' -> dict"""
    body = line[3:] if line.startswith("=> ") else line
    d = {}
    for tok in body.split(" ")[1:]:
        if "=" in tok:
            k, v = tok.split("=", 1)
            d[k] = v
    vals = {}
    for it in _lst(d.get("vals", "-")):
        f = it.split("|")
        coins = {}
        if f[8] != "-":
            for c in f[8].split("+"):
                dn, a = c.rsplit("/", 1)
                coins[dn] = int(a)
        vals[f[0]] = dict(status=f[1], power=int(f[2]), reward=int(f[3]), gas=int(f[4]), offset=int(f[5]), missed=int(f[6]),
                          jailed=int(f[7]), coins=coins, pubkey=f[9])
    d["_vals"] = vals
    d["_rank"] = [(int(x.split("|")[0]), x.split("|")[1]) for x in _lst(d.get("rank", "-"))]
    d["_set"] = {x.split("|")[0]: int(x.split("|")[1]) for x in _lst(d.get("set", "-"))}
    d["_slashed"] = {x.split("|")[0]: int(x.split("|")[1]) for x in _lst(d.get("slashed", "-"))}
    p = d.get("pool", "0|0|0").split("|")
    d["_pool"] = tuple(int(x) for x in p)
    d["_qrew"] = [x.split("|") for x in _lst(d.get("qrew", "-"))]
    d["_qunl"] = [x.split("|") for x in _lst(d.get("qunl", "-"))]
    uq = []
    for e in _lst(d.get("uq", "-")):
        t, us = e.split("|", 1)
        for u in ([] if us == "-" else us.split("+")):
            uq.append((int(t), u.split("/")))
    d["_uq"] = uq
    return d


def denom_of(tokhex):
    t = tokhex.lower().rjust(40, "0")[-40:]
    if t == "0" * 40:
        return "btc"
    if t == "bc10000000000000000000000000000000000001":
        return "goat"
    return "tkn:" + t


class LockLedger:
    """What an observer of the trace can add up independently of any model: requests that were
    applied (ok), what was delivered to the execution layer, block times."""

    def __init__(self):
        self.locked = {}       # denom -> total of applied lock requests
        self.delivered_unl = {}  # denom -> delivered unlock amounts
        self.delivered_ids = []
        self.claimed = 0
        self.grants = 0
        self.gasrev = 0
        self.remain0 = 0
        self.unlock_req_time = {}
        self.params = {}
        self.now = 0
        self.maxvals = None

    def feed(self, op, impl):
        a = kv(op)
        kind = op.split(" ")[1]
        ok = crit(impl).startswith("ok")
        if kind == "init.lock":
            self.remain0 = int(a["remain"])
            self.params = {k: int(a[k]) for k in ("unlock", "exit", "jail", "window", "maxmissed", "maxvals")}
        if "time" in a:
            self.now = max(self.now, int(a["time"]))
        if kind == "req.lock" and ok:
            for it in _lst(a.get("locks", "-")):
                f = it.split("|")
                dn = denom_of(f[1])
                self.locked[dn] = self.locked.get(dn, 0) + int(f[2])
            for g in _lst(a.get("grants", "-")):
                self.grants += int(g)
            for g in _lst(a.get("gas", "-")):
                if int(g) > 0:
                    self.gasrev += int(g)
            for it in _lst(a.get("unlocks", "-")):
                f = it.split("|")
                self.unlock_req_time[f[0]] = int(a["time"])
        if kind == "lock.dequeue" and ok and a.get("commit") == "1":
            m = re.search(r"txs=(\S+)", impl)
            for t in _lst(m.group(1) if m else "-"):
                f = t.split("|")
                if f[0] == "rew":
                    self.claimed += int(f[4]) + int(f[5])
                elif f[0] == "unl":
                    dn = denom_of(f[4])
                    self.delivered_unl[dn] = self.delivered_unl.get(dn, 0) + int(f[5])
                    self.delivered_ids.append(f[2])


def mon_locking(pid, run):
    """C11–C15 evaluated on the implementation's own observations (dumps, hook results, delivered txs)."""
    hits = []
    led = LockLedger()
    for i, (op, impl) in enumerate(zip(run.ops, run.impl)):
        kind = op.split(" ")[1]
        if kind == "reset":
            led = LockLedger()
            continue
        led.feed(op, impl)
        c = crit(impl)
        if pid == "C13" and kind in ("hook.lock.begin", "hook.lock.end", "hook.rel.end") and not c.startswith("ok") and c != "n/a":
            # a begin block without any vote info is an artefact of a harness history that emptied the set
            if not (kind == "hook.lock.begin" and "zero-power" in impl):
                hits.append((i, "block hook failed: %s" % impl[:120]))
        if pid == "C13" and kind == "hook.lock.end" and "comet=" in impl and "comet=ok" not in impl:
            hits.append((i, "validator update list refused by CometBFT: %s" % impl[-60:]))
        if kind != "dump.lock" or not impl.startswith("=> lock "):
            continue
        d = parse_lock_dump(impl)
        V = d["_vals"]
        # a dump taken inside a block (before the end-of-block hook): the recorded set still is the previous block's, so only
        # the statements that hold at every moment are evaluated on it
        mid = kv(op).get("mid") == "1"
        if mid and pid == "C13":
            continue
        if pid == "C11":
            denoms = set(led.locked) | set(d["_slashed"]) | set(led.delivered_unl)
            for v in V.values():
                denoms |= set(v["coins"])
            for dn in sorted(denoms):
                held = sum(v["coins"].get(dn, 0) for v in V.values())
                queued = sum(int(u[3]) for (_, u) in d["_uq"] if denom_of(u[1]) == dn) + sum(int(u[3]) for u in d["_qunl"] if denom_of(u[1]) == dn)
                total = held + d["_slashed"].get(dn, 0) + queued + led.delivered_unl.get(dn, 0)
                if total != led.locked.get(dn, 0):
                    hits.append((i, "conservation broken for %s: locked %d != held %d + slashed %d + queued %d + delivered %d" % (
                        dn, led.locked.get(dn, 0), held, d["_slashed"].get(dn, 0), queued, led.delivered_unl.get(dn, 0))))
            for a, v in V.items():
                for dn, x in v["coins"].items():
                    if x < 0:
                        hits.append((i, "negative holding %s %s" % (a, dn)))
            for dn, x in d["_slashed"].items():
                if x < 0:
                    hits.append((i, "negative slashed %s" % dn))
        if pid == "C12":
            goat, gas, remain = d["_pool"]
            if goat < 0 or gas < 0 or remain < 0:
                hits.append((i, "negative reward pool goat=%d gas=%d remain=%d" % (goat, gas, remain)))
            acc = sum(v["reward"] + v["gas"] for v in V.values())
            if any(v["reward"] < 0 or v["gas"] < 0 for v in V.values()):
                hits.append((i, "negative accrued reward"))
            queued = sum(int(r[2]) + int(r[3]) for r in d["_qrew"])
            lhs = led.remain0 + led.grants + led.gasrev
            rhs = goat + gas + remain + acc + queued + led.claimed
            if lhs != rhs:
                hits.append((i, "reward conservation broken: granted+gas %d != pools+accrued+claimed %d" % (lhs, rhs)))
        if pid == "C13":
            S = d["_set"]
            mv = led.params.get("maxvals", 1 << 30)
            if len(S) > mv:
                hits.append((i, "recorded set larger than MaxValidators"))
            for a, p in S.items():
                v = V.get(a)
                if v is None or v["status"] != "active" or v["power"] != p or p <= 0:
                    hits.append((i, "set member %s not active with its current positive power (set %d, validator %s)" % (a, p, v and (v["status"], v["power"]))))
            rank = sorted(d["_rank"], key=lambda e: (e[0], bytes.fromhex(e[1])), reverse=True)
            top = [a for (_, a) in rank[:mv]]
            if sorted(top) != sorted(S.keys()):
                hits.append((i, "recorded set is not the top-%d of the ranking: set=%s top=%s" % (mv, sorted(S.keys()), sorted(top))))
            for p, a in d["_rank"]:
                v = V.get(a)
                if v is None or v["status"] not in ("pending", "active") or v["power"] != p or p <= 0:
                    hits.append((i, "ranking entry (%d,%s) does not match an eligible validator with that positive power: %s" % (p, a, v and (v["status"], v["power"]))))
            ranked = {a for (_, a) in d["_rank"]}
            for a, v in V.items():
                # "no eligible non-member with more power than a member": an eligible validator (active or pending with
                # positive power) that the ranking does not list can never be compared with the members
                if v["status"] in ("pending", "active") and v["power"] > 0 and a not in ranked:
                    hits.append((i, "eligible validator %s (%s, power %d) is missing from the power ranking" % (a, v["status"], v["power"])))
        if pid == "C14":
            ranked = {a for (_, a) in d["_rank"]}
            for a, v in V.items():
                if v["status"] in ("tombstoned", "downgrade", "inactive") and (v["power"] != 0 or a in ranked or a in d["_set"] and v["status"] == "tombstoned"):
                    if v["power"] != 0 or a in ranked:
                        hits.append((i, "%s validator %s has power %d / ranked=%s" % (v["status"], a, v["power"], a in ranked)))
        if pid == "C15":
            ranked15 = {a for (_, a) in d["_rank"]}
            for a, v in V.items():
                # "a validator that drops below a threshold leaves the candidate set immediately with zero power" - and an
                # exited validator never comes back: no power, no ranking entry, not in the recorded set
                if v["status"] == "inactive" and (v["power"] != 0 or a in ranked15 or (a in d["_set"] and not mid)):
                    hits.append((i, "exited validator %s still has power %d / ranked=%s / in the set=%s" % (a, v["power"], a in ranked15, a in d["_set"])))
            for u in d["_qunl"]:
                t0 = led.unlock_req_time.get(u[0])
                if t0 is not None and led.now < t0 + led.params.get("unlock", 0):
                    hits.append((i, "unlock %s released before the unlock period" % u[0]))
            if len(set(led.delivered_ids)) != len(led.delivered_ids):
                hits.append((i, "an unlock was delivered twice"))
            for t, u in d["_uq"]:
                t0 = led.unlock_req_time.get(u[0])
                if t0 is not None and t < t0 + led.params.get("unlock", 0):
                    hits.append((i, "unlock %s queued with maturity before request time + unlock period" % u[0]))
    return hits[:20]


for _p in ("C11", "C12", "C13", "C14", "C15"):
    MONITORS[_p] = mon_locking


# ------------------------------------------------------------------------- bridge monitors
def parse_btc_dump(line):
    body = line[3:] if line.startswith("=> ") else line
    d = {}
    for tok in body.split(" ")[1:]:
        if "=" in tok:
            k, v = tok.split("=", 1)
            d[k] = v
    p = d.get("params", "0|0|0|0|").split("|")
    d["_params"] = dict(min=int(p[0]), conf=int(p[1]), rate=int(p[2]), max=int(p[3]))
    d["_deposited"] = {(x.split("|")[0], int(x.split("|")[1])): int(x.split("|")[2]) for x in _lst(d.get("deposited", "-"))}
    W = {}
    for x in _lst(d.get("w", "-")):
        f = x.split("|")
        W[int(f[0])] = dict(addr=f[1], amount=int(f[2]), price=int(f[3]), status=int(f[4]), receipt=f[5])
    d["_w"] = W
    d["_qdep"] = [x.split("|") for x in _lst(d.get("qdep", "-"))]
    d["_qpaid"] = [x.split("|") for x in _lst(d.get("qpaid", "-"))]
    d["_qrej"] = [int(x) for x in _lst(d.get("qrej", "-"))]
    d["_hashes"] = {int(x.split("|")[0]): x.split("|")[1] for x in _lst(d.get("hashes", "-"))}
    return d


W_EDGES = {1: {1, 3, 2, 4, 5}, 3: {3, 2, 4, 5}, 2: {2, 5}, 4: {4}, 5: {5}}  # pending 1, processing 2, canceling 3, canceled 4, paid 5


def mon_bridge(pid, run):
    hits = []
    last_w = {}
    delivered = []  # sys txs delivered with commit=1
    paid_notices, refund_notices, dep_notices = [], [], []
    nonce_next = None
    reused = set()
    requested = set()
    for i, (op, impl) in enumerate(zip(run.ops, run.impl)):
        kind = op.split(" ")[1]
        a = kv(op)
        if kind == "reset":
            last_w, delivered, paid_notices, refund_notices, dep_notices, nonce_next, reused, requested = {}, [], [], [], [], None, set(), set()
            continue
        if kind == "init.btc":
            nonce_next = int(a["nonce"])
        if kind == "req.bridge" and crit(impl).startswith("ok"):
            for it in _lst(a.get("withdraws", "-")):
                wid = int(it.split("|")[0])
                if wid in last_w or wid in requested:
                    reused.add(wid)   # id reuse (also inside one request list) is excluded by the environment hypothesis (bridge contract counter)
                requested.add(wid)
        if kind == "btc.dequeue" and crit(impl).startswith("ok"):
            m = re.search(r"txs=(\S+)", impl)
            txs = _lst(m.group(1) if m else "-")
            if pid == "C06":
                kinds = [t.split("|")[0] for t in txs]
                if kinds.count("nb") > 1 or kinds.count("dep") > 8 or kinds.count("paid") + kinds.count("c2") > 8:
                    hits.append((i, "per-block cap exceeded: %s" % kinds))
                order = {"nb": 0, "dep": 1, "paid": 2, "c2": 3}
                if [order[k] for k in kinds] != sorted(order[k] for k in kinds):
                    hits.append((i, "system transactions out of kind order"))
                if nonce_next is not None:
                    for k, t in enumerate(txs):
                        if int(t.split("|")[1]) != nonce_next + k:
                            hits.append((i, "nonce gap/reuse: expected %d got %s" % (nonce_next + k, t.split("|")[1])))
                            break
            if a.get("commit") == "1":
                if nonce_next is not None:
                    nonce_next += len(txs)
                for t in txs:
                    f = t.split("|")
                    if f[0] == "paid":
                        paid_notices.append(int(f[2]))
                    elif f[0] == "c2":
                        refund_notices.append(int(f[2]))
                    elif f[0] == "dep":
                        dep_notices.append((f[2], int(f[3])))
        if kind != "dump.btc" or not impl.startswith("=> btc "):
            continue
        d = parse_btc_dump(impl)
        if pid == "C20":
            p = d["_params"]
            if p["rate"] >= 10000 or p["min"] < 1000 or p["conf"] < 1:
                hits.append((i, "bridge parameters out of bounds: %s" % p))
        if pid in ("C03", "C20"):
            for q in d["_qdep"]:
                gross = d["_deposited"].get((q[1], int(q[2])))
                amt, tax = int(q[3]), int(q[4])
                if gross is None:
                    hits.append((i, "queued credit %s:%s not in the credited set" % (q[1][:16], q[2])))
                elif amt + tax != gross or tax >= gross or amt <= 0:
                    hits.append((i, "credit not value-exact: amount %d tax %d gross %d" % (amt, tax, gross)))
                elif gross < 1000:
                    hits.append((i, "dust deposit credited: %d" % gross))
        if pid == "C03":
            allc = dep_notices + [(q[1], int(q[2])) for q in d["_qdep"]]
            if len(set(allc)) != len(allc):
                hits.append((i, "a (txid, output) was credited twice"))
        if pid == "C05":
            W = d["_w"]
            for wid, w in W.items():
                if wid in reused:
                    continue
                old = last_w.get(wid)
                if old is not None and w["status"] not in W_EDGES.get(old, set()):
                    hits.append((i, "withdrawal %d moved %d -> %d (not an allowed edge)" % (wid, old, w["status"])))
            for wid in last_w:
                if wid not in W:
                    hits.append((i, "withdrawal %d disappeared" % wid))
            last_w = {wid: w["status"] for wid, w in W.items()}
            paid_all = paid_notices + [int(q[0]) for q in d["_qpaid"]]
            ref_all = refund_notices + d["_qrej"]
            for wid in set(paid_all) | set(ref_all):
                if wid in reused:
                    continue
                if paid_all.count(wid) + ref_all.count(wid) > 1:
                    hits.append((i, "withdrawal %d notified more than once (paid %d, refund %d)" % (wid, paid_all.count(wid), ref_all.count(wid))))
            for wid, w in W.items():
                if wid in reused:
                    continue
                if w["status"] == 5 and paid_all.count(wid) != 1:
                    hits.append((i, "paid withdrawal %d has %d paid notices" % (wid, paid_all.count(wid))))
                if w["status"] == 4 and ref_all.count(wid) != 1:
                    hits.append((i, "cancelled withdrawal %d has %d refund notices" % (wid, ref_all.count(wid))))
        if pid == "C06":
            hs = sorted(d["_hashes"])
            if hs and hs != list(range(hs[0], hs[-1] + 1)):
                hits.append((i, "voted block hashes have a gap"))
            if hs and int(d.get("tip", "0")) != hs[-1]:
                hits.append((i, "tip is not the highest voted height"))
    return hits[:20]


for _p in ("C03", "C05", "C06", "C20"):
    MONITORS[_p] = mon_bridge


def div_exact_kinds(kinds):
    def f(w):
        return w["op"].split(" ")[1] in kinds
    return f


DIV_RULES["C17"] = div_exact_kinds({"addr.decode", "addr.deposit", "addr.verify", "q.depositaddr"})
DIV_RULES["C20"] = div_exact_kinds({"btc.validateparams"})


def div_c03(w):
    """model accepts a deposit batch only under the conditions of C03_accept_implies; the implementation
    crediting what the model rejects is a deposit credited without them"""
    return w["op"].split(" ")[1] == "tx.deposits" and crit(w["impl"]) == "ok" and crit(w["model"]) != "ok"


def div_c05(w):
    k = w["op"].split(" ")[1]
    return k in ("tx.process", "tx.replace", "tx.finalize", "tx.approve") and crit(w["impl"]) == "ok" and crit(w["model"]) != "ok"


def differing_items(impl, model):
    """list items (comma separated, per key=value token) present on one side only"""
    out = []
    ta, tb = crit(impl).split(" "), crit(model).split(" ")
    for x, y in zip(ta, tb):
        if x != y and "=" in x and "=" in y:
            k = x.split("=", 1)[0]
            xs, ys = set(x.split("=", 1)[1].split(",")), set(y.split("=", 1)[1].split(","))
            out += [(k, i, "impl") for i in xs - ys] + [(k, i, "model") for i in ys - xs]
    return out


def div_c03_full(w):
    """(a) a batch credited that the model rejects (C03_accept_implies); (b) a credit whose amount/tax differs from
    the model's, which is proved to be the property's formula (C03_value_exact, C20.tax_formula): the deposit is
    credited with a value other than the one the property prescribes"""
    if div_c03(w):
        return True
    k = w["op"].split(" ")[1]
    if k in ("btc.dequeue", "dump.btc"):
        return any(it.startswith("dep|") or key in ("qdep", "deposited") for key, it, _ in differing_items(w["impl"], w["model"]))
    return False


DIV_RULES["C03"] = div_c03_full
DIV_RULES["C05"] = div_c05


# ------------------------------------------------------------------------- application-layer monitors
VOTED_KINDS = {"tx.hashes", "tx.pubkey", "tx.process", "tx.replace", "tx.consolidate"}
RELAYER_NS = ("goat.bitcoin.", "goat.relayer.")


def parse_rel_dump(line):
    body = line[3:] if line.startswith("=> ") else line
    d = {}
    for tok in body.split(" ")[1:]:
        if "=" in tok:
            k, v = tok.split("=", 1)
            d[k] = v
    d["_voters"] = _lst(d.get("voters", "-"))
    d["_recs"] = {x.split("|")[0]: int(x.split("|")[2]) for x in _lst(d.get("recs", "-"))}
    d["_on"], d["_off"] = _lst(d.get("on", "-")), _lst(d.get("off", "-"))
    return d


def mon_app(pid, run):
    hits = []
    last_rel = None
    voted_ok = 0
    in_block_fault = False
    pre_dumps, post = {}, None
    halted = False
    for i, (op, impl) in enumerate(zip(run.ops, run.impl)):
        kind = op.split(" ")[1]
        a = kv(op)
        c = crit(impl)
        if kind == "reset":
            last_rel, voted_ok, pre_dumps, halted = None, 0, {}, False
            continue
        if impl.strip() == "=> panic-recovered" and pid == "C19":
            hits.append((i, "the harness itself had to recover a panic of the real code outside any transaction: %s" % op[:80]))
        if pid in ("C08", "C19") and kind == "a.prepare" and c != "ok":
            hits.append((i, "the node's own PrepareProposal handler %s with %s of this block's transactions in its mempool (no engine fault scripted)" % (
                "never returned (node stuck building its proposal)" if c == "hang" else "failed: " + impl[3:120], a.get("admitted"))))
        if pid in ("C08", "C19") and kind == "a.walk":
            vs = _lst(a.get("verdicts", "-"))
            m = re.search(r"sel=(\S+)", c)
            nsel = len(_lst(m.group(1))) if m else 0
            if c == "hang":
                hits.append((i, "the PrepareProposal handler never returned on a mempool of %d entries (verdicts %s)" % (len(vs), ",".join(vs)[:80])))
            elif c.startswith("ok") and nsel > 15:
                hits.append((i, "the PrepareProposal handler selected %d mempool transactions: with the block message the proposal exceeds the 16 every validator accepts" % nsel))
            elif not c.startswith("ok") and "e" not in vs:
                hits.append((i, "the PrepareProposal handler failed on a mempool whose removals all succeed: %s" % impl[:120]))
        if pid == "C19" and kind == "a.failiso" and a.get("same") == "0":
            hits.append((i, "a failed transaction changed module state: the same block without it ends in another state (%s)" % a.get("detail")))
        if pid == "C07" and kind == "a.det" and a.get("same") == "0":
            hits.append((i, "same block, same state, different result: %s" % a.get("detail")))
        if pid == "C13" and kind == "a.export" and a.get("same") == "0" and re.match(r"(state-differs:lock:|initial-validator-set-differs|imported-chain-halts)", a.get("detail", "")):
            hits.append((i, "a chain started from the exported state does not carry the same ranking / validator set (the reported set stops being the top-K of the module's record): %s" % a.get("detail")))
        if pid == "C12" and kind == "a.export" and a.get("same") == "0" and a.get("detail", "").startswith("reward-total-differs"):
            hits.append((i, "reward value is lost or created when the chain is restarted from its exported state (pools + accrued + queued payouts, before/after): %s" % a.get("detail")))
        if pid == "C18" and kind == "a.export" and a.get("same") == "0":
            hits.append((i, "export/import is not an identity: %s" % a.get("detail")))
        if pid == "C19" and kind == "a.process" and a.get("own") == "1" and a.get("honest") == "1" and a.get("newstatus") == "VALID" and c != "ok":
            hits.append((i, "the proposal built by the node's own PrepareProposal handler (%d transactions) is refused by ProcessProposal: no block can be decided while these transactions are pending: %s" % (
                len(_lst(a.get("kinds", "-"))), impl[:100])))
        if pid == "C02" and kind == "a.export" and a.get("same") == "0" and re.match(r"state-differs:rel:(seq|epoch|randao|acc):", a.get("detail", "")):
            hits.append((i, "a chain restarted from its exported state does not carry the vote counters (sequence / epoch / randomness / accepted flag) over: votes accepted before the restart verify again: %s" % a.get("detail")))
        if pid == "C08" and kind == "a.process" and a.get("honest") == "1" and a.get("newstatus") == "VALID" and c != "ok":
            hits.append((i, "honest proposal rejected: %s" % impl[:100]))
        if pid == "C10":
            names = _lst(a.get("msgs", "-"))
            foreign = [n for n in names if not n.startswith(RELAYER_NS)]
            if kind == "tx.generic" and c == "ok":
                hits.append((i, "a transaction with non-relayer messages took effect: %s" % names))
            if kind == "a.checktx" and c == "ok" and (foreign or a.get("memo", "0") != "0" or a.get("signers", "1") != "1"):
                hits.append((i, "mempool admitted a transaction it must refuse: msgs=%s memo=%s signers=%s" % (names, a.get("memo"), a.get("signers"))))
            if kind.startswith("tx.") and kind not in ("tx.ethblock", "tx.generic") and c == "ok" and a.get("ante"):
                if a.get("memo", "0") != "0" or a.get("sigok") == "0" or a.get("seqok") == "0" or a.get("signer") != a.get("proposer"):
                    hits.append((i, "a relayer transaction passed although memo/signature/sequence/signer is wrong"))
        if pid == "C19" and kind.startswith("hook.") and c not in ("n/a",) and not c.startswith("ok"):
            hits.append((i, "block hook failed: %s" % impl[:100]))
        if kind == "a.blockstart":
            in_block_fault = False
        if kind == "a.end":
            st = (a.get("newstatus"), a.get("fcustatus"))
            scripted = st[0] in ("ERROR", "INVALID") or st[1] in ("ERROR", "INVALID")
            if c.startswith("halt"):
                halted = True
                if pid in ("C19", "C13") and not scripted:
                    hits.append((i, "block processing failed without an engine fault: %s" % impl[:120]))
                if pid == "C16" and not scripted and re.search(r"too-many|too_many|delete_too_many", impl):
                    hits.append((i, "relayer end-of-block logic failed: %s" % impl[:120]))
            else:
                if pid == "C09" and scripted:
                    hits.append((i, "block committed although the engine answered %s/%s" % st))
                m = re.search(r"eng=(\S+)", impl)
                if pid == "C09" and m:
                    calls = m.group(1).split(",")
                    np = [x for x in calls if x.startswith("np:")]
                    fcu = [x for x in calls if x.startswith("fcu:")]
                    if len(np) != 1 or len(fcu) != 1:
                        hits.append((i, "engine notified %s" % calls))
                    else:
                        h, s_, f = fcu[0][4:].split("/")
                        if h != np[0][3:] or s_ != f:
                            hits.append((i, "engine told head %s safe %s finalized %s after payload %s" % (h[:16], s_[:16], f[:16], np[0][3:19])))
                pre_dumps = {}
        if kind.startswith("dump.") and pid == "C09":
            if halted:
                if kind in pre_dumps and pre_dumps[kind] != impl:
                    hits.append((i, "state changed although the block was not committed (%s)" % kind))
                if kind == "dump.goat":
                    halted = False
            else:
                pre_dumps[kind] = impl
        if kind in VOTED_KINDS and c == "ok":
            voted_ok += 1
        if kind == "dump.rel" and impl.startswith("=> rel "):
            d = parse_rel_dump(impl)
            if pid == "C02":
                if last_rel is not None and int(d["seq"]) != int(last_rel["seq"]) + voted_ok:
                    hits.append((i, "sequence moved from %s to %s although %d voted proposals were accepted" % (last_rel["seq"], d["seq"], voted_ok)))
                voted_ok = 0
                last_rel = d
            if pid == "C16":
                prop, voters, recs = d.get("prop"), d["_voters"], d["_recs"]
                if prop in voters:
                    hits.append((i, "proposer listed among the voters"))
                if len(set(voters)) != len(voters):
                    hits.append((i, "duplicate voter"))
                for m_ in [prop] + voters:
                    if recs.get(m_) not in (3, 4):
                        hits.append((i, "member %s has no activated/off-boarding record (%s)" % (m_, recs.get(m_))))
                if set(d["_on"]) & set([prop] + voters):
                    hits.append((i, "on-boarding voter already a member"))
                if not set(d["_off"]) <= set(recs):
                    hits.append((i, "off-boarding queue names an unknown voter"))
        if pid == "C16" and kind == "hook.rel.end" and not c.startswith("ok"):
            hits.append((i, "relayer end-of-block logic failed: %s" % impl[:80]))
    return hits[:20]


for _p in ("C02", "C07", "C08", "C09", "C10", "C16", "C18", "C19"):
    MONITORS[_p] = mon_app

_prev13 = MONITORS["C13"]


def mon_c13_all(pid, run):
    return (_prev13(pid, run) + mon_app(pid, run))[:20]


MONITORS["C13"] = mon_c13_all

_prev12 = MONITORS["C12"]


def mon_c12_all(pid, run):
    # the ledger of the keeper-level monitor is fed by `req.lock` / `lock.dequeue` operations, which the whole-application
    # streams do not have: there only the export/import comparison of the reward total is evaluated
    if any(o.split(" ")[1] == "a.blockstart" for o in run.ops[:400] if " " in o):
        return mon_app(pid, run)
    return _prev12(pid, run)


MONITORS["C12"] = mon_c12_all


def div_accepts(kinds):
    def f(w):
        return w["op"].split(" ")[1] in kinds and crit(w["impl"]).startswith("ok") and not crit(w["model"]).startswith("ok")
    return f


DIV_RULES["C02"] = div_c01
DIV_RULES["C08"] = div_accepts({"a.process"})
DIV_RULES["C10"] = div_accepts({"a.process", "a.checktx", "tx.generic", "tx.hashes", "tx.pubkey", "tx.deposits", "tx.process", "tx.replace", "tx.finalize", "tx.approve", "tx.consolidate", "tx.newvoter", "tx.accept", "tx.ethblock"})
def div_c09(w):
    k = w["op"].split(" ")[1]
    if k == "a.end":     # committed although the model (engine_fault_not_committed) does not commit
        if crit(w["impl"]).startswith("ok") and crit(w["model"]).startswith("halt"):
            return True
        # every operation before this one agreed, so both sides record the same head: a committed block at whose end the
        # engine was told anything but that head (its parent as safe and finalised block) breaks the property as stated
        ei, em = re.search(r"eng=(\S+)", crit(w["impl"])), re.search(r"eng=(\S+)", crit(w["model"]))
        return bool(crit(w["impl"]).startswith("ok") and ei and em and ei.group(1) != em.group(1))
    if k == "tx.ethblock":   # the head moved by a payload the model refuses (head_only_by_child)
        return crit(w["impl"]) == "ok" and crit(w["model"]) != "ok"
    if k == "dump.goat":
        return crit(w["impl"]) != crit(w["model"])
    return False


DIV_RULES["C09"] = div_c09


def div_c07(w):
    """an execution-block message that is honest in everything the state transition may look at, whose payload timestamp is
    ahead of this machine's clock (`tsahead=1`): the model (whose transition has no clock at all) and every replica whose
    clock is not behind execute it; an implementation that answers differently makes the result of a committed block depend
    on the wall clock of the replica"""
    return w["op"].split(" ")[1] == "tx.ethblock" and " tsahead=1" in w["op"] and crit(w["impl"]) != crit(w["model"])


DIV_RULES["C07"] = div_c07


def div_c14(w):
    """who is jailed for downtime / tombstoned for double-signing by a begin-block hook is pinned exactly by the
    model (theorems downtime_exact, non_active_not_counted, evidence_tombstones, stale_evidence_ignored,
    tombstoned_not_slashed_again): the implementation punishing a validator the model does not (or the reverse)
    on the same votes and evidence is a concrete failing history"""
    if w["op"].split(" ")[1] != "hook.lock.begin":
        return False
    return any(k == "pun" for k, _, _ in differing_items(w["impl"], w["model"]))


DIV_RULES["C14"] = div_c14


DIV_RULES["C18"] = lambda w: w["op"].split(" ")[1] == "a.export" and ("lr=0" in crit(w["impl"]) or "br=0" in crit(w["impl"]))


def div_c06(w):
    """block-hash batches: the model accepts only a batch that starts right above the tip (theorem
    blockhashes_gapfree); the implementation recording a batch the model refuses records heights the relayers
    did not vote for.  Hand-over: the delivered system transactions are pinned by btc_dequeue_spec /
    locking_dequeue_spec, so a different hand-over is a different (invented / dropped / reordered) delivery."""
    k = w["op"].split(" ")[1]
    if k == "tx.hashes":
        return crit(w["impl"]) == "ok" and crit(w["model"]) != "ok"
    if k in ("btc.dequeue", "lock.dequeue"):
        return any(key == "txs" for key, _, _ in differing_items(w["impl"], w["model"]))
    if k in ("a.process", "tx.ethblock"):
        # a payload is accepted only if its leading system transactions are byte for byte the due ones and the header
        # counts exactly them (verifyDequeue_exact)
        return crit(w["impl"]) == "ok" and crit(w["model"]) != "ok"
    return False


DIV_RULES["C06"] = div_c06


def div_c15(w):
    """what an unlock files (maturity time, clipped amount) and whether the validator thereby exits are pinned by
    unlock_queued_at_maturity / unlock_time_exact / below_threshold_exits; released-only-when-mature by mature_only /
    immature_stay.  A state dump differing in the time queue, the matured queue or a validator's status, or a
    hand-over differing in its unlock transactions, is an unlock released at another time / a validator not exiting"""
    k = w["op"].split(" ")[1]
    items = differing_items(w["impl"], w["model"])
    if k == "dump.lock":
        for key, it, _ in items:
            if key in ("uq", "qunl"):
                return True
        recs = {}
        for key, it, side in items:
            f = it.split("|")
            if key == "vals" and len(f) > 2:
                recs.setdefault(f[0], {})[side] = f[1]
        if any(len(v) == 2 and v["impl"] != v["model"] for v in recs.values()):
            return True     # a validator's status differs (exiting / not exiting)
    if k == "lock.dequeue":
        return any(key == "txs" and it.startswith("unl|") for key, it, _ in items)
    return False


DIV_RULES["C15"] = div_c15


def div_c16(w):
    """a voter registration the model refuses (newVoter_by_proof: current proposer, pending record, matching key
    hash, valid ECDSA and BLS proofs over the sign-doc of this chain / epoch / registration) but the implementation
    accepts is a voter joining without the proofs the property demands; an end-of-block failure the model
    (endBlocker_never_fails) does not have is a failing history as well"""
    k = w["op"].split(" ")[1]
    if k == "tx.newvoter":
        return crit(w["impl"]) == "ok" and crit(w["model"]) != "ok"
    if k == "hook.rel.end":
        return crit(w["impl"]) != "ok" and crit(w["model"]) == "ok"
    return False


DIV_RULES["C16"] = div_c16


def div_c12(w):
    """the pools after every block are pinned by updateRewardPool_exact / emission / distributeReward_spec: a state
    dump whose reward pools differ from the model's is a block that moved another amount into distribution"""
    if w["op"].split(" ")[1] != "dump.lock":
        return False
    return any(key == "pool" for key, _, _ in differing_items(w["impl"], w["model"]))


DIV_RULES["C12"] = div_c12
DIV_RULES["C04"] = lambda w: w["op"].split(" ")[1] in ("tx.finalize", "tx.deposits") and crit(w["impl"]) == "ok" and crit(w["model"]) != "ok"
