"""Executable monitors: the property's statement evaluated on the *implementation's* observed
behaviour (never on the model's).  A monitor returns a list of (op index, detail)."""
import re


def default_monitor(pid, run):
    return []


def kv(op):
    d = {}
    for tok in op.split(" ")[2:]:
        if "=" in tok:
            k, v = tok.split("=", 1)
            d[k] = v
    return d


def crit(line):
    body = line[3:] if line.startswith("=> ") else line
    return body.split(" ;; ")[0].strip()


# For exact-characterisation properties the model *is* the property's statement (theorem Cxx_exact),
# so a differing verdict of the real function on a concrete input is a concrete failing input.
EXACT_STREAM_KINDS = {
    "C04": {"merkle.verify"},
}


VOTED = {"tx.hashes", "tx.pubkey", "tx.process", "tx.replace", "tx.consolidate"}
QUORUM_CLASSES = ("voters-length", "signature", "sequence", "epoch", "not-proposer", "bitmap-length", "validate", "nil-vote")


def div_c01(w):
    """The model accepts only with a genuine quorum (theorem C01_accept_sound + *_needs_quorum).  The
    implementation accepting a voted message that the model rejects for a quorum-related reason is a
    proposal taking effect without the quorum the property demands."""
    kind = w["op"].split(" ")[1]
    return kind in VOTED and crit(w["impl"]) == "ok" and crit(w["model"]) != "ok" and any(c in w["model"] for c in QUORUM_CLASSES)


DIV_RULES = {"C01": div_c01}


def divergence_is_violation(pid, witness):
    kind = witness["op"].split(" ")[1] if witness.get("op") else ""
    if kind in EXACT_STREAM_KINDS.get(pid, set()):
        return True
    f = DIV_RULES.get(pid)
    return bool(f and f(witness))


def mon_c04(pid, run):
    """C04 independent of the Lean model: recompute the fold in Python with hashlib."""
    import hashlib
    hits = []
    for i, op in enumerate(run.ops):
        if not op.startswith("op merkle.verify"):
            continue
        a = kv(op)
        unhex = lambda s: b"" if s in ("-", "") else bytes.fromhex(s)
        txid, root, proof, idx = unhex(a["txid"]), unhex(a["root"]), unhex(a["proof"]), int(a["index"])
        if len(txid) != 32 or len(root) != 32 or len(proof) % 32 != 0:
            want = False
        else:
            n = len(proof) // 32
            cur, j = txid, idx
            for k in range(n):
                nx = proof[32 * k:32 * k + 32]
                data = cur + nx if j & 1 == 0 else nx + cur
                cur = hashlib.sha256(hashlib.sha256(data).digest()).digest()
                j >>= 1
            want = cur == root and idx < (1 << n)
        got = crit(run.impl[i]) == "1"
        if got != want:
            why = "accepted" if got else "rejected"
            hits.append((i, "VerifyMerkelProof %s although fold==root is %s and index<2^nodes is %s" % (
                why, (len(txid) == 32 and len(root) == 32 and len(proof) % 32 == 0 and cur == root) if len(proof) % 32 == 0 and len(txid) == 32 and len(root) == 32 else "n/a (malformed)",
                idx < (1 << (len(proof) // 32)))))
    return hits


MONITORS = {
    "C04": mon_c04,
}
