"""Property table: theorems (proof obligations), Lean module, correspondence streams per property."""
import os

ALL_CMDS = ["kdrive"]

TRUSTED_BASE = [
    "Lean 4.33 kernel; axioms limited to propext / Classical.choice / Quot.sound (audited per theorem on every run)",
    "hand-written Lean model GoatModel/* (tied to /repo by the differential correspondence run of this check)",
    "Go harness /verif/harness (generators, canonicalisation) and the Lean driver's line protocol",
    "cryptographic primitives are parameters of the model (SHA-256 instantiated by a core-Lean implementation in the driver only)",
]

# streams whose operations carry no state (a failing op is its own minimal replay)
STREAM_STATELESS = {"merkle": True}

PROPS = {
    "C01": {
        "module": "GoatProofs.C01",
        "theorems": [
            "Goat.C01.threshold_spec",
            "Goat.C01.C01_accept_sound",
            "Goat.C01.C01_no_quorum_rejected",
            "Goat.C01.newBlockHashes_needs_quorum",
            "Goat.C01.newPubkey_needs_quorum",
            "Goat.C01.processWithdrawal_needs_quorum",
            "Goat.C01.replaceWithdrawal_needs_quorum",
            "Goat.C01.newConsolidation_needs_quorum",
            "Goat.C01.F1_unchecked_accepts_marks_beyond_voters",
        ],
        "streams": [{"name": "relayer", "quick": 1500, "thorough": 12000, "seeds": 16}],
        "assumptions": [
            "BLS FastAggregateVerify is a parameter of the model (aggVerify); in traces the harness states which keys really signed which document and the driver's oracle answers true exactly for that (keys as a multiset, document equal) - so the model predicts the verdict of the real BLS code",
            "distinctness of the marked voters as *members* needs the group invariant of C16 (voters duplicate-free); positions are distinct by construction",
        ],
    },
    "C04": {
        "module": "GoatProofs.C04",
        "theorems": [
            "Goat.C04.C04_exact",
            "Goat.C04.C04_malformed_rejected",
            "Goat.C04.C04_alias_rejected",
            "Goat.C04.C04_position_binding",
            "Goat.C04.C04_accepted_is_leaf",
            "Goat.C04.F2_unchecked_accepts_alias",
        ],
        "streams": [{"name": "merkle", "quick": 4000, "thorough": 150000, "seeds": 16}],
        "assumptions": [
            "position binding (C04_position_binding) assumes collision resistance of double SHA-256 as an explicit hypothesis (IdealHash), never as an axiom",
            "the Go function is compared with the model on generated inputs only (differential), with real double SHA-256 on both sides",
        ],
    },
}
