"""Property table: theorems (proof obligations), Lean module, correspondence streams per property."""
import os

ALL_CMDS = ["kdrive"]

TRUSTED_BASE = [
    "Lean 4.33 kernel; axioms limited to propext / Classical.choice / Quot.sound (audited per theorem on every run)",
    "hand-written Lean model GoatModel/* (tied to /repo by the differential correspondence run of this check)",
    "Go harness /verif/harness (generators, canonicalisation) and the Lean driver's line protocol",
    "cryptographic primitives are parameters of the model (SHA-256 instantiated by a core-Lean implementation in the driver only)",
]

# streams whose operations carry no state (a failing op is its own minimal replay)
STREAM_STATELESS = {"merkle": True, "addr": False}

PROPS = {
    "C01": {
        "module": "GoatProofs.C01",
        "theorems": [
            "Goat.C01.threshold_spec",
            "Goat.C01.C01_accept_sound",
            "Goat.C01.C01_no_quorum_rejected",
            "Goat.C01.newBlockHashes_needs_quorum",
            "Goat.C01.newPubkey_needs_quorum",
            "Goat.C01.processWithdrawal_needs_quorum",
            "Goat.C01.replaceWithdrawal_needs_quorum",
            "Goat.C01.newConsolidation_needs_quorum",
            "Goat.C01.F1_unchecked_accepts_marks_beyond_voters",
        ],
        "streams": [{"name": "relayer", "quick": 1500, "thorough": 12000, "seeds": 16}],
        "assumptions": [
            "BLS FastAggregateVerify is a parameter of the model (aggVerify); in traces the harness states which keys really signed which document and the driver's oracle answers true exactly for that (keys as a multiset, document equal) - so the model predicts the verdict of the real BLS code",
            "distinctness of the marked voters as *members* needs the group invariant of C16 (voters duplicate-free); positions are distinct by construction",
        ],
    },
    "C11": {
        "module": "GoatProofs.C11",
        "theorems": ["Goat.C11.slash_amount", "Goat.C11.slash_le_holding"],
        "streams": [{"name": "locking", "quick": 2500, "thorough": 40000, "seeds": 16}],
        "assumptions": ["amounts are 256-bit EVM words; totals stay below 2^256 (the overflow panic is modelled as a failed transaction)"],
    },
    "C12": {
        "module": "GoatProofs.C12",
        "theorems": ["Goat.C12.shares_sum_le_pool", "Goat.C12.share_at_most_proportional", "Goat.C12.repeated_halving_eq",
                     "Goat.C12.scheduled_eq", "Goat.C12.emission", "Goat.C12.income", "Goat.C12.updateRewardPool_conserves",
                     "Goat.C12.F5_rounded_shares_exceed_pool"],
        "streams": [{"name": "locking-rewards", "quick": 2500, "thorough": 40000, "seeds": 16},
                    {"name": "locking", "quick": 1500, "thorough": 20000, "seeds": 8}],
        "assumptions": ["vote infos carry non-negative powers with a positive total (CometBFT delivers the last commit of a non-empty set)"],
    },
    "C13": {
        "module": "GoatProofs.C13",
        "theorems": ["Goat.C13.comet_accept_basic", "Goat.C13.toInt64_small", "Goat.C13.F6b_power_2_63_refused"],
        "streams": [{"name": "locking", "quick": 2500, "thorough": 40000, "seeds": 16}],
        "assumptions": ["vote infos and evidence name validators known to the module (they were reported to CometBFT by it)"],
    },
    "C14": {
        "module": "GoatProofs.C14",
        "theorems": ["Goat.C14.non_active_not_counted", "Goat.C14.downtime_exact", "Goat.C14.evidence_tombstones", "Goat.C14.isStale_iff",
                     "Goat.C14.stale_evidence_ignored", "Goat.C14.tombstoned_not_slashed_again", "Goat.C14.tombstone_absorbing_lock"],
        "streams": [{"name": "locking", "quick": 2500, "thorough": 40000, "seeds": 16}],
        "assumptions": [],
    },
    "C15": {
        "module": "GoatProofs.C15",
        "theorems": ["Goat.C15.unlock_amount_bounded", "Goat.C15.unlock_time_exact", "Goat.C15.unlock_time_lower_bound",
                     "Goat.C15.unlock_queued_at_maturity", "Goat.C15.enqueue_files_under_time", "Goat.C15.mature_only",
                     "Goat.C15.immature_stay", "Goat.C15.mature_leave_queue", "Goat.C15.below_threshold_exits"],
        "streams": [{"name": "locking", "quick": 2500, "thorough": 40000, "seeds": 16}],
        "assumptions": ["block time is non-decreasing (CometBFT)", "ExitingDuration >= UnlockDuration (Params.Validate)"],
    },
    "C03": {
        "module": "GoatProofs.C03",
        "theorems": ["Goat.C03.C03_accept_implies", "Goat.C03.C03_value_exact", "Goat.C03.C03_coinbase_only_at_zero",
                     "Goat.C03.hasDeposited_iff", "Goat.C03.newDeposits_go_spec", "Goat.C03.C03_deposit_once"],
        "streams": [{"name": "bitcoin", "quick": 2500, "thorough": 30000, "seeds": 16}],
        "assumptions": ["double SHA-256 collision resistance enters only as the explicit hypothesis IdealHash of the coinbase corollary",
                        "btcd DeserializeNoWitness is re-implemented in the model (BtcTx.parseNoWitness) and tied differentially",
                        "hash160 / taproot tweak values are stated by the harness (computed with btcd / x/crypto directly, independently of x/bitcoin/types)"],
    },
    "C05": {
        "module": "GoatProofs.C05",
        "theorems": ["Goat.C05.terminal_absorbing", "Goat.C05.Respects.trans", "Goat.C05.respects_insert", "Goat.C05.checkOutput_terms",
                     "Goat.C05.process_go_spec", "Goat.C05.process_terms", "Goat.C05.paid_terms", "Goat.C05.approve_spec"],
        "streams": [{"name": "bitcoin", "quick": 2500, "thorough": 30000, "seeds": 16}],
        "assumptions": ["withdrawal ids from the execution layer are fresh (bridge contract counter); id reuse is exercised by the generator but excluded from the monitor",
                        "address decoding is a parameter of the model (tied in C17); fee-rate comparison modelled in exact integers (DESIGN section 7)"],
        "partial": "edges for ReplaceWithdrawal / FinalizeWithdrawal / ProcessBridgeRequest are checked by the monitor and the state comparison, not yet by a Lean theorem",
    },
    "C06": {
        "module": "GoatProofs.C06",
        "theorems": ["Goat.C06.consecutive_number", "Goat.C06.btc_dequeue_spec", "Goat.C06.blockhashes_gapfree", "Goat.C06.locking_dequeue_spec"],
        "streams": [{"name": "bitcoin", "quick": 2000, "thorough": 30000, "seeds": 16}, {"name": "locking", "quick": 1500, "thorough": 20000, "seeds": 8}],
        "assumptions": ["RLP/ABI encoding of system transactions is goat-geth's (fields compared after decoding)"],
        "partial": "VerifyDequeue / unfinalised-proposal clauses are covered by the A-layer stream (app), see DESIGN",
    },
    "C17": {
        "module": "GoatProofs.C17",
        "theorems": ["Goat.C17.v0_roundtrip", "Goat.C17.v0_accept_iff", "Goat.C17.v0_script_injective", "Goat.C17.v1_roundtrip",
                     "Goat.C17.v1_only_ecdsa", "Goat.C17.v1_accept_iff", "Goat.C17.system_script_ecdsa"],
        "streams": [{"name": "addr", "quick": 4000, "thorough": 60000, "seeds": 16}],
        "assumptions": ["SHA-256 / HASH160 / taproot tweak are parameters; 'for no other key/address' reduces to their collision resistance (hypothesis)",
                        "withdrawal address decoding (bech32/base58, btcd) is NOT modelled in Lean: the model's decodeAddr is an oracle stated by the harness from btcutil directly; the real DecodeBtcAddress is compared against it on all four networks"],
        "partial": "address string decoding is translation-validated against btcutil, not proved",
    },
    "C20": {
        "module": "GoatProofs.C20",
        "theorems": ["Goat.C20.validate_establishes", "Goat.C20.requests_preserve_bounds", "Goat.C20.history_preserves_bounds",
                     "Goat.C20.processBridgeRequest_params", "Goat.C20.tax_below_value", "Goat.C20.tax_formula", "Goat.C20.no_dust",
                     "Goat.C20.F8_rate_10000_takes_everything"],
        "streams": [{"name": "bitcoin", "quick": 2000, "thorough": 30000, "seeds": 16}, {"name": "addr", "quick": 2000, "thorough": 20000, "seeds": 8}],
        "assumptions": [],
    },
    "C04": {
        "module": "GoatProofs.C04",
        "theorems": [
            "Goat.C04.C04_exact",
            "Goat.C04.C04_malformed_rejected",
            "Goat.C04.C04_alias_rejected",
            "Goat.C04.C04_position_binding",
            "Goat.C04.C04_accepted_is_leaf",
            "Goat.C04.F2_unchecked_accepts_alias",
        ],
        "streams": [{"name": "merkle", "quick": 4000, "thorough": 150000, "seeds": 16}],
        "assumptions": [
            "position binding (C04_position_binding) assumes collision resistance of double SHA-256 as an explicit hypothesis (IdealHash), never as an axiom",
            "the Go function is compared with the model on generated inputs only (differential), with real double SHA-256 on both sides",
        ],
    },
}
