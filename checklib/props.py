"""Property table: theorems (proof obligations), Lean module, correspondence streams per property."""
import os

ALL_CMDS = ["kdrive"]

TRUSTED_BASE = [
    "Lean 4.33 kernel; axioms limited to propext / Classical.choice / Quot.sound (audited per theorem on every run)",
    "hand-written Lean model GoatModel/* (tied to /repo by the differential correspondence run of this check)",
    "Go harness /verif/harness (generators, canonicalisation) and the Lean driver's line protocol",
    "cryptographic primitives are parameters of the model (SHA-256 instantiated by a core-Lean implementation in the driver only)",
]

# streams whose operations carry no state (a failing op is its own minimal replay)
STREAM_STATELESS = {"merkle": True}

PROPS = {
    "C01": {
        "module": "GoatProofs.C01",
        "theorems": [
            "Goat.C01.threshold_spec",
            "Goat.C01.C01_accept_sound",
            "Goat.C01.C01_no_quorum_rejected",
            "Goat.C01.newBlockHashes_needs_quorum",
            "Goat.C01.newPubkey_needs_quorum",
            "Goat.C01.processWithdrawal_needs_quorum",
            "Goat.C01.replaceWithdrawal_needs_quorum",
            "Goat.C01.newConsolidation_needs_quorum",
            "Goat.C01.F1_unchecked_accepts_marks_beyond_voters",
        ],
        "streams": [{"name": "relayer", "quick": 1500, "thorough": 12000, "seeds": 16}],
        "assumptions": [
            "BLS FastAggregateVerify is a parameter of the model (aggVerify); in traces the harness states which keys really signed which document and the driver's oracle answers true exactly for that (keys as a multiset, document equal) - so the model predicts the verdict of the real BLS code",
            "distinctness of the marked voters as *members* needs the group invariant of C16 (voters duplicate-free); positions are distinct by construction",
        ],
    },
    "C11": {
        "module": "GoatProofs.C11",
        "theorems": ["Goat.C11.slash_amount", "Goat.C11.slash_le_holding"],
        "streams": [{"name": "locking", "quick": 2500, "thorough": 40000, "seeds": 16}],
        "assumptions": ["amounts are 256-bit EVM words; totals stay below 2^256 (the overflow panic is modelled as a failed transaction)"],
    },
    "C12": {
        "module": "GoatProofs.C12",
        "theorems": ["Goat.C12.shares_sum_le_pool", "Goat.C12.share_at_most_proportional", "Goat.C12.repeated_halving_eq",
                     "Goat.C12.scheduled_eq", "Goat.C12.emission", "Goat.C12.income", "Goat.C12.updateRewardPool_conserves",
                     "Goat.C12.F5_rounded_shares_exceed_pool"],
        "streams": [{"name": "locking-rewards", "quick": 2500, "thorough": 40000, "seeds": 16},
                    {"name": "locking", "quick": 1500, "thorough": 20000, "seeds": 8}],
        "assumptions": ["vote infos carry non-negative powers with a positive total (CometBFT delivers the last commit of a non-empty set)"],
    },
    "C13": {
        "module": "GoatProofs.C13",
        "theorems": ["Goat.C13.comet_accept_basic", "Goat.C13.toInt64_small", "Goat.C13.F6b_power_2_63_refused"],
        "streams": [{"name": "locking", "quick": 2500, "thorough": 40000, "seeds": 16}],
        "assumptions": ["vote infos and evidence name validators known to the module (they were reported to CometBFT by it)"],
    },
    "C14": {
        "module": "GoatProofs.C14",
        "theorems": ["Goat.C14.non_active_not_counted", "Goat.C14.downtime_exact", "Goat.C14.evidence_tombstones", "Goat.C14.isStale_iff",
                     "Goat.C14.stale_evidence_ignored", "Goat.C14.tombstoned_not_slashed_again", "Goat.C14.tombstone_absorbing_lock"],
        "streams": [{"name": "locking", "quick": 2500, "thorough": 40000, "seeds": 16}],
        "assumptions": [],
    },
    "C15": {
        "module": "GoatProofs.C15",
        "theorems": ["Goat.C15.unlock_amount_bounded", "Goat.C15.unlock_time_exact", "Goat.C15.unlock_time_lower_bound",
                     "Goat.C15.unlock_queued_at_maturity", "Goat.C15.enqueue_files_under_time", "Goat.C15.mature_only",
                     "Goat.C15.immature_stay", "Goat.C15.mature_leave_queue", "Goat.C15.below_threshold_exits"],
        "streams": [{"name": "locking", "quick": 2500, "thorough": 40000, "seeds": 16}],
        "assumptions": ["block time is non-decreasing (CometBFT)", "ExitingDuration >= UnlockDuration (Params.Validate)"],
    },
    "C04": {
        "module": "GoatProofs.C04",
        "theorems": [
            "Goat.C04.C04_exact",
            "Goat.C04.C04_malformed_rejected",
            "Goat.C04.C04_alias_rejected",
            "Goat.C04.C04_position_binding",
            "Goat.C04.C04_accepted_is_leaf",
            "Goat.C04.F2_unchecked_accepts_alias",
        ],
        "streams": [{"name": "merkle", "quick": 4000, "thorough": 150000, "seeds": 16}],
        "assumptions": [
            "position binding (C04_position_binding) assumes collision resistance of double SHA-256 as an explicit hypothesis (IdealHash), never as an axiom",
            "the Go function is compared with the model on generated inputs only (differential), with real double SHA-256 on both sides",
        ],
    },
}
