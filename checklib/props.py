"""Property table: theorems (proof obligations), Lean module, correspondence streams per property."""
import os

ALL_CMDS = ["kdrive"]

TRUSTED_BASE = [
    "Lean 4.33 kernel; axioms limited to propext / Classical.choice / Quot.sound (audited per theorem on every run)",
    "hand-written Lean model GoatModel/* (tied to /repo by the differential correspondence run of this check)",
    "Go harness /verif/harness (generators, canonicalisation) and the Lean driver's line protocol",
    "cryptographic primitives are parameters of the model (SHA-256 instantiated by a core-Lean implementation in the driver only)",
]

# streams whose operations carry no state (a failing op is its own minimal replay)
STREAM_STATELESS = {"merkle": True, "addr": False}

PROPS = {
    "C01": {
        "module": ["GoatProofs.C01", "GoatProofs.C01S", "GoatProofs.C01X"],
        "theorems": [
            "Goat.C01X.signDoc_binds_explicit", "Goat.C01X.signDoc_binds_all_explicit", "Goat.C01X.signDoc_binds_chain_explicit",
            "Goat.C01X.processWithdrawal_doc_binds_explicit", "Goat.C01X.replaceWithdrawal_doc_binds_explicit",
            "Goat.C01S.methods_prefix_free", "Goat.C01S.preimage_injective", "Goat.C01S.signDoc_binds_or_collision",
            "Goat.C01S.signDoc_binds_all_or_collision", "Goat.C01S.newBlocks_doc_binds_or_collision", "Goat.C01S.newPubkey_doc_binds_or_collision",
            "Goat.C01S.processWithdrawal_doc_binds_or_collision", "Goat.C01S.replaceWithdrawal_doc_binds_or_collision",
            "Goat.C01S.newConsolidation_doc_binds_or_collision", "Goat.C01S.processWithdrawal_accepted_signed_over",
            "Goat.C01S.newBlockHashes_ok_validated", "Goat.C01S.newPubkey_ok_validated", "Goat.C01S.ideal_hash_hyps_inconsistent",
            "Goat.C01.threshold_spec",
            "Goat.C01.C01_accept_sound",
            "Goat.C01.C01_no_quorum_rejected",
            "Goat.C01.newBlockHashes_needs_quorum",
            "Goat.C01.newPubkey_needs_quorum",
            "Goat.C01.processWithdrawal_needs_quorum",
            "Goat.C01.replaceWithdrawal_needs_quorum",
            "Goat.C01.newConsolidation_needs_quorum",
            "Goat.C01.F1_unchecked_accepts_marks_beyond_voters",
        ],
        "streams": [{"name": "relayer", "quick": 1500, "thorough": 12000, "seeds": 16}, {"name": "bitcoin", "quick": 2000, "thorough": 15000, "seeds": 8}],
        "assumptions": [
            "BLS FastAggregateVerify is a parameter of the model (aggVerify); in traces the harness states which keys really signed which document and the driver's oracle answers true exactly for that (keys as a multiset, document equal) - so the model predicts the verdict of the real BLS code",
            "distinctness of the marked voters as *members* needs the group invariant of C16 (voters duplicate-free); positions are distinct by construction",
        ],
    },
    "C11": {
        "module": ["GoatProofs.C11", "GoatProofs.C11H", "GoatProofs.C11P"],
        "theorems": ["Goat.C11P.validate_bounds", "Goat.C11P.validate_complete", "Goat.C11P.validated_fractions_are_nat",
                     "Goat.C11P.Finding.F14_pinned_validation_admits_negative_fraction",
                     "Goat.C11.slash_amount", "Goat.C11.slash_le_holding",
                     "Goat.C11H.lockOne_spec", "Goat.C11H.lock_spec", "Goat.C11H.unlockCore_spec", "Goat.C11H.unlockOne_exact", "Goat.C11H.unlock_spec",
                     "Goat.C11H.slashAll_spec", "Goat.C11H.handleVotes_spec", "Goat.C11H.handleEvidence_spec", "Goat.C11H.dequeueMature_spec",
                     "Goat.C11H.beginBlock_spec", "Goat.C11H.dequeue_spec", "Goat.C11H.processRequests_spec", "Goat.C11H.endBlocker_frame",
                     "Goat.C11H.apply_spec", "Goat.C11H.history", "Goat.C11H.conservation", "Goat.C11H.nonnegativity", "Goat.C11H.conservation_from_genesis"],
        "streams": [{"name": "locking", "quick": 2500, "thorough": 40000, "seeds": 16}],
        "assumptions": ["amounts are 256-bit EVM words; totals stay below 2^256 (the overflow panic is modelled as a failed transaction / failed hook, known finding F12)",
                        "the denomination of an unlock request is the one derived from its token address (types.TokenDenom; hypothesis ReqOK, shown necessary by an example)",
                        "validator store keys are unique and holdings are canonical sdk.Coins (WF; properties of the KV store and of sdk.Coins), slash fractions < 1 (Params.Validate)"],
    },
    "C12": {
        "module": ["GoatProofs.C12", "GoatProofs.C12H", "GoatProofs.C12G"],
        "theorems": ["Goat.C12.shares_sum_le_pool", "Goat.C12.share_at_most_proportional", "Goat.C12.repeated_halving_eq",
                     "Goat.C12.scheduled_eq", "Goat.C12.emission", "Goat.C12.income", "Goat.C12.updateRewardPool_conserves",
                     "Goat.C12.F5_rounded_shares_exceed_pool",
                     "Goat.C12H.updateRewardPool_exact", "Goat.C12H.emitted_eq_min", "Goat.C12H.distributeReward_spec", "Goat.C12H.distributeReward_no_votes",
                     "Goat.C12H.dist_bounds", "Goat.C12H.distributeReward_validator", "Goat.C12H.distributeReward_dust", "Goat.C12H.claimOne_exact", "Goat.C12H.claim_exact",
                     "Goat.C12H.claim_second_pays_zero", "Goat.C12H.dequeue_spec", "Goat.C12H.processRequests_spec", "Goat.C12H.beginBlock_spec", "Goat.C12H.apply_spec",
                     "Goat.C12H.history", "Goat.C12H.conservation", "Goat.C12H.conservation_combined", "Goat.C12H.nonnegativity", "Goat.C12H.conservation_from_genesis", "Goat.C12G.reward_total_survives_restart", "Goat.C12G.dropped_record_loses_its_rewards"],
        "streams": [{"name": "locking-rewards", "quick": 2500, "thorough": 40000, "seeds": 16},
                    {"name": "locking", "quick": 1500, "thorough": 20000, "seeds": 8},
                    {"name": "app-export", "quick": 700, "thorough": 4000, "seeds": 8}],
        "assumptions": ["vote infos carry non-negative powers with a positive total (CometBFT delivers the last commit of a non-empty set)"],
    },
    "C13": {
        "module": ["GoatProofs.C13", "GoatProofs.C13H", "GoatProofs.C13B"],
        "theorems": ["Goat.C13.comet_accept_basic", "Goat.C13.toInt64_small", "Goat.C13.F6b_power_2_63_refused",
                     "Goat.C13H.rankOk_of_derived", "Goat.C13H.endBlocker_never_fails", "Goat.C13H.endBlocker_closed_form", "Goat.C13H.top_powers_descending",
                     "Goat.C13H.valset_is_top", "Goat.C13H.valset_size_le_max", "Goat.C13H.valset_members_active", "Goat.C13H.valset_dominates",
                     "Goat.C13H.valset_dominates_strict", "Goat.C13H.records_after", "Goat.C13H.frame_after", "Goat.C13H.rankOk_preserved",
                     "Goat.C13H.accepted_unless_overflow_or_empty", "Goat.C13H.no_removal_of_non_member", "Goat.C13H.no_zero_power_addition",
                     "Goat.C13H.no_duplicate_pubkey", "Goat.C13H.accepted_iff", "Goat.C13H.rejected_if_empty", "Goat.C13H.sync_after_every_block", "Goat.C13H.sync_genesis",
                     "Goat.ValSet.comet_apply_spec", "Goat.ValSet.rankingDesc_sorted",
                     "Goat.C13B.rankOk_of_inv", "Goat.C13B.start_after_endBlocker", "Goat.C13B.lockOne_inv", "Goat.C13B.unlockCore_inv", "Goat.C13B.onWeightChanged_inv",
                     "Goat.C13B.handleVote_inv", "Goat.C13B.handleEvidence_inv", "Goat.C13B.processRequests_inv", "Goat.C13B.beginBlock_inv", "Goat.C13B.blockStep_tr",
                     "Goat.C13B.between_R", "Goat.C13B.sync_chain", "Goat.C13B.endBlockers_never_fail", "Goat.C13B.start_of_genesis", "Goat.C13B.sync_chain_genesis",
                     "Goat.C13B.jail_negative_endBlocker_fails"],
        "streams": [{"name": "locking", "quick": 2500, "thorough": 40000, "seeds": 16}, {"name": "app-export", "quick": 700, "thorough": 4000, "seeds": 8}],
        "assumptions": ["vote infos and evidence name validators known to the module (they were reported to CometBFT by it)",
                        "the genesis state is an import of a well-formed genesis (C13B.start_of_genesis); from there the invariant is proved for every operation of every block (C13B.*_inv, between_R), so no hypothesis on votes, evidence or requests remains",
                        "downtime jail duration >= 0 (Params.Validate demands >= 1 minute)",
                        "the two excluded failure modes are the recorded known findings F6b (total power above CometBFT's maximum) and F10 (set emptied)"],
    },
    "C14": {
        "module": ["GoatProofs.C14", "GoatProofs.C14H", "GoatProofs.C11P"],
        "theorems": ["Goat.C11P.validate_bounds", "Goat.C11P.validated_fractions_are_nat", "Goat.C14.non_active_not_counted", "Goat.C14.downtime_exact", "Goat.C14.evidence_tombstones", "Goat.C14.isStale_iff",
                     "Goat.C14.stale_evidence_ignored", "Goat.C14.tombstoned_not_slashed_again", "Goat.C14.tombstone_absorbing_lock",
                     "Goat.C14H.evidence_establishes_tomb", "Goat.C14H.tombstone_permanent", "Goat.C14H.tombstone_leaves_valset", "Goat.C14H.tomb_not_slashed_again",
                     "Goat.C14H.tombstoned_forever_from_genesis", "Goat.C14H.tombstoned_leaves_valset_from_genesis", "Goat.C14H.downtime_establishes_jailed",
                     "Goat.C14H.jailed_stays_out", "Goat.C14H.jailed_leaves_valset", "Goat.C14H.rejoin_only_after_jail", "Goat.C14H.lockOne_jailed_exact",
                     "Goat.C14H.activation_only_by_endBlocker", "Goat.C14H.demotion_only_by_beginBlock", "Goat.C14H.slashed_once_per_offence", "Goat.C14H.reactivation_resets"],
        "streams": [{"name": "locking", "quick": 2500, "thorough": 40000, "seeds": 16}],
        "assumptions": [],
    },
    "C15": {
        "module": ["GoatProofs.C15", "GoatProofs.C15H"],
        "theorems": ["Goat.C15.unlock_amount_bounded", "Goat.C15.unlock_time_exact", "Goat.C15.unlock_time_lower_bound",
                     "Goat.C15.unlock_queued_at_maturity", "Goat.C15.enqueue_files_under_time", "Goat.C15.mature_only",
                     "Goat.C15.immature_stay", "Goat.C15.mature_leave_queue", "Goat.C15.below_threshold_exits",
                     "Goat.C15H.inv_grun", "Goat.C15H.released_not_before_maturity", "Goat.C15H.released_after_unlock_period", "Goat.C15H.released_exactly_once",
                     "Goat.C15H.delivered_once", "Goat.C15H.accepted_ids_nodup", "Goat.C15H.released_in_maturity_order", "Goat.C15H.exit_is_immediate",
                     "Goat.C15H.exited_unlock_exact", "Goat.C15H.exited_unlock_queued", "Goat.C15H.exited_stays_withdrawable"],
        "streams": [{"name": "locking", "quick": 2500, "thorough": 40000, "seeds": 16}],
        "assumptions": ["block time is non-decreasing (CometBFT; shown necessary by an example)", "ExitingDuration >= UnlockDuration (Params.Validate)",
                        "unlock request ids are fresh (locking contract counter on the execution layer; shown necessary by an example: the module does not check ids)"],
    },
    "C03": {
        "module": ["GoatProofs.C03", "GoatProofs.C03H", "GoatProofs.C03T", "GoatProofs.C03U"],
        "theorems": ["Goat.C03H.deposited_nodup_invariant", "Goat.C03H.deposited_monotone", "Goat.C03H.deposited_prefix", "Goat.C03H.credited_rejected_forever", "Goat.C03H.credited_batch_rejected", "Goat.C03H.credited_at_most_once", "Goat.C03H.credited_at_most_once_general", "Goat.C03H.credited_recorded", "Goat.C03H.credited_exactly", "Goat.C03H.credited_only_if_verified", "Goat.C03H.credited_only_if_accepted", "Goat.C03H.newDeposits_trace", "Goat.C03H.verifyDeposit_credited_err",
                     "Goat.C03.C03_accept_implies", "Goat.C03.C03_value_exact", "Goat.C03.C03_coinbase_only_at_zero",
                     "Goat.C03.hasDeposited_iff", "Goat.C03.newDeposits_go_spec", "Goat.C03.C03_deposit_once",
                     "Goat.C03T.readVarInt_encode", "Goat.C03T.readVarInt_canonical", "Goat.C03T.readVarInt_shorter", "Goat.C03T.readScript_encode", "Goat.C03T.readScript_canonical",
                     "Goat.C03T.readOuts_encode", "Goat.C03T.readOuts_canonical", "Goat.C03T.readIns_encode", "Goat.C03T.readIns_canonical",
                     "Goat.C03T.parse_serialize", "Goat.C03T.parse_canonical", "Goat.C03T.parse_outs_bounded",
                     "Goat.C03U.serialize_injective", "Goat.C03U.parse_agree", "Goat.C03U.parse_unique", "Goat.C03U.deposit_tx_canonical"],
        "streams": [{"name": "bitcoin", "quick": 2500, "thorough": 30000, "seeds": 16}, {"name": "merkle", "quick": 3000, "thorough": 60000, "seeds": 8}],
        "assumptions": ["double SHA-256 collision resistance enters only in the conclusion of the coinbase corollary (another transaction presented at a position exhibits a collision among the strings hashed by that very run, C04.RunCollision)",
                        "btcd DeserializeNoWitness is re-implemented in the model (BtcTx.parseNoWitness) and tied differentially",
                        "hash160 / taproot tweak values are stated by the harness (computed with btcd / x/crypto directly, independently of x/bitcoin/types)"],
    },
    "C05": {
        "module": ["GoatProofs.C05", "GoatProofs.C05H", "GoatProofs.C03T", "GoatProofs.C03U"],
        "theorems": ["Goat.C05.terminal_absorbing", "Goat.C05.Respects.trans", "Goat.C05.respects_insert", "Goat.C05.checkOutput_terms",
                     "Goat.C05.process_go_spec", "Goat.C05.process_terms", "Goat.C05.paid_terms", "Goat.C05.approve_spec",
                     "Goat.C05H.replace_terms", "Goat.C05H.process_step", "Goat.C05H.replace_step", "Goat.C05H.finalize_step", "Goat.C05H.approve_step",
                     "Goat.C05H.bridge_step", "Goat.C05H.bridge_effects", "Goat.C05H.newDeposits_step", "Goat.C05H.newBlockHashes_step", "Goat.C05H.newPubkey_step",
                     "Goat.C05H.newConsolidation_step", "Goat.C05H.dequeue_spec", "Goat.C05H.dequeue_conserves", "Goat.C05H.history_inv", "Goat.C05H.history_respects",
                     "Goat.C05H.history_edges", "Goat.C05H.history_terminal", "Goat.C05H.C05_history", "Goat.C05H.reused_id_paid_and_refund", "Goat.C05H.duplicate_ids_two_refunds",
                     "Goat.C03T.parse_serialize", "Goat.C03T.parse_canonical", "Goat.C03U.serialize_injective", "Goat.C03U.parse_unique",
                     "Goat.C03U.process_tx_canonical", "Goat.C03U.replace_tx_canonical", "Goat.C03U.consolidation_tx_canonical"],
        "streams": [{"name": "bitcoin", "quick": 2500, "thorough": 30000, "seeds": 16}],
        "assumptions": ["withdrawal ids from the execution layer are fresh (bridge contract counter); id reuse is exercised by the generator but excluded from the monitor",
                        "address decoding is a parameter of the model (tied in C17); fee-rate comparison modelled in exact integers (DESIGN section 7)"],
    },
    "C06": {
        "module": ["GoatProofs.C06", "GoatProofs.C08", "GoatProofs.C06H", "GoatProofs.C06B"], "facts": True,
        "theorems": ["Goat.C06B.rlpBytes_injective", "Goat.C06B.rlpNat_injective", "Goat.C06B.rlp_prefix_free", "Goat.C06B.rlpList_injective", "Goat.C06B.encodeData_injective", "Goat.C06B.encodeSysTx_injective", "Goat.C06B.map_encodeSysTx_eq_iff", "Goat.C06B.leading_bytes_iff", "Goat.C06B.decode_encode", "Goat.C06B.encode_nonce_ne", "Goat.C06B.encodeSysTx_eq_iff_norm", "Goat.C06B.encodeData_sign_blind",
                     "Goat.C06H.fifo_deposits", "Goat.C06H.fifo_paid", "Goat.C06H.fifo_rejected", "Goat.C06H.fifo", "Goat.C06H.handed_prefix", "Goat.C06H.drained_all_handed", "Goat.C06H.nonces_consecutive", "Goat.C06H.nonce_at", "Goat.C06H.nonce_injective", "Goat.C06H.caps", "Goat.C06H.block_cursor", "Goat.C06H.proposal_deterministic", "Goat.C06H.newDeposits_appends", "Goat.C06H.finalizeWithdrawal_appends", "Goat.C06H.approveCancellation_appends", "Goat.C06H.processBridgeRequest_appends", "Goat.C06H.C06_run", "Goat.C06H.locking_fifo_rewards", "Goat.C06H.locking_fifo_unlocks", "Goat.C06H.locking_nonces_consecutive", "Goat.C06H.locking_caps", "Goat.C06H.C06_locking_run", "Goat.C06H.claim_appends", "Goat.C06H.beginBlock_appends",
                     "Goat.C06.consecutive_number", "Goat.C06.btc_dequeue_spec", "Goat.C06.blockhashes_gapfree", "Goat.C06.locking_dequeue_spec", "Goat.C08.verifyDequeue_exact"],
        "streams": [{"name": "bitcoin", "quick": 2000, "thorough": 30000, "seeds": 16}, {"name": "locking", "quick": 1500, "thorough": 20000, "seeds": 8},
                    {"name": "app-proposal", "quick": 700, "thorough": 4000, "seeds": 6},
                    {"name": "relayer", "quick": 1500, "thorough": 12000, "seeds": 8}],
        "assumptions": ["RLP/ABI encoding of system transactions is goat-geth's (fields compared after decoding)"],
    },
    "C17": {
        "module": ["GoatProofs.C17", "GoatProofs.C17A"],
        "theorems": ["Goat.C17A.decode_sound", "Goat.C17A.decode_indep_pubkeyParses", "Goat.C17A.roundtrip_p2wpkh", "Goat.C17A.roundtrip_p2wsh", "Goat.C17A.roundtrip_p2tr", "Goat.C17A.roundtrip_p2pkh", "Goat.C17A.roundtrip_p2sh", "Goat.C17A.polymod_checksum", "Goat.C17A.checksum_unique", "Goat.C17A.convert5to8_convert8to5", "Goat.C17A.base58Decode_encode", "Goat.C17A.base58Encode_decode", "Goat.C17A.checkDecode_encode", "Goat.C17A.foreign_network_rejected", "Goat.C17A.simnet_segwit_rejected", "Goat.C17A.accepted_only_own_network", "Goat.C17A.p2pk_rejected", "Goat.C17A.accepted_canonical", "Goat.C17A.v1_20byte_decodes_to_v0_script", "Goat.C17A.decode_not_injective_on_types", "Goat.C17A.decode_injective_on_types_partial", "Goat.C17A.testnet3_signet_same",
                     "Goat.C17.v0_roundtrip", "Goat.C17.v0_accept_iff", "Goat.C17.v0_script_injective", "Goat.C17.v1_roundtrip",
                     "Goat.C17.v1_only_ecdsa", "Goat.C17.v1_accept_iff", "Goat.C17.system_script_ecdsa"],
        "streams": [{"name": "addr", "quick": 4000, "thorough": 60000, "seeds": 16}, {"name": "bitcoin", "quick": 1500, "thorough": 12000, "seeds": 8}],
        "assumptions": ["SHA-256 / HASH160 / taproot tweak are parameters; 'for no other key/address' reduces to their collision resistance (hypothesis)",
                        "withdrawal address decoding (bech32/base58, btcd) is NOT modelled in Lean: the model's decodeAddr is an oracle stated by the harness from btcutil directly; the real DecodeBtcAddress is compared against it on all four networks"],
        "partial": "the address decoder of the model (GoatModel.Addr) re-implements btcutil/bech32/base58 and is tied to the real DecodeBtcAddress differentially (every addr.decode operation is computed by the model); elliptic-curve parsing of hex public keys is a parameter proved irrelevant",
    },
    "C20": {
        "module": "GoatProofs.C20",
        "theorems": ["Goat.C20.validate_establishes", "Goat.C20.requests_preserve_bounds", "Goat.C20.history_preserves_bounds",
                     "Goat.C20.processBridgeRequest_params", "Goat.C20.tax_below_value", "Goat.C20.tax_formula", "Goat.C20.no_dust",
                     "Goat.C20.F8_rate_10000_takes_everything"],
        "streams": [{"name": "bitcoin", "quick": 2000, "thorough": 30000, "seeds": 16}, {"name": "addr", "quick": 2000, "thorough": 20000, "seeds": 8}],
        "assumptions": [],
    },
    "C02": {
        "module": ["GoatProofs.C02", "GoatProofs.C01S", "GoatProofs.C01X"], "facts": True,
        "theorems": ["Goat.C01X.signDoc_binds_explicit", "Goat.C01X.signDoc_binds_chain_explicit", "Goat.C01S.signDoc_binds_or_collision", "Goat.C01S.signDoc_binds_all_or_collision", "Goat.C02.verify_then_consume", "Goat.C02.newBlockHashes_consumes", "Goat.C02.newConsolidation_consumes", "Goat.C02.newPubkey_consumes", "Goat.C02.processWithdrawal_consumes", "Goat.C02.replaceWithdrawal_consumes",
                     "Goat.C02.nonProposal_keeps_seq", "Goat.C02.acceptProposer_keeps_seq", "Goat.C02.endBlocker_keeps_seq", "Goat.C02.processRequest_keeps_seq",
                     "Goat.C02.accept_needs_current_seq", "Goat.C02.stale_vote_rejected", "Goat.C02.other_epoch_rejected", "Goat.C02.reach_seq_mono",
                     "Goat.C02.accepted_vote_never_again", "Goat.C02.code_writers_closed",
                     "Goat.FactsThms.seq_writers_closed", "Goat.FactsThms.seq_callers_are_the_five_voted_handlers", "Goat.FactsThms.voted_handlers_verify_and_consume"],
        "streams": [{"name": "relayer", "quick": 1500, "thorough": 12000, "seeds": 16}, {"name": "bitcoin", "quick": 1500, "thorough": 12000, "seeds": 8},
                    {"name": "app", "quick": 1200, "thorough": 6000, "seeds": 8}],
        "assumptions": ["BLS aggregate verification is an oracle parameter (see C01)",
                        "the closure of the set of code paths that write the sequence / randao is a regenerated source fact (factgen: SSA call graph of /repo), discharged by `decide` on every run"],
    },
    "C07": {
        "module": ["GoatProofs.C07", "GoatProofs.FactsThms"], "facts": True,
        "theorems": ["Goat.FactsThms.map_ranges_allowlisted", "Goat.FactsThms.nondeterminism_confined",
                     "Goat.FactsThms.app_wiring_exact", "Goat.FactsThms.module_order_exact",
                     "Goat.C07.endBlocker_eq", "Goat.C07.rmState_comm", "Goat.C07.removal_loop_order_insensitive", "Goat.C07.leftovers_nodup",
                     "Goat.C07.endBlocker_removal_order_insensitive", "Goat.C07.endBlocker_any_two_orders", "Goat.C07.endBlocker_order_explicit",
                     "Goat.C07.aggregateLocks_eq", "Goat.C07.aggregateLocks_never_err", "Goat.C07.keys_aggregate_first_occurrence", "Goat.C07.keys_aggregate_nodup",
                     "Goat.C07.aggregate_amount", "Goat.C07.aggregate_amount_perm", "Goat.C07.aggregateLocks_deterministic",
                     "Goat.C07.comet_apply_order_insensitive", "Goat.C07.comet_apply_perm", "Goat.C07.agree_then_comet_agree"],
        "race": {"stream": "app-det", "quick": 200, "thorough": 1500, "seeds": 3, "theorem": "Goat.FactsThms.nondeterminism_confined",
                 "what": "the Go race detector reports a data race while blocks are executed (results then depend on goroutine scheduling)"},
        "streams": [{"name": "app-det", "quick": 700, "thorough": 5000, "seeds": 12}],
        "assumptions": ["the committed multistore (IAVL) and cachekv flush order are cosmos-sdk's (dependency, not modelled); the twin replica runs the same binary in the same process with independently constructed applications and databases",
                        "goroutine interleavings are exercised only as far as the Go scheduler varies them over the repeated executions (each block is executed by two replicas, re-executed, and once more after a restart from disk)",
                        "keys of the recorded validator set are pairwise distinct (they are keys of a KV map)"],
        "partial": "runtime scheduling cannot be exhibited by the model; it is sampled by repeated execution",
    },
    "C16": {
        "module": "GoatProofs.C16",
        "theorems": ["Goat.C16.C16", "Goat.C16.run_preserves", "Goat.C16.endBlocker_never_fails", "Goat.C16.run_endBlocker_never_fails", "Goat.C16.endBlocker_preserves",
                     "Goat.C16.processRequest_preserves", "Goat.C16.newVoter_preserves", "Goat.C16.acceptProposer_preserves", "Goat.C16.verifyProposal_preserves",
                     "Goat.C16.consumeVote_preserves", "Goat.C16.electionDue_iff", "Goat.C16.endBlocker_timing", "Goat.C16.endBlocker_epoch_iff",
                     "Goat.C16.endBlocker_elected", "Goat.C16.endBlocker_members", "Goat.C16.endBlocker_new_voter_was_onBoarding", "Goat.C16.endBlocker_proposer_origin",
                     "Goat.C16.processRequest_keeps_active", "Goat.C16.processRequest_keeps_group", "Goat.C16.newVoter_joined", "Goat.C16.newVoter_by_proof"],
        "streams": [{"name": "relayer", "quick": 2000, "thorough": 15000, "seeds": 16}, {"name": "app", "quick": 900, "thorough": 5000, "seeds": 8}],
        "assumptions": ["the initial (genesis) group satisfies the invariant GroupInv (relayer InitGenesis refuses duplicated voters, a proposer outside the records or among the voters; checked on every state dump by the monitor)",
                        "ECDSA / BLS proof-of-possession verification and the bech32 address encoding are parameters of the model (oracles stated by the harness from the real libraries)"],
    },
    "C08": {
        "module": ["GoatProofs.C08", "GoatProofs.C08P"], "facts": True,
        "theorems": ["Goat.C08.verifyDequeue_exact", "Goat.C08.processProposal_exact", "Goat.C08.accepted_wellformed", "Goat.C08.honest_accepted",
                     "Goat.C08.due_cap", "Goat.C08.no_conflicting_access",
                     "Goat.C08P.walk_spec", "Goat.C08P.select_le", "Goat.C08P.select_length", "Goat.C08P.prepared_size", "Goat.C08P.prepared_accepted",
                     "Goat.C08P.full_proposal_has_16", "Goat.C08P.walkV_ok_sel", "Goat.C08P.walkV_ok_length", "Goat.C08P.walkV_ok_of_no_removeErr", "Goat.C08P.walkV_ok_sound"],
        "race": {"stream": "app-proposal", "quick": 250, "thorough": 2500, "seeds": 4},
        "streams": [{"name": "app-proposal", "quick": 900, "thorough": 6000, "seeds": 12},
                    {"name": "app-proposal-shared", "quick": 400, "thorough": 2500, "seeds": 6}],
        "assumptions": ["the execution client's verdict on the payload is a scripted answer of the fake engine", "transaction decoding (protobuf, RLP of system transactions) is the real code's; the model sees canonical texts"],
    },
    "C09": {
        "module": ["GoatProofs.C09", "GoatProofs.C09H"],
        "theorems": ["Goat.C09H.head_chain", "Goat.C09H.head_chain_strong", "Goat.C09H.history_chain", "Goat.C09H.run_preserves", "Goat.C09H.head_number_monotone", "Goat.C09H.head_number_monotone_committed", "Goat.C09H.no_sibling", "Goat.C09H.no_ancestor", "Goat.C09H.only_ethblock_ops_move_head", "Goat.C09H.end_op_keeps_or_restores", "Goat.C09H.end_op_uncommitted_restores", "Goat.C09H.ethblock_op_moves_to_child", "Goat.C09H.beacon_root_step", "Goat.C09H.beacon_root_tracks", "Goat.C09H.beacon_root_tracks_committed", "Goat.C09H.example_history",
                     "Goat.C09.head_only_by_child", "Goat.C09.nil_payload_rejected", "Goat.C09.finalized_exact", "Goat.C09.uncommitted_block_restores_prestate",
                     "Goat.C09.engine_fault_not_committed", "Goat.C09.committed_needs_engine_ok", "Goat.C09.head_becomes_payload",
                     "Goat.C09.head_unchanged_on_failure", "Goat.C09.only_ethblock_moves_head",
                     "Goat.C09.runTx_keeps_snap", "Goat.C09.txs_keep_snap", "Goat.C09.retry_equals_fault_free"],
        "streams": [{"name": "app-engine", "quick": 900, "thorough": 6000, "seeds": 12}, {"name": "app-malformed", "quick": 900, "thorough": 5000, "seeds": 8}],
        "assumptions": ["the engine is the scripted fake execution layer of the harness (IPC JSON-RPC server); timeouts are exercised as transport errors",
                        "'nothing persists' is CometBFT's contract that a failed FinalizeBlock is not followed by Commit; the harness emulates it and restarts the application from disk"],
    },
    "C10": {
        "module": "GoatProofs.C10", "facts": True,
        "theorems": ["Goat.C10.relayerTxOnly_ok", "Goat.C10.guardStep_ok", "Goat.C10.guard_exact", "Goat.C10.ethblock_never_in_mempool",
                     "Goat.C10.foreign_never_passes", "Goat.C10.registry_closed", "Goat.FactsThms.registry_known",
                     "Goat.FactsThms.relayer_namespace_is_the_known_ten", "Goat.FactsThms.guard_is_second_decorator", "Goat.FactsThms.app_wiring_exact"],
        "streams": [{"name": "app-guard", "quick": 900, "thorough": 6000, "seeds": 12}, {"name": "app-proposal-shared", "quick": 400, "thorough": 2500, "seeds": 6},
                    {"name": "app-proposal", "quick": 700, "thorough": 4000, "seeds": 6}],
        "assumptions": ["signature and account-sequence verification are cosmos-sdk's ante decorators (real code in the stream; facts stated to the model)",
                        "the list of registered sdk.Msg implementations is read from the real interface registry of app.New on every run (msgreg) and the ante chain order from the source (factgen)"],
    },
    "C18": {
        "module": ["GoatProofs.C18", "GoatProofs.C18B"],
        "theorems": ["Goat.C18B.initGenesis_ok_iff", "Goat.C18B.btc_import_export", "Goat.C18B.btc_export_import", "Goat.C18B.BReproduces.content", "Goat.C18B.hashes_below_gap_are_lost", "Goat.C18B.tip_hash_missing_blocks_import", "Goat.C18B.btcRoundTripOk_iff", "Goat.C18B.btcRoundTripOk_of", "Goat.C18B.btcRoundTripOk_iff_BWf", "Goat.C18B.goat_export_import", "Goat.C18B.goat_import_export", "Goat.C18B.goatRoundTripOk_iff", "Goat.C18B.depLt_is_store_order", "Goat.C18B.newBlockHashes_keeps_hash_clauses", "Goat.C18B.c18b_round_trip", "Goat.C18B.Finding.runtime_tax_params_block_import", "Goat.C18B.Finding.export_import_needs_BWf", "Goat.C18B.Finding.duplicate_ids_accepted_silently", "Goat.C18B.Finding.max_tip_cannot_be_reexported",
                     "Goat.C18.initGenesisCore_spec", "Goat.C18.initGenesis_establishes_Derived", "Goat.C18.derived_unique", "Goat.C18.import_export",
                     "Goat.C18.Reproduces.exact", "Goat.C18.export_import", "Goat.C18.initRelayer_ok_iff", "Goat.C18.relayer_import_export",
                     "Goat.C18.RReproduces.queue", "Goat.C18.relayer_export_import", "Goat.C18.derivedOk_iff", "Goat.C18.queueOk_iff",
                     "Goat.C18.lockingRoundTripOk_of", "Goat.C18.relayerRoundTripOk_of", "Goat.C18.roundTripOk_of", "Goat.C18.c18_round_trip_partial",
                     "Goat.C18.Finding.duplicate_key_hash_blocks_import", "Goat.C18.Finding.boarding_order_changes_next_proposer"],
        "streams": [{"name": "app-export", "quick": 700, "thorough": 5000, "seeds": 12}],
        "assumptions": ["reachable states satisfy the invariants the round-trip theorems assume (Derived, WfState, RImportable, QueueDerived): on every export of the streams the model evaluates the executable round-trip check on the current state and the verdict is compared with the real application's export -> InitChain -> export",
                        "bitcoin and goat genesis (GoatModel.GenesisBtc): well-formedness BWf (valid params, registered key, 32-byte hashes forming a gap-free range ending at the tip, duplicate-free keys) is proved exact for the round trip (btcRoundTripOk_iff_BWf); that reachable states satisfy it is carried by C06/C20 step theorems plus the per-export executable check whose verdict (br=) is compared with the real application's",
                        "queries are functions of the module collections; all collections of the four modules are compared"],
        "partial": "'for any reachable state' is carried by the invariants' preservation (C13/C16) plus the per-export executable check, not by one end-to-end theorem",
    },
    "C19": {
        "module": ["GoatProofs.C19", "GoatProofs.C19R"],
        "theorems": ["Goat.C19R.decode_none_iff", "Goat.C19R.decode_total", "Goat.C19R.decode_encode", "Goat.C19R.truncated_final_record", "Goat.C19R.truncated_withdrawal_header_rejected", "Goat.C19R.decode_length_bounds", "Goat.C19R.amounts_reach_every_value", "Goat.C19R.unknown_type_rejected", "Goat.C19R.empty_item_rejected", "Goat.C19R.too_many_items_rejected", "Goat.C19R.decode_encode_grant_false", "Goat.C19R.decode_encode_grant_mod", "Goat.C19R.decode_encode_withdrawal_false", "Goat.C19R.withdrawal_empty_address_last_rejected",
                     "Goat.C19.commitTx_failed", "Goat.C19.failed_msg_changes_nothing", "Goat.C19.failed_tx_changes_nothing", "Goat.C19.failed_last_tx_block_same", "Goat.C19.failed_txs_can_be_dropped",
                     "Goat.C19.ante_rejects_before_handler", "Goat.C19.readonly_ops"],
        "streams": [{"name": "reqdecode", "quick": 3000, "thorough": 40000, "seeds": 8}, {"name": "app-malformed", "quick": 900, "thorough": 6000, "seeds": 12, "quick_seeds": 2}, {"name": "app", "quick": 700, "thorough": 4000, "seeds": 6},
                    {"name": "app-proposal", "quick": 700, "thorough": 5000, "seeds": 8, "quick_seeds": 4}, {"name": "relayer", "quick": 1200, "thorough": 8000, "seeds": 6}],
        "assumptions": ["'cannot crash' is a statement about the Go runtime: decided by running the real application on malformed inputs (a crash of the harness process is the failing input); the model represents recovered panics as outcomes",
                        "per-transaction rollback is cosmos-sdk baseapp's (real code in the app streams)"],
        "partial": "crash freedom is sampled (byte-level mutations of every message type and of proposals), not proved; the rollback half is proved on the model",
    },
    "C04": {
        "module": ["GoatProofs.C04", "GoatProofs.C04I", "GoatProofs.C04L", "GoatProofs.C04S", "GoatProofs.C04O"],
        "theorems": [
            "Goat.C04L.go_sizes", "Goat.C04L.credited_tx_not_node_sized", "Goat.C04S.compress_size", "Goat.C04S.hashBA_size", "Goat.C04S.dsha256_length", "Goat.C04O.out32_dsha256",
            "Goat.C04.C04_exact",
            "Goat.C04.C04_malformed_rejected",
            "Goat.C04.C04_alias_rejected",
            "Goat.C04.C04_position_binding",
            "Goat.C04.C04_accepted_is_leaf",
            "Goat.C04.C04_same_position_same_leaf",
            "Goat.C04.RunCollision.collision64",
            "Goat.C04.collision64_exists",
            "Goat.C04.idealHash_unsatisfiable",
            "Goat.C04.F2_unchecked_accepts_alias",
        ],
        "streams": [{"name": "merkle", "quick": 4000, "thorough": 150000, "seeds": 16}, {"name": "bitcoin", "quick": 2500, "thorough": 20000, "seeds": 8}],
        "assumptions": [
            "position binding (C04_position_binding) assumes only that the hash has 32-byte outputs and concludes 'the leaf at that position, or a collision between one of the strings the verifier hashed and one of the strings the tree's producer hashed (RunCollision)': the usual idealisation (injective on 64-byte inputs) is met by no function (C04I.idealHash_unsatisfiable) so a theorem assuming it would be vacuous, and 'or some collision exists' is always true (C04I.collision64_exists) so a theorem concluding it would be empty",
            "the Go function is compared with the model on generated inputs only (differential), with real double SHA-256 on both sides",
        ],
    },
}


def run_factgen(sh, goenv):
    """regenerate lean/GoatModel/Generated/Facts.lean from /repo's current source (go/packages + the
    real interface registry)"""
    verif = os.path.dirname(os.path.dirname(os.path.abspath(__file__)))
    repo = os.environ.get("VERIF_REPO", "/repo")
    build = os.path.join(verif, ".build")
    os.makedirs(build, exist_ok=True)
    out = os.path.join(verif, "lean", "GoatModel", "Generated", "Facts.lean")
    os.makedirs(os.path.dirname(out), exist_ok=True)
    rc, so, se = sh(["go", "build", "-o", os.path.join(build, "msgreg"), "./cmd/msgreg"], cwd=os.path.join(verif, "harness"), env=goenv, timeout=1500)
    if rc != 0:
        return False, "msgreg build: " + (so + se)[-1500:]
    rc, so, se = sh([os.path.join(build, "msgreg")], env=goenv, timeout=300)
    if rc != 0:
        return False, "msgreg run: " + (so + se)[-1500:]
    open(os.path.join(build, "msgreg.txt"), "w").write(so)
    rc, so, se = sh(["go", "build", "-o", os.path.join(build, "factgen"), "."], cwd=os.path.join(verif, "factgen"), env=goenv, timeout=1500)
    if rc != 0:
        return False, "factgen build: " + (so + se)[-1500:]
    tmp = out + ".new"
    rc, so, se = sh([os.path.join(build, "factgen"), "-repo", repo, "-out", tmp, "-json", os.path.join(build, "facts.json"),
                     "-msgs", os.path.join(build, "msgreg.txt")], env=goenv, timeout=900)
    if rc != 0:
        return False, "factgen run: " + (so + se)[-1500:]
    # message names also as character-code lists (kernel-reducible prefix tests)
    names = [l.split()[1] for l in open(os.path.join(build, "msgreg.txt")) if l.startswith("msg ")]
    txt = open(tmp).read()
    extra = "\n/-- `registeredMsgs` as lists of character codes -/\ndef registeredMsgsC : List (List Nat) := [\n" + ",\n".join(
        "  [" + ", ".join(str(ord(c)) for c in n) + "]" for n in names) + "\n]\n\nend Goat.Facts\n"
    txt = txt.replace("\nend Goat.Facts\n", extra, 1) if "\nend Goat.Facts\n" in txt else txt
    open(tmp, "w").write(txt)
    if not os.path.exists(out) or open(out).read() != open(tmp).read():
        os.replace(tmp, out)
    else:
        os.remove(tmp)
    return True, ""
