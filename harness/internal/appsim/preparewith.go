package appsim

import (
	abci "github.com/cometbft/cometbft/abci/types"
	"github.com/cosmos/cosmos-sdk/baseapp"
	"github.com/cosmos/cosmos-sdk/types/mempool"
)

// PrepareWith runs the application's own PrepareProposal handler (x/goat keeper) for block Height+1 with validator 0 as
// the proposer, on a throw-away branch of the latest state, but with the given mempool and proposal-time verifier instead
// of the application's: the mempool walk of the handler can then be driven with scripted contents and verdicts.
func (s *Sim) PrepareWith(pool mempool.Mempool, ver baseapp.ProposalTxVerifier) ([][]byte, error) {
	h := s.App.GoatKeeper.PrepareProposalHandler(pool, ver, s.App.NodeKeyProvider, s.TxConfig)
	ctx := s.ReadCtx().WithBlockHeight(s.Height + 1).WithBlockTime(s.NextTime())
	res, err := h(ctx, &abci.RequestPrepareProposal{
		MaxTxBytes: 4 << 20, Height: s.Height + 1, Time: s.NextTime(), NextValidatorsHash: s.nextValsHash(),
		ProposerAddress: s.ProposerAddr(0),
	})
	if err != nil {
		return nil, err
	}
	return res.Txs, nil
}
