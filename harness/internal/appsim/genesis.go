package appsim

import (
	"crypto/sha256"
	"encoding/binary"
	"encoding/json"
	"fmt"
	"math/big"
	"time"

	"cosmossdk.io/log"
	"cosmossdk.io/math"
	abci "github.com/cometbft/cometbft/abci/types"
	tmcrypto "github.com/cometbft/cometbft/proto/tendermint/crypto"
	cmtproto "github.com/cometbft/cometbft/proto/tendermint/types"
	cmttypes "github.com/cometbft/cometbft/types"
	"github.com/cosmos/cosmos-sdk/baseapp"
	"github.com/cosmos/cosmos-sdk/codec"
	sdk "github.com/cosmos/cosmos-sdk/types"
	authtypes "github.com/cosmos/cosmos-sdk/x/auth/types"
	"github.com/ethereum/go-ethereum/common"
	ethtypes "github.com/ethereum/go-ethereum/core/types"
	"github.com/ethereum/go-ethereum/core/types/goattypes"
	"github.com/ethereum/go-ethereum/params"
	bitcointypes "github.com/goatnetwork/goat/x/bitcoin/types"
	goatmod "github.com/goatnetwork/goat/x/goat/types"
	lockingtypes "github.com/goatnetwork/goat/x/locking/types"
	relayertypes "github.com/goatnetwork/goat/x/relayer/types"
)

// TokenSpec is one x/locking token of the genesis.
type TokenSpec struct {
	Address   common.Address // denom = lockingtypes.TokenDenom(Address): zero address -> "btc", goat token -> "goat"
	Weight    uint64
	Threshold *big.Int
}

// Config describes the chain to boot. The zero value of every field has a usable default.
type Config struct {
	ChainID string // default "goat-appsim-1"
	Seed    uint64 // all keys, hashes and the randao are derived from it

	// NumVoters is the number of relayer voters besides the proposer; each relayer member has an
	// account key (secp256k1) and a BLS vote key. RelayerKeys[0] is the genesis proposer.
	NumVoters int
	// ShareProposerKey: the genesis relayer proposer uses validator 0's account key (an operator running
	// both roles): one account signs execution-block messages and relayer messages
	ShareProposerKey bool
	// NumValidators is the number of genesis consensus validators (all Active; default 1).
	// Validator 0 is "our node": its key is written to the priv_validator key file so the real
	// PrepareProposal handler can sign MsgNewEthBlock.
	NumValidators int
	// ValidatorPowers gives the genesis power per validator (default 100 each). The genesis
	// locking of validator i is power*1e18/weight of the first token with a non-zero weight.
	ValidatorPowers []uint64

	GenesisTime   time.Time     // default 2024-01-01T00:00:00Z (must be in the past: ProcessProposal rejects payload timestamps > wall clock)
	BlockInterval time.Duration // simulated time between blocks, default 3s
	InitialHeight int64         // default 1

	// x/locking
	MaxValidators int64                      // 0: module default (20)
	// WallClockPayloads: BuildPayload stamps payloads with the machine's clock (what the real PrepareProposal handler does)
	// instead of the simulated block time
	WallClockPayloads bool
	LockingParams func(*lockingtypes.Params) // further overrides
	Tokens        []TokenSpec                // default: goat(weight 1, threshold 1e18), btc/native(weight 12000, threshold 0)
	RewardRemain  *big.Int                   // RewardPool.Remain at genesis (default 0)
	// x/relayer
	ElectingPeriod        time.Duration // 0: module default (10 min)
	AcceptProposerTimeout time.Duration
	RelayerParams         func(*relayertypes.Params)
	// x/bitcoin
	BitcoinParams  func(*bitcointypes.Params)
	BtcStartHeight uint64 // genesis BlockTip (default 100); EthTxQueue.BlockNumber is set to the same value
	BtcFullHistory bool   // genesis lists the hashes of all heights 0..BtcStartHeight
	// x/goat
	EthGenesisNumber uint64 // block number of the execution-layer genesis head

	// MutateGenesis is called with the finished module genesis map just before InitChain.
	MutateGenesis func(cdc codec.JSONCodec, gen map[string]json.RawMessage)
	// ConsensusParams overrides the InitChain consensus params (PubKeyTypes is forced to secp256k1).
	ConsensusParams *cmtproto.ConsensusParams

	// MempoolMaxTxs configures the app-side mempool like goatd does (SenderNonceMempool with
	// max-txs, default 10 as in cmd/goatd/cmd/config.go). Negative: NoOpMempool.
	MempoolMaxTxs int
	// PruneEverything sets the store pruning strategy to "everything" (keeps only recent versions);
	// the default keeps every version, which costs ~25 KiB of heap per block on the MemDB.
	PruneEverything bool
	// BaseAppOptions are appended to the baseapp options.
	BaseAppOptions []func(*baseapp.BaseApp)
	// Logger overrides the capture logger (e.g. log.NewLogger(os.Stderr) for debugging).
	Logger log.Logger
	// Home overrides the temp dir used for the key file and the IPC socket.
	Home string
}

func (c *Config) fill() {
	if c.ChainID == "" {
		c.ChainID = "goat-appsim-1"
	}
	if c.NumValidators <= 0 {
		c.NumValidators = 1
	}
	if c.GenesisTime.IsZero() {
		c.GenesisTime = time.Date(2024, 1, 1, 0, 0, 0, 0, time.UTC)
	}
	if c.BlockInterval == 0 {
		c.BlockInterval = 3 * time.Second
	}
	if c.InitialHeight <= 0 {
		c.InitialHeight = 1
	}
	if c.BtcStartHeight == 0 {
		c.BtcStartHeight = 100
	}
	if c.MempoolMaxTxs == 0 {
		c.MempoolMaxTxs = 10
	}
	if c.Tokens == nil {
		c.Tokens = []TokenSpec{
			{Address: goattypes.GoatTokenContract, Weight: 1, Threshold: new(big.Int).Set(lockingtypes.PowerReduction.BigInt())},
			{Address: goattypes.NativeToken, Weight: 12000, Threshold: new(big.Int)},
		}
	}
}

// BtcBlockHash is the deterministic fake bitcoin block hash the Sim uses for a height.
func BtcBlockHash(seed, height uint64) []byte {
	var b [16]byte
	binary.BigEndian.PutUint64(b[:8], seed)
	binary.BigEndian.PutUint64(b[8:], height)
	h := sha256.Sum256(append([]byte("appsim-btc-block"), b[:]...))
	return h[:]
}

func seedHash(seed uint64, tag string) []byte {
	var b [8]byte
	binary.BigEndian.PutUint64(b[:], seed)
	h := sha256.Sum256(append([]byte(tag), b[:]...))
	return h[:]
}

func valUpdate(pubkey []byte, power int64) abci.ValidatorUpdate {
	return abci.ValidatorUpdate{
		PubKey: tmcrypto.PublicKey{Sum: &tmcrypto.PublicKey_Secp256K1{Secp256K1: append([]byte(nil), pubkey...)}},
		Power:  power,
	}
}

// DefaultConsensusParams returns CometBFT's defaults with secp256k1 validator keys.
func DefaultConsensusParams() *cmtproto.ConsensusParams {
	cp := cmttypes.DefaultConsensusParams().ToProto()
	cp.Validator = &cmtproto.ValidatorParams{PubKeyTypes: []string{cmttypes.ABCIPubKeyTypeSecp256k1}}
	return &cp
}

// buildGenesis produces the app state for a fresh chain.
func buildGenesis(cfg *Config, cdc codec.Codec, def map[string]json.RawMessage,
	vals []ValKey, members []RelayerMember, btcPub *relayertypes.PublicKey, ethGenesis common.Hash,
) (map[string]json.RawMessage, []abci.ValidatorUpdate, error) {
	gen := make(map[string]json.RawMessage, len(def))
	for k, v := range def {
		gen[k] = v
	}

	// ---- auth: one account (with pubkey) per validator and per relayer member, unique numbers
	{
		var st authtypes.GenesisState
		if err := cdc.UnmarshalJSON(gen[authtypes.ModuleName], &st); err != nil {
			return nil, nil, err
		}
		var accs authtypes.GenesisAccounts
		seen := map[string]bool{}
		num := uint64(0)
		for _, v := range vals {
			a := sdk.AccAddress(v.ConsAddr)
			if seen[string(a)] {
				return nil, nil, fmt.Errorf("duplicate account %s", a)
			}
			seen[string(a)] = true
			accs = append(accs, authtypes.NewBaseAccount(a, v.Priv.PubKey(), num, 0))
			num++
		}
		for _, m := range members {
			if seen[string(m.AccAddr)] && cfg.ShareProposerKey {
				continue
			}
			if seen[string(m.AccAddr)] {
				return nil, nil, fmt.Errorf("duplicate account %s", m.AccAddr)
			}
			seen[string(m.AccAddr)] = true
			accs = append(accs, authtypes.NewBaseAccount(m.AccAddr, m.AccPriv.PubKey(), num, 0))
			num++
		}
		packed, err := authtypes.PackAccounts(accs)
		if err != nil {
			return nil, nil, err
		}
		st.Accounts = packed
		gen[authtypes.ModuleName] = cdc.MustMarshalJSON(&st)
	}

	// ---- relayer
	{
		st := relayertypes.DefaultGenesis()
		if cfg.ElectingPeriod != 0 {
			st.Params.ElectingPeriod = cfg.ElectingPeriod
		}
		st.Params.AcceptProposerTimeout = cfg.AcceptProposerTimeout
		if cfg.RelayerParams != nil {
			cfg.RelayerParams(&st.Params)
		}
		rel := &relayertypes.Relayer{
			Epoch: 0, Proposer: members[0].AddrStr, LastElected: cfg.GenesisTime, ProposerAccepted: true,
		}
		for i, m := range members {
			if i > 0 {
				rel.Voters = append(rel.Voters, m.AddrStr)
			}
			st.Voters = append(st.Voters, relayertypes.Voter{
				Address: m.AccAddr, VoteKey: m.BLSPub, Status: relayertypes.VOTER_STATUS_ACTIVATED,
			})
		}
		st.Relayer = rel
		st.Pubkeys = []*relayertypes.PublicKey{btcPub}
		st.Randao = seedHash(cfg.Seed, "appsim-randao")
		st.Sequence = 0
		if err := st.Validate(); err != nil {
			return nil, nil, fmt.Errorf("relayer genesis: %w", err)
		}
		gen[relayertypes.ModuleName] = cdc.MustMarshalJSON(st)
	}

	// ---- bitcoin
	{
		st := bitcointypes.DefaultGenesis()
		if cfg.BitcoinParams != nil {
			cfg.BitcoinParams(&st.Params)
		}
		st.Pubkey = btcPub
		st.BlockTip = cfg.BtcStartHeight
		st.BlockHashes = [][]byte{BtcBlockHash(cfg.Seed, cfg.BtcStartHeight)}
		if cfg.BtcFullHistory {
			// every height down to 0 carries a hash (tip+1 hashes: the most a genesis may list)
			for h := cfg.BtcStartHeight; h > 0; h-- {
				st.BlockHashes = append(st.BlockHashes, BtcBlockHash(cfg.Seed, h-1))
			}
		}
		st.EthTxQueue = bitcointypes.EthTxQueue{BlockNumber: cfg.BtcStartHeight}
		if err := st.Validate(); err != nil {
			return nil, nil, fmt.Errorf("bitcoin genesis: %w", err)
		}
		gen[bitcointypes.ModuleName] = cdc.MustMarshalJSON(st)
	}

	// ---- locking
	var updates []abci.ValidatorUpdate
	{
		st := lockingtypes.DefaultGenesis()
		if cfg.MaxValidators != 0 {
			st.Params.MaxValidators = cfg.MaxValidators
		}
		if cfg.LockingParams != nil {
			cfg.LockingParams(&st.Params)
		}
		var powerDenom string
		var powerWeight uint64
		for _, t := range cfg.Tokens {
			denom := lockingtypes.TokenDenom(t.Address)
			thr := t.Threshold
			if thr == nil {
				thr = new(big.Int)
			}
			st.Tokens = append(st.Tokens, &lockingtypes.TokenGenesis{
				Denom: denom, Token: lockingtypes.Token{Weight: t.Weight, Threshold: math.NewIntFromBigInt(thr)},
			})
			if powerDenom == "" && t.Weight > 0 {
				powerDenom, powerWeight = denom, t.Weight
			}
		}
		for _, v := range vals {
			val := lockingtypes.Validator{
				Pubkey: v.PubKey, Power: v.Power, Reward: math.ZeroInt(), GasReward: math.ZeroInt(),
				Status: lockingtypes.Active,
			}
			if powerDenom != "" && v.Power > 0 {
				amt := math.NewIntFromUint64(v.Power).Mul(lockingtypes.PowerReduction).Quo(math.NewIntFromUint64(powerWeight))
				val.Locking = sdk.NewCoins(sdk.NewCoin(powerDenom, amt))
			}
			st.Validators = append(st.Validators, val)
			updates = append(updates, valUpdate(v.PubKey, int64(v.Power)))
		}
		if cfg.RewardRemain != nil {
			st.RewardPool.Remain = math.NewIntFromBigInt(cfg.RewardRemain)
		}
		if err := st.Validate(); err != nil {
			return nil, nil, fmt.Errorf("locking genesis: %w", err)
		}
		gen[lockingtypes.ModuleName] = cdc.MustMarshalJSON(st)
	}

	// ---- goat
	{
		st := goatmod.DefaultGenesis()
		st.EthBlock = goatmod.ExecutionPayload{
			ParentHash:    make([]byte, 32),
			FeeRecipient:  make([]byte, 20),
			StateRoot:     seedHash(cfg.Seed, "appsim-eth-genesis-state"),
			ReceiptsRoot:  ethtypes.EmptyReceiptsHash.Bytes(),
			LogsBloom:     make([]byte, 256),
			PrevRandao:    make([]byte, 32),
			BlockNumber:   cfg.EthGenesisNumber,
			GasLimit:      30_000_000,
			Timestamp:     uint64(cfg.GenesisTime.Unix()),
			ExtraData:     make([]byte, params.GoatHeaderExtraLengthV0),
			BaseFeePerGas: math.NewInt(params.InitialBaseFee),
			BlockHash:     ethGenesis.Bytes(),
			Transactions:  [][]byte{},
			BeaconRoot:    make([]byte, 32),
		}
		st.BeaconRoot = seedHash(cfg.Seed, "appsim-beacon-root")
		if err := st.Validate(); err != nil {
			return nil, nil, fmt.Errorf("goat genesis: %w", err)
		}
		gen[goatmod.ModuleName] = cdc.MustMarshalJSON(st)
	}

	if cfg.MutateGenesis != nil {
		cfg.MutateGenesis(cdc, gen)
	}
	return gen, updates, nil
}
