package appsim

import (
	"crypto/sha256"
	"encoding/binary"
	"fmt"

	cmtsecp "github.com/cometbft/cometbft/crypto/secp256k1"
	"github.com/cosmos/cosmos-sdk/crypto/keys/secp256k1"
	sdk "github.com/cosmos/cosmos-sdk/types"
	goatcrypto "github.com/goatnetwork/goat/pkg/crypto"
	relayertypes "github.com/goatnetwork/goat/x/relayer/types"
	blst "github.com/supranational/blst/bindings/go"
)

// ValKey is the key material of one consensus validator. The consensus address (20 bytes,
// RIPEMD160(SHA256(compressed pubkey))) doubles as the validator's account address: the goat module
// looks up `accountKeeper.GetAccount(ctx, rpp.ProposerAddress)` and signs MsgNewEthBlock with it.
type ValKey struct {
	Priv     *secp256k1.PrivKey // cosmos-sdk secp256k1 key (same 32 bytes as the cometbft key)
	CmtPriv  cmtsecp.PrivKey    // cometbft flavour of the same key (used for the priv_validator file)
	PubKey   []byte             // 33-byte compressed public key (what x/locking stores in Validator.Pubkey)
	ConsAddr sdk.ConsAddress    // 20 bytes
	AddrStr  string             // bech32 (prefix "goat") of ConsAddr: the MsgNewEthBlock.Proposer string
	Power    uint64             // genesis power
}

// RelayerMember is one relayer (the genesis proposer is index 0, the voters follow).
type RelayerMember struct {
	AccPriv *secp256k1.PrivKey     // tx key
	AccAddr sdk.AccAddress         // 20 bytes
	AddrStr string                 // bech32 "goat1..." exactly as x/relayer stores it (Relayer.Proposer / Relayer.Voters)
	BLS     *goatcrypto.PrivateKey // vote key
	BLSPub  []byte                 // 96-byte compressed G2 public key (Voter.VoteKey)
}

// deriveSecret returns sha256("appsim/" role "/" seed "/" index): all keys are a pure function of
// (Config.Seed, role, index).
func deriveSecret(seed uint64, role string, idx int) []byte {
	h := sha256.New()
	h.Write([]byte("appsim/"))
	h.Write([]byte(role))
	var b [16]byte
	binary.BigEndian.PutUint64(b[:8], seed)
	binary.BigEndian.PutUint64(b[8:], uint64(idx))
	h.Write(b[:])
	return h.Sum(nil)
}

// NewSecpKey derives a secp256k1 key from an arbitrary secret (cometbft's GenPrivKeySecp256k1).
func NewSecpKey(secret []byte) (*secp256k1.PrivKey, cmtsecp.PrivKey) {
	c := cmtsecp.GenPrivKeySecp256k1(secret)
	return &secp256k1.PrivKey{Key: append([]byte(nil), c...)}, c
}

// NewValKey derives validator key #idx for a seed.
func NewValKey(seed uint64, idx int, power uint64) ValKey {
	priv, cpriv := NewSecpKey(deriveSecret(seed, "validator", idx))
	pub := priv.PubKey()
	addr := sdk.ConsAddress(pub.Address())
	return ValKey{
		Priv: priv, CmtPriv: cpriv, PubKey: pub.Bytes(), ConsAddr: addr,
		AddrStr: sdk.AccAddress(addr).String(), Power: power,
	}
}

// NewRelayerMember derives relayer member #idx (0 = genesis proposer) for a seed.
func NewRelayerMember(seed uint64, idx int) RelayerMember {
	priv, _ := NewSecpKey(deriveSecret(seed, "relayer-acc", idx))
	addr := sdk.AccAddress(priv.PubKey().Address())
	sk := blst.KeyGenV3(deriveSecret(seed, "relayer-bls", idx))
	pk := new(goatcrypto.PublicKey).From(sk).Compress()
	if len(pk) != goatcrypto.PubkeyLength {
		panic(fmt.Sprintf("unexpected bls pubkey length %d", len(pk)))
	}
	return RelayerMember{AccPriv: priv, AccAddr: addr, AddrStr: addr.String(), BLS: sk, BLSPub: pk}
}

// NewBitcoinPubkey derives the genesis bitcoin-module (relayer group) public key.
func NewBitcoinPubkey(seed uint64) (*secp256k1.PrivKey, *relayertypes.PublicKey) {
	priv, _ := NewSecpKey(deriveSecret(seed, "btc-pubkey", 0))
	return priv, &relayertypes.PublicKey{Key: &relayertypes.PublicKey_Secp256K1{Secp256K1: priv.PubKey().Bytes()}}
}
