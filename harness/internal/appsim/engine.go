package appsim

import (
	"os"
	"sync/atomic"
	"bytes"
	"encoding/binary"
	"errors"
	"fmt"
	"math/big"
	"net"
	"sync"
	"time"

	"github.com/ethereum/go-ethereum/beacon/engine"
	"github.com/ethereum/go-ethereum/common"
	"github.com/ethereum/go-ethereum/common/hexutil"
	ethtypes "github.com/ethereum/go-ethereum/core/types"
	"github.com/ethereum/go-ethereum/core/types/goattypes"
	"github.com/ethereum/go-ethereum/crypto"
	"github.com/ethereum/go-ethereum/params"
	"github.com/ethereum/go-ethereum/rpc"
)

// Engine method names as used in Call.Method and Fault.Method.
const (
	MethodChainConfig = "getChainConfig"
	MethodNewPayload  = "newPayloadV4"
	MethodFCU         = "forkchoiceUpdatedV3"
	MethodGetPayload  = "getPayloadV4"
	MethodDirectBuild = "directBuild" // in-process payload construction by Sim.BuildProposal (no RPC)
)

// Call is one request received by the fake engine.
type Call struct {
	Seq    int    // running number of the call (index in Calls() unless the log was reset/pruned)
	Method string // one of the Method* constants

	// forkchoiceUpdatedV3
	Head, Safe, Finalized common.Hash
	Attrs                 *engine.PayloadAttributes // nil for the "notify" flavour used by EndBlock

	// getPayloadV4 argument / forkchoiceUpdatedV3 result
	PayloadID engine.PayloadID

	// newPayloadV4 arguments, or the payload returned by getPayloadV4 / directBuild
	BlockHash, ParentHash common.Hash
	Number                uint64
	Timestamp             uint64
	FeeRecipient          common.Address
	Txs                   [][]byte
	ExtraData             []byte
	BeaconRoot            common.Hash
	Requests              [][]byte

	// what the engine answered
	Status string // payload status ("" for getPayload/getChainConfig)
	Err    string // JSON-RPC error text ("" if none)
}

// Fault describes an injected misbehaviour of the engine. The first matching (Method, Match) fault
// whose Skip counter is exhausted is applied to a call; it is consumed after Times applications.
type Fault struct {
	Method string           // required: one of the Method* constants
	Match  func(*Call) bool // optional additional predicate (e.g. c.Attrs != nil to hit only the proposer's FCU)
	Skip   int              // let this many matching calls through first
	Times  int              // number of calls to affect; 0 means 1, negative means forever

	Err             error         // answer with a JSON-RPC error
	Status          string        // answer with this payload status (engine.INVALID / SYNCING / ACCEPTED / VALID)
	ValidationError string        // optional validationError text for Status
	NilPayloadID    bool          // forkchoiceUpdatedV3 with attrs: answer VALID but without a payload id
	Delay           time.Duration // sleep before answering (combined with any of the above, or alone)
}

// BlockScript is what the "execution layer" will put in a payload it builds.
type BlockScript struct {
	Bridge   goattypes.BridgeRequests
	Relayer  goattypes.RelayerRequests
	Locking  goattypes.LockingRequests // a gas request is added automatically unless NoGas or Locking.Gas is non-empty
	ExtraTxs [][]byte                  // user txs appended after the goat (system) txs

	NoGas     bool     // do not add the automatic gas request
	GasAmount *big.Int // amount of the automatic gas request (nil: FakeEngine.GasAmount)

	// RawRequests, when non-nil, replaces the encoded request list verbatim (for malformed lists).
	RawRequests [][]byte
	// Mutate, when non-nil, is applied to the finished envelope before it is stored/returned
	// (the block hash is NOT recomputed afterwards; set it yourself if you need to).
	Mutate func(*engine.ExecutionPayloadEnvelope)
}

// FakeEngine is a scripted stand-in for goat-geth's engine API, served over an IPC socket.
// All exported methods are safe for concurrent use.
type FakeEngine struct {
	mu sync.Mutex

	seed     uint64
	listener net.Listener
	// received counts the JSON-RPC messages read from the socket (one per line), recorded the calls logged by the
	// handlers; offset calibrates messages that never reach a handler (see Settled)
	received, recorded, offset int64
	server   *rpc.Server
	IPCPath  string

	// GasAmount is the default amount of the automatically added gas-revenue request.
	GasAmount *big.Int
	// Strict makes the engine behave like a real node towards payloads it has not built itself:
	// newPayloadV4 answers INVALID for unknown / altered payloads unless the hash was Accept()ed, and
	// forkchoiceUpdatedV3 answers SYNCING for an unknown head. When false (default) everything
	// well-formed is VALID.
	Strict bool
	// GasLimit / BaseFee put in built payloads.
	GasLimit uint64
	BaseFee  *big.Int

	known    map[common.Hash]uint64                           // block hash -> number (genesis, built, received)
	built    map[common.Hash]*engine.ExecutionPayloadEnvelope // payloads built here
	accepted map[common.Hash]bool                             // hand-crafted payload hashes whitelisted in Strict mode
	pending  map[engine.PayloadID]*engine.ExecutionPayloadEnvelope
	counter  uint64 // build counter (enters block hashes and payload ids)

	head, safe, finalized common.Hash

	oneShot  *BlockScript
	byNumber map[uint64]*BlockScript

	faults []*Fault
	calls  []Call
	base   int           // number of log entries already dropped (Call.Seq - base = index in calls)
	order  []common.Hash // FIFO of built hashes, for pruning

	// MaxCalls bounds the call log (0 = unbounded): when exceeded the oldest half is dropped.
	// Call.Seq keeps counting globally. Default 8192.
	MaxCalls int
	// MaxBuilt bounds the number of built payloads remembered for Strict mode / Built(). Default 2048.
	MaxBuilt int
}

// engineAPI is the RPC surface (namespace "engine"); kept separate so that scripting methods of
// FakeEngine are not exposed as RPC methods.
type engineAPI struct{ e *FakeEngine }

// NewFakeEngine creates the engine and starts serving on ipcPath. (genesisHash, genesisNumber) is
// the execution-layer head that x/goat's genesis EthBlock refers to.
func NewFakeEngine(seed uint64, ipcPath string, genesisHash common.Hash, genesisNumber uint64) (*FakeEngine, error) {
	e := &FakeEngine{
		seed:      seed,
		IPCPath:   ipcPath,
		GasAmount: big.NewInt(0),
		GasLimit:  30_000_000,
		BaseFee:   big.NewInt(params.InitialBaseFee),
		known:     map[common.Hash]uint64{genesisHash: genesisNumber},
		built:     map[common.Hash]*engine.ExecutionPayloadEnvelope{},
		accepted:  map[common.Hash]bool{},
		pending:   map[engine.PayloadID]*engine.ExecutionPayloadEnvelope{},
		byNumber:  map[uint64]*BlockScript{},
		head:      genesisHash,
		MaxCalls:  8192,
		MaxBuilt:  2048,
	}
	srv := rpc.NewServer()
	if err := srv.RegisterName("engine", &engineAPI{e}); err != nil {
		return nil, err
	}
	_ = os.Remove(ipcPath)
	l, err := net.Listen("unix", ipcPath)
	if err != nil {
		return nil, err
	}
	cl := &countingListener{Listener: l, n: &e.received}
	go srv.ServeListener(cl)
	e.listener, e.server = cl, srv
	return e, nil
}

// Close stops the IPC server.
func (e *FakeEngine) Close() {
	if e.server != nil {
		e.server.Stop()
	}
	if e.listener != nil {
		_ = e.listener.Close()
	}
}

// GenesisBlockHash is the deterministic hash the Sim uses for the execution-layer genesis head.
func GenesisBlockHash(seed uint64) common.Hash {
	var b [8]byte
	binary.BigEndian.PutUint64(b[:], seed)
	return crypto.Keccak256Hash([]byte("appsim-eth-genesis"), b[:])
}

// ---------------------------------------------------------------- scripting

// SetNextRequests scripts the requests of the next payload the engine builds (one shot).
func (e *FakeEngine) SetNextRequests(bridge goattypes.BridgeRequests, relayer goattypes.RelayerRequests, locking goattypes.LockingRequests) {
	e.SetNext(&BlockScript{Bridge: bridge, Relayer: relayer, Locking: locking})
}

// SetNext scripts the next built payload (one shot; consumed by the next build, whether it comes
// from forkchoiceUpdatedV3 or from Sim.BuildProposal). nil clears it.
func (e *FakeEngine) SetNext(s *BlockScript) { e.mu.Lock(); e.oneShot = s; e.mu.Unlock() }

// SetAt scripts every payload built with the given execution block number (sticky: re-proposals at
// the same number get the same content). A one-shot script takes precedence.
func (e *FakeEngine) SetAt(number uint64, s *BlockScript) {
	e.mu.Lock()
	if s == nil {
		delete(e.byNumber, number)
	} else {
		e.byNumber[number] = s
	}
	e.mu.Unlock()
}

// InjectFault registers a fault (see Fault).
func (e *FakeEngine) InjectFault(f Fault) {
	e.mu.Lock()
	ff := f
	e.faults = append(e.faults, &ff)
	e.mu.Unlock()
}

// ClearFaults removes all pending faults.
func (e *FakeEngine) ClearFaults() { e.mu.Lock(); e.faults = nil; e.mu.Unlock() }

// Accept whitelists a hand-crafted payload hash for Strict mode.
func (e *FakeEngine) Accept(h common.Hash) { e.mu.Lock(); e.accepted[h] = true; e.mu.Unlock() }

// Calls returns a copy of the call log.
func (e *FakeEngine) Calls() []Call {
	e.mu.Lock()
	defer e.mu.Unlock()
	return append([]Call(nil), e.calls...)
}

// ResetCalls clears the call log.
func (e *FakeEngine) ResetCalls() {
	e.mu.Lock()
	e.base += len(e.calls)
	e.calls = nil
	e.mu.Unlock()
}

// Forkchoice returns the last fork choice state the consensus layer announced.
func (e *FakeEngine) Forkchoice() (head, safe, finalized common.Hash) {
	e.mu.Lock()
	defer e.mu.Unlock()
	return e.head, e.safe, e.finalized
}

// Known reports whether the engine has seen (built, received or been seeded with) the block.
func (e *FakeEngine) Known(h common.Hash) (number uint64, ok bool) {
	e.mu.Lock()
	defer e.mu.Unlock()
	number, ok = e.known[h]
	return
}

// Register makes a block known to the engine (used when a new engine is attached to exported state).
func (e *FakeEngine) Register(h common.Hash, number uint64) {
	e.mu.Lock()
	e.known[h] = number
	e.mu.Unlock()
}

// Built returns the envelope the engine built for a block hash (nil if it did not build it).
func (e *FakeEngine) Built(h common.Hash) *engine.ExecutionPayloadEnvelope {
	e.mu.Lock()
	defer e.mu.Unlock()
	return e.built[h]
}

// ---------------------------------------------------------------- internals

// record appends c to the log and returns the fault (if any) to apply. Must hold e.mu.
func (e *FakeEngine) record(c *Call) *Fault {
	e.push(c)
	atomic.AddInt64(&e.recorded, 1)
	for i, f := range e.faults {
		if f.Method != c.Method || (f.Match != nil && !f.Match(c)) {
			continue
		}
		if f.Skip > 0 {
			f.Skip--
			continue
		}
		if f.Times >= 0 {
			if f.Times <= 1 {
				e.faults = append(e.faults[:i:i], e.faults[i+1:]...)
			} else {
				f.Times--
			}
		}
		return f
	}
	return nil
}

// push appends c to the log (assigning c.Seq), pruning the log if it is over MaxCalls. Must hold e.mu.
func (e *FakeEngine) push(c *Call) {
	if e.MaxCalls > 0 && len(e.calls) >= e.MaxCalls {
		drop := len(e.calls) / 2
		e.calls = append([]Call(nil), e.calls[drop:]...)
		e.base += drop
	}
	c.Seq = e.base + len(e.calls)
	e.calls = append(e.calls, *c)
}

// at returns the log entry with the given Seq. Must hold e.mu.
func (e *FakeEngine) at(seq int) *Call { return &e.calls[seq-e.base] }

// answer stores the outcome in the log entry. Must hold e.mu.
func (e *FakeEngine) answer(seq int, status string, err error) {
	c := e.at(seq)
	c.Status = status
	if err != nil {
		c.Err = err.Error()
	}
}

func statusOf(f *Fault, def string) engine.PayloadStatusV1 {
	st := engine.PayloadStatusV1{Status: def}
	if f != nil && f.Status != "" {
		st.Status = f.Status
		if f.ValidationError != "" {
			v := f.ValidationError
			st.ValidationError = &v
		}
	}
	return st
}

// EncodeRequests encodes the three request groups the way the execution layer does (each group's
// own Encode(), locking first) after adding the automatic gas request.
func EncodeRequests(number uint64, s *BlockScript, defGas *big.Int) [][]byte {
	if s == nil {
		s = &BlockScript{}
	}
	if s.RawRequests != nil {
		return s.RawRequests
	}
	locking := s.Locking
	if len(locking.Gas) == 0 && !s.NoGas {
		amt := s.GasAmount
		if amt == nil {
			amt = defGas
		}
		if amt == nil {
			amt = new(big.Int)
		}
		locking.Gas = []*goattypes.GasRequest{goattypes.NewGasRequest(number, amt)}
	}
	bridge, relayer := s.Bridge, s.Relayer
	var res [][]byte
	res = append(res, locking.Encode()...)
	res = append(res, bridge.Encode()...)
	res = append(res, relayer.Encode()...)
	if res == nil {
		res = [][]byte{}
	}
	return res
}

// build constructs a payload on top of (parent, parentNumber). Must hold e.mu.
func (e *FakeEngine) build(parent common.Hash, parentNumber uint64, attrs *engine.PayloadAttributes) (engine.PayloadID, *engine.ExecutionPayloadEnvelope) {
	number := parentNumber + 1
	script := e.oneShot
	e.oneShot = nil
	if script == nil {
		script = e.byNumber[number]
	}
	if script == nil {
		script = &BlockScript{}
	}
	e.counter++

	txs := make([][]byte, 0, len(attrs.GoatTxs)+len(script.ExtraTxs))
	for _, t := range attrs.GoatTxs {
		txs = append(txs, append([]byte(nil), t...))
	}
	for _, t := range script.ExtraTxs {
		txs = append(txs, append([]byte(nil), t...))
	}
	extra := make([]byte, params.GoatHeaderExtraLengthV0)
	extra[0] = byte(len(attrs.GoatTxs))

	var nb [24]byte
	binary.BigEndian.PutUint64(nb[:8], e.seed)
	binary.BigEndian.PutUint64(nb[8:16], number)
	binary.BigEndian.PutUint64(nb[16:], e.counter)
	hash := crypto.Keccak256Hash([]byte("appsim-eth-block"), nb[:], parent[:])
	var id engine.PayloadID
	copy(id[:], crypto.Keccak256([]byte("appsim-payload-id"), nb[:])[:8])

	var zero uint64
	zero2 := zero
	data := &engine.ExecutableData{
		ParentHash:    parent,
		FeeRecipient:  attrs.SuggestedFeeRecipient,
		StateRoot:     crypto.Keccak256Hash([]byte("appsim-state-root"), nb[:]),
		ReceiptsRoot:  ethtypes.EmptyReceiptsHash,
		LogsBloom:     make([]byte, 256),
		Random:        attrs.Random,
		Number:        number,
		GasLimit:      e.GasLimit,
		GasUsed:       0,
		Timestamp:     attrs.Timestamp,
		ExtraData:     extra,
		BaseFeePerGas: new(big.Int).Set(e.BaseFee),
		BlockHash:     hash,
		Transactions:  txs,
		Withdrawals:   []*ethtypes.Withdrawal{},
		BlobGasUsed:   &zero,
		ExcessBlobGas: &zero2,
	}
	env := &engine.ExecutionPayloadEnvelope{
		ExecutionPayload: data,
		BlockValue:       new(big.Int),
		BlobsBundle:      &engine.BlobsBundleV1{Commitments: []hexutil.Bytes{}, Proofs: []hexutil.Bytes{}, Blobs: []hexutil.Bytes{}},
		Requests:         EncodeRequests(number, script, e.GasAmount),
	}
	if script.Mutate != nil {
		script.Mutate(env)
	}
	e.known[env.ExecutionPayload.BlockHash] = env.ExecutionPayload.Number
	e.built[env.ExecutionPayload.BlockHash] = env
	e.order = append(e.order, env.ExecutionPayload.BlockHash)
	if e.MaxBuilt > 0 && len(e.order) > e.MaxBuilt {
		drop := len(e.order) / 2
		for _, h := range e.order[:drop] {
			delete(e.built, h)
		}
		e.order = append([]common.Hash(nil), e.order[drop:]...)
		for id, p := range e.pending {
			if _, ok := e.built[p.ExecutionPayload.BlockHash]; !ok {
				delete(e.pending, id)
			}
		}
	}
	return id, env
}

func (c *Call) fillPayload(d *engine.ExecutableData, requests [][]byte) {
	c.BlockHash, c.ParentHash, c.Number = d.BlockHash, d.ParentHash, d.Number
	c.Timestamp, c.FeeRecipient = d.Timestamp, d.FeeRecipient
	c.Txs, c.ExtraData, c.Requests = d.Transactions, d.ExtraData, requests
}

// DirectBuild builds a payload in-process exactly like forkchoiceUpdatedV3(attrs)+getPayloadV4
// would, without the RPC round trips (and without consulting faults). Used by Sim.BuildProposal.
func (e *FakeEngine) DirectBuild(parent common.Hash, parentNumber uint64, attrs *engine.PayloadAttributes) *engine.ExecutionPayloadEnvelope {
	e.mu.Lock()
	defer e.mu.Unlock()
	if _, ok := e.known[parent]; !ok {
		e.known[parent] = parentNumber
	}
	id, env := e.build(parent, parentNumber, attrs)
	c := Call{Method: MethodDirectBuild, Head: parent, Attrs: attrs, PayloadID: id}
	c.fillPayload(env.ExecutionPayload, env.Requests)
	if attrs.BeaconRoot != nil {
		c.BeaconRoot = *attrs.BeaconRoot
	}
	c.Status = engine.VALID
	e.push(&c)
	return env
}

func reqEqual(a [][]byte, b []hexutil.Bytes) bool {
	if len(a) != len(b) {
		return false
	}
	for i := range a {
		if !bytes.Equal(a[i], b[i]) {
			return false
		}
	}
	return true
}

func txsEqual(a, b [][]byte) bool {
	if len(a) != len(b) {
		return false
	}
	for i := range a {
		if !bytes.Equal(a[i], b[i]) {
			return false
		}
	}
	return true
}

// ---------------------------------------------------------------- RPC methods (namespace "engine")

// GetChainConfig is engine_getChainConfig (goat-geth extension used by app.ProvideEngineClient).
func (a *engineAPI) GetChainConfig() (*params.ChainConfig, error) {
	e := a.e
	e.mu.Lock()
	c := Call{Method: MethodChainConfig}
	f := e.record(&c)
	var err error
	if f != nil {
		err = f.Err
	}
	e.answer(c.Seq, "", err)
	e.mu.Unlock()
	if f != nil && f.Delay > 0 {
		time.Sleep(f.Delay)
	}
	if err != nil {
		return nil, err
	}
	return &params.ChainConfig{ChainID: big.NewInt(1), Goat: &params.GoatConfig{}}, nil
}

// NewPayloadV4 is engine_newPayloadV4.
func (a *engineAPI) NewPayloadV4(data engine.ExecutableData, versionedHashes []common.Hash, beaconRoot *common.Hash, requests []hexutil.Bytes) (engine.PayloadStatusV1, error) {
	e := a.e
	e.mu.Lock()
	c := Call{Method: MethodNewPayload}
	reqs := make([][]byte, len(requests))
	for i := range requests {
		reqs[i] = requests[i]
	}
	c.fillPayload(&data, reqs)
	if beaconRoot != nil {
		c.BeaconRoot = *beaconRoot
	}
	f := e.record(&c)

	st := engine.PayloadStatusV1{Status: engine.VALID}
	if e.Strict && !e.accepted[data.BlockHash] {
		b := e.built[data.BlockHash]
		switch {
		case b == nil:
			v := "blockhash mismatch (payload not built by this engine)"
			st = engine.PayloadStatusV1{Status: engine.INVALID, ValidationError: &v}
		case b.ExecutionPayload.ParentHash != data.ParentHash || b.ExecutionPayload.Number != data.Number ||
			b.ExecutionPayload.FeeRecipient != data.FeeRecipient || b.ExecutionPayload.Timestamp != data.Timestamp ||
			!bytes.Equal(b.ExecutionPayload.ExtraData, data.ExtraData) ||
			!txsEqual(b.ExecutionPayload.Transactions, data.Transactions) || !reqEqual(b.Requests, requests):
			v := "blockhash mismatch (payload altered)"
			st = engine.PayloadStatusV1{Status: engine.INVALID, ValidationError: &v}
		}
	}
	var err error
	if f != nil {
		err = f.Err
		if f.Status != "" {
			st = statusOf(f, engine.VALID)
		}
	}
	if err == nil && st.Status == engine.VALID {
		e.known[data.BlockHash] = data.Number
		h := data.BlockHash
		st.LatestValidHash = &h
	}
	e.answer(c.Seq, st.Status, err)
	e.mu.Unlock()
	if f != nil && f.Delay > 0 {
		time.Sleep(f.Delay)
	}
	return st, err
}

// ForkchoiceUpdatedV3 is engine_forkchoiceUpdatedV3.
func (a *engineAPI) ForkchoiceUpdatedV3(update engine.ForkchoiceStateV1, attrs *engine.PayloadAttributes) (engine.ForkChoiceResponse, error) {
	e := a.e
	e.mu.Lock()
	c := Call{Method: MethodFCU, Head: update.HeadBlockHash, Safe: update.SafeBlockHash, Finalized: update.FinalizedBlockHash, Attrs: attrs}
	if attrs != nil && attrs.BeaconRoot != nil {
		c.BeaconRoot = *attrs.BeaconRoot
	}
	f := e.record(&c)

	var resp engine.ForkChoiceResponse
	var err error
	parentNumber, known := e.known[update.HeadBlockHash]
	switch {
	case f != nil && f.Err != nil:
		err = f.Err
	case f != nil && f.Status != "":
		resp.PayloadStatus = statusOf(f, engine.VALID)
	case !known:
		// a real node cannot build on / switch to a head it does not have
		resp.PayloadStatus = engine.PayloadStatusV1{Status: engine.SYNCING}
	default:
		h := update.HeadBlockHash
		resp.PayloadStatus = engine.PayloadStatusV1{Status: engine.VALID, LatestValidHash: &h}
	}
	if err == nil && resp.PayloadStatus.Status == engine.VALID {
		if attrs == nil {
			e.head, e.safe, e.finalized = update.HeadBlockHash, update.SafeBlockHash, update.FinalizedBlockHash
		} else if known && !(f != nil && f.NilPayloadID) {
			id, env := e.build(update.HeadBlockHash, parentNumber, attrs)
			e.pending[id] = env
			resp.PayloadID = &id
			lc := e.at(c.Seq)
			lc.PayloadID, lc.BlockHash, lc.Number = id, env.ExecutionPayload.BlockHash, env.ExecutionPayload.Number
		}
	}
	e.answer(c.Seq, resp.PayloadStatus.Status, err)
	e.mu.Unlock()
	if f != nil && f.Delay > 0 {
		time.Sleep(f.Delay)
	}
	return resp, err
}

// GetPayloadV4 is engine_getPayloadV4.
func (a *engineAPI) GetPayloadV4(id engine.PayloadID) (*engine.ExecutionPayloadEnvelope, error) {
	e := a.e
	e.mu.Lock()
	c := Call{Method: MethodGetPayload, PayloadID: id}
	f := e.record(&c)
	env := e.pending[id]
	var err error
	switch {
	case f != nil && f.Err != nil:
		err = f.Err
	case env == nil:
		err = errors.New("Unknown payload")
	default:
		e.at(c.Seq).fillPayload(env.ExecutionPayload, env.Requests)
	}
	e.answer(c.Seq, "", err)
	e.mu.Unlock()
	if f != nil && f.Delay > 0 {
		time.Sleep(f.Delay)
	}
	if err != nil {
		return nil, err
	}
	return env, nil
}

func (c Call) String() string {
	switch c.Method {
	case MethodFCU:
		return fmt.Sprintf("#%d %s head=%x safe=%x fin=%x attrs=%v -> %s %s", c.Seq, c.Method, c.Head[:4], c.Safe[:4], c.Finalized[:4], c.Attrs != nil, c.Status, c.Err)
	case MethodNewPayload, MethodGetPayload, MethodDirectBuild:
		return fmt.Sprintf("#%d %s n=%d hash=%x parent=%x txs=%d reqs=%d -> %s %s", c.Seq, c.Method, c.Number, c.BlockHash[:4], c.ParentHash[:4], len(c.Txs), len(c.Requests), c.Status, c.Err)
	}
	return fmt.Sprintf("#%d %s -> %s", c.Seq, c.Method, c.Err)
}


// countingListener counts the JSON-RPC messages the server reads (the client's encoder terminates each
// message with a newline; raw newlines cannot occur inside JSON strings).
type countingListener struct {
	net.Listener
	n *int64
}

func (l *countingListener) Accept() (net.Conn, error) {
	c, err := l.Listener.Accept()
	if err != nil {
		return nil, err
	}
	return &countingConn{Conn: c, n: l.n}, nil
}

type countingConn struct {
	net.Conn
	n *int64
}

func (c *countingConn) Read(p []byte) (int, error) {
	k, err := c.Conn.Read(p)
	if k > 0 {
		atomic.AddInt64(c.n, int64(bytes.Count(p[:k], []byte{'\n'})))
	}
	return k, err
}

// Settled reports whether every request read from the socket so far has been logged by its handler.
func (e *FakeEngine) Settled() bool {
	return atomic.LoadInt64(&e.recorded)+atomic.LoadInt64(&e.offset) >= atomic.LoadInt64(&e.received)
}

// Recalibrate assumes the engine is quiescent now: messages that never reached a handler (unknown methods,
// malformed requests) stop counting as outstanding.
func (e *FakeEngine) Recalibrate() {
	atomic.StoreInt64(&e.offset, atomic.LoadInt64(&e.received)-atomic.LoadInt64(&e.recorded))
}
