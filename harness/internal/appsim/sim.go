// Package appsim boots the real GOAT application (github.com/goatnetwork/goat/app.New) in-process,
// wired to a scripted fake execution engine over a local IPC socket, and drives it through ABCI
// (InitChain, CheckTx, PrepareProposal, ProcessProposal, FinalizeBlock, Commit) with really signed
// transactions. Nothing under /repo is modified or hooked.
//
// Height/time model: Sim.Height and Sim.Time describe the last *committed* block. The block being
// worked on is always Height+1 with timestamp NextTime() (= Time + BlockInterval unless overridden
// with SetNextTime). Prepare/Process/Finalize all refer to that block; Commit advances.
package appsim

import (
	"runtime/debug"
	"runtime"
	"context"
	"bytes"
	"crypto/sha256"
	"encoding/binary"
	"encoding/json"
	"errors"
	"fmt"
	"os"
	"path/filepath"
	"sort"
	"time"

	"cosmossdk.io/log"
	pruningtypes "cosmossdk.io/store/pruning/types"
	abci "github.com/cometbft/cometbft/abci/types"
	cmtsecp "github.com/cometbft/cometbft/crypto/secp256k1"
	"github.com/cometbft/cometbft/privval"
	cmtproto "github.com/cometbft/cometbft/proto/tendermint/types"
	cmttypes "github.com/cometbft/cometbft/types"
	dbm "github.com/cosmos/cosmos-db"
	"github.com/cosmos/cosmos-sdk/baseapp"
	"github.com/cosmos/cosmos-sdk/client"
	"github.com/cosmos/cosmos-sdk/codec"
	"github.com/cosmos/cosmos-sdk/crypto/keys/secp256k1"
	servertypes "github.com/cosmos/cosmos-sdk/server/types"
	sdk "github.com/cosmos/cosmos-sdk/types"
	"github.com/cosmos/cosmos-sdk/types/mempool"
	authtx "github.com/cosmos/cosmos-sdk/x/auth/tx"
	"github.com/ethereum/go-ethereum/common"
	"github.com/goatnetwork/goat/app"
	"github.com/goatnetwork/goat/pkg/ethrpc"
	goatmod "github.com/goatnetwork/goat/x/goat/types"
	relayertypes "github.com/goatnetwork/goat/x/relayer/types"
)

// SetEntry is one member of a CometBFT-side validator set.
type SetEntry struct {
	PubKey []byte // 33-byte compressed secp256k1
	Power  int64
}

// ValSet is a validator set keyed by string(20-byte consensus address).
type ValSet map[string]SetEntry

func (v ValSet) clone() ValSet {
	n := make(ValSet, len(v))
	for k, e := range v {
		n[k] = e
	}
	return n
}

// Apply returns a copy of the set with ABCI validator updates applied (power 0 removes).
func (v ValSet) Apply(ups []abci.ValidatorUpdate) ValSet {
	n := v.clone()
	for _, u := range ups {
		pk := u.PubKey.GetSecp256K1()
		addr := string(cmtsecp.PubKey(pk).Address())
		if u.Power == 0 {
			delete(n, addr)
		} else {
			n[addr] = SetEntry{PubKey: append([]byte(nil), pk...), Power: u.Power}
		}
	}
	return n
}

// Addresses returns the member addresses sorted bytewise.
func (v ValSet) Addresses() [][]byte {
	res := make([][]byte, 0, len(v))
	for k := range v {
		res = append(res, []byte(k))
	}
	sort.Slice(res, func(i, j int) bool { return bytes.Compare(res[i], res[j]) < 0 })
	return res
}

// TotalPower sums the powers.
func (v ValSet) TotalPower() (t int64) {
	for _, e := range v {
		t += e.Power
	}
	return
}

// BlockResult is what NextBlock / NextBlockFast return.
type BlockResult struct {
	Height           int64
	Time             time.Time
	Txs              [][]byte               // the proposal as executed (tx 0 is the MsgNewEthBlock tx)
	TxResults        []*abci.ExecTxResult   // Code, GasUsed, Log, Events per tx
	ValidatorUpdates []abci.ValidatorUpdate // from the locking EndBlocker
	AppHash          []byte
	Resp             *abci.ResponseFinalizeBlock
}

// Sim is one running chain: the real app, its DB, the fake engine and all key material.
type Sim struct {
	Cfg      Config
	App      *app.App
	Engine   *FakeEngine
	DB       dbm.DB
	Home     string
	TxConfig client.TxConfig
	// Log captures the app's WARN/ERROR log lines (nil if Config.Logger was supplied).
	Log *CaptureLogger

	ChainID       string
	InitialHeight int64
	Height        int64     // last committed height (InitialHeight-1 right after New)
	Time          time.Time // time of the last committed block (genesis time right after New)
	BlockInterval time.Duration

	// Proposer is the index into Validators of the proposer used by NextBlock/NextBlockFast.
	// The real PrepareProposal handler only works for validator 0 (the node key).
	Proposer int
	// SkipProcess makes NextBlockFast skip ProcessProposal (saves one engine round trip).
	SkipProcess bool

	Validators  []ValKey        // genesis validators (tests may append keys of validators they create)
	RelayerKeys []RelayerMember // [0] = genesis proposer, then the genesis voters (tests may append)
	BtcKey      *secp256k1.PrivKey
	BtcPubkey   *relayertypes.PublicKey

	// CometBFT-side validator sets for the block in progress H = Height+1:
	// PrevSet = set of H-1 (signs the LastCommit carried by block H; nil for the first block),
	// CurSet = set of H, NextSet = set of H+1. Updates returned by FinalizeBlock(H) apply to H+2.
	PrevSet, CurSet, NextSet ValSet
	pendingSet               ValSet // set of H+2, known after Finalize(H)

	// LastFinalize is the response of the last successful Finalize (cleared by Commit).
	LastFinalize *abci.ResponseFinalizeBlock
	// Dirty is set when FinalizeBlock returned an error: baseapp keeps the half-executed finalize
	// state, so the instance must be dropped (call Restart).
	Dirty bool

	nextTime    *time.Time
	initReq     *abci.RequestInitChain
	logger      log.Logger
	ownsHome    bool
	ownsEngine  bool
	finalizedAt time.Time
}

type appOptions map[string]interface{}

func (o appOptions) Get(k string) interface{} { return o[k] }

var _ servertypes.AppOptions = appOptions{}

// New boots the app on a fresh in-memory DB, runs InitChain with a generated genesis and returns
// a Sim that is ready to propose block InitialHeight (nothing is committed yet, exactly like a
// node right after CometBFT's handshake).
func New(cfg Config) (*Sim, error) {
	cfg.fill()
	s, err := prepare(cfg, nil)
	if err != nil {
		return nil, err
	}
	ethGenesis := GenesisBlockHash(cfg.Seed)
	eng, err := NewFakeEngine(cfg.Seed, filepath.Join(s.Home, "geth.ipc"), ethGenesis, cfg.EthGenesisNumber)
	if err != nil {
		s.Close()
		return nil, err
	}
	s.Engine, s.ownsEngine = eng, true
	if err := s.bootApp(); err != nil {
		s.Close()
		return nil, err
	}
	gen, updates, err := buildGenesis(&s.Cfg, s.App.AppCodec(), s.App.DefaultGenesis(), s.Validators, s.RelayerKeys, s.BtcPubkey, ethGenesis)
	if err != nil {
		s.Close()
		return nil, err
	}
	appState, err := json.Marshal(gen)
	if err != nil {
		s.Close()
		return nil, err
	}
	cp := cfg.ConsensusParams
	if cp == nil {
		cp = DefaultConsensusParams()
	} else {
		cc := *cp
		cc.Validator = &cmtproto.ValidatorParams{PubKeyTypes: []string{cmttypes.ABCIPubKeyTypeSecp256k1}}
		cp = &cc
	}
	s.initReq = &abci.RequestInitChain{
		Time: cfg.GenesisTime, ChainId: cfg.ChainID, ConsensusParams: cp, Validators: updates,
		AppStateBytes: appState, InitialHeight: cfg.InitialHeight,
	}
	if err := s.initChain(); err != nil {
		s.Close()
		return nil, err
	}
	return s, nil
}

// NewFromExport boots a fresh chain (new DB) whose InitChain uses an exported app state and
// validator set, as `goatd export` + a new genesis file would. InitialHeight is cfg.InitialHeight
// if set (> 0), else exp.Height (what `goatd export` writes as initial_height); the genesis time is
// cfg.GenesisTime (pass the old Sim's Time to continue its clock).
// NOTE: with InitialHeight >= 2 the first FinalizeBlock fails with "invalid zero power" in the real
// app (see NOTES.md); pass cfg.InitialHeight = 1 to get a chain that can make progress.
// Keys are re-derived from cfg (so cfg must carry the same Seed/NumVoters/NumValidators to be able
// to sign for the exported accounts). eng may be the old chain's engine (the execution chain simply
// continues); when nil a new engine is created that knows the exported execution head.
func NewFromExport(cfg Config, exp servertypes.ExportedApp, eng *FakeEngine) (*Sim, error) {
	if cfg.InitialHeight <= 0 {
		cfg.InitialHeight = exp.Height
	}
	cfg.fill()
	s, err := prepare(cfg, eng)
	if err != nil {
		return nil, err
	}
	if eng == nil {
		// need a codec to read the exported goat genesis; the amino-free proto JSON codec of the
		// module types is enough, but the simplest is to boot first with a placeholder engine head.
		eng, err = NewFakeEngine(cfg.Seed, filepath.Join(s.Home, "geth.ipc"), GenesisBlockHash(cfg.Seed), cfg.EthGenesisNumber)
		if err != nil {
			s.Close()
			return nil, err
		}
		s.Engine, s.ownsEngine = eng, true
	}
	if err := s.bootApp(); err != nil {
		s.Close()
		return nil, err
	}
	if s.ownsEngine {
		var gen map[string]json.RawMessage
		if err := json.Unmarshal(exp.AppState, &gen); err != nil {
			s.Close()
			return nil, err
		}
		var gs goatmod.GenesisState
		if err := s.App.AppCodec().UnmarshalJSON(gen[goatmod.ModuleName], &gs); err != nil {
			s.Close()
			return nil, err
		}
		s.Engine.Register(common.BytesToHash(gs.EthBlock.BlockHash), gs.EthBlock.BlockNumber)
	}
	var updates []abci.ValidatorUpdate
	for _, v := range exp.Validators {
		updates = append(updates, valUpdate(v.PubKey.Bytes(), v.Power))
	}
	cp := exp.ConsensusParams
	s.initReq = &abci.RequestInitChain{
		Time: cfg.GenesisTime, ChainId: cfg.ChainID, ConsensusParams: &cp, Validators: updates,
		AppStateBytes: exp.AppState, InitialHeight: cfg.InitialHeight,
	}
	if err := s.initChain(); err != nil {
		s.Close()
		return nil, err
	}
	return s, nil
}

// prepare derives the keys, creates the home dir and writes the priv validator key file.
func prepare(cfg Config, eng *FakeEngine) (*Sim, error) {
	s := &Sim{
		Cfg: cfg, ChainID: cfg.ChainID, InitialHeight: cfg.InitialHeight, BlockInterval: cfg.BlockInterval,
		Height: cfg.InitialHeight - 1, Time: cfg.GenesisTime, DB: dbm.NewMemDB(), Engine: eng,
	}
	if cfg.Home != "" {
		s.Home = cfg.Home
		if err := os.MkdirAll(s.Home, 0o755); err != nil {
			return nil, err
		}
	} else {
		h, err := os.MkdirTemp("", "appsim-")
		if err != nil {
			return nil, err
		}
		s.Home, s.ownsHome = h, true
	}
	for i := 0; i < cfg.NumValidators; i++ {
		p := uint64(100)
		if i < len(cfg.ValidatorPowers) {
			p = cfg.ValidatorPowers[i]
		}
		s.Validators = append(s.Validators, NewValKey(cfg.Seed, i, p))
	}
	for i := 0; i <= cfg.NumVoters; i++ {
		m := NewRelayerMember(cfg.Seed, i)
		if i == 0 && cfg.ShareProposerKey && len(s.Validators) > 0 {
			v := s.Validators[0]
			m.AccPriv, m.AccAddr, m.AddrStr = v.Priv, sdk.AccAddress(v.ConsAddr), v.AddrStr
		}
		s.RelayerKeys = append(s.RelayerKeys, m)
	}
	s.BtcKey, s.BtcPubkey = NewBitcoinPubkey(cfg.Seed)

	pv := privval.NewFilePV(s.Validators[0].CmtPriv, filepath.Join(s.Home, "pvk.json"), filepath.Join(s.Home, "pvs.json"))
	pv.Key.Save()

	if cfg.Logger != nil {
		s.logger = cfg.Logger
	} else {
		s.Log = NewCaptureLogger(256)
		s.logger = s.Log
	}
	return s, nil
}

// bootApp runs app.New over s.DB (loading the latest version if there is one).
func (s *Sim) bootApp() error {
	opts := appOptions{
		"goat.geth":               s.Engine.IPCPath,
		"priv_validator_key_file": "pvk.json",
		"home":                    s.Home,
	}
	bopts := []func(*baseapp.BaseApp){baseapp.SetChainID(s.ChainID)}
	if s.Cfg.MempoolMaxTxs >= 0 {
		bopts = append(bopts, baseapp.SetMempool(mempool.NewSenderNonceMempool(
			mempool.SenderNonceMaxTxOpt(s.Cfg.MempoolMaxTxs), mempool.SenderNonceSeedOpt(int64(s.Cfg.Seed)))))
	} else {
		bopts = append(bopts, baseapp.SetMempool(mempool.NoOpMempool{}))
	}
	if s.Cfg.PruneEverything {
		bopts = append(bopts, baseapp.SetPruning(pruningtypes.NewPruningOptions(pruningtypes.PruningEverything)))
	}
	bopts = append(bopts, s.Cfg.BaseAppOptions...)
	var a *app.App
	var err error
	func() {
		defer func() {
			if r := recover(); r != nil {
				err = fmt.Errorf("app.New panicked: %v", r)
			}
		}()
		a, err = app.New(s.logger, s.DB, nil, true, opts, bopts...)
	}()
	if err != nil {
		return err
	}
	s.App = a
	s.TxConfig = authtx.NewTxConfig(codec.NewProtoCodec(a.AppCodec().InterfaceRegistry()), authtx.DefaultSignModes)
	s.Dirty = false
	return nil
}

func (s *Sim) initChain() (err error) {
	defer func() {
		if r := recover(); r != nil {
			err = fmt.Errorf("InitChain panicked: %v", r)
		}
	}()
	res, err := s.App.InitChain(s.initReq)
	if err != nil {
		return err
	}
	set := ValSet{}.Apply(s.initReq.Validators)
	if len(res.Validators) > 0 {
		set = ValSet{}.Apply(res.Validators)
	}
	s.PrevSet, s.CurSet, s.NextSet, s.pendingSet = nil, set, set.clone(), nil
	s.Height, s.Time = s.InitialHeight-1, s.initReq.Time
	s.nextTime, s.LastFinalize = nil, nil
	return nil
}

// Restart drops the app instance and creates a new one over the same DB (what a process restart
// does). Uncommitted FinalizeBlock results are lost. The fake engine keeps running and keeps its
// state. If nothing was ever committed InitChain is replayed, as CometBFT's handshake would.
func (s *Sim) Restart() error {
	s.closeClient()
	if err := s.bootApp(); err != nil {
		return err
	}
	s.LastFinalize, s.pendingSet = nil, nil
	if s.App.LastBlockHeight() == 0 {
		return s.initChain()
	}
	if h := s.App.LastBlockHeight(); h != s.Height {
		return fmt.Errorf("restart: app height %d != sim height %d", h, s.Height)
	}
	return nil
}

// EngineBarrier makes sure that every engine request the application has written to its RPC connection so
// far (in particular a newPayload whose caller was cancelled by a rejected ProcessProposal) has been
// received and recorded by the fake engine: a round trip on the same connection (requests are read in
// order), then a moment for the handler goroutines started before it to record their call.
func (s *Sim) EngineBarrier() {
	c, ok := s.App.EthClient.(*ethrpc.Client)
	if !ok || c == nil {
		return
	}
	ctx, cancel := context.WithTimeout(context.Background(), 2*time.Second)
	_, _ = c.GetChainConfig(ctx) // round trip on the same connection: everything written before it has been read
	cancel()
	for i := 0; i < 20000; i++ { // until every request read so far has been logged by its handler
		if s.Engine.Settled() {
			return
		}
		if i < 100 {
			runtime.Gosched()
		} else {
			time.Sleep(100 * time.Microsecond)
		}
	}
	s.Engine.Recalibrate()
}

func (s *Sim) closeClient() {
	if s.App != nil {
		if c, ok := s.App.EthClient.(*ethrpc.Client); ok && c != nil {
			c.Close()
		}
	}
}

// Close releases the engine client, the IPC server (if owned) and the temp home (if owned).
func (s *Sim) Close() {
	s.closeClient()
	if s.ownsEngine && s.Engine != nil {
		s.Engine.Close()
	}
	if s.ownsHome && s.Home != "" {
		_ = os.RemoveAll(s.Home)
	}
}

// ---------------------------------------------------------------- block parameters

// NextTime is the timestamp of the block in progress (Height+1).
func (s *Sim) NextTime() time.Time {
	if s.nextTime != nil {
		return *s.nextTime
	}
	return s.Time.Add(s.BlockInterval)
}

// SetNextTime overrides the timestamp of the block in progress (reset by Commit).
func (s *Sim) SetNextTime(t time.Time) { s.nextTime = &t }

// AdvanceTime moves the timestamp of the block in progress forward by d (on top of BlockInterval).
func (s *Sim) AdvanceTime(d time.Duration) { t := s.NextTime().Add(d); s.nextTime = &t }

// BlockHash is the deterministic CometBFT block hash the Sim uses for a height. x/goat stores it
// as the next BeaconRoot.
func (s *Sim) BlockHash(height int64) []byte {
	var b [8]byte
	binary.BigEndian.PutUint64(b[:], uint64(height))
	h := sha256.Sum256(append(append([]byte("appsim-cmt-block/"), s.ChainID...), b[:]...))
	return h[:]
}

func (s *Sim) nextValsHash() []byte {
	h := sha256.Sum256([]byte("appsim-next-validators"))
	return h[:]
}

// ProposerAddr returns the consensus address of validator idx.
func (s *Sim) ProposerAddr(idx int) []byte { return s.Validators[idx].ConsAddr }

// DefaultVotes builds the LastCommit vote list of the block in progress: every member of PrevSet
// signs (BlockIDFlagCommit) except the addresses listed in absent. Empty for the first block.
func (s *Sim) DefaultVotes(absent ...[]byte) []abci.VoteInfo {
	if s.PrevSet == nil {
		return nil
	}
	miss := map[string]bool{}
	for _, a := range absent {
		miss[string(a)] = true
	}
	var votes []abci.VoteInfo
	for _, addr := range s.PrevSet.Addresses() {
		flag := cmtproto.BlockIDFlagCommit
		if miss[string(addr)] {
			flag = cmtproto.BlockIDFlagAbsent
		}
		votes = append(votes, abci.VoteInfo{
			Validator:   abci.Validator{Address: addr, Power: s.PrevSet[string(addr)].Power},
			BlockIdFlag: flag,
		})
	}
	return votes
}

// DuplicateVoteEvidence builds an ABCI misbehaviour record against validator address addr for an
// infraction at (height, t).
func (s *Sim) DuplicateVoteEvidence(addr []byte, height int64, t time.Time) abci.Misbehavior {
	set := s.CurSet
	return abci.Misbehavior{
		Type:             abci.MisbehaviorType_DUPLICATE_VOTE,
		Validator:        abci.Validator{Address: addr, Power: set[string(addr)].Power},
		Height:           height,
		Time:             t,
		TotalVotingPower: set.TotalPower(),
	}
}

// ---------------------------------------------------------------- ABCI

// CheckTx runs abci CheckTx (type New); on success the tx is inserted into the app-side mempool
// from which the real PrepareProposal handler selects.
func (s *Sim) CheckTx(tx []byte) (code uint32, logStr string) {
	res, err := s.App.CheckTx(&abci.RequestCheckTx{Tx: tx, Type: abci.CheckTxType_New})
	if err != nil {
		return 1, err.Error()
	}
	return res.Code, res.Log
}

// ReCheckTx runs abci CheckTx with type Recheck.
func (s *Sim) ReCheckTx(tx []byte) (code uint32, logStr string) {
	res, err := s.App.CheckTx(&abci.RequestCheckTx{Tx: tx, Type: abci.CheckTxType_Recheck})
	if err != nil {
		return 1, err.Error()
	}
	return res.Code, res.Log
}

// ErrPrepareFailed is returned by Prepare when the app's handler failed: BaseApp swallows the
// handler error and answers with the request's txs, so the response lacks the MsgNewEthBlock tx.
var ErrPrepareFailed = errors.New("PrepareProposal handler failed")

// Prepare runs abci PrepareProposal for block Height+1 through the app's real handler (which
// talks to the engine: forkchoiceUpdatedV3(attrs), 50 ms sleep, getPayloadV4). proposer is the
// 20-byte consensus address; it must be validator 0 (the node key) for the handler to succeed.
// extraMempoolTxs is RequestPrepareProposal.Txs (CometBFT's mempool view); GOAT's handler ignores
// it when the app-side mempool is the SenderNonceMempool.
func (s *Sim) Prepare(proposer []byte, extraMempoolTxs [][]byte) ([][]byte, error) {
	var last abci.ExtendedCommitInfo
	for _, v := range s.DefaultVotes() {
		last.Votes = append(last.Votes, abci.ExtendedVoteInfo{Validator: v.Validator, BlockIdFlag: v.BlockIdFlag})
	}
	if s.Log != nil {
		s.Log.Reset()
	}
	res, err := s.App.PrepareProposal(&abci.RequestPrepareProposal{
		MaxTxBytes: 4 << 20, Txs: extraMempoolTxs, LocalLastCommit: last,
		Height: s.Height + 1, Time: s.NextTime(), NextValidatorsHash: s.nextValsHash(), ProposerAddress: proposer,
	})
	if err != nil {
		return nil, err
	}
	if len(res.Txs) == 0 || !s.IsEthBlockTx(res.Txs[0]) {
		reason := ""
		if s.Log != nil {
			reason = s.Log.Last()
		}
		return res.Txs, fmt.Errorf("%w: %s", ErrPrepareFailed, reason)
	}
	return res.Txs, nil
}

// IsEthBlockTx reports whether raw decodes to a tx whose only message is MsgNewEthBlock.
func (s *Sim) IsEthBlockTx(raw []byte) bool {
	tx, err := s.TxConfig.TxDecoder()(raw)
	if err != nil {
		return false
	}
	msgs := tx.GetMsgs()
	if len(msgs) != 1 {
		return false
	}
	_, ok := msgs[0].(*goatmod.MsgNewEthBlock)
	return ok
}

// DecodeEthBlockTx extracts the MsgNewEthBlock of a proposal's first tx.
func (s *Sim) DecodeEthBlockTx(raw []byte) (*goatmod.MsgNewEthBlock, error) {
	tx, err := s.TxConfig.TxDecoder()(raw)
	if err != nil {
		return nil, err
	}
	msgs := tx.GetMsgs()
	if len(msgs) != 1 {
		return nil, fmt.Errorf("%d messages", len(msgs))
	}
	m, ok := msgs[0].(*goatmod.MsgNewEthBlock)
	if !ok {
		return nil, fmt.Errorf("not a MsgNewEthBlock: %T", msgs[0])
	}
	return m, nil
}

// Process runs abci ProcessProposal for block Height+1. When rejected, reason carries the app's
// last ERROR log line (if the capture logger is in use).
func (s *Sim) Process(proposer []byte, txs [][]byte) (accepted bool, err error) {
	if s.Log != nil {
		s.Log.Reset()
	}
	res, err := s.App.ProcessProposal(&abci.RequestProcessProposal{
		Txs: txs, ProposedLastCommit: abci.CommitInfo{Votes: s.DefaultVotes()},
		Hash: s.BlockHash(s.Height + 1), Height: s.Height + 1, Time: s.NextTime(),
		NextValidatorsHash: s.nextValsHash(), ProposerAddress: proposer,
	})
	if err != nil {
		return false, err
	}
	return res.Status == abci.ResponseProcessProposal_ACCEPT, nil
}

// RejectReason returns the last captured ERROR log line (why Prepare/Process failed).
func (s *Sim) RejectReason() string {
	if s.Log == nil {
		return ""
	}
	return s.Log.Last()
}

// Finalize runs abci FinalizeBlock for block Height+1. votes == nil means DefaultVotes(). On
// error the Sim is marked Dirty (call Restart before continuing).
func (s *Sim) Finalize(proposer []byte, txs [][]byte, votes []abci.VoteInfo, evidence []abci.Misbehavior) (res *abci.ResponseFinalizeBlock, err error) {
	if s.Dirty {
		return nil, errors.New("sim is dirty after a failed FinalizeBlock: call Restart")
	}
	if votes == nil {
		votes = s.DefaultVotes()
	}
	defer func() {
		if r := recover(); r != nil {
			if os.Getenv("VERIF_DEBUG") != "" {
				fmt.Fprintf(os.Stderr, "FinalizeBlock panicked: %v\n%s\n", r, debug.Stack())
			}
			err = fmt.Errorf("FinalizeBlock panicked: %v", r)
		}
		if err != nil {
			s.Dirty = true
		}
	}()
	res, err = s.App.FinalizeBlock(&abci.RequestFinalizeBlock{
		Txs: txs, DecidedLastCommit: abci.CommitInfo{Votes: votes}, Misbehavior: evidence,
		Hash: s.BlockHash(s.Height + 1), Height: s.Height + 1, Time: s.NextTime(),
		NextValidatorsHash: s.nextValsHash(), ProposerAddress: proposer,
	})
	if err != nil {
		return nil, err
	}
	s.LastFinalize = res
	s.finalizedAt = s.NextTime()
	s.pendingSet = s.NextSet.Apply(res.ValidatorUpdates)
	return res, nil
}

// Commit runs abci Commit and advances Height, Time and the tracked validator sets.
func (s *Sim) Commit() error {
	if s.LastFinalize == nil {
		return errors.New("Commit without a successful Finalize")
	}
	if _, err := s.App.Commit(); err != nil {
		return err
	}
	s.Height++
	s.Time = s.finalizedAt
	s.nextTime = nil
	s.PrevSet, s.CurSet, s.NextSet, s.pendingSet = s.CurSet, s.NextSet, s.pendingSet, nil
	s.LastFinalize = nil
	return nil
}

func appendMissing(txs [][]byte, extra [][]byte) [][]byte {
	for _, e := range extra {
		dup := false
		for _, t := range txs {
			if bytes.Equal(t, e) {
				dup = true
				break
			}
		}
		if !dup {
			txs = append(txs, e)
		}
	}
	return txs
}

func (s *Sim) runBlock(proposer []byte, txs [][]byte, process bool) (*BlockResult, error) {
	if process {
		ok, err := s.Process(proposer, txs)
		if err != nil {
			return nil, err
		}
		if !ok {
			return nil, fmt.Errorf("ProcessProposal rejected block %d: %s", s.Height+1, s.RejectReason())
		}
	}
	res, err := s.Finalize(proposer, txs, nil, nil)
	if err != nil {
		return nil, err
	}
	br := &BlockResult{
		Height: s.Height + 1, Time: s.NextTime(), Txs: txs, TxResults: res.TxResults,
		ValidatorUpdates: res.ValidatorUpdates, AppHash: res.AppHash, Resp: res,
	}
	if err := s.Commit(); err != nil {
		return nil, err
	}
	return br, nil
}

// NextBlock produces one block the way a live node does: real PrepareProposal (proposer =
// Validators[s.Proposer], which must be 0) -> ProcessProposal -> FinalizeBlock -> Commit.
// extraTxs are appended to the proposal after whatever the handler selected from the app mempool
// (duplicates are dropped), so txs may be injected with or without a prior CheckTx.
func (s *Sim) NextBlock(extraTxs [][]byte) (*BlockResult, error) {
	proposer := s.ProposerAddr(s.Proposer)
	txs, err := s.Prepare(proposer, extraTxs)
	if err != nil {
		return nil, err
	}
	return s.runBlock(proposer, appendMissing(txs, extraTxs), true)
}

// NextBlockFast is NextBlock with BuildProposal instead of the real PrepareProposal handler (no
// 50 ms sleep, no engine RPC for building) and, if s.SkipProcess, without ProcessProposal. Works
// for any proposer index. Txs that were CheckTx'd stay in the app mempool until executed, but are
// NOT selected automatically: pass them in extraTxs.
func (s *Sim) NextBlockFast(extraTxs [][]byte) (*BlockResult, error) {
	txs, err := s.BuildProposal(s.Proposer, extraTxs)
	if err != nil {
		return nil, err
	}
	return s.runBlock(s.ProposerAddr(s.Proposer), txs, !s.SkipProcess)
}

// Export calls app.ExportAppStateAndValidators(false, nil, nil). Only meaningful after a Commit.
func (s *Sim) Export() (servertypes.ExportedApp, error) {
	return s.App.ExportAppStateAndValidators(false, nil, nil)
}

// ---------------------------------------------------------------- state access

func (s *Sim) header(height int64, t time.Time) cmtproto.Header {
	return cmtproto.Header{ChainID: s.ChainID, Height: height, Time: t}
}

// ReadCtx returns an sdk.Context over a throw-away branch of the latest state: the InitChain /
// FinalizeBlock state if one is pending (not yet committed), else the committed state. Writes made
// through it are discarded. Keepers are reachable through s.App (e.g.
// s.App.BitcoinKeeper.BlockTip.Peek(s.ReadCtx())).
func (s *Sim) ReadCtx() sdk.Context {
	hdr := s.header(s.Height, s.Time)
	var ctx sdk.Context
	ok := func() (ok bool) {
		defer func() {
			if recover() != nil {
				ok = false
			}
		}()
		ctx = s.App.NewContextLegacy(false, hdr) // panics when there is no finalize state
		return true
	}()
	if !ok {
		ctx = s.App.NewUncachedContext(false, hdr)
	}
	cctx, _ := ctx.CacheContext()
	return cctx.WithChainID(s.ChainID)
}

// CheckCtx returns a throw-away branch of the CheckTx state (committed state plus the effects of
// the txs accepted by CheckTx since the last Commit, e.g. bumped sequences).
func (s *Sim) CheckCtx() sdk.Context {
	ctx := s.App.NewContextLegacy(true, s.header(s.Height, s.Time))
	cctx, _ := ctx.CacheContext()
	return cctx.WithChainID(s.ChainID)
}

// Account returns (account number, sequence, exists) of an address in the latest state.
func (s *Sim) Account(addr sdk.AccAddress) (num, seq uint64, ok bool) {
	acc := s.App.AccountKeeper.GetAccount(s.ReadCtx(), addr)
	if acc == nil {
		return 0, 0, false
	}
	return acc.GetAccountNumber(), acc.GetSequence(), true
}

// RelayerState returns the on-chain relayer record and the current proposal sequence.
func (s *Sim) RelayerState() (relayertypes.Relayer, uint64, error) {
	ctx := s.ReadCtx()
	rel, err := s.App.RelayerKeeper.Relayer.Get(ctx)
	if err != nil {
		return rel, 0, err
	}
	seq, err := s.App.RelayerKeeper.Sequence.Peek(ctx)
	return rel, seq, err
}

// EthHead returns x/goat's current execution block (hash, number) and beacon root.
func (s *Sim) EthHead() (goatmod.ExecutionPayload, []byte, error) {
	ctx := s.ReadCtx()
	blk, err := s.App.GoatKeeper.Block.Get(ctx)
	if err != nil {
		return blk, nil, err
	}
	root, err := s.App.GoatKeeper.BeaconRoot.Get(ctx)
	return blk, root, err
}
