package appsim

import (
	"errors"
	"fmt"
	"time"

	clienttx "github.com/cosmos/cosmos-sdk/client/tx"
	cryptotypes "github.com/cosmos/cosmos-sdk/crypto/types"
	sdk "github.com/cosmos/cosmos-sdk/types"
	"github.com/cosmos/cosmos-sdk/types/tx/signing"
	xauthsigning "github.com/cosmos/cosmos-sdk/x/auth/signing"
	"github.com/ethereum/go-ethereum/beacon/engine"
	"github.com/ethereum/go-ethereum/common"
	ethtypes "github.com/ethereum/go-ethereum/core/types"
	goatcrypto "github.com/goatnetwork/goat/pkg/crypto"
	goatmod "github.com/goatnetwork/goat/x/goat/types"
	relayertypes "github.com/goatnetwork/goat/x/relayer/types"
	"github.com/kelindar/bitmap"
)

// TxOpts tunes SignTx. The zero value signs a memo-less tx with gas limit 10,000,000, no timeout,
// and the signer's account number / sequence from the latest state.
type TxOpts struct {
	Memo           string
	TimeoutHeight  uint64
	GasLimit       uint64  // 0: 10_000_000
	SeqOverride    *uint64 // sign (and declare) this sequence instead of the on-chain one
	AccNumOverride *uint64
	// UseCheckState reads the sequence from the CheckTx state instead of the latest block state, so
	// that several txs of one signer can be queued via CheckTx within one block.
	UseCheckState bool
	// ChainID overrides the chain id in the sign doc (to craft invalid signatures).
	ChainID string
}

// U64 is a convenience for the pointer fields of TxOpts.
func U64(v uint64) *uint64 { return &v }

// SignTx builds and signs (SIGN_MODE_DIRECT, single signer) a tx carrying msgs and returns its
// encoded bytes. The signer address is derived from priv; the msgs' own signer fields are not
// touched (so mismatches can be crafted on purpose).
func (s *Sim) SignTx(priv cryptotypes.PrivKey, msgs []sdk.Msg, o TxOpts) ([]byte, error) {
	addr := sdk.AccAddress(priv.PubKey().Address())
	var num, seq uint64
	ctx := s.ReadCtx()
	if o.UseCheckState {
		ctx = s.CheckCtx()
	}
	if acc := s.App.AccountKeeper.GetAccount(ctx, addr); acc != nil {
		num, seq = acc.GetAccountNumber(), acc.GetSequence()
	}
	if o.SeqOverride != nil {
		seq = *o.SeqOverride
	}
	if o.AccNumOverride != nil {
		num = *o.AccNumOverride
	}
	gas := o.GasLimit
	if gas == 0 {
		gas = 10_000_000
	}
	chainID := s.ChainID
	if o.ChainID != "" {
		chainID = o.ChainID
	}

	b := s.TxConfig.NewTxBuilder()
	if err := b.SetMsgs(msgs...); err != nil {
		return nil, err
	}
	b.SetGasLimit(gas)
	b.SetMemo(o.Memo)
	b.SetTimeoutHeight(o.TimeoutHeight)

	mode := signing.SignMode_SIGN_MODE_DIRECT
	if err := b.SetSignatures(signing.SignatureV2{
		PubKey: priv.PubKey(), Data: &signing.SingleSignatureData{SignMode: mode}, Sequence: seq,
	}); err != nil {
		return nil, err
	}
	sig, err := clienttx.SignWithPrivKey(ctx, mode, xauthsigning.SignerData{
		Address: addr.String(), ChainID: chainID, AccountNumber: num, Sequence: seq, PubKey: priv.PubKey(),
	}, b, priv, s.TxConfig, seq)
	if err != nil {
		return nil, err
	}
	if err := b.SetSignatures(sig); err != nil {
		return nil, err
	}
	return s.TxConfig.TxEncoder()(b.GetTx())
}

// BuildEthBlockTx wraps a (possibly hand-crafted / mutated) payload into a MsgNewEthBlock tx
// signed by the given validator key, with gas limit 1e8 like the real handler. timeoutHeight
// must equal the block height for the ante handler to accept it. opts may be nil.
func (s *Sim) BuildEthBlockTx(proposer ValKey, payload *goatmod.ExecutionPayload, timeoutHeight uint64, opts *TxOpts) ([]byte, error) {
	o := TxOpts{}
	if opts != nil {
		o = *opts
	}
	if o.GasLimit == 0 {
		o.GasLimit = 1e8
	}
	o.TimeoutHeight = timeoutHeight
	return s.SignTx(proposer.Priv, []sdk.Msg{&goatmod.MsgNewEthBlock{Proposer: proposer.AddrStr, Payload: payload}}, o)
}

// DueGoatTxs returns the system ("goat") transactions the next execution block must start with,
// computed with GoatKeeper.Dequeue on a throw-away branch of the latest state.
func (s *Sim) DueGoatTxs() ([][]byte, error) {
	return s.App.GoatKeeper.Dequeue(s.ReadCtx())
}

// BuildPayload reimplements x/goat's createEthBlockProposal up to the payload: parent = x/goat's
// current block, beacon root from state, due goat txs from Dequeue, fee recipient = proposer,
// timestamp = NextTime(); the payload content comes from the fake engine's script (DirectBuild).
func (s *Sim) BuildPayload(proposerIdx int) (*goatmod.ExecutionPayload, error) {
	parent, beacon, err := s.EthHead()
	if err != nil {
		return nil, err
	}
	goatTxs, err := s.DueGoatTxs()
	if err != nil {
		return nil, err
	}
	root := common.BytesToHash(beacon)
	ts := uint64(s.NextTime().Unix())
	if s.Cfg.WallClockPayloads {
		ts = uint64(time.Now().UTC().Unix()) // as the real handler does: the head then carries the current second
	}
	env := s.Engine.DirectBuild(common.BytesToHash(parent.BlockHash), parent.BlockNumber, &engine.PayloadAttributes{
		Timestamp:             ts,
		Random:                common.BytesToHash(seedHash(s.Cfg.Seed+uint64(s.Height), "appsim-prevrandao")),
		SuggestedFeeRecipient: common.BytesToAddress(s.Validators[proposerIdx].ConsAddr),
		Withdrawals:           ethtypes.Withdrawals{},
		BeaconRoot:            &root,
		GoatTxs:               goatTxs,
	})
	return goatmod.ExecutableDataToPayload(env.ExecutionPayload, beacon, env.Requests), nil
}

// BuildProposal constructs the same proposal the real PrepareProposal handler would, without the
// engine round trips and the 50 ms sleep: [MsgNewEthBlock tx signed by Validators[proposerIdx]]
// followed by mempoolTxs verbatim (max 15 of them fit: the handler caps a block at 16 txs).
func (s *Sim) BuildProposal(proposerIdx int, mempoolTxs [][]byte) ([][]byte, error) {
	payload, err := s.BuildPayload(proposerIdx)
	if err != nil {
		return nil, err
	}
	tx, err := s.BuildEthBlockTx(s.Validators[proposerIdx], payload, uint64(s.Height+1), nil)
	if err != nil {
		return nil, err
	}
	return append([][]byte{tx}, mempoolTxs...), nil
}

// ---------------------------------------------------------------- relayer votes

// VoterBitmap encodes a set of positions in Relayer.Voters the way x/relayer reads it
// (github.com/kelindar/bitmap: little-endian uint64 words).
func VoterBitmap(positions []int) []byte {
	var b bitmap.Bitmap
	for _, p := range positions {
		b.Set(uint32(p))
	}
	return b.ToBytes()
}

// SignVote computes relayertypes.VoteSignDoc(msg.MethodName(), chainID, msg.GetProposer(), seq,
// epoch, msg.VoteSigDoc()), signs it with the BLS keys of RelayerKeys[signers...] and returns the
// aggregated 48-byte signature. The on-chain check aggregates the proposer's key plus the keys
// selected by the bitmap, so signers should be the proposer plus exactly the bitmap's voters.
func (s *Sim) SignVote(msg relayertypes.IVoteMsg, signers []int, seq, epoch uint64, chainID string) ([]byte, error) {
	doc := relayertypes.VoteSignDoc(msg.MethodName(), chainID, msg.GetProposer(), seq, epoch, msg.VoteSigDoc())
	sigs := make([][]byte, 0, len(signers))
	for _, i := range signers {
		sigs = append(sigs, goatcrypto.Sign(s.RelayerKeys[i].BLS, doc))
	}
	if len(sigs) == 0 {
		return nil, errors.New("no signers")
	}
	return goatcrypto.AggregateSignatures(sigs)
}

// RelayerKeyIndex returns the index in RelayerKeys of a bech32 relayer address (-1 if unknown).
func (s *Sim) RelayerKeyIndex(addr string) int {
	for i, m := range s.RelayerKeys {
		if m.AddrStr == addr {
			return i
		}
	}
	return -1
}

// MakeVote builds the Votes record for msg against the *current* on-chain relayer state
// (sequence, epoch, proposer, voter order). signers are indices into RelayerKeys; the current
// proposer's index is added automatically if missing, the others are mapped to their position in
// Relayer.Voters for the bitmap. msg.GetProposer() must already be set (use CurrentProposer()).
func (s *Sim) MakeVote(msg relayertypes.IVoteMsg, signers []int) (*relayertypes.Votes, error) {
	rel, seq, err := s.RelayerState()
	if err != nil {
		return nil, err
	}
	pidx := s.RelayerKeyIndex(rel.Proposer)
	if pidx < 0 {
		return nil, fmt.Errorf("no key for current proposer %s", rel.Proposer)
	}
	pos := map[string]int{}
	for i, v := range rel.Voters {
		pos[v] = i
	}
	all := []int{pidx}
	var positions []int
	seen := map[int]bool{pidx: true}
	for _, i := range signers {
		if seen[i] {
			continue
		}
		seen[i] = true
		p, ok := pos[s.RelayerKeys[i].AddrStr]
		if !ok {
			return nil, fmt.Errorf("relayer key %d (%s) is not a current voter", i, s.RelayerKeys[i].AddrStr)
		}
		all = append(all, i)
		positions = append(positions, p)
	}
	sig, err := s.SignVote(msg, all, seq, rel.Epoch, s.ChainID)
	if err != nil {
		return nil, err
	}
	return &relayertypes.Votes{Sequence: seq, Epoch: rel.Epoch, Voters: VoterBitmap(positions), Signature: sig}, nil
}

// FullVote is MakeVote with every current voter we hold a key for.
func (s *Sim) FullVote(msg relayertypes.IVoteMsg) (*relayertypes.Votes, error) {
	rel, _, err := s.RelayerState()
	if err != nil {
		return nil, err
	}
	var signers []int
	for _, v := range rel.Voters {
		if i := s.RelayerKeyIndex(v); i >= 0 {
			signers = append(signers, i)
		}
	}
	return s.MakeVote(msg, signers)
}

// CurrentProposer returns the key material of the current on-chain relayer proposer.
func (s *Sim) CurrentProposer() (RelayerMember, error) {
	rel, _, err := s.RelayerState()
	if err != nil {
		return RelayerMember{}, err
	}
	i := s.RelayerKeyIndex(rel.Proposer)
	if i < 0 {
		return RelayerMember{}, fmt.Errorf("no key for current proposer %s", rel.Proposer)
	}
	return s.RelayerKeys[i], nil
}
