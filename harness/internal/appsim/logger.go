package appsim

import (
	"fmt"
	"strings"
	"sync"
	"sync/atomic"

	"cosmossdk.io/log"
)

// CaptureLogger is a cosmossdk.io/log.Logger that drops Info/Debug and keeps the last Warn/Error
// lines in memory. BaseApp swallows PrepareProposal/ProcessProposal handler errors (it only logs
// them), so this is the only way to learn *why* a proposal was not built / was rejected.
type CaptureLogger struct {
	st   *captureState
	with string
}

type captureState struct {
	mu    sync.Mutex
	lines []string
	max   int
	// verbose also records Info lines (slow; for debugging).
	verbose atomic.Bool
}

func NewCaptureLogger(max int) *CaptureLogger {
	if max <= 0 {
		max = 256
	}
	return &CaptureLogger{st: &captureState{max: max}}
}

var _ log.Logger = (*CaptureLogger)(nil)

func fmtKV(kv []any) string {
	var sb strings.Builder
	for i := 0; i+1 < len(kv); i += 2 {
		fmt.Fprintf(&sb, " %v=%v", kv[i], kv[i+1])
	}
	return sb.String()
}

func (l *CaptureLogger) add(level, msg string, kv []any) {
	line := level + " " + msg + l.with + fmtKV(kv)
	l.st.mu.Lock()
	if len(l.st.lines) >= l.st.max {
		copy(l.st.lines, l.st.lines[1:])
		l.st.lines = l.st.lines[:len(l.st.lines)-1]
	}
	l.st.lines = append(l.st.lines, line)
	l.st.mu.Unlock()
}

func (l *CaptureLogger) Info(msg string, kv ...any) {
	if l.st.verbose.Load() {
		l.add("INF", msg, kv)
	}
}
func (l *CaptureLogger) Debug(string, ...any)        {}
func (l *CaptureLogger) Warn(msg string, kv ...any)  { l.add("WRN", msg, kv) }
func (l *CaptureLogger) Error(msg string, kv ...any) { l.add("ERR", msg, kv) }
func (l *CaptureLogger) Impl() any                   { return l }
func (l *CaptureLogger) With(kv ...any) log.Logger {
	return &CaptureLogger{st: l.st, with: l.with + fmtKV(kv)}
}

// SetVerbose makes the logger also keep Info lines.
func (l *CaptureLogger) SetVerbose(v bool) { l.st.verbose.Store(v) }

// Lines returns a copy of the captured lines (oldest first).
func (l *CaptureLogger) Lines() []string {
	l.st.mu.Lock()
	defer l.st.mu.Unlock()
	return append([]string(nil), l.st.lines...)
}

// Last returns the most recent captured ERR line ("" if none).
func (l *CaptureLogger) Last() string {
	l.st.mu.Lock()
	defer l.st.mu.Unlock()
	for i := len(l.st.lines) - 1; i >= 0; i-- {
		if strings.HasPrefix(l.st.lines[i], "ERR") {
			return l.st.lines[i]
		}
	}
	return ""
}

// Reset drops all captured lines.
func (l *CaptureLogger) Reset() { l.st.mu.Lock(); l.st.lines = l.st.lines[:0]; l.st.mu.Unlock() }
