package world

import (
	bitcoinkeeper "github.com/goatnetwork/goat/x/bitcoin/keeper"
	"fmt"
	"math/big"
	"sort"
	"strconv"
	"strings"
	"time"

	"cosmossdk.io/core/comet"
	sdkmath "cosmossdk.io/math"
	"github.com/btcsuite/btcd/btcutil"
	"github.com/btcsuite/btcd/txscript"
	abci "github.com/cometbft/cometbft/abci/types"
	cmtproto "github.com/cometbft/cometbft/proto/tendermint/types"
	cmttypes "github.com/cometbft/cometbft/types"
	sdk "github.com/cosmos/cosmos-sdk/types"
	"github.com/ethereum/go-ethereum/common"
	ethtypes "github.com/ethereum/go-ethereum/core/types"
	"github.com/ethereum/go-ethereum/core/types/goattypes"
	bitcointypes "github.com/goatnetwork/goat/x/bitcoin/types"
	lockingtypes "github.com/goatnetwork/goat/x/locking/types"
	relayertypes "github.com/goatnetwork/goat/x/relayer/types"
	"verif/harness/internal/tr"
)

func u64(s string) uint64 { v, _ := strconv.ParseUint(s, 10, 64); return v }
func i64(s string) int64  { v, _ := strconv.ParseInt(s, 10, 64); return v }
func bigOf(s string) *big.Int {
	v, ok := new(big.Int).SetString(s, 10)
	if !ok {
		return new(big.Int)
	}
	return v
}
func fields(s string) []string { return strings.Split(s, "|") }

func tm(ns int64) time.Time { return time.Unix(0, ns).UTC() }

func voteOf(o *tr.Op) *relayertypes.Votes {
	if o.Str("hasvote") == "0" {
		return nil
	}
	return &relayertypes.Votes{Sequence: o.U64("seq"), Epoch: o.U64("epoch"), Voters: o.Bytes("bitmap"), Signature: o.Bytes("sig")}
}

func PubKeyOf(kind string, key []byte) *relayertypes.PublicKey {
	switch kind {
	case "0":
		return &relayertypes.PublicKey{Key: &relayertypes.PublicKey_Secp256K1{Secp256K1: key}}
	case "1":
		return &relayertypes.PublicKey{Key: &relayertypes.PublicKey_Schnorr{Schnorr: key}}
	case "2":
		return nil
	}
	return &relayertypes.PublicKey{}
}

// ctxAt returns the base context at a given height/time (0 = keep).
func (w *World) ctxAt(o *tr.Op) sdk.Context {
	ctx := w.Ctx
	if o.Has("height") {
		ctx = ctx.WithBlockHeight(o.I64("height"))
	}
	if o.Has("time") {
		ctx = ctx.WithBlockTime(tm(o.I64("time")))
	}
	return ctx
}

// Exec executes one trace operation on the real keepers and returns the canonical outcome.
func (w *World) Exec(o *tr.Op) string {
	switch o.Kind {
	case "oracle":
		return "ok"
	case "init.rel":
		return w.initRel(o)
	case "init.btc":
		return w.initBtc(o)
	case "init.lock":
		return w.initLock(o)
	case "acc.add":
		w.Acc.SetAccount(w.Ctx, w.Acc.NewAccountWithAddress(w.Ctx, o.Bytes("addr")))
		return "ok"
	case "dump.rel":
		return w.DumpRel()
	case "dump.btc":
		return w.DumpBtc()
	case "dump.lock":
		return w.DumpLock()
	case "dump.acc":
		return w.DumpAcc()

	case "btc.validateparams":
		p := bitcointypes.Params{NetworkName: o.Str("net"), ConfirmationNumber: o.U64("conf"), MinDepositAmount: o.U64("min"),
			DepositMagicPrefix: o.Bytes("magic"), DepositTaxRate: o.U64("rate"), MaxDepositTax: o.U64("max")}
		if err := p.Validate(); err != nil {
			return "err"
		}
		return "ok"
	case "q.depositaddr":
		// the DepositAddress query of the bitcoin module (what the node hands out): address string and, for version 1, the
		// data-output script
		res, err := bitcoinkeeper.NewQueryServerImpl(w.Btc).DepositAddress(w.Ctx, &bitcointypes.QueryDepositAddress{Version: uint32(o.U64("version")), EvmAddress: o.Str("evm")})
		if err != nil {
			return "err"
		}
		return fmt.Sprintf("ok addr=%s opret=%s", res.Address, hexOrDash(res.OpReturnScript))
	case "lock.validateparams":
		p := lockingtypes.Params{
			UnlockDuration: time.Duration(o.I64("unlock")), ExitingDuration: time.Duration(o.I64("exit")), DowntimeJailDuration: time.Duration(o.I64("jail")),
			MaxValidators: o.I64("maxvals"), SignedBlocksWindow: o.I64("window"), MaxMissedPerWindow: o.I64("maxmissed"),
			SlashFractionDoubleSign: decOf(o.Str("slashds")), SlashFractionDowntime: decOf(o.Str("slashdt")),
			HalvingInterval: o.I64("halving"), InitialBlockReward: o.I64("reward")}
		if err := p.Validate(); err != nil {
			return "err"
		}
		return "ok"
	case "addr.decode":
		sc, err := bitcointypes.DecodeBtcAddress(string(o.Bytes("str")), bitcointypes.BitcoinNetworks[o.Str("net")])
		if err != nil {
			return "x"
		}
		return tr.Hex(sc)
	case "addr.deposit":
		return w.addrDeposit(o)
	case "addr.verify":
		// the deposit verifiers on arbitrary scripts: accepted (1) or not (0)
		pk := PubKeyOf(o.Str("kind"), o.Bytes("key"))
		if o.Str("version") == "0" {
			return tr.B(bitcointypes.VerifyDespositScriptV0(pk, o.Bytes("evm"), o.Bytes("out0")) == nil)
		}
		return tr.B(bitcointypes.VerifyDespositScriptV1(pk, o.Bytes("magic"), o.Bytes("evm"), o.Bytes("out0"), o.Bytes("out1")) == nil)

	// ------------------------------------------------------------------ relayer / bridge messages
	case "tx.hashes", "tx.pubkey", "tx.deposits", "tx.process", "tx.replace", "tx.finalize", "tx.approve", "tx.consolidate", "tx.newvoter", "tx.accept":
		return w.RunTx(w.ctxAt(o), func(ctx sdk.Context) error { return w.Deliver(ctx, MsgOf(o)) })

	// ------------------------------------------------------------- execution-layer request lists
	case "req.relayer":
		return w.RunTx(w.ctxAt(o), func(ctx sdk.Context) error { return w.Rel.ProcessRelayerRequest(ctx, RelayerReqOf(o)) })
	case "req.bridge":
		return w.RunTx(w.ctxAt(o), func(ctx sdk.Context) error { return w.Btc.ProcessBridgeRequest(ctx, BridgeReqOf(o)) })
	case "req.lock":
		res := w.RunTx(w.ctxAt(o), func(ctx sdk.Context) error { return w.Lock.ProcessLockingRequest(ctx, LockReqOf(o)) })
		return res

	// ------------------------------------------------------------------------------------ hooks
	case "hook.rel.end":
		return w.RunHook(w.ctxAt(o), func(ctx sdk.Context) error { return w.Rel.EndBlocker(ctx) })
	case "hook.lock.begin":
		ctx := w.ctxAt(o)
		var votes []abci.VoteInfo
		for _, v := range o.List("votes") {
			f := fields(v)
			flag := cmtproto.BlockIDFlagCommit
			if f[2] == "1" {
				flag = cmtproto.BlockIDFlagAbsent
			}
			votes = append(votes, abci.VoteInfo{Validator: abci.Validator{Address: tr.UnHex(f[0]), Power: i64(f[1])}, BlockIdFlag: flag})
		}
		ctx = ctx.WithVoteInfos(votes)
		var mis []abci.Misbehavior
		for _, e := range o.List("ev") {
			f := fields(e)
			mis = append(mis, abci.Misbehavior{Type: abci.MisbehaviorType(i64(f[0])), Validator: abci.Validator{Address: tr.UnHex(f[1])}, Height: i64(f[2]), Time: tm(i64(f[3]))})
		}
		ctx = ctx.WithCometInfo(cometInfo{mis: mis})
		if ma := o.Str("maxage"); ma != "-" && ma != "" {
			f := fields(ma)
			ctx = ctx.WithConsensusParams(cmtproto.ConsensusParams{Evidence: &cmtproto.EvidenceParams{MaxAgeDuration: time.Duration(i64(f[0])), MaxAgeNumBlocks: i64(f[1])}})
		}
		if o.Str("obs") != "1" {
			return w.RunHook(ctx, func(ctx sdk.Context) error { return w.Lock.BeginBlocker(ctx) })
		}
		// observe who is punished by this hook: validators whose status becomes downgrade / tombstoned
		statuses := func() map[string]string {
			m := map[string]string{}
			_ = w.Lock.Validators.Walk(w.Ctx, nil, func(a sdk.ConsAddress, v lockingtypes.Validator) (bool, error) {
				m[fmt.Sprintf("%x", []byte(a))] = statusName[v.Status]
				return false, nil
			})
			return m
		}
		before := statuses()
		res := w.RunHook(ctx, func(ctx sdk.Context) error { return w.Lock.BeginBlocker(ctx) })
		if res != "ok" {
			return res
		}
		var pun []string
		for a, st := range statuses() {
			if st != before[a] && (st == "downgrade" || st == "tombstoned") {
				pun = append(pun, a+"|"+st)
			}
		}
		sort.Strings(pun)
		return "ok pun=" + tr.StrList(pun)
	case "hook.lock.end":
		var ups []abci.ValidatorUpdate
		res := w.RunHook(w.ctxAt(o), func(ctx sdk.Context) error {
			var err error
			ups, err = w.Lock.EndBlocker(ctx)
			return err
		})
		if res != "ok" {
			return res
		}
		var ss []string
		for _, u := range ups {
			ss = append(ss, fmt.Sprintf("%x|%d", u.PubKey.GetSecp256K1(), uint64(u.Power)))
		}
		sort.Strings(ss)
		return "ok ups=" + tr.StrList(ss) + " ;; comet=" + w.ApplyComet(ups)

	// ---------------------------------------------------------------------------------- dequeue
	case "btc.dequeue":
		var txs []*ethtypes.Transaction
		res := w.RunTx(w.ctxAt(o), func(ctx sdk.Context) error {
			var err error
			txs, err = w.Btc.DequeueBitcoinModuleTx(ctx)
			if err == nil && o.Str("commit") == "0" {
				return fmt.Errorf("discard-branch")
			}
			return err
		})
		if strings.HasPrefix(res, "err ;; other:discard-branch") {
			res = "ok"
		}
		if res != "ok" {
			return res
		}
		return "ok txs=" + SysTxList(txs) + " raw=" + SysTxRawHex(txs)
	case "lock.dequeue":
		var txs []*ethtypes.Transaction
		res := w.RunTx(w.ctxAt(o), func(ctx sdk.Context) error {
			var err error
			txs, err = w.Lock.DequeueLockingModuleTx(ctx)
			if err == nil && o.Str("commit") == "0" {
				return fmt.Errorf("discard-branch")
			}
			return err
		})
		if strings.HasPrefix(res, "err ;; other:discard-branch") {
			res = "ok"
		}
		if res != "ok" {
			return res
		}
		return "ok txs=" + SysTxList(txs) + " raw=" + SysTxRawHex(txs)
	}
	return "unknown-op " + o.Kind
}

// ApplyComet feeds the update list to a real CometBFT validator set (what the consensus engine would
// do with ResponseFinalizeBlock.ValidatorUpdates) and reports whether it is acceptable.
func (w *World) ApplyComet(ups []abci.ValidatorUpdate) (res string) {
	defer func() {
		if e := recover(); e != nil {
			res = "panic"
		}
	}()
	if w.Comet == nil {
		w.Comet = cmttypes.NewValidatorSet(nil)
	}
	if len(ups) == 0 {
		return "ok"
	}
	vals, err := cmttypes.PB2TM.ValidatorUpdates(ups)
	if err != nil {
		return "err:convert"
	}
	cp := w.Comet.Copy()
	if err := cp.UpdateWithChangeSet(vals); err != nil {
		m := err.Error()
		switch {
		case strings.Contains(m, "duplicate entry"):
			return "err:duplicate"
		case strings.Contains(m, "can't be negative"):
			return "err:negative"
		case strings.Contains(m, "can't be higher"):
			return "err:too-high"
		case strings.Contains(m, "empty set"):
			return "err:empty-set"
		case strings.Contains(m, "failed to find validator"):
			return "err:remove-non-member"
		case strings.Contains(m, "exceeds max"):
			return "err:total-overflow"
		}
		return "err:other"
	}
	w.Comet = cp
	return "ok"
}

// addrDeposit: what the node hands out (DepositAddressV0/V1) decoded independently with btcutil,
// then fed to the real verifiers for the same and for a different key / EVM address.
func (w *World) addrDeposit(o *tr.Op) string {
	net := bitcointypes.BitcoinNetworks[o.Str("net")]
	pk := PubKeyOf(o.Str("kind"), o.Bytes("key"))
	pk2 := PubKeyOf(o.Str("kind2"), o.Bytes("key2"))
	evm, evm2, magic := o.Bytes("evm"), o.Bytes("evm2"), o.Bytes("magic")
	script := func(a btcutil.Address) []byte {
		dec, err := btcutil.DecodeAddress(a.EncodeAddress(), net)
		if err != nil {
			return nil
		}
		sc, _ := txscript.PayToAddrScript(dec)
		return sc
	}
	if o.Str("version") == "0" {
		a, err := bitcointypes.DepositAddressV0(pk, evm, net)
		if err != nil {
			return "none"
		}
		sc := script(a)
		same := bitcointypes.VerifyDespositScriptV0(pk, evm, sc) == nil
		otherKey := bitcointypes.VerifyDespositScriptV0(pk2, evm, sc) == nil
		otherEvm := bitcointypes.VerifyDespositScriptV0(pk, evm2, sc) == nil
		res := fmt.Sprintf("%s same=%s otherkey=%s otherevm=%s", tr.Hex(sc), tr.B(same), tr.B(otherKey), tr.B(otherEvm))
		if o.Has("mutpos") {
			res += " mut=" + tr.B(bitcointypes.VerifyDespositScriptV0(pk, evm, mutate(sc, o.Int("mutpos"), byte(o.Int("mutval")))) == nil)
		}
		return res
	}
	a, data, err := bitcointypes.DepositAddressV1(pk, magic, evm, net)
	if err != nil {
		return "none"
	}
	sc := script(a)
	same := bitcointypes.VerifyDespositScriptV1(pk, magic, evm, sc, data) == nil
	otherKey := bitcointypes.VerifyDespositScriptV1(pk2, magic, evm, sc, data) == nil
	otherEvm := bitcointypes.VerifyDespositScriptV1(pk, magic, evm2, sc, data) == nil
	res := fmt.Sprintf("%s+%s same=%s otherkey=%s otherevm=%s", tr.Hex(sc), tr.Hex(data), tr.B(same), tr.B(otherKey), tr.B(otherEvm))
	if o.Has("mutpos") {
		res += " mut=" + tr.B(bitcointypes.VerifyDespositScriptV1(pk, magic, evm, mutate(sc, o.Int("mutpos"), byte(o.Int("mutval"))), data) == nil)
	}
	return res
}

// mutate: a copy of sc with the byte at pos replaced (unchanged when pos is out of range)
func mutate(sc []byte, pos int, val byte) []byte {
	c := append([]byte{}, sc...)
	if pos >= 0 && pos < len(c) {
		c[pos] = val
	}
	return c
}

// MsgOf builds the real sdk.Msg a `tx.*` operation describes.
func MsgOf(o *tr.Op) sdk.Msg {
	switch o.Kind {
	case "tx.hashes":
		return &bitcointypes.MsgNewBlockHashes{Proposer: o.Str("proposer"), Vote: voteOf(o), StartBlockNumber: o.U64("start"), BlockHash: o.BytesList("hashes")}
	case "tx.pubkey":
		return &bitcointypes.MsgNewPubkey{Proposer: o.Str("proposer"), Vote: voteOf(o), Pubkey: PubKeyOf(o.Str("kind"), o.Bytes("key"))}
	case "tx.deposits":
		m := &bitcointypes.MsgNewDeposits{Proposer: o.Str("proposer")}
		for _, h := range o.List("headers") {
			f := fields(h)
			m.BlockHeaders = append(m.BlockHeaders, &bitcointypes.BlockHeader{Height: u64(f[0]), Raw: tr.UnHex(f[1])})
		}
		for _, d := range o.List("deps") {
			f := fields(d)
			m.Deposits = append(m.Deposits, &bitcointypes.Deposit{Version: uint32(u64(f[0])), BlockNumber: u64(f[1]), TxIndex: uint32(u64(f[2])),
				NoWitnessTx: tr.UnHex(f[3]), OutputIndex: uint32(u64(f[4])), IntermediateProof: tr.UnHex(f[5]), EvmAddress: tr.UnHex(f[6]),
				RelayerPubkey: PubKeyOf(f[7], tr.UnHex(f[8]))})
		}
		return m
	case "tx.process":
		return &bitcointypes.MsgProcessWithdrawal{Proposer: o.Str("proposer"), Vote: voteOf(o), Id: o.U64List("ids"), NoWitnessTx: o.Bytes("tx"), TxFee: o.U64("fee")}
	case "tx.replace":
		return &bitcointypes.MsgReplaceWithdrawal{Proposer: o.Str("proposer"), Vote: voteOf(o), Pid: o.U64("pid"), NewNoWitnessTx: o.Bytes("tx"), NewTxFee: o.U64("fee")}
	case "tx.finalize":
		return &bitcointypes.MsgFinalizeWithdrawal{Proposer: o.Str("proposer"), Pid: o.U64("pid"), Txid: o.Bytes("txid"), BlockNumber: o.U64("block"),
			TxIndex: uint32(o.U64("txindex")), IntermediateProof: o.Bytes("proof"), BlockHeader: o.Bytes("header")}
	case "tx.approve":
		return &bitcointypes.MsgApproveCancellation{Proposer: o.Str("proposer"), Id: o.U64List("ids")}
	case "tx.consolidate":
		return &bitcointypes.MsgNewConsolidation{Proposer: o.Str("proposer"), Vote: voteOf(o), NoWitnessTx: o.Bytes("tx")}
	case "tx.newvoter":
		return &relayertypes.MsgNewVoterRequest{Proposer: o.Str("proposer"), VoterBlsKey: o.Bytes("blskey"), VoterBlsKeyProof: o.Bytes("blsproof"),
			VoterTxKey: o.Bytes("txkey"), VoterTxKeyProof: o.Bytes("txproof")}
	case "tx.accept":
		return &relayertypes.MsgAcceptProposerRequest{Proposer: o.Str("proposer"), Epoch: o.U64("epoch")}
	}
	return nil
}

// Deliver routes a message to the real msg server of its module.
func (w *World) Deliver(ctx sdk.Context, m sdk.Msg) error {
	var err error
	switch t := m.(type) {
	case *bitcointypes.MsgNewBlockHashes:
		_, err = w.BtcMsg.NewBlockHashes(ctx, t)
	case *bitcointypes.MsgNewPubkey:
		_, err = w.BtcMsg.NewPubkey(ctx, t)
	case *bitcointypes.MsgNewDeposits:
		_, err = w.BtcMsg.NewDeposits(ctx, t)
	case *bitcointypes.MsgProcessWithdrawal:
		_, err = w.BtcMsg.ProcessWithdrawal(ctx, t)
	case *bitcointypes.MsgReplaceWithdrawal:
		_, err = w.BtcMsg.ReplaceWithdrawal(ctx, t)
	case *bitcointypes.MsgFinalizeWithdrawal:
		_, err = w.BtcMsg.FinalizeWithdrawal(ctx, t)
	case *bitcointypes.MsgApproveCancellation:
		_, err = w.BtcMsg.ApproveCancellation(ctx, t)
	case *bitcointypes.MsgNewConsolidation:
		_, err = w.BtcMsg.NewConsolidation(ctx, t)
	case *relayertypes.MsgNewVoterRequest:
		_, err = w.RelMsg.NewVoter(ctx, t)
	case *relayertypes.MsgAcceptProposerRequest:
		_, err = w.RelMsg.AcceptProposer(ctx, t)
	default:
		err = fmt.Errorf("unknown message")
	}
	return err
}

type cometInfo struct{ mis []abci.Misbehavior }

type evList struct{ mis []abci.Misbehavior }

func (e evList) Len() int { return len(e.mis) }
func (e evList) Get(i int) comet.Evidence { return ev{e.mis[i]} }

type ev struct{ m abci.Misbehavior }

func (e ev) Type() comet.MisbehaviorType { return comet.MisbehaviorType(e.m.Type) }
func (e ev) Validator() comet.Validator  { return val{e.m.Validator} }
func (e ev) Height() int64               { return e.m.Height }
func (e ev) Time() time.Time             { return e.m.Time }
func (e ev) TotalVotingPower() int64     { return e.m.TotalVotingPower }

type val struct{ v abci.Validator }

func (v val) Address() []byte { return v.v.Address }
func (v val) Power() int64    { return v.v.Power }

func (c cometInfo) GetEvidence() comet.EvidenceList { return evList{c.mis} }
func (c cometInfo) GetValidatorsHash() []byte        { return nil }
func (c cometInfo) GetProposerAddress() []byte       { return nil }
func (c cometInfo) GetLastCommit() comet.CommitInfo  { return nil }

func RelayerReqOf(o *tr.Op) goattypes.RelayerRequests {
	var r goattypes.RelayerRequests
	for _, a := range o.List("adds") {
		f := fields(a)
		r.Adds = append(r.Adds, &goattypes.AddVoterRequest{Voter: common.BytesToAddress(tr.UnHex(f[0])), Pubkey: common.BytesToHash(tr.UnHex(f[1]))})
	}
	for _, a := range o.List("removes") {
		r.Removes = append(r.Removes, &goattypes.RemoveVoterRequest{Voter: common.BytesToAddress(tr.UnHex(a))})
	}
	return r
}

func BridgeReqOf(o *tr.Op) goattypes.BridgeRequests {
	var r goattypes.BridgeRequests
	for _, x := range o.List("withdraws") {
		f := fields(x)
		r.Withdraws = append(r.Withdraws, &goattypes.WithdrawalRequest{Id: u64(f[0]), Amount: u64(f[1]), TxPrice: u64(f[2]), Address: string(tr.UnHex(f[3]))})
	}
	for _, x := range o.List("rbf") {
		f := fields(x)
		r.ReplaceByFees = append(r.ReplaceByFees, &goattypes.ReplaceByFeeRequest{Id: u64(f[0]), TxPrice: u64(f[1])})
	}
	for _, x := range o.List("cancel") {
		r.Cancel1s = append(r.Cancel1s, &goattypes.Cancel1Request{Id: u64(x)})
	}
	for _, x := range o.List("tax") {
		f := fields(x)
		r.DepositTax = append(r.DepositTax, &goattypes.DepositTaxRequest{Rate: u64(f[0]), Max: u64(f[1])})
	}
	for _, x := range o.List("conf") {
		r.Confirmation = append(r.Confirmation, &goattypes.ConfirmationNumberRequest{Number: u64(x)})
	}
	for _, x := range o.List("min") {
		r.MinDeposit = append(r.MinDeposit, &goattypes.MinDepositRequest{Satoshi: u64(x)})
	}
	return r
}

func LockReqOf(o *tr.Op) goattypes.LockingRequests {
	var r goattypes.LockingRequests
	for _, x := range o.List("gas") {
		r.Gas = append(r.Gas, &goattypes.GasRequest{Height: o.U64("height"), Amount: bigOf(x)})
	}
	for _, x := range o.List("grants") {
		r.Grants = append(r.Grants, &goattypes.GrantRequest{Amount: bigOf(x)})
	}
	for _, x := range o.List("weights") {
		f := fields(x)
		r.UpdateWeights = append(r.UpdateWeights, &goattypes.UpdateTokenWeightRequest{Token: common.BytesToAddress(tr.UnHex(f[0])), Weight: u64(f[1])})
	}
	for _, x := range o.List("thresholds") {
		f := fields(x)
		r.UpdateThresholds = append(r.UpdateThresholds, &goattypes.UpdateTokenThresholdRequest{Token: common.BytesToAddress(tr.UnHex(f[0])), Threshold: bigOf(f[1])})
	}
	for _, x := range o.List("creates") {
		f := fields(x)
		var pk [64]byte
		copy(pk[:], tr.UnHex(f[1]))
		r.Creates = append(r.Creates, &goattypes.CreateRequest{Validator: common.BytesToAddress(tr.UnHex(f[0])), Pubkey: pk})
	}
	for _, x := range o.List("locks") {
		f := fields(x)
		r.Locks = append(r.Locks, &goattypes.LockRequest{Validator: common.BytesToAddress(tr.UnHex(f[0])), Token: common.BytesToAddress(tr.UnHex(f[1])), Amount: bigOf(f[2])})
	}
	for _, x := range o.List("unlocks") {
		f := fields(x)
		r.Unlocks = append(r.Unlocks, &goattypes.UnlockRequest{Id: u64(f[0]), Validator: common.BytesToAddress(tr.UnHex(f[1])), Recipient: common.BytesToAddress(tr.UnHex(f[2])),
			Token: common.BytesToAddress(tr.UnHex(f[3])), Amount: bigOf(f[4])})
	}
	for _, x := range o.List("claims") {
		f := fields(x)
		r.Claims = append(r.Claims, &goattypes.ClaimRequest{Id: u64(f[0]), Validator: common.BytesToAddress(tr.UnHex(f[1])), Recipient: common.BytesToAddress(tr.UnHex(f[2]))})
	}
	return r
}

// ------------------------------------------------------------------------------------------ init

func (w *World) initRel(o *tr.Op) string {
	ctx := w.Ctx
	must(w.Rel.Params.Set(ctx, relayertypes.Params{ElectingPeriod: time.Duration(o.I64("period")), AcceptProposerTimeout: time.Duration(o.I64("timeout"))}))
	must(w.Rel.Relayer.Set(ctx, relayertypes.Relayer{Epoch: o.U64("epoch"), Proposer: o.Str("proposer"), Voters: o.List("voters"),
		LastElected: tm(o.I64("last")), ProposerAccepted: o.Bool("acc")}))
	must(w.Rel.Sequence.Set(ctx, o.U64("seq")))
	must(w.Rel.Randao.Set(ctx, o.Bytes("randao")))
	must(w.Rel.Queue.Set(ctx, relayertypes.VoterQueue{}))
	for _, k := range o.List("keys") { // addr|raw20|blskey
		f := fields(k)
		must(w.Rel.Voters.Set(ctx, f[0], relayertypes.Voter{Address: tr.UnHex(f[1]), VoteKey: tr.UnHex(f[2]), Status: relayertypes.VOTER_STATUS_ACTIVATED}))
		w.Acc.SetAccount(ctx, w.Acc.NewAccountWithAddress(ctx, tr.UnHex(f[1])))
	}
	for _, k := range o.BytesList("pubkeys") {
		must(w.Rel.Pubkeys.Set(ctx, k))
	}
	return "ok"
}

func (w *World) initBtc(o *tr.Op) string {
	ctx := w.Ctx
	must(w.Btc.Params.Set(ctx, bitcointypes.Params{NetworkName: o.Str("net"), ConfirmationNumber: o.U64("conf"), MinDepositAmount: o.U64("min"),
		DepositMagicPrefix: o.Bytes("magic"), DepositTaxRate: o.U64("rate"), MaxDepositTax: o.U64("max")}))
	w.Net = bitcointypes.BitcoinNetworks[o.Str("net")]
	must(w.Btc.Pubkey.Set(ctx, *PubKeyOf(o.Str("kind"), o.Bytes("key"))))
	must(w.Btc.BlockTip.Set(ctx, o.U64("tip")))
	must(w.Btc.BlockHashes.Set(ctx, o.U64("tip"), o.Bytes("hash")))
	must(w.Btc.EthTxNonce.Set(ctx, o.U64("nonce")))
	must(w.Btc.ProcessID.Set(ctx, 0))
	must(w.Btc.EthTxQueue.Set(ctx, bitcointypes.EthTxQueue{BlockNumber: o.U64("tip")}))
	return "ok"
}

func decOf(scaled string) sdkmath.LegacyDec {
	return sdkmath.LegacyNewDecFromBigIntWithPrec(bigOf(scaled), 18)
}

func (w *World) initLock(o *tr.Op) string {
	ctx := w.Ctx
	must(w.Lock.Params.Set(ctx, lockingtypes.Params{
		UnlockDuration: time.Duration(o.I64("unlock")), ExitingDuration: time.Duration(o.I64("exit")), DowntimeJailDuration: time.Duration(o.I64("jail")),
		MaxValidators: o.I64("maxvals"), SignedBlocksWindow: o.I64("window"), MaxMissedPerWindow: o.I64("maxmissed"),
		SlashFractionDoubleSign: decOf(o.Str("slashds")), SlashFractionDowntime: decOf(o.Str("slashdt")),
		HalvingInterval: o.I64("halving"), InitialBlockReward: o.I64("reward")}))
	must(w.Lock.EthTxNonce.Set(ctx, o.U64("nonce")))
	must(w.Lock.EthTxQueue.Set(ctx, lockingtypes.EthTxQueue{}))
	must(w.Lock.RewardPool.Set(ctx, lockingtypes.RewardPool{Goat: sdkmath.ZeroInt(), Gas: sdkmath.ZeroInt(), Remain: sdkmath.NewIntFromBigInt(bigOf(o.Str("remain")))}))
	must(w.Lock.Threshold.Set(ctx, lockingtypes.Threshold{}))
	return "ok"
}

func must(err error) {
	if err != nil {
		panic(err)
	}
}

func hexOrDash(b []byte) string {
	if len(b) == 0 {
		return "-"
	}
	return tr.Hex(b)
}
