package world

import (
	"bytes"
	"fmt"
	"sort"
	"strings"
	"time"

	"cosmossdk.io/collections"
	sdkmath "cosmossdk.io/math"
	sdk "github.com/cosmos/cosmos-sdk/types"
	ethtypes "github.com/ethereum/go-ethereum/core/types"
	"github.com/ethereum/go-ethereum/core/types/goattypes"
	"github.com/ethereum/go-ethereum/rlp"
	bitcointypes "github.com/goatnetwork/goat/x/bitcoin/types"
	lockingtypes "github.com/goatnetwork/goat/x/locking/types"
	relayertypes "github.com/goatnetwork/goat/x/relayer/types"
	"verif/harness/internal/tr"
)

// SysTxText decodes a goat system transaction (raw bytes) into the canonical text the model prints.
// RLP/ABI encoding itself is trusted (goat-geth); fields are compared.
func SysTxText(raw []byte) string {
	if len(raw) < 1 || raw[0] != ethtypes.GoatTxType {
		return "not-goat-tx"
	}
	var g ethtypes.GoatTx
	if err := rlp.DecodeBytes(raw[1:], &g); err != nil {
		return "bad-rlp"
	}
	inner, err := goattypes.DecodeTx(g.Module, g.Action, g.Data)
	if err != nil || inner == nil {
		return "bad-inner"
	}
	switch t := inner.(type) {
	case *goattypes.NewBtcBlockTx:
		return fmt.Sprintf("nb|%d|%x", g.Nonce, t.Hash[:])
	case *goattypes.DepositTx:
		return fmt.Sprintf("dep|%d|%x|%d|%x|%s|%s", g.Nonce, t.Txid[:], t.TxOut, t.Target[:], t.Amount, t.Tax)
	case *goattypes.PaidTx:
		return fmt.Sprintf("paid|%d|%s|%x|%d|%s", g.Nonce, t.Id, t.Txid[:], t.TxOut, t.Amount)
	case *goattypes.Cancel2Tx:
		return fmt.Sprintf("c2|%d|%s", g.Nonce, t.Id)
	case *goattypes.DistributeRewardTx:
		return fmt.Sprintf("rew|%d|%d|%x|%s|%s", g.Nonce, t.Id, t.Recipient[:], t.Goat, t.GasReward)
	case *goattypes.CompleteUnlockTx:
		return fmt.Sprintf("unl|%d|%d|%x|%x|%s", g.Nonce, t.Id, t.Recipient[:], t.Token[:], t.Amount)
	}
	return "unknown-goat-tx"
}

func SysTxList(txs []*ethtypes.Transaction) string {
	var ss []string
	for _, tx := range txs {
		raw, err := tx.MarshalBinary()
		if err != nil {
			ss = append(ss, "marshal-error")
			continue
		}
		ss = append(ss, SysTxText(raw))
	}
	return tr.StrList(ss)
}

// SysTxRawHex: the system transactions byte for byte (what the execution layer is handed: type byte || RLP)
func SysTxRawHex(txs []*ethtypes.Transaction) string {
	var ss []string
	for _, tx := range txs {
		raw, err := tx.MarshalBinary()
		if err != nil {
			ss = append(ss, "marshal-error")
			continue
		}
		ss = append(ss, tr.Hex(raw))
	}
	return tr.StrList(ss)
}

func SysTxListRaw(raws [][]byte) string {
	var ss []string
	for _, raw := range raws {
		ss = append(ss, SysTxText(raw))
	}
	return tr.StrList(ss)
}

func ns(t time.Time) int64 {
	if t.IsZero() {
		return 0
	}
	return t.UnixNano()
}

// DumpRel: canonical dump of the relayer module obtained by walking the collections directly.
func (w *World) DumpRel() string { return DumpRel(w.Ctx, w) }


func DumpRel(ctx sdk.Context, w *World) string {
	k := w.Rel
	rel, err := k.Relayer.Get(ctx)
	if err != nil {
		return "rel error " + err.Error()
	}
	seq, _ := k.Sequence.Peek(ctx)
	randao, _ := k.Randao.Get(ctx)
	q, _ := k.Queue.Get(ctx)
	p, _ := k.Params.Get(ctx)
	var recs []string
	_ = k.Voters.Walk(ctx, nil, func(key string, v relayertypes.Voter) (bool, error) {
		recs = append(recs, fmt.Sprintf("%s|%x|%d|%d|%x", key, v.Address, int(v.Status), v.Height, v.VoteKey))
		return false, nil
	})
	sort.Strings(recs)
	var keys []string
	_ = k.Pubkeys.Walk(ctx, nil, func(key []byte) (bool, error) {
		keys = append(keys, fmt.Sprintf("%x", key))
		return false, nil
	})
	sort.Strings(keys)
	return fmt.Sprintf("rel period=%d timeout=%d prop=%s voters=%s epoch=%d last=%d acc=%s seq=%d randao=%x recs=%s on=%s off=%s keys=%s",
		int64(p.ElectingPeriod), int64(p.AcceptProposerTimeout), rel.Proposer, tr.StrList(rel.Voters), rel.Epoch, ns(rel.LastElected), tr.B(rel.ProposerAccepted), seq, randao,
		tr.StrList(recs), tr.StrList(q.OnBoarding), tr.StrList(q.OffBoarding), tr.StrList(keys))
}

func pkText(p *relayertypes.PublicKey) string {
	if p == nil {
		return "2|-"
	}
	switch t := p.Key.(type) {
	case *relayertypes.PublicKey_Secp256K1:
		return "0|" + tr.Hex(t.Secp256K1)
	case *relayertypes.PublicKey_Schnorr:
		return "1|" + tr.Hex(t.Schnorr)
	}
	return "3|-"
}

func (w *World) DumpBtc() string { return DumpBtc(w.Ctx, w) }

func DumpBtc(ctx sdk.Context, w *World) string {
	k := w.Btc
	p, err := k.Params.Get(ctx)
	if err != nil {
		return "btc error " + err.Error()
	}
	pk, _ := k.Pubkey.Get(ctx)
	tip, _ := k.BlockTip.Peek(ctx)
	nonce, _ := k.EthTxNonce.Peek(ctx)
	pid, _ := k.ProcessID.Peek(ctx)
	q, _ := k.EthTxQueue.Get(ctx)
	var hashes []string
	_ = k.BlockHashes.Walk(ctx, nil, func(h uint64, v []byte) (bool, error) {
		hashes = append(hashes, fmt.Sprintf("%d|%x", h, v))
		return false, nil
	})
	type dep struct {
		txid []byte
		vout uint32
		amt  uint64
	}
	var deps []dep
	_ = k.Deposited.Walk(ctx, nil, func(key collections.Pair[[]byte, uint32], v uint64) (bool, error) {
		deps = append(deps, dep{key.K1(), key.K2(), v})
		return false, nil
	})
	sort.Slice(deps, func(i, j int) bool {
		if c := bytes.Compare(deps[i].txid, deps[j].txid); c != 0 {
			return c < 0
		}
		return deps[i].vout < deps[j].vout
	})
	var ds []string
	for _, d := range deps {
		ds = append(ds, fmt.Sprintf("%x|%d|%d", d.txid, d.vout, d.amt))
	}
	var ws []string
	_ = k.Withdrawals.Walk(ctx, nil, func(id uint64, v bitcointypes.Withdrawal) (bool, error) {
		rc := "-"
		if v.Receipt != nil {
			rc = fmt.Sprintf("%s/%d/%d", tr.Hex(v.Receipt.Txid), v.Receipt.Txout, v.Receipt.Amount)
		}
		ws = append(ws, fmt.Sprintf("%d|%s|%d|%d|%d|%s", id, tr.Hex([]byte(v.Address)), v.RequestAmount, v.MaxTxPrice, int(v.Status), rc))
		return false, nil
	})
	var ps []string
	_ = k.Processing.Walk(ctx, nil, func(id uint64, v bitcointypes.Processing) (bool, error) {
		var txids, outs, ids []string
		for _, t := range v.Txid {
			txids = append(txids, tr.Hex(t))
		}
		for _, o := range v.Output {
			var vs []string
			for _, x := range o.Values {
				vs = append(vs, fmt.Sprint(x))
			}
			outs = append(outs, strings.Join(vs, "/"))
		}
		for _, x := range v.Withdrawals {
			ids = append(ids, fmt.Sprint(x))
		}
		ps = append(ps, fmt.Sprintf("%d|%d|%s|%s|%s", id, v.Fee, plus(ids), plus(txids), plus(outs)))
		return false, nil
	})
	var qd, qp, qr []string
	for _, d := range q.Deposits {
		qd = append(qd, fmt.Sprintf("%x|%x|%d|%d|%d", d.Address, d.Txid, d.Txout, d.Amount, d.Tax))
	}
	for _, d := range q.PaidWithdrawals {
		qp = append(qp, fmt.Sprintf("%d|%s|%d|%d", d.Id, tr.Hex(d.Receipt.Txid), d.Receipt.Txout, d.Receipt.Amount))
	}
	for _, d := range q.RejectedWithdrawals {
		qr = append(qr, fmt.Sprint(d))
	}
	return fmt.Sprintf("btc params=%d|%d|%d|%d|%x pubkey=%s tip=%d nonce=%d pid=%d qbn=%d hashes=%s deposited=%s w=%s proc=%s qdep=%s qpaid=%s qrej=%s",
		p.MinDepositAmount, p.ConfirmationNumber, p.DepositTaxRate, p.MaxDepositTax, p.DepositMagicPrefix, pkText(&pk), tip, nonce, pid, q.BlockNumber,
		tr.StrList(hashes), tr.StrList(ds), tr.StrList(ws), tr.StrList(ps), tr.StrList(qd), tr.StrList(qp), tr.StrList(qr))
}

func plus(xs []string) string {
	if len(xs) == 0 {
		return "-"
	}
	return strings.Join(xs, "+")
}

func coinsText(c sdk.Coins) string {
	var ss []string
	for _, x := range c {
		ss = append(ss, x.Denom+"/"+x.Amount.String())
	}
	return plus(ss)
}

var statusName = map[lockingtypes.ValidatorStatus]string{
	lockingtypes.Pending: "pending", lockingtypes.Active: "active", lockingtypes.Downgrade: "downgrade",
	lockingtypes.Tombstoned: "tombstoned", lockingtypes.Inactive: "inactive",
}

func (w *World) DumpLock() string { return DumpLock(w.Ctx, w) }

func DumpLock(ctx sdk.Context, w *World) string {
	k := w.Lock
	var vals, idx, rank, set, toks, sl, uq, qr, qu []string
	_ = k.Validators.Walk(ctx, nil, func(a sdk.ConsAddress, v lockingtypes.Validator) (bool, error) {
		st, ok := statusName[v.Status]
		if !ok {
			st = fmt.Sprint(int(v.Status))
		}
		vals = append(vals, fmt.Sprintf("%x|%s|%d|%s|%s|%d|%d|%d|%s|%x", []byte(a), st, v.Power, v.Reward, v.GasReward, v.SigningInfo.Offset, v.SigningInfo.Missed, ns(v.JailedUntil), coinsText(v.Locking), v.Pubkey))
		return false, nil
	})
	_ = k.Locking.Walk(ctx, nil, func(key collections.Pair[string, sdk.ConsAddress], v sdkmath.Int) (bool, error) {
		idx = append(idx, fmt.Sprintf("%s|%x|%s", key.K1(), []byte(key.K2()), v))
		return false, nil
	})
	sort.Strings(idx)
	_ = k.PowerRanking.Walk(ctx, nil, func(key collections.Pair[uint64, sdk.ConsAddress]) (bool, error) {
		rank = append(rank, fmt.Sprintf("%020d|%x", key.K1(), []byte(key.K2())))
		return false, nil
	})
	sort.Strings(rank)
	_ = k.ValidatorSet.Walk(ctx, nil, func(a sdk.ConsAddress, p uint64) (bool, error) {
		set = append(set, fmt.Sprintf("%x|%d", []byte(a), p))
		return false, nil
	})
	_ = k.Tokens.Walk(ctx, nil, func(d string, t lockingtypes.Token) (bool, error) {
		toks = append(toks, fmt.Sprintf("%s|%d|%s", d, t.Weight, t.Threshold))
		return false, nil
	})
	sort.Strings(toks)
	_ = k.Slashed.Walk(ctx, nil, func(d string, v sdkmath.Int) (bool, error) {
		sl = append(sl, fmt.Sprintf("%s|%s", d, v))
		return false, nil
	})
	sort.Strings(sl)
	_ = k.UnlockQueue.Walk(ctx, nil, func(t time.Time, u lockingtypes.Unlocks) (bool, error) {
		var us []string
		for _, x := range u.Unlocks {
			us = append(us, fmt.Sprintf("%d/%x/%x/%s", x.Id, x.Token, x.Recipient, x.Amount))
		}
		uq = append(uq, fmt.Sprintf("%d|%s", t.UnixNano(), plus(us)))
		return false, nil
	})
	thr, _ := k.Threshold.Get(ctx)
	pool, _ := k.RewardPool.Get(ctx)
	nonce, _ := k.EthTxNonce.Peek(ctx)
	q, _ := k.EthTxQueue.Get(ctx)
	for _, r := range q.Rewards {
		qr = append(qr, fmt.Sprintf("%d|%x|%s|%s", r.Id, r.Recipient, r.Goat, r.Gas))
	}
	for _, x := range q.Unlocks {
		qu = append(qu, fmt.Sprintf("%d|%x|%x|%s", x.Id, x.Token, x.Recipient, x.Amount))
	}
	return fmt.Sprintf("lock vals=%s idx=%s rank=%s set=%s tokens=%s thr=%s slashed=%s nonce=%d pool=%s|%s|%s qrew=%s qunl=%s uq=%s",
		tr.StrList(vals), tr.StrList(idx), tr.StrList(rank), tr.StrList(set), tr.StrList(toks), coinsText(thr.List), tr.StrList(sl), nonce,
		pool.Goat, pool.Gas, pool.Remain, tr.StrList(qr), tr.StrList(qu), tr.StrList(uq))
}

func (w *World) DumpAcc() string {
	st := w.Ctx.KVStore(w.Acc.key)
	it := st.Iterator(nil, nil)
	defer it.Close()
	var ss []string
	for ; it.Valid(); it.Next() {
		ss = append(ss, fmt.Sprintf("%x", it.Key()))
	}
	return "acc " + tr.StrList(ss)
}
