// Package world wires the REAL relayer, bitcoin, locking and goat keepers of /repo together on one
// in-memory multistore (real relayer keeper under the real bridge handlers — nothing is mocked
// except the account store and the engine client) and executes trace operations on them.
package world

import (
	"os"
	"runtime/debug"
	"context"
	"fmt"
	"strings"
	"time"

	"cosmossdk.io/core/address"
	"cosmossdk.io/log"
	"cosmossdk.io/store"
	"cosmossdk.io/store/metrics"
	storetypes "cosmossdk.io/store/types"
	"github.com/btcsuite/btcd/chaincfg"
	cmtproto "github.com/cometbft/cometbft/proto/tendermint/types"
	cmttypes "github.com/cometbft/cometbft/types"
	dbm "github.com/cosmos/cosmos-db"
	"github.com/cosmos/cosmos-sdk/codec"
	addresscodec "github.com/cosmos/cosmos-sdk/codec/address"
	codectypes "github.com/cosmos/cosmos-sdk/codec/types"
	cryptocodec "github.com/cosmos/cosmos-sdk/crypto/codec"
	"github.com/cosmos/cosmos-sdk/runtime"
	sdk "github.com/cosmos/cosmos-sdk/types"
	authtypes "github.com/cosmos/cosmos-sdk/x/auth/types"
	"github.com/ethereum/go-ethereum/beacon/engine"
	"github.com/ethereum/go-ethereum/common"
	"github.com/ethereum/go-ethereum/params"
	_ "github.com/goatnetwork/goat/app"
	bitcoinkeeper "github.com/goatnetwork/goat/x/bitcoin/keeper"
	bitcointypes "github.com/goatnetwork/goat/x/bitcoin/types"
	goatkeeper "github.com/goatnetwork/goat/x/goat/keeper"
	goattypes "github.com/goatnetwork/goat/x/goat/types"
	lockingkeeper "github.com/goatnetwork/goat/x/locking/keeper"
	lockingtypes "github.com/goatnetwork/goat/x/locking/types"
	relayerkeeper "github.com/goatnetwork/goat/x/relayer/keeper"
	relayertypes "github.com/goatnetwork/goat/x/relayer/types"
)

// AccKeeper is a minimal account keeper that persists into its own KV store through the SDK context,
// so that cache-context rollback also covers accounts (as with the real auth keeper).
type AccKeeper struct {
	key *storetypes.KVStoreKey
	ac  address.Codec
}

func (a *AccKeeper) st(ctx context.Context) storetypes.KVStore {
	return sdk.UnwrapSDKContext(ctx).KVStore(a.key)
}
func (a *AccKeeper) HasAccount(ctx context.Context, addr sdk.AccAddress) bool {
	return a.st(ctx).Has(addr)
}
func (a *AccKeeper) GetAccount(ctx context.Context, addr sdk.AccAddress) sdk.AccountI {
	if !a.HasAccount(ctx, addr) {
		return nil
	}
	return authtypes.NewBaseAccountWithAddress(addr)
}
func (a *AccKeeper) SetAccount(ctx context.Context, acc sdk.AccountI) {
	a.st(ctx).Set(acc.GetAddress(), []byte{1})
}
func (a *AccKeeper) RemoveAccount(ctx context.Context, acc sdk.AccountI) {
	a.st(ctx).Delete(acc.GetAddress())
}
func (a *AccKeeper) NewAccountWithAddress(ctx context.Context, addr sdk.AccAddress) sdk.AccountI {
	return authtypes.NewBaseAccountWithAddress(addr)
}
func (a *AccKeeper) NewAccount(ctx context.Context, acc sdk.AccountI) sdk.AccountI { return acc }
func (a *AccKeeper) GetSequence(ctx context.Context, addr sdk.AccAddress) (uint64, error) {
	return 0, nil
}
func (a *AccKeeper) NextAccountNumber(ctx context.Context) uint64 { return 0 }
func (a *AccKeeper) AddressCodec() address.Codec { return a.ac }

// FakeEngine is an in-process ethrpc.EngineClient with scripted answers (K layer only).
type FakeEngine struct {
	Calls     []string
	NewStatus string // status of NewPayloadV4 ("" = VALID)
	FcuStatus string
	NewErr    error
	FcuErr    error
}

func (e *FakeEngine) ForkchoiceUpdatedV3(ctx context.Context, update *engine.ForkchoiceStateV1, attrs *engine.PayloadAttributes) (engine.ForkChoiceResponse, error) {
	e.Calls = append(e.Calls, fmt.Sprintf("fcu head=%x safe=%x fin=%x attrs=%v", update.HeadBlockHash[:], update.SafeBlockHash[:], update.FinalizedBlockHash[:], attrs != nil))
	if e.FcuErr != nil {
		return engine.ForkChoiceResponse{}, e.FcuErr
	}
	st := e.FcuStatus
	if st == "" {
		st = engine.VALID
	}
	return engine.ForkChoiceResponse{PayloadStatus: engine.PayloadStatusV1{Status: st}}, nil
}
func (e *FakeEngine) GetPayloadV4(ctx context.Context, id engine.PayloadID) (*engine.ExecutionPayloadEnvelope, error) {
	return nil, fmt.Errorf("not scripted")
}
func (e *FakeEngine) NewPayloadV4(ctx context.Context, p *engine.ExecutableData, vh []common.Hash, root common.Hash, reqs [][]byte) (*engine.PayloadStatusV1, error) {
	e.Calls = append(e.Calls, fmt.Sprintf("newpayload hash=%x parent=%x number=%d root=%x", p.BlockHash[:], p.ParentHash[:], p.Number, root[:]))
	if e.NewErr != nil {
		return nil, e.NewErr
	}
	st := e.NewStatus
	if st == "" {
		st = engine.VALID
	}
	return &engine.PayloadStatusV1{Status: st}, nil
}
func (e *FakeEngine) ExchangeCapabilities(ctx context.Context, caps []string) ([]string, error) {
	return nil, nil
}
func (e *FakeEngine) GetClientVersionV1(ctx context.Context, info engine.ClientVersionV1) ([]engine.ClientVersionV1, error) {
	return nil, nil
}
func (e *FakeEngine) GetChainConfig(ctx context.Context) (*params.ChainConfig, error) {
	return &params.ChainConfig{}, nil
}

type World struct {
	ChainID string
	Ctx     sdk.Context
	Rel     relayerkeeper.Keeper
	Btc     bitcoinkeeper.Keeper
	Lock    lockingkeeper.Keeper
	Goat    goatkeeper.Keeper
	Acc     *AccKeeper
	Engine  *FakeEngine
	RelMsg  relayertypes.MsgServer
	BtcMsg  bitcointypes.MsgServer
	GoatMsg goattypes.MsgServer
	Net     *chaincfg.Params
	AC      address.Codec
	Comet   *cmttypes.ValidatorSet // CometBFT-side validator set fed with every update list
}

func New(chainID string) *World {
	relKey := storetypes.NewKVStoreKey(relayertypes.StoreKey)
	btcKey := storetypes.NewKVStoreKey(bitcointypes.StoreKey)
	lockKey := storetypes.NewKVStoreKey(lockingtypes.StoreKey)
	goatKey := storetypes.NewKVStoreKey(goattypes.StoreKey)
	accKey := storetypes.NewKVStoreKey("vacc")
	db := dbm.NewMemDB()
	cms := store.NewCommitMultiStore(db, log.NewNopLogger(), metrics.NewNoOpMetrics())
	for _, k := range []*storetypes.KVStoreKey{relKey, btcKey, lockKey, goatKey, accKey} {
		cms.MountStoreWithDB(k, storetypes.StoreTypeIAVL, db)
	}
	if err := cms.LoadLatestVersion(); err != nil {
		panic(err)
	}
	registry := codectypes.NewInterfaceRegistry()
	cryptocodec.RegisterInterfaces(registry)
	cdc := codec.NewProtoCodec(registry)
	ac := addresscodec.NewBech32Codec(sdk.GetConfig().GetBech32AccountAddrPrefix())
	w := &World{ChainID: chainID, AC: ac}
	w.Acc = &AccKeeper{key: accKey, ac: w.AC}
	w.Engine = &FakeEngine{}
	lg := log.NewNopLogger()
	w.Rel = relayerkeeper.NewKeeper(cdc, ac, runtime.NewKVStoreService(relKey), w.Acc, lg)
	w.Btc = bitcoinkeeper.NewKeeper(cdc, ac, runtime.NewKVStoreService(btcKey), lg, w.Rel)
	w.Lock = lockingkeeper.NewKeeper(cdc, ac, runtime.NewKVStoreService(lockKey), w.Acc, lg)
	w.Goat = goatkeeper.NewKeeper(cdc, ac, runtime.NewKVStoreService(goatKey), lg, w.Btc, w.Lock, w.Rel, w.Acc, w.Engine)
	w.RelMsg = relayerkeeper.NewMsgServerImpl(w.Rel)
	w.BtcMsg = bitcoinkeeper.NewMsgServerImpl(w.Btc)
	w.GoatMsg = goatkeeper.NewMsgServerImpl(w.Goat)
	w.Ctx = sdk.NewContext(cms, cmtproto.Header{ChainID: chainID, Height: 1, Time: time.Unix(1700000000, 0).UTC()}, false, lg)
	return w
}

// RunTx emulates baseapp.runTx's branch-and-commit: f runs on a cache context which is written back
// only on success; errors and panics discard it.  Returns the canonical outcome.
func (w *World) RunTx(ctx sdk.Context, f func(ctx sdk.Context) error) (res string) {
	cctx, write := ctx.CacheContext()
	defer func() {
		if e := recover(); e != nil {
			res = "panic ;; " + panicClass(e)
		}
	}()
	if err := f(cctx); err != nil {
		return "err ;; " + Classify(err)
	}
	write()
	return "ok"
}

// RunHook runs begin/end block logic without any rollback (as in the real application, where a hook
// error halts the chain).
func (w *World) RunHook(ctx sdk.Context, f func(ctx sdk.Context) error) (res string) {
	defer func() {
		if e := recover(); e != nil {
			if os.Getenv("VERIF_DEBUG") != "" {
				fmt.Fprintf(os.Stderr, "hook panic: %v\n%s\n", e, debug.Stack())
			}
			res = "panic ;; " + panicClass(e)
		}
	}()
	if err := f(ctx); err != nil {
		return "err ;; " + Classify(err)
	}
	return "ok"
}

func panicClass(e any) string {
	s := fmt.Sprint(e)
	switch {
	case strings.Contains(s, "bitmap: buffer length"):
		return "bitmap-length"
	case strings.Contains(s, "nil pointer"):
		return "nil-vote"
	case strings.Contains(s, "overflow") || strings.Contains(s, "out of bound"):
		return "int-overflow"
	case strings.Contains(s, "negative coin amount"):
		return "negative-coin"
	case strings.Contains(s, "Uint64() out of bound"):
		return "uint64"
	}
	return "other:" + ascii(s)
}

func ascii(s string) string {
	var sb strings.Builder
	for _, c := range s {
		if c > 32 && c < 127 && c != ';' && c != '=' {
			sb.WriteRune(c)
		} else {
			sb.WriteByte('_')
		}
		if sb.Len() >= 60 {
			break
		}
	}
	return sb.String()
}

var errTable = [][2]string{
	{"out of gas", "out-of-gas"},
	{"tx parse error", "undecodable"},
	{"no transactions", "no-txs"},
	{"too many transactions", "too-many"},
	{"invalid transaction: index", "invalid-tx"},
	{"invalid MsgNewEthBlock message", "first-not-ethblock"},
	{"the first tx should be MsgNewEthBlock", "first-not-ethblock"},
	{"MsgNewEthBlock should be first tx", "ethblock-not-first"},
	{"invalid MsgNewEthBlock proposer", "proposer"},
	{"fee recipient mismatched", "fee-recipient"},
	{"invalid MsgNewEthBlock timestamp", "timestamp"},
	{"incorrect parent block", "parent"},
	{"invalid goat requests", "requests-decode"},
	{"gas revenue request length is not 1", "gas-length"},
	{"refer to incorrect beacon root", "beacon-root"},
	{"tx length is less than expected", "tx-length"},
	{"bridge tx", "bridge-tx-mismatch"},
	{"locking tx", "locking-tx-mismatch"},
	{"tx mismatched", "tx-mismatch"},
	{"goat txs length mismatched", "goat-tx-count"},
	{"invalid goat tx root", "tx-root"},
	{"non-VALID status", "engine"},
	{"pubKey does not match signer address", "ante:signature"},
	{"bitmap: buffer length", "bitmap-length"},
	{"nil pointer dereference", "nil-vote"},
	{"decoding bech32 failed", "ante:signers"},
	{"is not current relayer proposer", "ante:not-proposer"},
	{"is not a relayer message", "ante:not-relayer-msg"},
	{"no memo required", "ante:memo"},
	{"MsgNewEthBlock timeout height should be", "ante:ethblock-timeout"},
	{"timeout height", "ante:timeout"},
	{"signer count more than 1", "ante:signers"},
	{"signature verification failed", "ante:signature"},
	{"account sequence mismatch", "ante:sequence"},
	{"does not exist", "ante:signature"},
	{"dequeue mismatched", "dequeue-mismatch"},
	{"consensus proposer mismatched", "proposer"},
	{"incorrect parent block", "parent"},
	{"invalid beacon root", "beacon-root"},
	{"blob tx is not allowed", "blob"},
	{"invalid execution requests", "requests-decode"},
	{"empty payload", "nil-payload"},
	{"invalid from NewPayloadV4", "engine-invalid"},
	{"invalid from ForkchoiceUpdatedV3", "engine-invalid"},
	{"engine down", "engine-error"},
	{"relayer pubkey not found", "key-not-found"},
	{"txid not found", "txid-not-found"},
	{"not current proposer", "not-proposer"},
	{"not the current proposer", "not-proposer"},
	{"incorrect sequence", "sequence"},
	{"incorrect epoch", "epoch"},
	{"invalid epoch", "epoch"},
	{"invalid voters", "voters-length"},
	{"verify aggregation signature failed", "signature"},
	{"coinbase tx should be confirmed", "coinbase-immature"},
	{"invalid block header for", "header-size"},
	{"inconsistent block hash", "block-hash"},
	{"invalid non-witness tx size", "validate"},
	{"invalid non-witness tx", "bad-tx"},
	{"output index out of range", "output-index"},
	{"duplicated deposit", "duplicated"},
	{"amount too low", "amount-low"},
	{"invalid deposit version 0 script", "script-v0"},
	{"invalid txout index for version 1", "v1-index"},
	{"invalid deposit version 1 script", "script-v1"},
	{"unknown deposit version", "version"},
	{"invalid spv", "spv"},
	{"the key already existed", "key-exists"},
	{"block number is not the next", "not-next"},
	{"invalid tx output size for withdrawals", "output-size"},
	{"consolidation should have only 1 output", "output-size"},
	{"is not pending or canceling", "status"},
	{"is not processing", "status"},
	{"is not canceling", "status"},
	{"receipt is nil", "status"},
	{"tx price is larger", "price"},
	{"invalid address to process", "address"},
	{"script not matched", "script"},
	{"amount too large", "amount"},
	{"give change to not a latest", "change"},
	{"not pay to the latest relayer pubkey", "change"},
	{"new tx fee is less than before", "fee-not-higher"},
	{"the tx doesn't have any change", "same-tx"},
	{"internal error", "internal"},
	{"nil item", "headers"},
	{"invalid raw header length", "headers"},
	{"duplicate height", "headers"},
	{"not a pending voter", "not-pending"},
	{"vote key hash not match", "key-hash"},
	{"false tx key proof", "tx-proof"},
	{"false vote key proof", "bls-proof"},
	{"proposer has been accepted", "accepted"},
	{"timeout to accept", "timeout"},
	{"expected gas revenue request length", "gas-length"},
	{"power too large", "power-too-large"},
	{"invalid address for pubkey", "address-mismatch"},
	{"invalid zero power", "zero-power"},
	{"existed in the last validator set", "pending-in-set"},
	{"in power ranking", "status-in-ranking"},
	{"delete too many voters", "too-many"},
	{"not found", "not-found"},
	// Validate() families
	{"empty Vote", "validate"}, {"block number is 0", "validate"}, {"block hash list too large", "validate"},
	{"block hash should be 32 bytes", "validate"}, {"voter bitmap too large", "validate"},
	{"invalid bls signature length", "validate"}, {"invalid deposit list length", "validate"},
	{"invalid block headers list size", "validate"}, {"invalid tx fee", "validate"},
	{"no withdrawal ids", "validate"}, {"associate with too many", "validate"}, {"invalid txid", "validate"},
	{"withdrawal can't be a coinbase", "validate"}, {"invalid block header size", "validate"},
	{"invalid secp256k1 key", "validate"}, {"invalid compressed secp256k1 prefix", "validate"},
	{"invalid schnoor key", "validate"}, {"unknown pubkey type", "validate"}, {"empty public key", "validate"},
	{"invalid vote pubkey", "validate"}, {"invalid tx pubkey", "validate"}, {"invalid evm address", "validate"},
	{"invalid btc tx size", "validate"}, {"empty Msg", "validate"},
}

// Classify maps an error to a small class name (informational part of the outcome).
func Classify(err error) string {
	s := err.Error()
	for _, e := range errTable {
		if strings.Contains(s, e[0]) {
			return e[1]
		}
	}
	return "other:" + ascii(s)
}
