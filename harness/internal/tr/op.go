package tr

import (
	"os"
	"encoding/hex"
	"fmt"
	"strconv"
	"strings"
)

// Op is one operation of a trace: everything the real code is given is in Args, so a trace file
// replays exactly without the generator.
type Op struct {
	Cls  string
	Kind string
	Args [][2]string
}

func NewOp(cls, kind string, kv ...any) *Op {
	o := &Op{Cls: cls, Kind: kind}
	for i := 0; i+1 < len(kv); i += 2 {
		o.Args = append(o.Args, [2]string{fmt.Sprint(kv[i]), fmt.Sprint(kv[i+1])})
	}
	return o
}

func (o *Op) Add(k string, v any) *Op {
	o.Args = append(o.Args, [2]string{k, fmt.Sprint(v)})
	return o
}

func (o *Op) Line() string {
	var sb strings.Builder
	sb.WriteString("op ")
	sb.WriteString(o.Kind)
	for _, kv := range o.Args {
		sb.WriteString(" ")
		sb.WriteString(kv[0])
		sb.WriteString("=")
		sb.WriteString(kv[1])
	}
	return sb.String()
}

func ParseOp(line string) *Op {
	f := strings.Fields(line)
	if len(f) < 2 || f[0] != "op" {
		return nil
	}
	o := &Op{Kind: f[1], Cls: "replay"}
	for _, tok := range f[2:] {
		if i := strings.IndexByte(tok, '='); i > 0 {
			o.Args = append(o.Args, [2]string{tok[:i], tok[i+1:]})
		}
	}
	return o
}

func (o *Op) Has(k string) bool {
	for _, kv := range o.Args {
		if kv[0] == k {
			return true
		}
	}
	return false
}

func (o *Op) Str(k string) string {
	for _, kv := range o.Args {
		if kv[0] == k {
			return kv[1]
		}
	}
	return ""
}

func (o *Op) U64(k string) uint64 {
	v, _ := strconv.ParseUint(o.Str(k), 10, 64)
	return v
}

func (o *Op) I64(k string) int64 {
	v, _ := strconv.ParseInt(o.Str(k), 10, 64)
	return v
}

func (o *Op) Int(k string) int { return int(o.I64(k)) }

func (o *Op) Bool(k string) bool { return o.Str(k) == "1" }

func UnHex(s string) []byte {
	if s == "-" || s == "" {
		return nil
	}
	b, err := hex.DecodeString(s)
	if err != nil {
		return nil
	}
	return b
}

func (o *Op) Bytes(k string) []byte { return UnHex(o.Str(k)) }

func SplitList(s string) []string {
	if s == "-" || s == "" {
		return nil
	}
	return strings.Split(s, ",")
}

func (o *Op) List(k string) []string { return SplitList(o.Str(k)) }

func (o *Op) U64List(k string) []uint64 {
	var r []uint64
	for _, s := range o.List(k) {
		v, _ := strconv.ParseUint(s, 10, 64)
		r = append(r, v)
	}
	return r
}

func (o *Op) BytesList(k string) [][]byte {
	var r [][]byte
	for _, s := range o.List(k) {
		r = append(r, UnHex(s))
	}
	return r
}

var debugCls = os.Getenv("VERIF_DEBUG") != ""

// Emit writes the op line and the observed result.
func (t *Trace) Emit(o *Op, res string) {
	t.lastOp = o.Line()
	t.lastCls = o.Cls
	if debugCls {
		t.w.WriteString("# cls " + o.Cls + "\n")
	}
	t.w.WriteString(t.lastOp)
	t.w.WriteString("\n")
	t.N++
	t.Res("%s", res)
	t.w.Flush() // crash safety: a trace is complete up to the operation that killed the process
}

// Set replaces the value of an existing argument (or adds it).
func (o *Op) Set(k string, v any) *Op {
	for i, kv := range o.Args {
		if kv[0] == k {
			o.Args[i][1] = fmt.Sprint(v)
			return o
		}
	}
	return o.Add(k, v)
}
