// Package tr: trace writer, deterministic PRNG and helpers shared by the harness commands.
package tr

import (
	"bufio"
	"encoding/hex"
	"fmt"
	"os"
	"sort"
	"strings"
)

// SplitMix64 — every random choice of a run derives from one state seeded from VERIF_SEED.
type Rng struct{ s uint64 }

func NewRng(seed uint64) *Rng { return &Rng{s: seed*0x9E3779B97F4A7C15 + 0x1234567} }
func (r *Rng) U64() uint64 {
	r.s += 0x9E3779B97F4A7C15
	z := r.s
	z = (z ^ (z >> 30)) * 0xBF58476D1CE4E5B9
	z = (z ^ (z >> 27)) * 0x94D049BB133111EB
	return z ^ (z >> 31)
}
func (r *Rng) Intn(n int) int {
	if n <= 0 {
		return 0
	}
	return int(r.U64() % uint64(n))
}
func (r *Rng) Bool() bool       { return r.U64()&1 == 1 }
func (r *Rng) Chance(p int) bool { return r.Intn(100) < p }
func (r *Rng) Bytes(n int) []byte {
	b := make([]byte, n)
	for i := range b {
		b[i] = byte(r.U64())
	}
	return b
}
func (r *Rng) Fork() *Rng { return NewRng(r.U64()) }

// Pick returns one of the given values.
func Pick[T any](r *Rng, xs ...T) T { return xs[r.Intn(len(xs))] }

type Trace struct {
	w       *bufio.Writer
	N       int            // number of ops
	Classes map[string]int // generator class × outcome histogram
	samples []string
	lastOp  string
	lastCls string
}

func NewTrace() *Trace {
	return &Trace{w: bufio.NewWriterSize(os.Stdout, 1<<20), Classes: map[string]int{}}
}

func Hex(b []byte) string {
	if len(b) == 0 {
		return "-"
	}
	return hex.EncodeToString(b)
}

func HexList(bs [][]byte) string {
	if len(bs) == 0 {
		return "-"
	}
	s := make([]string, len(bs))
	for i, b := range bs {
		s[i] = Hex(b)
	}
	return strings.Join(s, ",")
}

func U64List(xs []uint64) string {
	if len(xs) == 0 {
		return "-"
	}
	s := make([]string, len(xs))
	for i, x := range xs {
		s[i] = fmt.Sprint(x)
	}
	return strings.Join(s, ",")
}

func StrList(xs []string) string {
	if len(xs) == 0 {
		return "-"
	}
	return strings.Join(xs, ",")
}

func B(b bool) string {
	if b {
		return "1"
	}
	return "0"
}

// Op writes an operation line. cls is the generator class (for the evidence histogram only; it is
// written as a comment token `#cls` that the model ignores).
func (t *Trace) Op(cls, kind string, kv ...any) {
	var sb strings.Builder
	sb.WriteString("op ")
	sb.WriteString(kind)
	for i := 0; i+1 < len(kv); i += 2 {
		fmt.Fprintf(&sb, " %v=%v", kv[i], kv[i+1])
	}
	t.lastOp = sb.String()
	t.lastCls = cls
	t.w.WriteString(t.lastOp)
	t.w.WriteString("\n")
	t.N++
}

// Res writes the implementation's observed outcome for the last op.
func (t *Trace) Res(format string, a ...any) {
	s := fmt.Sprintf(format, a...)
	t.w.WriteString("=> " + s + "\n")
	short := s
	if i := strings.IndexByte(short, ' '); i > 0 {
		short = short[:i]
	}
	if len(short) > 40 {
		short = short[:40]
	}
	key := t.lastCls + " -> " + short
	t.Classes[key]++
	if t.Classes[key] == 1 && len(t.samples) < 12 {
		t.samples = append(t.samples, t.lastOp+"  => "+s)
	}
}

func (t *Trace) Comment(format string, a ...any) {
	t.w.WriteString("# " + fmt.Sprintf(format, a...) + "\n")
}

// Close flushes and writes the class histogram as trailing comment lines that ./check reads.
func (t *Trace) Close() {
	keys := make([]string, 0, len(t.Classes))
	for k := range t.Classes {
		keys = append(keys, k)
	}
	sort.Strings(keys)
	for _, k := range keys {
		fmt.Fprintf(t.w, "#class %d %s\n", t.Classes[k], k)
	}
	for _, s := range t.samples {
		if len(s) > 400 {
			s = s[:400] + "…"
		}
		fmt.Fprintf(t.w, "#sample %s\n", s)
	}
	t.w.Flush()
}

func (t *Trace) Flush() { t.w.Flush() }
