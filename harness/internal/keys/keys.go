// Package keys: deterministic key material for the harness (BLS vote keys, secp256k1 account keys,
// Bitcoin relayer keys) and signing helpers built on the repository's own crypto package.
package keys

import (
	"sort"

	"github.com/btcsuite/btcd/btcec/v2"
	"github.com/btcsuite/btcd/btcec/v2/schnorr"
	"github.com/btcsuite/btcd/txscript"
	"github.com/cosmos/cosmos-sdk/crypto/keys/secp256k1"
	sdk "github.com/cosmos/cosmos-sdk/types"
	ethcrypto "github.com/ethereum/go-ethereum/crypto"
	goatcrypto "github.com/goatnetwork/goat/pkg/crypto"
	relayertypes "github.com/goatnetwork/goat/x/relayer/types"
	blst "github.com/supranational/blst/bindings/go"
	"verif/harness/internal/tr"
)

type Member struct {
	Acc     *secp256k1.PrivKey
	TxKey   []byte // 33-byte compressed
	Raw     []byte // 20-byte address
	Addr    string // bech32
	BLS     *goatcrypto.PrivateKey
	BLSPub  []byte // 96 bytes
	KeyHash []byte // sha256(BLSPub)
}

func NewMember(r *tr.Rng) *Member {
	acc := secp256k1.GenPrivKeyFromSecret(r.Bytes(32))
	pub := acc.PubKey().Bytes()
	raw := goatcrypto.Hash160Sum(pub)
	bls := blst.KeyGen(r.Bytes(32))
	blspub := new(goatcrypto.PublicKey).From(bls).Compress()
	return &Member{Acc: acc, TxKey: pub, Raw: raw, Addr: sdk.AccAddress(raw).String(), BLS: bls, BLSPub: blspub, KeyHash: goatcrypto.SHA256Sum(blspub)}
}

// AggSign: every member signs doc; returns the aggregate (nil if there are no signers).
func AggSign(ms []*Member, doc []byte) []byte {
	if len(ms) == 0 {
		return nil
	}
	var sigs [][]byte
	for _, m := range ms {
		sigs = append(sigs, goatcrypto.Sign(m.BLS, doc))
	}
	s, err := goatcrypto.AggregateSignatures(sigs)
	if err != nil {
		return nil
	}
	return s
}

func SortedKeys(ms []*Member) [][]byte {
	var ks [][]byte
	for _, m := range ms {
		ks = append(ks, m.BLSPub)
	}
	sort.Slice(ks, func(i, j int) bool { return string(ks[i]) < string(ks[j]) })
	return ks
}

// EcdsaSign: 64-byte [R||S] signature over a 32-byte digest, as ethcrypto.VerifySignature expects.
func (m *Member) EcdsaSign(digest []byte) []byte {
	priv, _ := btcec.PrivKeyFromBytes(m.Acc.Key)
	sig, err := ethcrypto.Sign(digest, priv.ToECDSA())
	if err != nil {
		return nil
	}
	return sig[:64]
}

// BtcKey is a relayer Bitcoin key of either type.
type BtcKey struct {
	Kind string // "0" secp256k1, "1" schnorr
	Pub  []byte
	Priv *btcec.PrivateKey
}

func NewBtcKey(r *tr.Rng, kind string) *BtcKey {
	priv, pub := btcec.PrivKeyFromBytes(r.Bytes(32))
	if kind == "1" {
		return &BtcKey{Kind: "1", Pub: schnorr.SerializePubKey(pub), Priv: priv}
	}
	return &BtcKey{Kind: "0", Pub: pub.SerializeCompressed(), Priv: priv}
}

func (k *BtcKey) PublicKey() *relayertypes.PublicKey {
	if k.Kind == "1" {
		return &relayertypes.PublicKey{Key: &relayertypes.PublicKey_Schnorr{Schnorr: k.Pub}}
	}
	return &relayertypes.PublicKey{Key: &relayertypes.PublicKey_Secp256K1{Secp256K1: k.Pub}}
}

// Tweak = schnorr.SerializePubKey(ComputeTaprootOutputKey(pub, data)) computed with btcd directly
// (independent of x/bitcoin/types), nil when the key does not parse.
func Tweak(xonly, data []byte) []byte {
	p, err := schnorr.ParsePubKey(xonly)
	if err != nil {
		return nil
	}
	return schnorr.SerializePubKey(txscript.ComputeTaprootOutputKey(p, data))
}

func TweakNoScript(xonly []byte) []byte {
	p, err := schnorr.ParsePubKey(xonly)
	if err != nil {
		return nil
	}
	return schnorr.SerializePubKey(txscript.ComputeTaprootKeyNoScript(p))
}
