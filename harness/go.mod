module verif/harness

go 1.23.2

require (
	cosmossdk.io/api v0.7.5
	cosmossdk.io/client/v2 v2.0.0-beta.4
	cosmossdk.io/collections v0.4.0
	cosmossdk.io/core v0.11.1
	cosmossdk.io/depinject v1.1.0
	cosmossdk.io/errors v1.0.1
	cosmossdk.io/log v1.4.1
	cosmossdk.io/math v1.4.0
	cosmossdk.io/store v1.1.1
	cosmossdk.io/x/tx v0.13.5
	github.com/btcsuite/btcd v0.24.2
	github.com/btcsuite/btcd/btcec/v2 v2.3.4
	github.com/btcsuite/btcd/btcutil v1.1.6
	github.com/btcsuite/btcd/chaincfg/chainhash v1.1.0
	github.com/cometbft/cometbft v0.38.15
	github.com/cosmos/cosmos-db v1.0.2
	github.com/cosmos/cosmos-proto v1.0.0-beta.5
	github.com/cosmos/cosmos-sdk v0.50.10
	github.com/cosmos/gogoproto v1.7.0
	github.com/ethereum/go-ethereum v1.14.11
	github.com/golang/protobuf v1.5.4
	github.com/gorilla/mux v1.8.1
	github.com/grpc-ecosystem/grpc-gateway v1.16.0
	github.com/kelindar/bitmap v1.5.2
	github.com/spf13/cast v1.7.0
	github.com/spf13/cobra v1.8.1
	github.com/spf13/viper v1.19.0
	github.com/stretchr/testify v1.10.0
	github.com/supranational/blst v0.3.13
	go.uber.org/automaxprocs v1.6.0
	go.uber.org/mock v0.5.0
	golang.org/x/crypto v0.29.0
	golang.org/x/sync v0.9.0
	google.golang.org/genproto/googleapis/api v0.0.0-20240814211410-ddb44dafa142
	google.golang.org/grpc v1.67.1
	google.golang.org/protobuf v1.35.1
)

replace (
	// use cosmos fork of keyring
	github.com/99designs/keyring => github.com/cosmos/keyring v1.2.0
	// github.com/cosmos/cosmos-sdk => ../goat-cosmos-sdk
	// goat-geth implementation
	// github.com/ethereum/go-ethereum => ../goat-geth
	github.com/ethereum/go-ethereum => github.com/GOATNetwork/goat-geth v0.1.0
	// fix upstream GHSA-h395-qcrw-5vmq vulnerability.
	github.com/gin-gonic/gin => github.com/gin-gonic/gin v1.9.1
	// replace broken goleveldb
	github.com/syndtr/goleveldb => github.com/syndtr/goleveldb v1.0.1-0.20210819022825-2ae1ddf74ef7
)

require (
	filippo.io/edwards25519 v1.0.0 // indirect
	github.com/99designs/go-keychain v0.0.0-20191008050251-8e49817e8af4 // indirect
	github.com/99designs/keyring v1.2.1 // indirect
	github.com/DataDog/datadog-go v3.2.0+incompatible // indirect
	github.com/DataDog/zstd v1.5.5 // indirect
	github.com/Microsoft/go-winio v0.6.2 // indirect
	github.com/StackExchange/wmi v1.2.1 // indirect
	github.com/beorn7/perks v1.0.1 // indirect
	github.com/bgentry/speakeasy v0.1.1-0.20220910012023-760eaf8b6816 // indirect
	github.com/bits-and-blooms/bitset v1.13.0 // indirect
	github.com/btcsuite/btclog v0.0.0-20170628155309-84c8d2346e9f // indirect
	github.com/bufbuild/protocompile v0.13.1-0.20240510201809-752249dfc37f // indirect
	github.com/cenkalti/backoff/v4 v4.3.0 // indirect
	github.com/cespare/xxhash/v2 v2.3.0 // indirect
	github.com/cockroachdb/errors v1.11.3 // indirect
	github.com/cockroachdb/fifo v0.0.0-20240606204812-0bbfbd93a7ce // indirect
	github.com/cockroachdb/logtags v0.0.0-20230118201751-21c54148d20b // indirect
	github.com/cockroachdb/pebble v1.1.2 // indirect
	github.com/cockroachdb/redact v1.1.5 // indirect
	github.com/cockroachdb/tokenbucket v0.0.0-20230807174530-cc333fc44b06 // indirect
	github.com/cometbft/cometbft-db v0.15.0 // indirect
	github.com/consensys/bavard v0.1.13 // indirect
	github.com/consensys/gnark-crypto v0.12.1 // indirect
	github.com/cosmos/btcutil v1.0.5 // indirect
	github.com/cosmos/go-bip39 v1.0.0 // indirect
	github.com/cosmos/gogogateway v1.2.0 // indirect
	github.com/cosmos/iavl v1.2.0 // indirect
	github.com/cosmos/ics23/go v0.11.0 // indirect
	github.com/cosmos/ledger-cosmos-go v0.13.3 // indirect
	github.com/crate-crypto/go-ipa v0.0.0-20240223125850-b1e8a79f509c // indirect
	github.com/crate-crypto/go-kzg-4844 v1.0.0 // indirect
	github.com/danieljoos/wincred v1.2.1 // indirect
	github.com/davecgh/go-spew v1.1.2-0.20180830191138-d8f796af33cc // indirect
	github.com/deckarep/golang-set/v2 v2.6.0 // indirect
	github.com/decred/dcrd/crypto/blake256 v1.0.1 // indirect
	github.com/decred/dcrd/dcrec/secp256k1/v4 v4.3.0 // indirect
	github.com/desertbit/timer v0.0.0-20180107155436-c41aec40b27f // indirect
	github.com/dgraph-io/badger/v4 v4.3.0 // indirect
	github.com/dgraph-io/ristretto v0.1.2-0.20240116140435-c67e07994f91 // indirect
	github.com/docker/go-connections v0.5.0 // indirect
	github.com/dustin/go-humanize v1.0.1 // indirect
	github.com/dvsekhvalnov/jose2go v1.6.0 // indirect
	github.com/emicklei/dot v1.6.1 // indirect
	github.com/ethereum/c-kzg-4844 v1.0.0 // indirect
	github.com/ethereum/go-verkle v0.1.1-0.20240829091221-dffa7562dbe9 // indirect
	github.com/fatih/color v1.16.0 // indirect
	github.com/felixge/httpsnoop v1.0.4 // indirect
	github.com/fsnotify/fsnotify v1.7.0 // indirect
	github.com/getsentry/sentry-go v0.27.0 // indirect
	github.com/go-kit/kit v0.13.0 // indirect
	github.com/go-kit/log v0.2.1 // indirect
	github.com/go-logfmt/logfmt v0.6.0 // indirect
	github.com/go-ole/go-ole v1.3.0 // indirect
	github.com/gobwas/ws v1.2.1 // indirect
	github.com/godbus/dbus v0.0.0-20190726142602-4481cbc300e2 // indirect
	github.com/gofrs/flock v0.8.1 // indirect
	github.com/gogo/googleapis v1.4.1 // indirect
	github.com/gogo/protobuf v1.3.2 // indirect
	github.com/golang/groupcache v0.0.0-20210331224755-41bb18bfe9da // indirect
	github.com/golang/mock v1.6.0 // indirect
	github.com/golang/snappy v0.0.5-0.20220116011046-fa5810519dcb // indirect
	github.com/google/btree v1.1.3 // indirect
	github.com/google/flatbuffers v1.12.1 // indirect
	github.com/google/go-cmp v0.6.0 // indirect
	github.com/google/orderedcode v0.0.1 // indirect
	github.com/gorilla/handlers v1.5.2 // indirect
	github.com/gorilla/websocket v1.5.3 // indirect
	github.com/grpc-ecosystem/go-grpc-middleware v1.4.0 // indirect
	github.com/gsterjov/go-libsecret v0.0.0-20161001094733-a6f4afe4910c // indirect
	github.com/hashicorp/go-hclog v1.5.0 // indirect
	github.com/hashicorp/go-immutable-radix v1.3.1 // indirect
	github.com/hashicorp/go-metrics v0.5.3 // indirect
	github.com/hashicorp/go-plugin v1.5.2 // indirect
	github.com/hashicorp/go-uuid v1.0.2 // indirect
	github.com/hashicorp/golang-lru v1.0.2 // indirect
	github.com/hashicorp/golang-lru/v2 v2.0.7 // indirect
	github.com/hashicorp/hcl v1.0.0 // indirect
	github.com/hashicorp/yamux v0.1.1 // indirect
	github.com/hdevalence/ed25519consensus v0.1.0 // indirect
	github.com/holiman/uint256 v1.3.1 // indirect
	github.com/huandu/skiplist v1.2.0 // indirect
	github.com/iancoleman/strcase v0.3.0 // indirect
	github.com/improbable-eng/grpc-web v0.15.0 // indirect
	github.com/inconshreveable/mousetrap v1.1.0 // indirect
	github.com/jhump/protoreflect v1.16.0 // indirect
	github.com/jmhodges/levigo v1.0.0 // indirect
	github.com/kelindar/simd v1.1.2 // indirect
	github.com/klauspost/compress v1.17.9 // indirect
	github.com/klauspost/cpuid/v2 v2.2.4 // indirect
	github.com/kr/pretty v0.3.1 // indirect
	github.com/kr/text v0.2.0 // indirect
	github.com/lib/pq v1.10.9 // indirect
	github.com/linxGnu/grocksdb v1.9.3 // indirect
	github.com/magiconair/properties v1.8.7 // indirect
	github.com/mattn/go-colorable v0.1.13 // indirect
	github.com/mattn/go-isatty v0.0.20 // indirect
	github.com/mattn/go-runewidth v0.0.13 // indirect
	github.com/minio/highwayhash v1.0.3 // indirect
	github.com/mitchellh/go-testing-interface v1.14.1 // indirect
	github.com/mitchellh/mapstructure v1.5.0 // indirect
	github.com/mmcloughlin/addchain v0.4.0 // indirect
	github.com/mtibben/percent v0.2.1 // indirect
	github.com/munnerz/goautoneg v0.0.0-20191010083416-a7dc8b61c822 // indirect
	github.com/oasisprotocol/curve25519-voi v0.0.0-20230904125328-1f23a7beb09a // indirect
	github.com/oklog/run v1.1.0 // indirect
	github.com/olekukonko/tablewriter v0.0.5 // indirect
	github.com/onsi/ginkgo v1.16.4 // indirect
	github.com/opencontainers/image-spec v1.1.0 // indirect
	github.com/pelletier/go-toml/v2 v2.2.2 // indirect
	github.com/petermattis/goid v0.0.0-20240813172612-4fcff4a6cae7 // indirect
	github.com/pkg/errors v0.9.1 // indirect
	github.com/pmezard/go-difflib v1.0.1-0.20181226105442-5d4384ee4fb2 // indirect
	github.com/prometheus/client_golang v1.20.5 // indirect
	github.com/prometheus/client_model v0.6.1 // indirect
	github.com/prometheus/common v0.60.1 // indirect
	github.com/prometheus/procfs v0.15.1 // indirect
	github.com/rcrowley/go-metrics v0.0.0-20201227073835-cf1acfcdf475 // indirect
	github.com/rivo/uniseg v0.2.0 // indirect
	github.com/rogpeppe/go-internal v1.12.0 // indirect
	github.com/rs/cors v1.11.1 // indirect
	github.com/rs/zerolog v1.33.0 // indirect
	github.com/sagikazarmark/locafero v0.4.0 // indirect
	github.com/sagikazarmark/slog-shim v0.1.0 // indirect
	github.com/sasha-s/go-deadlock v0.3.5 // indirect
	github.com/shirou/gopsutil v3.21.4-0.20210419000835-c7a38de76ee5+incompatible // indirect
	github.com/sourcegraph/conc v0.3.0 // indirect
	github.com/spf13/afero v1.11.0 // indirect
	github.com/spf13/pflag v1.0.5 // indirect
	github.com/subosito/gotenv v1.6.0 // indirect
	github.com/syndtr/goleveldb v1.0.1-0.20220721030215-126854af5e6d // indirect
	github.com/tendermint/go-amino v0.16.0 // indirect
	github.com/tidwall/btree v1.7.0 // indirect
	github.com/tklauser/go-sysconf v0.3.12 // indirect
	github.com/tklauser/numcpus v0.6.1 // indirect
	github.com/zondax/hid v0.9.2 // indirect
	github.com/zondax/ledger-go v0.14.3 // indirect
	go.etcd.io/bbolt v1.4.0-alpha.0.0.20240404170359-43604f3112c5 // indirect
	go.opencensus.io v0.24.0 // indirect
	go.uber.org/multierr v1.11.0 // indirect
	golang.org/x/exp v0.0.0-20240506185415-9bf2ced13842 // indirect
	golang.org/x/net v0.30.0 // indirect
	golang.org/x/sys v0.27.0 // indirect
	golang.org/x/term v0.26.0 // indirect
	golang.org/x/text v0.20.0 // indirect
	google.golang.org/genproto v0.0.0-20240227224415-6ceb2ff114de // indirect
	google.golang.org/genproto/googleapis/rpc v0.0.0-20240930140551-af27646dc61f // indirect
	gopkg.in/ini.v1 v1.67.0 // indirect
	gopkg.in/yaml.v3 v3.0.1 // indirect
	gotest.tools/v3 v3.5.1 // indirect
	nhooyr.io/websocket v1.8.6 // indirect
	pgregory.net/rapid v1.1.0 // indirect
	rsc.io/tmplfunc v0.0.3 // indirect
	sigs.k8s.io/yaml v1.4.0 // indirect
)

require github.com/goatnetwork/goat v0.0.0
replace github.com/goatnetwork/goat => /repo
