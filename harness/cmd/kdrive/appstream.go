package main

import (
	"bytes"
	"fmt"
	"os"
	"math/big"
	"sort"
	"strings"
	"time"

	"github.com/btcsuite/btcd/btcec/v2"
	"github.com/btcsuite/btcd/chaincfg"
	abci "github.com/cometbft/cometbft/abci/types"
	cmtsecp "github.com/cometbft/cometbft/crypto/secp256k1"
	cmtproto "github.com/cometbft/cometbft/proto/tendermint/types"
	cmttypes "github.com/cometbft/cometbft/types"
	cryptotypes "github.com/cosmos/cosmos-sdk/crypto/types"
	sdk "github.com/cosmos/cosmos-sdk/types"
	"github.com/ethereum/go-ethereum/common"
	"github.com/ethereum/go-ethereum/core/types/goattypes"
	goatcrypto "github.com/goatnetwork/goat/pkg/crypto"
	sdkmath "cosmossdk.io/math"
	authtypes "github.com/cosmos/cosmos-sdk/x/auth/types"
	consensustypes "github.com/cosmos/cosmos-sdk/x/consensus/types"
	"cosmossdk.io/collections"
	"github.com/btcsuite/btcd/chaincfg/chainhash"
	bitcoinkeeper "github.com/goatnetwork/goat/x/bitcoin/keeper"
	bitcoinmodule "github.com/goatnetwork/goat/x/bitcoin/module"
	bitcointypes "github.com/goatnetwork/goat/x/bitcoin/types"
	goatkeeper "github.com/goatnetwork/goat/x/goat/keeper"
	lockingkeeper "github.com/goatnetwork/goat/x/locking/keeper"
	relayerkeeper "github.com/goatnetwork/goat/x/relayer/keeper"
	goatmodule "github.com/goatnetwork/goat/x/goat/module"
	goatmod "github.com/goatnetwork/goat/x/goat/types"
	lockingmodule "github.com/goatnetwork/goat/x/locking/module"
	relayermodule "github.com/goatnetwork/goat/x/relayer/module"
	lockingtypes "github.com/goatnetwork/goat/x/locking/types"
	relayertypes "github.com/goatnetwork/goat/x/relayer/types"
	"verif/harness/internal/appsim"
	"verif/harness/internal/keys"
	"verif/harness/internal/tr"
	"verif/harness/internal/world"
)

// app stream (layer A): the REAL application (app.New) driven through ABCI with real signed
// transactions and a scripted fake engine.  Every block is decomposed, for the model, into the same
// operation vocabulary as layer K: a.blockstart, hook.lock.begin, tx.ethblock, tx.*, a.end.
type appStream struct {
	lastProp      string // relayer proposer seen when the previous transaction was signed
	formerProp    string // the proposer before the last election (still a member, no longer entitled to send)
	forceExpiring bool // signRelayerTx: sign as the proposer with timeout height = last committed height
	forcePlain    bool // signRelayerTx: sign as the proposer, no defect of any kind
	deadHalts int // consecutive blocks that failed without a scripted engine fault
	*worldStream
	sim     *appsim.Sim
	rel     *relayerStream
	btc     *bitcoinStream
	lck     *lockingStream
	buf     []bufLine
	profile string
	blocks  int
	comet   *world.World // only its Comet field is used (real cmttypes.ValidatorSet fed with all updates)
	strangers []*keys.Member
	processed bool
	twin      *appsim.Sim // second replica fed with the same blocks (profile app-det)
	cfg       appsim.Config
	started bool
}

type bufLine struct {
	op  *tr.Op
	res string
}

func init() {
	for _, p := range []string{"app", "app-guard", "app-engine", "app-proposal", "app-det", "app-malformed", "app-export", "app-export-tax", "app-export-dupkey", "app-proposal-shared"} {
		p := p
		streams[p] = func(seed uint64) Stream { return &appStream{worldStream: newWorldStream("goat-app-1"), profile: p} }
	}
}

func (s *appStream) emit(o *tr.Op, res string) { s.buf = append(s.buf, bufLine{o, res}) }

func (s *appStream) Exec(o *tr.Op) string {
	// results were computed when the block was executed on the real application
	if len(s.buf) > 0 && s.buf[0].op == o {
		r := s.buf[0].res
		s.buf = s.buf[1:]
		return r
	}
	return "replay-unsupported"
}

func (s *appStream) Gen(r *tr.Rng) *tr.Op {
	for len(s.buf) == 0 {
		if !s.started {
			s.boot(r)
			s.started = true
		} else {
			s.genBlock(r)
		}
	}
	return s.buf[0].op
}

// ---------------------------------------------------------------------------------- boot

func (s *appStream) boot(r *tr.Rng) {
	noHuge = true
	seed := r.U64()
	nv := tr.Pick(r, 1, 2, 3, 3, 4)
	nval := tr.Pick(r, 1, 2, 3, 4)
	maxv := tr.Pick(r, 2, 3, 100)
	if strings.HasPrefix(s.profile, "app-export") {
		maxv = tr.Pick(r, 2, 2, 3) // more candidates than seats: pending validators with power are waiting when the state is exported
	}
	if maxv < nval {
		maxv = nval // a genesis whose active set exceeds MaxValidators is not a state the chain can reach
	}
	shared := s.profile == "app-proposal-shared"
	if shared {
		nv = 0 // the proposer stays the proposer: no election can replace it
	}
	cfg := appsim.Config{ChainID: s.chain, Seed: seed, NumVoters: nv, NumValidators: nval, ShareProposerKey: shared,
		MaxValidators: int64(maxv), ElectingPeriod: time.Duration(tr.Pick(r, 30, 60, 600)) * time.Second,
		AcceptProposerTimeout: time.Duration(tr.Pick(r, 0, 10, 20)) * time.Second, BlockInterval: 5 * time.Second,
		MempoolMaxTxs: -1, PruneEverything: true, RewardRemain: big.NewInt(1e18),
		// proposal streams: half of the chains carry heads built "now", like a live network (the next proposal is then
		// built within the same second as its parent)
		WallClockPayloads: strings.HasPrefix(s.profile, "app-proposal") && r.Chance(50)}
	// short signing windows, jail and unlock periods so that downtime jailing, re-activation and unlock maturity
	// happen within the histories the streams can afford (the module defaults need thousands of blocks)
	win := int64(tr.Pick(r, 4, 6, 10, 1200))
	maxMissed := int64(tr.Pick(r, 1, 2, 3))
	if win == 1200 {
		maxMissed = 200
	}
	jail := time.Duration(tr.Pick(r, 60, 90, 10800)) * time.Second
	unlockD := time.Duration(tr.Pick(r, 20, 120, 604800)) * time.Second
	exitD := unlockD + time.Duration(tr.Pick(r, 0, 60, 1209600))*time.Second
	halving := int64(tr.Pick(r, 7, 50, 42048000))
	cfg.LockingParams = func(p *lockingtypes.Params) {
		p.SignedBlocksWindow, p.MaxMissedPerWindow, p.DowntimeJailDuration = win, maxMissed, jail
		p.UnlockDuration, p.ExitingDuration, p.HalvingInterval = unlockD, exitD, halving
	}
	if strings.HasPrefix(s.profile, "app-proposal") {
		// the node's default application mempool (10 transactions), or an operator's larger one: the real PrepareProposal
		// handler selects from it
		cfg.MempoolMaxTxs = tr.Pick(r, 10, 10, 64)
	}
	if strings.HasPrefix(s.profile, "app-export") && r.Chance(35) {
		// a young bitcoin side chain: voted hashes reach down to height 0 (an export lists tip+1 hashes)
		cfg.BtcStartHeight, cfg.BtcFullHistory = uint64(1+r.Intn(4)), true
	}
	sim, err := appsim.New(cfg)
	if err != nil {
		panic(err)
	}
	s.sim = sim
	s.cfg = cfg
	if s.profile == "app-det" {
		if s.twin, err = appsim.New(cfg); err != nil {
			panic(err)
		}
	}
	s.view()
	s.now = sim.Time.UnixNano()
	s.height = sim.Height
	// members / keys known to the generators
	for _, m := range sim.RelayerKeys {
		km := &keys.Member{Acc: m.AccPriv, TxKey: m.AccPriv.PubKey().Bytes(), Raw: m.AccAddr, Addr: m.AddrStr, BLS: m.BLS, BLSPub: m.BLSPub, KeyHash: goatcrypto.SHA256Sum(m.BLSPub)}
		s.members[m.AddrStr] = km
		s.oracle("addr", "in", tr.Hex(km.Raw), "out", km.Addr)
		s.oracle("h160", "in", tr.Hex(km.TxKey), "out", tr.Hex(km.Raw))
	}
	priv, pub := btcec.PrivKeyFromBytes(sim.BtcKey.Key)
	bk := &keys.BtcKey{Kind: "0", Pub: pub.SerializeCompressed(), Priv: priv}
	s.rel = &relayerStream{worldStream: s.worldStream, btcKey: bk, dupKeyHash: s.profile == "app-export-dupkey"}
	s.rel.k = 1
	s.btc = &bitcoinStream{worldStream: s.worldStream, net: &chaincfg.RegressionNetParams, blocks: map[uint64]*btcBlock{}, wds: map[uint64]*wd{}, nextWid: 1, genesisValidTax: s.profile == "app-export" || s.profile == "app-export-dupkey", taxBias: s.profile == "app-export-tax",
		keys: []*keys.BtcKey{bk}, unreg: keys.NewBtcKey(r, "0")}
	s.btc.k = 1
	for i := 0; i < 4; i++ {
		s.btc.evms = append(s.btc.evms, r.Bytes(20))
	}
	s.btc.keyOracles(bk)
	s.btc.keyOracles(s.btc.unreg)
	s.lck = &lockingStream{worldStream: s.worldStream, profile: "mixed", mapOrderBias: s.profile == "app-det", exitBias: strings.HasPrefix(s.profile, "app-export")}
	s.lck.k = 1
	lp, _ := sim.App.LockingKeeper.Params.Get(s.w.Ctx)
	s.lck.params.unlock, s.lck.params.exit, s.lck.params.jail = int64(lp.UnlockDuration), int64(lp.ExitingDuration), int64(lp.DowntimeJailDuration)
	s.lck.params.window, s.lck.params.maxmissed = lp.SignedBlocksWindow, lp.MaxMissedPerWindow
	_ = sim.App.LockingKeeper.Tokens.Walk(s.w.Ctx, nil, func(d string, _ lockingtypes.Token) (bool, error) {
		s.lck.tokens = append(s.lck.tokens, tokenAddrOf(d))
		return false, nil
	})
	// the token the genesis validators hold goes first: the generators keep its weight positive (a zero
	// weight for the only staked token empties the validator set: known finding F10)
	if gv, err := sim.App.LockingKeeper.Validators.Get(s.w.Ctx, sdk.ConsAddress(sim.Validators[0].ConsAddr)); err == nil && len(gv.Locking) > 0 {
		held := tokenAddrOf(gv.Locking[0].Denom)
		toks := [][]byte{held}
		for _, t := range s.lck.tokens {
			if string(t) != string(held) {
				toks = append(toks, t)
			}
		}
		s.lck.tokens = toks
	}
	for _, v := range sim.Validators {
		pk, _ := btcec.ParsePubKey(v.PubKey)
		lv := &lval{addr: v.ConsAddr, comp: v.PubKey, pub64: pk.SerializeUncompressed()[1:]}
		s.lck.vals = append(s.lck.vals, lv)
		s.oracle("h160", "in", tr.Hex(lv.comp), "out", tr.Hex(lv.addr))
	}
	for i := 0; i < 2; i++ {
		s.strangers = append(s.strangers, keys.NewMember(r))
	}
	// the genesis state, as the model must start from it
	for len(s.q) > 0 {
		s.emit(s.pop(), "ok")
	}
	s.emit(tr.NewOp("init", "reset"), "ok")
	for _, o := range s.known2ops() {
		s.emit(o, "ok")
	}
	cp := appsim.DefaultConsensusParams()
	s.lck.maxAgeD, s.lck.maxAgeB = int64(cp.Evidence.MaxAgeDuration), cp.Evidence.MaxAgeNumBlocks
	s.emit(loadOp("load.rel", world.DumpRel(s.w.Ctx, s.w), "chain", s.chain), "ok")
	s.emit(loadOp("load.btc", world.DumpBtc(s.w.Ctx, s.w)), "ok")
	s.emit(tr.NewOp("init", "init.lock", "unlock", int64(lp.UnlockDuration), "exit", int64(lp.ExitingDuration), "jail", int64(lp.DowntimeJailDuration),
		"maxvals", lp.MaxValidators, "window", lp.SignedBlocksWindow, "maxmissed", lp.MaxMissedPerWindow,
		"slashds", lp.SlashFractionDoubleSign.BigInt().String(), "slashdt", lp.SlashFractionDowntime.BigInt().String(),
		"halving", lp.HalvingInterval, "reward", lp.InitialBlockReward, "nonce", 0, "remain", "0"), "ok")
	s.emit(loadOp("load.lock", world.DumpLock(s.w.Ctx, s.w)), "ok")
	var accs []string
	for _, m := range sim.RelayerKeys {
		accs = append(accs, fmt.Sprintf("%x", []byte(m.AccAddr)))
	}
	var cvals []*cmttypes.Validator
	var cset []string
	for _, v := range sim.Validators {
		accs = append(accs, fmt.Sprintf("%x", []byte(v.ConsAddr)))
		cvals = append(cvals, cmttypes.NewValidator(cmtsecp.PubKey(v.PubKey), int64(v.Power)))
		cset = append(cset, fmt.Sprintf("%x|%d", v.PubKey, v.Power))
	}
	s.emit(tr.NewOp("init", "load.acc", "accs", tr.StrList(accs)), "ok")
	s.comet = &world.World{Comet: cmttypes.NewValidatorSet(cvals)}
	s.emit(tr.NewOp("init", "load.comet", "set", tr.StrList(cset)), "ok")
	head, beacon, _ := sim.EthHead()
	s.emit(tr.NewOp("init", "init.goat", "hash", tr.Hex(head.BlockHash), "number", head.BlockNumber, "parent", tr.Hex(head.ParentHash), "beacon", tr.Hex(beacon)), "ok")
	s.emitDumps()
}

// oracle lines emitted before the reset must be restated after it
func (s *appStream) known2ops() []*tr.Op {
	var out []*tr.Op
	ks := make([]string, 0, len(s.known))
	for k := range s.known {
		ks = append(ks, k)
	}
	sort.Strings(ks)
	for _, k := range ks {
		out = append(out, tr.ParseOp(k))
	}
	for _, o := range out {
		o.Cls = "oracle"
	}
	return out
}

func loadOp(kind, dump string, kv ...any) *tr.Op {
	o := tr.NewOp("init", kind, kv...)
	for _, tok := range strings.Fields(dump)[1:] {
		if i := strings.IndexByte(tok, '='); i > 0 {
			o.Add(tok[:i], tok[i+1:])
		}
	}
	return o
}

func tokenAddrOf(denom string) []byte {
	switch denom {
	case "btc":
		return make([]byte, 20)
	case "goat":
		return goatToken
	}
	return tr.UnHex(strings.TrimPrefix(denom, "tkn:"))
}

func (s *appStream) view() {
	if s.w == nil || s.w.Engine != nil {
		s.w = &world.World{ChainID: s.chain}
	}
	s.w.Ctx = s.sim.ReadCtx()
	s.w.Rel, s.w.Btc, s.w.Lock, s.w.Goat = s.sim.App.RelayerKeeper, s.sim.App.BitcoinKeeper, s.sim.App.LockingKeeper, s.sim.App.GoatKeeper
	s.w.Net = &chaincfg.RegressionNetParams
}

func (s *appStream) dumpLines() []bufLine {
	s.view()
	head, beacon, _ := s.sim.EthHead()
	return []bufLine{
		{tr.NewOp("dump", "dump.rel"), world.DumpRel(s.w.Ctx, s.w)},
		{tr.NewOp("dump", "dump.btc"), world.DumpBtc(s.w.Ctx, s.w)},
		{tr.NewOp("dump", "dump.lock"), world.DumpLock(s.w.Ctx, s.w)},
		{tr.NewOp("dump", "dump.goat"), fmt.Sprintf("goat head=%x|%d|%x beacon=%x", head.BlockHash, head.BlockNumber, head.ParentHash, beacon)},
	}
}

func (s *appStream) emitDumps() {
	for _, l := range s.dumpLines() {
		s.emit(l.op, l.res)
	}
}

// ---------------------------------------------------------------------------------- blocks

type pendingTx struct {
	op       *tr.Op
	raw      []byte
	signer   string
	antePass bool
	seq      uint64
	priv     cryptotypes.PrivKey
}

// anteExpect mirrors nothing of the code under test: it is only used to pick account sequences for
// several transactions of one signer in a block (a wrong guess shows up as a divergence).
func anteExpectPass(msgSigner, keyAddr, proposer string, decodes bool, memo string, timeout uint64, height int64, sigok, seqok bool) bool {
	return decodes && msgSigner == proposer && keyAddr == msgSigner && memo == "" && (timeout == 0 || uint64(height) <= timeout) && sigok && seqok
}

var anteKeys = map[string]bool{"ante": true, "signer": true, "signerdecodes": true, "signers": true, "memo": true, "timeout": true, "height": true, "sigok": true, "seqok": true, "time": true}

func (s *appStream) signRelayerTx(r *tr.Rng, o *tr.Op, height int64, seqUsed map[string]uint64) *pendingTx {
	// a replayed operation carries the ante arguments of its first use: drop them
	var kept [][2]string
	for _, kv := range o.Args {
		if !anteKeys[kv[0]] { // "time" included: in the application the handler sees the block time, not the generator's clock
			kept = append(kept, kv)
		}
	}
	o = &tr.Op{Cls: o.Cls, Kind: o.Kind, Args: kept}
	v := s.rel.view()
	prop := s.members[v.rel.Proposer]
	if s.lastProp != "" && s.lastProp != v.rel.Proposer {
		s.formerProp = s.lastProp
	}
	s.lastProp = v.rel.Proposer
	var priv cryptotypes.PrivKey = prop.Acc
	signerAddr := prop.Addr
	cls := ""
	guardy := s.profile == "app-guard"
	switch c := r.Intn(100); {
	case c >= 80 && guardy && s.formerProp != "" && s.formerProp != v.rel.Proposer && s.members[s.formerProp] != nil && !s.forceExpiring && !s.forcePlain:
		// the proposer of the previous epoch: its message names itself and is validly signed, but it is not the CURRENT proposer
		m := s.members[s.formerProp]
		priv, signerAddr, cls = m.Acc, m.Addr, "/signer=former-proposer"
		o.Set("proposer", m.Addr)
	case c < pick(guardy, 20, 4) && len(v.rel.Voters) > 0:
		m := s.members[v.rel.Voters[r.Intn(len(v.rel.Voters))]]
		if m != nil {
			priv, signerAddr, cls = m.Acc, m.Addr, "/signer=voter"
		}
	case c < pick(guardy, 30, 6):
		val := s.sim.Validators[r.Intn(len(s.sim.Validators))]
		priv, signerAddr, cls = val.Priv, sdk.AccAddress(val.ConsAddr).String(), "/signer=validator"
	case c < pick(guardy, 38, 8):
		st := s.strangers[r.Intn(len(s.strangers))]
		priv, signerAddr, cls = st.Acc, st.Addr, "/signer=stranger"
	}
	opts := appsim.TxOpts{}
	memo, sigok, seqok := "", true, true
	timeout := uint64(0)
	if s.forceExpiring {
		// valid in every respect for the mempool of the last committed height, expired for the block being proposed
		priv, signerAddr, cls = prop.Acc, prop.Addr, "/expires-at-proposal"
	}
	if s.forcePlain {
		priv, signerAddr, cls = prop.Acc, prop.Addr, "/plain"
	}
	switch c := r.Intn(100); {
	case s.forcePlain:
	case s.forceExpiring:
		timeout = uint64(height - 1)
	case c < pick(guardy, 10, 2):
		memo = tr.Pick(r, "hi", "x", "x", "a much longer memo than anybody would need")
		opts.Memo, cls = memo, cls+fmt.Sprintf("/memo-len=%d", len(memo))
	case c < pick(guardy, 20, 4):
		timeout, cls = uint64(height-1), cls+"/timeout=h-1"
		if r.Chance(35) { // the smallest timeout there is: long expired unless this is block 1
			timeout, cls = 1, cls+"=1"
		}
	case c < pick(guardy, 28, 6):
		timeout, cls = uint64(height), cls+"/timeout=h"
	case c < pick(guardy, 34, 8):
		timeout, cls = uint64(height+1), cls+"/timeout=h+1"
	case c < pick(guardy, 40, 10):
		opts.ChainID, sigok, cls = s.chain+"-x", false, cls+"/bad-signature"
	}
	opts.TimeoutHeight = timeout
	addr := sdk.AccAddress(priv.PubKey().Address())
	_, base, hasAcc := s.sim.Account(addr)
	seq := base + seqUsed[signerAddr]
	if r.Chance(pick(guardy, 8, 2)) && !s.forceExpiring && !s.forcePlain {
		seq, seqok, cls = seq+1+uint64(r.Intn(2)), false, cls+"/bad-sequence"
	}
	if !hasAcc {
		sigok = false // no account: the signature cannot be verified
	}
	opts.SeqOverride = appsim.U64(seq)
	msg := world.MsgOf(o)
	raw, err := s.sim.SignTx(priv, []sdk.Msg{msg}, opts)
	if err != nil {
		return nil
	}
	msgSigner := o.Str("proposer")
	_, derr := sdk.AccAddressFromBech32(msgSigner)
	pass := anteExpectPass(msgSigner, signerAddr, v.rel.Proposer, derr == nil, memo, timeout, height, sigok, seqok)
	if pass {
		seqUsed[signerAddr]++
	}
	o.Cls += cls
	o.Add("ante", "finalize").Add("signer", signerAddr).Add("signerdecodes", tr.B(derr == nil)).Add("signers", 1).Add("memo", len(memo)).Add("timeout", timeout).Add("height", height).
		Add("sigok", tr.B(sigok)).Add("seqok", tr.B(seqok))
	if !o.Has("time") {
		o.Add("time", s.sim.NextTime().UnixNano())
	}
	return &pendingTx{op: o, raw: raw, signer: signerAddr, antePass: pass, seq: seq, priv: priv}
}

func reqArgsOf(o *tr.Op, bridge goattypes.BridgeRequests, relayer goattypes.RelayerRequests, locking goattypes.LockingRequests) {
	var ws, rbf, cancel, tax, conf, min []string
	for _, x := range bridge.Withdraws {
		ws = append(ws, fmt.Sprintf("%d|%d|%d|%s", x.Id, x.Amount, x.TxPrice, tr.Hex([]byte(x.Address))))
	}
	for _, x := range bridge.ReplaceByFees {
		rbf = append(rbf, fmt.Sprintf("%d|%d", x.Id, x.TxPrice))
	}
	for _, x := range bridge.Cancel1s {
		cancel = append(cancel, fmt.Sprint(x.Id))
	}
	for _, x := range bridge.DepositTax {
		tax = append(tax, fmt.Sprintf("%d|%d", x.Rate, x.Max))
	}
	for _, x := range bridge.Confirmation {
		conf = append(conf, fmt.Sprint(x.Number))
	}
	for _, x := range bridge.MinDeposit {
		min = append(min, fmt.Sprint(x.Satoshi))
	}
	o.Add("withdraws", tr.StrList(ws)).Add("rbf", tr.StrList(rbf)).Add("cancel", tr.StrList(cancel)).Add("tax", tr.StrList(tax)).Add("conf", tr.StrList(conf)).Add("min", tr.StrList(min))
	var adds, removes []string
	for _, x := range relayer.Adds {
		adds = append(adds, fmt.Sprintf("%x|%x", x.Voter[:], x.Pubkey[:]))
	}
	for _, x := range relayer.Removes {
		removes = append(removes, fmt.Sprintf("%x", x.Voter[:]))
	}
	o.Add("adds", tr.StrList(adds)).Add("removes", tr.StrList(removes))
	var gas, grants, weights, thresholds, creates, locks, unlocks, claims []string
	for _, x := range locking.Gas {
		gas = append(gas, x.Amount.String())
	}
	for _, x := range locking.Grants {
		grants = append(grants, x.Amount.String())
	}
	for _, x := range locking.UpdateWeights {
		weights = append(weights, fmt.Sprintf("%x|%d", x.Token[:], x.Weight))
	}
	for _, x := range locking.UpdateThresholds {
		thresholds = append(thresholds, fmt.Sprintf("%x|%s", x.Token[:], x.Threshold))
	}
	for _, x := range locking.Creates {
		comp := goatcrypto.CompressP256k1Pubkey(x.Pubkey)
		creates = append(creates, fmt.Sprintf("%x|%x|%x", x.Validator[:], x.Pubkey[:], comp))
	}
	for _, x := range locking.Locks {
		locks = append(locks, fmt.Sprintf("%x|%x|%s", x.Validator[:], x.Token[:], x.Amount))
	}
	for _, x := range locking.Unlocks {
		unlocks = append(unlocks, fmt.Sprintf("%d|%x|%x|%x|%s", x.Id, x.Validator[:], x.Recipient[:], x.Token[:], x.Amount))
	}
	for _, x := range locking.Claims {
		claims = append(claims, fmt.Sprintf("%d|%x|%x", x.Id, x.Validator[:], x.Recipient[:]))
	}
	o.Add("gas", tr.StrList(gas)).Add("grants", tr.StrList(grants)).Add("weights", tr.StrList(weights)).Add("thresholds", tr.StrList(thresholds)).
		Add("creates", tr.StrList(creates)).Add("locks", tr.StrList(locks)).Add("unlocks", tr.StrList(unlocks)).Add("claims", tr.StrList(claims))
}

func codeRes(res *abci.ExecTxResult) string {
	if res.Code == 0 {
		return "ok"
	}
	cls := world.Classify(fmt.Errorf("%s", res.Log))
	if strings.Contains(res.Log, "panic") || strings.Contains(res.Log, "recovered") {
		return "panic ;; " + cls
	}
	return "err ;; " + cls
}

func (s *appStream) genBlock(r *tr.Rng) {
	s.blocks++
	sim := s.sim
	s.view()
	preDumps := s.dumpLines()
	height := sim.Height + 1
	s.height = height
	// time: mostly the block interval, sometimes jumps around the relayer deadlines
	v := s.rel.view()
	step := time.Duration(tr.Pick(r, 5, 5, 5, 1, 0, 7)) * time.Second
	if r.Chance(8) {
		p, _ := sim.App.RelayerKeeper.Params.Get(s.w.Ctx)
		last := v.rel.LastElected
		target := last.Add(tr.Pick(r, p.ElectingPeriod, p.ElectingPeriod-time.Nanosecond, p.AcceptProposerTimeout, p.AcceptProposerTimeout+time.Nanosecond))
		if target.After(sim.Time) {
			step = target.Sub(sim.Time)
		}
	}
	sim.SetNextTime(sim.Time.Add(step))
	s.now = sim.NextTime().UnixNano()
	s.lck.now, s.lck.height = s.now, height

	// ---- collect operations from the layer-K generators
	var txOps []*tr.Op
	var script appsim.BlockScript
	haveReq := map[string]bool{}
	dump := s.blocks%6 == 0
	nTx := tr.Pick(r, 0, 1, 1, 2, 3)
	if s.profile == "app-guard" {
		nTx = 2 + r.Intn(3)
	}
	if s.profile == "app-proposal-shared" {
		nTx = 0 // one account signs both kinds of message here: keep its sequence for the execution-block message
	}
	for tries := 0; tries < 40 && len(txOps) < nTx; tries++ {
		var o *tr.Op
		if r.Chance(55) {
			o = s.btc.Gen(r)
		} else {
			o = s.rel.Gen(r)
		}
		switch {
		case o.Kind == "oracle":
			s.emit(o, "ok")
		case strings.HasPrefix(o.Kind, "tx."):
			txOps = append(txOps, o)
		case o.Kind == "req.relayer" && !haveReq["rel"]:
			haveReq["rel"] = true
			script.Relayer = world.RelayerReqOf(o)
		case o.Kind == "req.bridge" && !haveReq["btc"]:
			haveReq["btc"] = true
			script.Bridge = world.BridgeReqOf(o)
		case o.Kind == "dump.rel":
			dump = true
		}
	}
	// flush any follow-up ops the generators queued (oracle lines first; txs kept)
	for len(s.q) > 0 {
		o := s.pop()
		if o.Kind == "oracle" {
			s.emit(o, "ok")
		} else if strings.HasPrefix(o.Kind, "tx.") && len(txOps) < 15 {
			txOps = append(txOps, o)
		}
	}
	if r.Chance(45) {
		lo := s.lck.genReq(r)
		for len(s.q) > 0 { // oracle lines / acc.add from the locking generator
			o := s.pop()
			if o.Kind == "oracle" {
				s.emit(o, "ok")
			}
		}
		script.Locking = world.LockReqOf(lo)
		if os.Getenv("VERIF_DEBUG") != "" {
			fmt.Fprintf(os.Stderr, "# lockreq cls %s\n", lo.Cls)
		}
		// the gas request is part of the scripted list (none / two are fault classes)
		if len(script.Locking.Gas) == 0 {
			script.NoGas = true
		}
	}

	// the layer-K generators advance their own clock (end-of-block ops): restore the block's values
	s.now, s.height = sim.NextTime().UnixNano(), height
	s.lck.now, s.lck.height = s.now, height

	// ---- sign the relayer transactions
	seqUsed := map[string]uint64{}
	var ptxs []*pendingTx
	for _, o := range txOps {
		if p := s.signRelayerTx(r, o, height, seqUsed); p != nil {
			ptxs = append(ptxs, p)
		}
	}
	if s.profile == "app-guard" {
		for n := 1 + r.Intn(2); n > 0; n-- {
			if p := s.genericTx(r, height, seqUsed); p != nil {
				ptxs = append(ptxs, p)
			}
		}
		// mempool admission (CheckTx) of some of the block's transactions
		for _, p := range ptxs {
			if r.Chance(40) || strings.Contains(p.op.Cls, "former-proposer") {
				s.checkTx(p)
			}
		}
	}

	// ---- votes and evidence
	var absent [][]byte
	for i, val := range sim.Validators {
		if i > 0 && (r.Chance(6) || (strings.HasPrefix(s.profile, "app-export") && i == len(sim.Validators)-1 && (s.blocks/7)%2 == 0)) {
			absent = append(absent, val.ConsAddr)
		}
	}
	votes := sim.DefaultVotes(absent...)
	var evidence []abci.Misbehavior
	var evs []string
	if r.Chance(4) && len(sim.Validators) > 1 {
		val := sim.Validators[1+r.Intn(len(sim.Validators)-1)]
		et := sim.NextTime().Add(-time.Second)
		evidence = append(evidence, sim.DuplicateVoteEvidence(val.ConsAddr, height-1, et))
		evs = append(evs, fmt.Sprintf("1|%x|%d|%d", []byte(val.ConsAddr), height-1, et.UnixNano()))
	}
	var vs []string
	for _, vi := range votes {
		ab := "0"
		if vi.BlockIdFlag == cmtproto.BlockIDFlagAbsent {
			ab = "1"
		}
		vs = append(vs, fmt.Sprintf("%x|%d|%s", vi.Validator.Address, vi.Validator.Power, ab))
	}

	// ---- engine script and faults for the end-of-block notification
	newStatus, fcuStatus := "VALID", "VALID"
	if s.profile == "app-engine" || r.Chance(3) {
		switch r.Intn(pick(s.profile == "app-engine", 8, 30)) {
		case 0:
			newStatus = "INVALID"
		case 1:
			newStatus = "SYNCING"
		case 2:
			newStatus = "ACCEPTED"
		case 3:
			newStatus = "ERROR"
		case 4:
			fcuStatus = "INVALID"
		case 5:
			fcuStatus = "SYNCING"
		case 6:
			fcuStatus = "ERROR"
		}
	}
	sim.Engine.ClearFaults()
	sc := script
	sim.Engine.SetNext(&sc)
	proposerIdx := r.Intn(len(sim.Validators))
	var raws [][]byte
	for _, p := range ptxs {
		raws = append(raws, p.raw)
	}
	txs, err := sim.BuildProposal(proposerIdx, raws)
	if err != nil {
		panic(err)
	}
	eb, _ := sim.DecodeEthBlockTx(txs[0])
	ethCls := ""
	ethTimeout := uint64(height)
	malformed := s.profile == "app-malformed"
	if malformed || r.Chance(4) || (s.profile == "app-guard" && r.Chance(25)) || (s.profile == "app-det" && r.Chance(12)) {
		// a defective execution-block message in the finalised block (C06: it consumes nothing; C19: it
		// is an error, never a crash)
		m := clonePayload(eb.Payload)
		var mp *goatmod.ExecutionPayload = m
		sel := r.Intn(pick(malformed, 19, 31))
		if s.profile == "app-det" && r.Chance(40) {
			sel = 18
		}
		if s.profile == "app-guard" && r.Chance(50) {
			sel = 11 + r.Intn(2) // the guard's timeout-height rule for the execution-block message
		}
		switch sel {
		case 0:
			ethCls, m.ExtraData = "/short-extra", m.ExtraData[:32]
		case 1:
			ethCls = "/count-byte+1"
			m.ExtraData[0]++
		case 2:
			ethCls, m.Requests = "/garbage-requests", [][]byte{r.Bytes(1 + r.Intn(40))}
		case 3:
			ethCls, m.Requests = "/truncated-request", [][]byte{append([]byte{byte(1 + r.Intn(14))}, r.Bytes(r.Intn(50))...)}
		case 4:
			ethCls, m.BlobGasUsed = "/blob-gas", uint64(tr.Pick(r, 1, 1, 7))
		case 5:
			ethCls, m.BeaconRoot = "/wrong-beacon", flip(m.BeaconRoot)
		case 6:
			ethCls, mp = "/nil-payload", nil
		case 7:
			ethCls, m.ParentHash = "/wrong-parent", flip(m.ParentHash)
		case 8:
			if len(m.Transactions) > 0 {
				ethCls, m.Transactions = "/systx-dropped", m.Transactions[1:]
				m.ExtraData[0]--
			}
		case 9:
			ethCls, m.FeeRecipient = "/wrong-fee-recipient", flip(m.FeeRecipient)
		case 10:
			ethCls, m.Requests = "/no-requests", nil
		case 13, 14: // the system transactions cut short from the end (count byte adjusted, or not)
			if n := len(m.Transactions); n > 0 {
				k := 1 + r.Intn(n)
				ethCls, m.Transactions = "/systx-truncated", m.Transactions[:n-k]
				if sel == 13 {
					m.ExtraData[0] = byte(n - k)
				}
			}
		case 15: // an invented system transaction after the due ones, counted in the header
			extra := append([]byte{}, r.Bytes(40+r.Intn(60))...)
			if n := len(m.Transactions); n > 0 && r.Bool() {
				extra = append([]byte{}, m.Transactions[n-1]...) // a copy of the last due one (duplicate delivery)
			}
			ethCls, m.Transactions = "/systx-extra", append(append([][]byte{}, m.Transactions...), extra)
			m.ExtraData[0]++
		case 16, 17: // right parent hash, but not the next number
			ethCls = "/number-gap"
			if sel == 16 {
				m.BlockNumber += uint64(1 + r.Intn(3))
			} else if m.BlockNumber > 0 {
				m.BlockNumber--
			}
		case 18: // the proposer's clock is ahead of this replica's: executing a committed block must not look at the wall clock (C07)
			ethCls, m.Timestamp = "/timestamp-ahead-of-local-clock", uint64(time.Now().Unix())+uint64(60+r.Intn(7200))
		case 11: // the execution-block message is admissible only with timeout height == block height
			ethCls, ethTimeout = "/timeout-unset", 0
		case 12:
			ethCls, ethTimeout = "/timeout-next-height", uint64(height)+1
		}
		if ethCls != "" {
			raw, err := sim.SignTx(sim.Validators[proposerIdx].Priv, []sdk.Msg{&goatmod.MsgNewEthBlock{Proposer: sim.Validators[proposerIdx].AddrStr, Payload: mp}},
				appsim.TxOpts{GasLimit: 1e8, TimeoutHeight: ethTimeout})
			if err == nil {
				txs[0] = raw
				eb.Payload = mp
			} else {
				ethCls = ""
			}
		}
	}
	// the signer of the execution-block message picks its gas limit: one that runs out inside the handler - most often in
	// its very last store write, after the head was written - fails the message as a whole (C09: the recorded head and what
	// the engine is told stay the old head; C06: nothing is consumed).  The need is measured by a trial run of the same block
	// whose uncommitted state is dropped again by a restart (FinalizeBlock already flushes into the working trees).
	gasShort := false
	if ethCls == "" && eb.Payload != nil && newStatus == "VALID" && fcuStatus == "VALID" && !malformed && s.twin == nil &&
		r.Chance(pick(s.profile == "app-engine", 60, 5)) {
		if s.processed {
			sim.EngineBarrier()
		}
		blockTime := sim.NextTime()
		probe, perr := sim.Finalize(sim.ProposerAddr(proposerIdx), txs, votes, evidence)
		sim.EngineBarrier()
		if err := sim.Restart(); err != nil {
			panic(err)
		}
		sim.SetNextTime(blockTime) // a restart before the first commit replays InitChain, which forgets the time chosen for this block
		if perr == nil && probe.TxResults[0].Code == 0 && probe.TxResults[0].GasUsed > 8000 {
			g := uint64(probe.TxResults[0].GasUsed)
			cut := uint64(1 + r.Intn(2800)) // inside the last store write (2000 flat + 30 per byte of a 32-byte value)
			if r.Chance(35) {
				cut = uint64(1 + r.Intn(int(g/2)))
			}
			raw, err := sim.SignTx(sim.Validators[proposerIdx].Priv, []sdk.Msg{&goatmod.MsgNewEthBlock{Proposer: sim.Validators[proposerIdx].AddrStr, Payload: eb.Payload}},
				appsim.TxOpts{GasLimit: g - cut, TimeoutHeight: ethTimeout})
			if err == nil {
				txs[0] = raw
				gasShort = true
			}
		}
	}
	// a failed transaction in isolation (C19: "a rejected or failed transaction leaves every module's state exactly as it
	// was"): when the block's last transaction fails, the block is also run without it; the four modules' states after the
	// two runs must be the same.  Both are trial runs dropped by a restart; the block proper follows.
	var isoOp *tr.Op
	if !gasShort && !malformed && s.twin == nil && newStatus == "VALID" && fcuStatus == "VALID" && len(txs) > 1 &&
		r.Chance(pick(!s.rel.view().rel.ProposerAccepted, 60, 12)) { // most often while a new proposer is still waiting to be accepted
		if s.processed {
			sim.EngineBarrier()
		}
		blockTime := sim.NextTime()
		restart := func() {
			sim.EngineBarrier()
			if err := sim.Restart(); err != nil {
				panic(err)
			}
			sim.SetNextTime(blockTime)
		}
		probe, perr := sim.Finalize(sim.ProposerAddr(proposerIdx), txs, votes, evidence)
		if perr == nil && probe.TxResults[len(txs)-1].Code != 0 {
			with := s.dumpLines()
			restart()
			if _, err2 := sim.Finalize(sim.ProposerAddr(proposerIdx), txs[:len(txs)-1], votes, evidence); err2 == nil {
				without := s.dumpLines()
				same, detail := "1", "-"
				for i := range with {
					if with[i].res != without[i].res {
						same = "0"
						detail = []string{"rel", "btc", "lock", "goat"}[i] + ":" + diffTokens(without[i].res, with[i].res)
						detail = strings.ReplaceAll(strings.ReplaceAll(detail, " ", "_"), "=", ":")
						break
					}
				}
				isoOp = tr.NewOp("failed-tx-in-isolation/same="+same, "a.failiso", "height", height, "same", same, "detail", detail)
			}
		}
		restart()
	}
	var rawTxs []*pendingTx
	if malformed {
		for n := r.Intn(3); n > 0; n-- { // undecodable transactions inside the block
			var raw []byte
			cls := "rawtx/random-bytes"
			if len(ptxs) > 0 && r.Bool() {
				src := ptxs[r.Intn(len(ptxs))].raw
				raw, cls = src[:len(src)/2], "rawtx/truncated"
			} else {
				raw = r.Bytes(1 + r.Intn(200))
			}
			rawTxs = append(rawTxs, &pendingTx{op: tr.NewOp(cls, "tx.raw", "len", len(raw)), raw: raw})
		}
		for _, p := range rawTxs {
			txs = append(txs, p.raw)
		}
		ptxs = append(ptxs, rawTxs...)
	}
	if (strings.HasPrefix(s.profile, "app-proposal") || r.Chance(10)) && eb.Payload != nil && len(rawTxs) == 0 {
		s.genProcess(r, proposerIdx, txs[0], ptxs, eb.Payload, ethCls == "", ethTimeout == uint64(height))
	}
	if strings.HasPrefix(s.profile, "app-proposal") && len(rawTxs) == 0 && r.Chance(40) {
		sc2 := script
		s.realPrepare(r, ptxs, &sc2)
	}
	if strings.HasPrefix(s.profile, "app-proposal") && len(rawTxs) == 0 && r.Chance(35) {
		sc3 := script
		s.walkPrepare(r, &sc3)
	}
	// faults hit the two calls `Finalized` makes (DirectBuild does not consult faults)
	if newStatus != "VALID" {
		f := appsim.Fault{Method: appsim.MethodNewPayload, Status: newStatus}
		if newStatus == "ERROR" {
			f = appsim.Fault{Method: appsim.MethodNewPayload, Err: fmt.Errorf("engine down")}
		}
		sim.Engine.InjectFault(f)
	}
	if fcuStatus != "VALID" {
		f := appsim.Fault{Method: appsim.MethodFCU, Status: fcuStatus}
		if fcuStatus == "ERROR" {
			f = appsim.Fault{Method: appsim.MethodFCU, Err: fmt.Errorf("engine down")}
		}
		sim.Engine.InjectFault(f)
	}

	proposer := sim.ProposerAddr(proposerIdx)
	nextTime := sim.NextTime()
	if s.processed {
		// a rejected proposal cancels its in-flight newPayload RPC: let the engine finish recording it
		sim.EngineBarrier()
		s.processed = false
	}
	sim.Engine.ResetCalls()
	headBefore, _, _ := sim.EthHead()
	resp, ferr := sim.Finalize(proposer, txs, votes, evidence)
	halt := ferr != nil
	// what the engine was told while the block was finalised (C09): the block hash, and whether the payload it was
	// handed (transactions, requests, parent, number, extra data, beacon root) is the one recorded under that hash
	var eng []string
	for _, c := range sim.Engine.Calls() {
		switch c.Method {
		case appsim.MethodNewPayload:
			alt := ""
			for _, want := range []*goatmod.ExecutionPayload{eb.Payload, &headBefore} {
				if want != nil && bytes.Equal(want.BlockHash, c.BlockHash[:]) {
					if !payloadAsTold(want, &c) {
						alt = "!altered"
					}
					break
				}
			}
			eng = append(eng, fmt.Sprintf("np:%x%s", c.BlockHash[:], alt))
		case appsim.MethodFCU:
			eng = append(eng, fmt.Sprintf("fcu:%x/%x/%x", c.Head[:], c.Safe[:], c.Finalized[:]))
		}
	}

	// ---- determinism (C07): the same block on a second replica, re-executed after dropping the
	// uncommitted state (restart between FinalizeBlock and Commit)
	var detOp *tr.Op
	if s.twin != nil {
		detOp = s.runTwin(r, proposer, txs, votes, evidence, nextTime, newStatus, fcuStatus, resp, ferr, eng)
	}

	// ---- write the block as operations
	if halt { // the state before a block that is not committed (C09: nothing of it persists)
		for _, l := range preDumps {
			s.emit(l.op, l.res)
		}
	}
	s.emit(tr.NewOp("block", "a.blockstart", "height", height, "halt", tr.B(halt)), "ok")
	maxage := fmt.Sprintf("%d|%d", s.lck.maxAgeD, s.lck.maxAgeB)
	begin := tr.NewOp("begin", "hook.lock.begin", "height", height, "time", s.now, "votes", tr.StrList(vs), "maxage", maxage, "ev", tr.StrList(evs))
	if len(absent) > 0 {
		begin.Cls = "begin/absences"
	}
	if len(evs) > 0 {
		begin.Cls += "/evidence"
	}
	resOf := func(i int) string {
		if halt {
			return "n/a"
		}
		return codeRes(resp.TxResults[i])
	}
	if halt {
		s.emit(begin, "n/a")
	} else {
		s.emit(begin, "ok")
	}
	// the typed request items of this block's payload, as the decoder of the execution-layer requests sees them
	if eb.Payload != nil && !halt {
		var hexes []string
		for _, it := range eb.Payload.Requests {
			if len(it) == 0 {
				hexes = append(hexes, "e")
			} else {
				hexes = append(hexes, tr.Hex(it))
			}
		}
		ro := tr.NewOp("reqdecode/block-payload", "req.decode", "raw", tr.StrList(hexes))
		s.emit(ro, (&reqdecodeStream{}).Exec(ro))
	}
	// the execution-block message
	pl := eb.Payload
	eo := tr.NewOp("ethblock", "tx.ethblock", "ante", "finalize", "signer", sdk.AccAddress(proposer).String(), "signers", 1, "memo", 0, "timeout", ethTimeout, "height", height,
		"sigok", "1", "seqok", "1", "time", s.now, "proposer", tr.Hex(proposer), "comet", tr.Hex(proposer), "headerhash", tr.Hex(sim.BlockHash(height)))
	if gasShort {
		eo.Add("oog", "1") // the gas limit its signer chose is below what the handler needs (measured on a trial run)
		ethCls += "/gas-short"
	}
	if strings.Contains(ethCls, "timestamp-ahead") {
		eo.Add("tsahead", "1") // an honest payload in every respect the state transition may look at; only its timestamp is ahead of this machine's clock
	}
	var bridge goattypes.BridgeRequests
	var relayer goattypes.RelayerRequests
	var locking goattypes.LockingRequests
	if pl == nil {
		eo.Add("haspayload", "0")
		pl = &goatmod.ExecutionPayload{}
	} else {
		eo.Add("haspayload", "1").Add("parent", tr.Hex(pl.ParentHash)).Add("feerecip", tr.Hex(pl.FeeRecipient)).Add("number", pl.BlockNumber).
			Add("hash", tr.Hex(pl.BlockHash)).Add("blob", pl.BlobGasUsed).Add("beacon", tr.Hex(pl.BeaconRoot)).Add("extra", tr.Hex(pl.ExtraData)).
			Add("txs", world.SysTxListRaw(pl.Transactions))
		var derr error
		bridge, relayer, locking, derr = goattypes.DecodeRequests(pl.Requests)
		if derr != nil {
			eo.Add("reqdecode", "err")
		} else {
			eo.Add("reqdecode", "ok")
		}
		reqArgsOf(eo, bridge, relayer, locking)
	}
	cls := "ethblock"
	if len(script.Locking.Locks)+len(script.Locking.Unlocks)+len(script.Locking.Creates) > 0 {
		cls += "+locking"
	}
	if haveReq["btc"] {
		cls += "+bridge"
	}
	if haveReq["rel"] {
		cls += "+relayer"
	}
	if len(pl.Transactions) > 0 {
		cls += fmt.Sprintf("+systx")
	}
	eo.Cls = cls + ethCls
	s.emit(eo, resOf(0))
	for i, p := range ptxs {
		res := resOf(i + 1)
		if p.op.Kind == "tx.raw" && strings.HasPrefix(res, "panic") {
			res = "err" + res[5:] // bytes that happen to decode: whatever they are, they must fail without effect
		}
		s.emit(p.op, res)
	}
	end := tr.NewOp("end/new="+newStatus+"/fcu="+fcuStatus, "a.end", "height", height, "time", s.now, "newstatus", newStatus, "fcustatus", fcuStatus)
	if halt {
		s.emit(end, "halt eng="+tr.StrList(eng)+" ;; "+world.Classify(ferr))
		sim.Engine.ClearFaults()
		scripted := newStatus == "ERROR" || newStatus == "INVALID" || fcuStatus == "ERROR" || fcuStatus == "INVALID"
		if !scripted {
			s.deadHalts++
		}
		if s.deadHalts >= 2 {
			// block processing fails without any engine fault, twice in a row: this chain is dead (a real network would
			// have halted for good); the history is over, the stream goes on with a fresh chain
			s.deadHalts = 0
			sim.Close()
			if s.twin != nil {
				s.twin.Close()
				s.twin = nil
			}
			s.started = false
			return
		}
		if err := sim.Restart(); err != nil {
			panic(err)
		}
	} else {
		s.deadHalts = 0
		var ss []string
		for _, u := range resp.ValidatorUpdates {
			ss = append(ss, fmt.Sprintf("%x|%d", u.PubKey.GetSecp256K1(), uint64(u.Power)))
		}
		sort.Strings(ss)
		s.emit(end, "ok ups="+tr.StrList(ss)+" eng="+tr.StrList(eng)+" ;; comet="+s.comet.ApplyComet(resp.ValidatorUpdates))
		if err := sim.Commit(); err != nil {
			panic(err)
		}
		// keys of validators created through requests become usable
		for _, c := range locking.Creates {
			_ = c
		}
	}
	sim.Engine.ClearFaults()
	if detOp != nil {
		s.emit(detOp, "ok")
	}
	if isoOp != nil {
		s.emit(isoOp, "ok")
	}
	if !halt && ((strings.HasPrefix(s.profile, "app-export") && s.blocks%12 == 0) || (s.profile == "app" && s.blocks%97 == 0)) {
		eo := s.exportImport(r)
		// lr: does the locking + relayer part of the state round-trip (what GoatModel.Genesis models)?
		// "-" when the run cannot tell (another module made the import fail first)
		lr := "1"
		if eo.Str("same") == "0" {
			d := eo.Str("detail")
			switch {
			case strings.HasPrefix(d, "state-differs:rel:"), strings.HasPrefix(d, "state-differs:lock:"), strings.HasPrefix(d, "initial-validator-set-differs"),
				strings.HasPrefix(d, "second-export-differs:module0"), strings.HasPrefix(d, "second-export-differs:module2"),
				strings.Contains(d, "voter"), strings.Contains(d, "vote_key"), strings.Contains(d, "validator"):
				lr = "0"
			default:
				lr = "-"
			}
		}
		// br: does the bitcoin + goat part round-trip (what GoatModel.GenesisBtc models)?  The comparison stops at the first
		// difference (relayer, bitcoin, locking, goat state; then the second exports; then the validator set), so another
		// module's failure leaves the answer open ("-")
		br := "1"
		if eo.Str("same") == "0" {
			d := eo.Str("detail")
			low := strings.ToLower(d)
			switch {
			case strings.HasPrefix(d, "state-differs:btc:"), strings.HasPrefix(d, "state-differs:goat:"),
				strings.HasPrefix(d, "second-export-differs:module1"), strings.HasPrefix(d, "second-export-differs:module3"):
				br = "0"
			case (strings.HasPrefix(d, "import:") || strings.HasPrefix(d, "panic:")) && lr != "0" &&
				(strings.Contains(low, "tax") || strings.Contains(low, "deposit") || strings.Contains(low, "block_hash") || strings.Contains(low, "block hash") ||
					strings.Contains(low, "confirmation") || strings.Contains(low, "pubkey") || strings.Contains(low, "network") || strings.Contains(low, "withdrawal") ||
					strings.Contains(low, "processing") || strings.Contains(low, "magic") || strings.Contains(low, "eth_tx") || strings.Contains(low, "is_duplicated")):
				br = "0"
			default:
				br = "-"
			}
		}
		eo.Add("lrobs", tr.B(lr != "-")).Add("brobs", tr.B(br != "-"))
		s.emit(eo, "ok lr="+lr+" br="+br)
	}
	if dump || halt {
		s.emitDumps()
	}
	_ = goatmod.ModuleName
	_ = relayertypes.ModuleName
	_ = common.Address{}
}


// ---------------------------------------------------------------------------------- proposals (C08)

func payloadArgs(o *tr.Op, pl *goatmod.ExecutionPayload, tsfuture bool) {
	if pl == nil {
		o.Add("haspayload", "0")
		return
	}
	if pl.Timestamp > uint64(time.Now().Unix())+30 {
		tsfuture = true // stated from the payload itself (the block message may carry a timestamp ahead of this machine's clock)
	}
	o.Add("haspayload", "1").Add("parent", tr.Hex(pl.ParentHash)).Add("feerecip", tr.Hex(pl.FeeRecipient)).Add("number", pl.BlockNumber).
		Add("hash", tr.Hex(pl.BlockHash)).Add("blob", pl.BlobGasUsed).Add("beacon", tr.Hex(pl.BeaconRoot)).Add("extra", tr.Hex(pl.ExtraData)).
		Add("txs", world.SysTxListRaw(pl.Transactions)).Add("tsfuture", tr.B(tsfuture))
	_, _, locking, derr := goattypes.DecodeRequests(pl.Requests)
	if derr != nil {
		o.Add("reqdecode", "err").Add("gas", "-")
		return
	}
	var gas []string
	for _, g := range locking.Gas {
		gas = append(gas, g.Amount.String())
	}
	o.Add("reqdecode", "ok").Add("gas", tr.StrList(gas))
}

func clonePayload(p *goatmod.ExecutionPayload) *goatmod.ExecutionPayload {
	c := *p
	c.Transactions = append([][]byte{}, p.Transactions...)
	c.Requests = append([][]byte{}, p.Requests...)
	c.ExtraData = append([]byte{}, p.ExtraData...)
	return &c
}

func flip(b []byte) []byte {
	c := append([]byte{}, b...)
	if len(c) > 0 {
		c[len(c)-1] ^= 1
	}
	return c
}

// realPrepare: the application's own PrepareProposal handler (x/goat/keeper/abci.go) builds the proposal of the node
// (validator 0 holds the node key) from the application mempool, after this block's relayer transactions went through
// CheckTx; the result then goes through ProcessProposal as every other validator runs it.  C08: whatever the mempool
// holds, the handler answers, within the 16-transaction cap, and its proposal is accepted.  C19: no mempool content
// makes the handler fail or hang.
func (s *appStream) realPrepare(r *tr.Rng, ptxs []*pendingTx, script *appsim.BlockScript) {
	sim := s.sim
	height := sim.Height + 1
	admitted, offered := 0, 0
	for _, p := range ptxs {
		if p.op.Kind == "tx.raw" {
			continue
		}
		offered++
		if code, _ := sim.CheckTx(p.raw); code == 0 {
			admitted++
		}
	}
	// a transaction that the mempool admits at the last committed height and that is expired for the block being built:
	// the handler has to evict it and go on
	expiring := 0
	if v := s.rel.view(); s.members[v.rel.Proposer] != nil && r.Chance(45) {
		var src *tr.Op
		byProp := uint64(0)
		for _, p := range ptxs {
			if p.antePass && p.signer == v.rel.Proposer {
				byProp++
				if src == nil && p.op.Kind != "tx.raw" && p.op.Kind != "tx.generic" {
					src = p.op
				}
			}
		}
		if src != nil {
			s.forceExpiring = true
			p2 := s.signRelayerTx(r, src, height, map[string]uint64{v.rel.Proposer: byProp})
			s.forceExpiring = false
			if p2 != nil {
				if code, _ := sim.CheckTx(p2.raw); code == 0 {
					expiring++
				}
			}
		}
	}
	// a mempool holding more transactions than a block may carry (16 including the block message)
	flood := 0
	if v := s.rel.view(); s.cfg.MempoolMaxTxs > 16 && s.members[v.rel.Proposer] != nil && r.Chance(30) {
		var src *tr.Op
		byProp := uint64(expiring)
		for _, p := range ptxs {
			if p.antePass && p.signer == v.rel.Proposer {
				byProp++
				if src == nil && p.op.Kind != "tx.raw" && p.op.Kind != "tx.generic" {
					src = p.op
				}
			}
		}
		if src != nil && expiring == 0 {
			s.forcePlain = true
			for k := 0; k < 14+r.Intn(8); k++ {
				if p2 := s.signRelayerTx(r, src, height, map[string]uint64{v.rel.Proposer: byProp}); p2 != nil {
					if code, _ := sim.CheckTx(p2.raw); code == 0 {
						flood++
						byProp++
					}
				}
			}
			s.forcePlain = false
		}
	}
	sim.Engine.ClearFaults()
	sim.Engine.SetNext(script)
	type res struct {
		txs [][]byte
		err error
	}
	done := make(chan res, 1)
	go func() {
		defer func() {
			if e := recover(); e != nil {
				done <- res{nil, fmt.Errorf("panic: %v", e)}
			}
		}()
		txs, err := sim.Prepare(sim.ProposerAddr(0), nil)
		for try := 0; try < 2 && err != nil && isEngineTimeout(err); try++ {
			// the 1.2 s the handler gives the execution client were missed on a loaded machine: not the handler's doing
			sim.EngineBarrier()
			sim.Engine.SetNext(script)
			txs, err = sim.Prepare(sim.ProposerAddr(0), nil)
		}
		done <- res{txs, err}
	}()
	po := tr.NewOp(fmt.Sprintf("prepare/offered=%d/admitted=%d/expiring=%d/flood=%d", offered, admitted, expiring, flood), "a.prepare", "height", height, "offered", offered,
		"admitted", admitted+flood, "expiring", expiring)
	var out res
	select {
	case out = <-done:
	case <-time.After(25 * time.Second):
		// the handler does not come back: the node is stuck building its proposal.  The goroutine cannot be stopped, so the
		// stream ends here (the trace is complete up to this operation)
		s.emit(po, "hang")
		for _, l := range s.buf { // the operations of this block were not handed to the trace writer yet
			fmt.Printf("%s\n=> %s\n", l.op.Line(), l.res)
		}
		os.Exit(0)
	}
	s.processed = true // the handler talked to the engine: let it settle before the block's own calls are logged
	sim.EngineBarrier()
	if out.err != nil {
		s.emit(po, "err ;; "+world.Classify(out.err))
		return
	}
	if len(out.txs) > 16 {
		s.emit(po, fmt.Sprintf("err ;; %d transactions (cap 16)", len(out.txs)))
		return
	}
	if os.Getenv("VERIF_DEBUG") != "" {
		exp := admitted + flood
		if exp > 15 {
			exp = 15
		}
		fmt.Fprintf(os.Stderr, "# prepare-count exp=%d got=%d admitted=%d flood=%d expiring=%d\n", exp+1, len(out.txs), admitted, flood, expiring)
	}
	po.Add("got", len(out.txs))
	s.emit(po, "ok")
	// ... and every other validator checks it
	eb, err := sim.DecodeEthBlockTx(out.txs[0])
	if err != nil || eb.Payload == nil {
		return
	}
	val := sim.Validators[0]
	kinds, anteok := []string{"eth"}, []string{"1"}
	for range out.txs[1:] {
		kinds, anteok = append(kinds, "rel"), append(anteok, "1")
	}
	acc, perr := sim.Process(val.ConsAddr, out.txs)
	if !acc {
		sim.EngineBarrier()
	}
	honest := true
	if _, _, l, derr := goattypes.DecodeRequests(eb.Payload.Requests); derr != nil || len(l.Gas) != 1 {
		honest = false // the scripted execution layer misbehaved (fault class), not an honest build
	}
	o := tr.NewOp("process/real-prepare", "a.process", "honest", tr.B(honest), "height", height, "kinds", tr.StrList(kinds), "anteok", tr.StrList(anteok),
		"proposer", tr.Hex(val.ConsAddr), "comet", tr.Hex(val.ConsAddr), "newstatus", "VALID", "own", "1")
	payloadArgs(o, eb.Payload, false)
	pres := "ok"
	if perr != nil {
		pres = "err ;; abci-error"
	} else if !acc {
		c := world.Classify(fmt.Errorf("%s", sim.RejectReason()))
		if strings.HasPrefix(c, "engine") {
			c = "engine"
		}
		pres = "err ;; " + c
	}
	s.emit(o, pres)
}

// genProcess: ProcessProposal on the honest proposal (ante-valid transactions only, as the real
// PrepareProposal selects them) and on single mutations of it.
func (s *appStream) genProcess(r *tr.Rng, proposerIdx int, ethTx []byte, ptxs []*pendingTx, pl *goatmod.ExecutionPayload, baseHonest bool, ethAnteOk bool) {
	sim := s.sim
	s.processed = true
	height := sim.Height + 1
	val := sim.Validators[proposerIdx]
	var rel [][]byte
	for _, p := range ptxs {
		if p.antePass {
			rel = append(rel, p.raw)
		}
	}
	run := func(cls string, comet []byte, txs [][]byte, kinds, anteok []string, pl *goatmod.ExecutionPayload, msgProposer []byte, newstatus string, tsfuture bool) {
		sim.Engine.ClearFaults()
		if newstatus != "VALID" {
			f := appsim.Fault{Method: appsim.MethodNewPayload, Status: newstatus}
			if newstatus == "ERROR" {
				f = appsim.Fault{Method: appsim.MethodNewPayload, Err: fmt.Errorf("engine down")}
			}
			sim.Engine.InjectFault(f)
		}
		callsBefore := len(sim.Engine.Calls())
		acc, err := sim.Process(comet, txs)
		if !acc {
			// a rejection cancels the in-flight newPayload RPC of the sibling verification goroutine: make sure it has
			// landed before anything else talks to the engine (otherwise it shows up in a later block's call log or
			// swallows a fault scripted for the next call)
			_ = callsBefore
			sim.EngineBarrier()
		}
		sim.Engine.ClearFaults()
		honest := cls == "honest" && baseHonest // a deliberately defective execution-block message is not an honest build
		if pl != nil {
			if _, _, l, derr := goattypes.DecodeRequests(pl.Requests); derr != nil || len(l.Gas) != 1 {
				honest = false // the scripted execution layer misbehaved (fault class), not an honest build
			}
		}
		o := tr.NewOp("process/"+cls, "a.process", "honest", tr.B(honest), "height", height, "kinds", tr.StrList(kinds), "anteok", tr.StrList(anteok),
			"proposer", tr.Hex(msgProposer), "comet", tr.Hex(comet), "newstatus", newstatus)
		payloadArgs(o, pl, tsfuture)
		res := "ok"
		if err != nil {
			res = "err ;; abci-error"
		} else if !acc {
			c := world.Classify(fmt.Errorf("%s", sim.RejectReason()))
			if strings.HasPrefix(c, "engine") {
				c = "engine"
			}
			res = "err ;; " + c
		}
		s.emit(o, res)
	}
	kindsOf := func(n int) ([]string, []string) {
		k, a := []string{"eth"}, []string{tr.B(ethAnteOk)}
		for i := 0; i < n; i++ {
			k, a = append(k, "rel"), append(a, "1")
		}
		return k, a
	}
	honest := append([][]byte{ethTx}, rel...)
	hk, ha := kindsOf(len(rel))
	run("honest", val.ConsAddr, honest, hk, ha, pl, val.ConsAddr, "VALID", false)
	resign := func(p *goatmod.ExecutionPayload, by appsim.ValKey) []byte {
		raw, err := sim.BuildEthBlockTx(by, p, uint64(height), nil)
		if err != nil {
			panic(err)
		}
		return raw
	}
	for n := 0; n < 3; n++ {
		m := clonePayload(pl)
		cls, comet, msgProp, status, future := "", val.ConsAddr, []byte(val.ConsAddr), "VALID", false
		txs, k, a := honest, hk, ha
		mutatePayload := true
		sel := r.Intn(24)
		switch sel {
		case 0:
			cls, m.ParentHash = "wrong-parent", flip(m.ParentHash)
		case 1:
			cls, m.BlockNumber = "wrong-number", m.BlockNumber+1
		case 2:
			cls, m.BeaconRoot = "wrong-beacon-root", flip(m.BeaconRoot)
		case 3:
			if len(sim.Validators) > 1 {
				cls, comet = "other-consensus-proposer", sim.Validators[(proposerIdx+1)%len(sim.Validators)].ConsAddr
			}
		case 4:
			cls, m.FeeRecipient = "wrong-fee-recipient", flip(m.FeeRecipient)
		case 5:
			cls = "count-byte+1"
			m.ExtraData[0]++
		case 6:
			if len(m.Transactions) > 0 {
				cls, m.Transactions = "systx-dropped", m.Transactions[1:]
				m.ExtraData[0]--
			}
		case 7:
			if len(m.Transactions) > 1 {
				cls = "systx-swapped"
				m.Transactions[0], m.Transactions[1] = m.Transactions[1], m.Transactions[0]
			}
		case 8:
			if len(m.Transactions) > 0 {
				cls = "systx-byte-flipped"
				m.Transactions[0] = flip(m.Transactions[0])
			}
		case 9:
			b, rl, l, err := goattypes.DecodeRequests(m.Requests)
			if err == nil {
				cls = "no-gas-request"
				l.Gas = nil
				m.Requests = append(append(l.Encode(), b.Encode()...), rl.Encode()...)
			}
		case 10:
			b, rl, l, err := goattypes.DecodeRequests(m.Requests)
			if err == nil && len(l.Gas) == 1 {
				cls = "two-gas-requests"
				l.Gas = append(l.Gas, l.Gas[0])
				m.Requests = append(append(l.Encode(), b.Encode()...), rl.Encode()...)
			}
		case 11:
			cls, m.Requests = "garbage-requests", [][]byte{{0xfe, 1, 2, 3}}
		case 12:
			cls, future = "future-timestamp", true
			m.Timestamp = uint64(time.Now().Unix()) + 3600
		case 13:
			if len(rel) > 0 {
				cls, mutatePayload = "ethblock-not-first", false
				txs = append([][]byte{rel[0], ethTx}, rel[1:]...)
				k, a = append([]string{"rel", "eth"}, hk[2:]...), ha
			}
		case 14:
			cls, mutatePayload = "duplicate-ethblock", false
			txs = append([][]byte{ethTx, ethTx}, rel...)
			k = append([]string{"eth", "eth"}, hk[1:]...)
			a = append([]string{"1", "0"}, ha[1:]...) // the second copy carries a stale account sequence
		case 15:
			cls, mutatePayload, txs, k, a = "no-transactions", false, nil, nil, nil
		case 16:
			cls, mutatePayload = "too-many-transactions", false
			txs, k, a = [][]byte{ethTx}, []string{"eth"}, []string{"1"}
			for i := 0; i < 16; i++ {
				txs, k, a = append(txs, ethTx), append(k, "eth"), append(a, "0")
			}
		case 17:
			cls, status, mutatePayload = "engine-"+tr.Pick(r, "INVALID", "SYNCING", "ACCEPTED", "ERROR"), "", false
			status = cls[len("engine-"):]
		case 18:
			if len(sim.Validators) > 1 {
				other := sim.Validators[(proposerIdx+1)%len(sim.Validators)]
				cls, mutatePayload = "signed-by-other-validator", false
				// message proposer = the other validator, consensus proposer unchanged
				txs = append([][]byte{resign(m, other)}, rel...)
				msgProp = other.ConsAddr
			}
		case 19:
			cls, m.BlobGasUsed = "blob-gas", 1
		case 22:
			extra := append([]byte{}, r.Bytes(40+r.Intn(60))...)
			if n := len(m.Transactions); n > 0 && r.Bool() {
				extra = append([]byte{}, m.Transactions[n-1]...)
			}
			cls, m.Transactions = "systx-extra", append(append([][]byte{}, m.Transactions...), extra)
			m.ExtraData[0]++
		case 23:
			cls, m.BlockNumber = "number-gap", m.BlockNumber+uint64(2+r.Intn(3))
		case 20, 21:
			if n := len(m.Transactions); n > 0 {
				k := 1 + r.Intn(n)
				cls, m.Transactions = "systx-truncated", m.Transactions[:n-k]
				if sel == 20 {
					m.ExtraData[0] = byte(n - k)
				}
			}
		}
		if cls == "" {
			continue
		}
		if mutatePayload {
			txs = append([][]byte{resign(m, val)}, rel...)
			a = append([]string{"1"}, a[1:]...) // re-signed with the right timeout height
		}
		run(cls, comet, txs, k, a, m, msgProp, status, future)
	}
	// two execution-block messages bundled in one later transaction, signed by the consensus proposer (it passes the
	// ante chain in process mode: both messages are the allowed block message with the right timeout height)
	if baseHonest && r.Chance(35) {
		if acc := sim.App.AccountKeeper.GetAccount(sim.ReadCtx(), sdk.AccAddress(val.ConsAddr)); acc != nil {
			seq := acc.GetSequence() + 1
			second := clonePayload(pl)
			second.BlockNumber++
			third := clonePayload(pl)
			third.BlockNumber += 2
			msgs := []sdk.Msg{&goatmod.MsgNewEthBlock{Proposer: val.AddrStr, Payload: second}, &goatmod.MsgNewEthBlock{Proposer: val.AddrStr, Payload: third}}
			if raw, err := sim.SignTx(val.Priv, msgs, appsim.TxOpts{GasLimit: 1e8, TimeoutHeight: uint64(height), SeqOverride: &seq}); err == nil {
				run("bundled-ethblocks-in-later-tx", val.ConsAddr, [][]byte{ethTx, raw}, []string{"eth", "eth+"}, []string{tr.B(ethAnteOk), "1"}, pl, val.ConsAddr, "VALID", false)
			}
		}
	}
	// a second execution-block message hidden behind a relayer message inside a later transaction.  It can
	// pass the ante chain only when one account is both the consensus proposer and the relayer proposer.
	if s.profile == "app-proposal-shared" && proposerIdx == 0 && baseHonest {
		rv := s.rel.view()
		if rv.rel.Proposer == val.AddrStr {
			acc := sim.App.AccountKeeper.GetAccount(sim.ReadCtx(), sdk.AccAddress(val.ConsAddr))
			if acc != nil {
				seq := acc.GetSequence() + 1
				second := clonePayload(pl)
				second.BlockNumber++
				accept := &relayertypes.MsgAcceptProposerRequest{Proposer: val.AddrStr, Epoch: rv.rel.Epoch}
				for _, order := range []string{"relayer-msg-first", "ethblock-first"} {
					msgs := []sdk.Msg{accept, &goatmod.MsgNewEthBlock{Proposer: val.AddrStr, Payload: second}}
					kind := "eth+"
					if order == "ethblock-first" {
						msgs[0], msgs[1] = msgs[1], msgs[0]
					}
					raw, err := sim.SignTx(val.Priv, msgs, appsim.TxOpts{GasLimit: 1e8, TimeoutHeight: uint64(height), SeqOverride: &seq})
					if err != nil {
						continue
					}
					run("hidden-second-ethblock/"+order, val.ConsAddr, [][]byte{ethTx, raw}, []string{"eth", kind}, []string{"1", "1"}, pl, val.ConsAddr, "VALID", false)
				}
			}
		}
	}
}


// ---------------------------------------------------------------------------------- C10: foreign messages, CheckTx

var msgNameOfKind = map[string]string{
	"tx.hashes": "goat.bitcoin.v1.MsgNewBlockHashes", "tx.pubkey": "goat.bitcoin.v1.MsgNewPubkey", "tx.deposits": "goat.bitcoin.v1.MsgNewDeposits",
	"tx.process": "goat.bitcoin.v1.MsgProcessWithdrawal", "tx.replace": "goat.bitcoin.v1.MsgReplaceWithdrawal", "tx.finalize": "goat.bitcoin.v1.MsgFinalizeWithdrawal",
	"tx.approve": "goat.bitcoin.v1.MsgApproveCancellation", "tx.consolidate": "goat.bitcoin.v1.MsgNewConsolidation",
	"tx.newvoter": "goat.relayer.v1.MsgNewVoterRequest", "tx.accept": "goat.relayer.v1.MsgAcceptProposerRequest",
}

// genericTx: transactions carrying message types registered in the application that are NOT
// relayer/bridge messages (account and consensus-parameter administration), multi-message mixes and
// multi-signer transactions.  None of them may ever pass the ante chain.
func (s *appStream) genericTx(r *tr.Rng, height int64, seqUsed map[string]uint64) *pendingTx {
	v := s.rel.view()
	prop := s.members[v.rel.Proposer]
	if prop == nil {
		return nil
	}
	var priv cryptotypes.PrivKey = prop.Acc
	signer := prop.Addr
	if r.Chance(30) {
		val := s.sim.Validators[r.Intn(len(s.sim.Validators))]
		priv, signer = val.Priv, sdk.AccAddress(val.ConsAddr).String()
	}
	var msgs []sdk.Msg
	var names []string
	cls := "generic/"
	authMsg := &authtypes.MsgUpdateParams{Authority: signer, Params: authtypes.DefaultParams()}
	consMsg := &consensustypes.MsgUpdateParams{Authority: signer, Block: &cmtproto.BlockParams{MaxBytes: 1000, MaxGas: -1},
		Evidence: &cmtproto.EvidenceParams{MaxAgeNumBlocks: 1, MaxAgeDuration: time.Second, MaxBytes: 100}, Validator: &cmtproto.ValidatorParams{PubKeyTypes: []string{"secp256k1"}}}
	relMsg := &relayertypes.MsgAcceptProposerRequest{Proposer: signer, Epoch: v.rel.Epoch}
	firstSigner := signer
	switch r.Intn(6) {
	case 0:
		msgs, names, cls = []sdk.Msg{authMsg}, []string{"cosmos.auth.v1beta1.MsgUpdateParams"}, cls+"auth-update-params"
	case 1:
		msgs, names, cls = []sdk.Msg{consMsg}, []string{"cosmos.consensus.v1.MsgUpdateParams"}, cls+"consensus-update-params"
	case 2:
		msgs, names, cls = []sdk.Msg{relMsg, authMsg}, []string{"goat.relayer.v1.MsgAcceptProposerRequest", "cosmos.auth.v1beta1.MsgUpdateParams"}, cls+"relayer+auth"
	case 3:
		msgs, names, cls = []sdk.Msg{consMsg, relMsg}, []string{"cosmos.consensus.v1.MsgUpdateParams", "goat.relayer.v1.MsgAcceptProposerRequest"}, cls+"consensus+relayer"
	case 4: // two different signers
		other := s.strangers[0].Addr
		msgs = []sdk.Msg{relMsg, &relayertypes.MsgAcceptProposerRequest{Proposer: other, Epoch: v.rel.Epoch}}
		names, cls = []string{"goat.relayer.v1.MsgAcceptProposerRequest", "goat.relayer.v1.MsgAcceptProposerRequest"}, cls+"two-signers"
	case 5: // the block message smuggled together with a relayer message
		head, beacon, _ := s.sim.EthHead()
		pl := &goatmod.ExecutionPayload{ParentHash: head.BlockHash, BlockNumber: head.BlockNumber + 1, FeeRecipient: make([]byte, 20), BeaconRoot: beacon,
			BaseFeePerGas: sdkmath.NewInt(1), ExtraData: make([]byte, 33)}
		msgs = []sdk.Msg{&goatmod.MsgNewEthBlock{Proposer: signer, Payload: pl}, relMsg}
		names, cls = []string{"goat.goat.v1.MsgNewEthBlock", "goat.relayer.v1.MsgAcceptProposerRequest"}, cls+"ethblock+relayer"
	}
	nsigners := 1
	if strings.HasSuffix(cls, "two-signers") {
		nsigners = 2
	}
	addr := sdk.AccAddress(priv.PubKey().Address())
	_, base, hasAcc := s.sim.Account(addr)
	timeout := uint64(0)
	if strings.HasSuffix(cls, "ethblock+relayer") || r.Chance(20) {
		timeout = uint64(height)
	}
	if strings.HasSuffix(cls, "ethblock+relayer") {
		// signed by a validator: the block message passes the guard, the relayer message must not
		val := s.sim.Validators[r.Intn(len(s.sim.Validators))]
		priv, signer = val.Priv, sdk.AccAddress(val.ConsAddr).String()
		firstSigner = signer
		msgs[0].(*goatmod.MsgNewEthBlock).Proposer = signer
		msgs[1].(*relayertypes.MsgAcceptProposerRequest).Proposer = signer
		addr = sdk.AccAddress(priv.PubKey().Address())
		_, base, hasAcc = s.sim.Account(addr)
	}
	raw, err := s.sim.SignTx(priv, msgs, appsim.TxOpts{SeqOverride: appsim.U64(base + seqUsed[signer]), TimeoutHeight: timeout})
	if err != nil {
		return nil
	}
	o := tr.NewOp(cls, "tx.generic", "msgs", tr.StrList(names), "proposer", firstSigner, "ante", "finalize", "signer", signer, "signerdecodes", "1",
		"signers", nsigners, "memo", 0, "timeout", timeout, "height", height, "sigok", tr.B(hasAcc), "seqok", "1")
	return &pendingTx{op: o, raw: raw, signer: signer, seq: base + seqUsed[signer], priv: priv}
}

// checkTx: mempool admission of a transaction that is (also) part of the block
func (s *appStream) checkTx(p *pendingTx) {
	o := &tr.Op{Cls: "checktx/" + p.op.Cls, Kind: "a.checktx"}
	names := p.op.Str("msgs")
	if n, ok := msgNameOfKind[p.op.Kind]; ok {
		names = n
	}
	o.Add("msgs", names)
	for _, kv := range p.op.Args {
		switch kv[0] {
		case "proposer", "signer", "signerdecodes", "signers", "memo", "timeout", "sigok":
			o.Add(kv[0], kv[1])
		}
	}
	// CheckTx runs on the check state: height of the last committed block, sequence of that state
	seqok := "1"
	if p.priv != nil {
		addr := sdk.AccAddress(p.priv.PubKey().Address())
		if acc := s.sim.App.AccountKeeper.GetAccount(s.sim.CheckCtx(), addr); acc != nil {
			if acc.GetSequence() != p.seq {
				seqok = "0"
			}
			// Right after a process restart the check state carries an empty header (height 0) until the next
			// commit; cosmos-sdk then verifies signatures against account number 0 ("genesis"), so a transaction of
			// an account with another number is refused.  The signature facts are stated by the harness.
			if s.sim.Height > 0 && s.sim.App.GetContextForCheckTx(nil).BlockHeight() == 0 && acc.GetAccountNumber() != 0 && o.Str("sigok") == "1" {
				o.Set("sigok", "0")
				o.Cls += "/restart-genesis-accnum"
			}
		}
	}
	o.Add("ante", "check").Add("seqok", seqok).Add("height", s.sim.Height)
	code, log := s.sim.CheckTx(p.raw)
	res := "ok"
	if code != 0 {
		res = "err ;; " + world.Classify(fmt.Errorf("%s", log))
	}
	s.emit(o, res)
}


// ---------------------------------------------------------------------------------- C07: replicas

func fingerprint(resp *abci.ResponseFinalizeBlock, err error, eng []string) string {
	if err != nil {
		return "halt:" + world.Classify(err) + " eng=" + strings.Join(eng, ",")
	}
	var sb strings.Builder
	fmt.Fprintf(&sb, "apphash=%x", resp.AppHash)
	for i, t := range resp.TxResults {
		fmt.Fprintf(&sb, " tx%d=%d/%d", i, t.Code, t.GasUsed)
	}
	var ups []string
	for _, u := range resp.ValidatorUpdates {
		ups = append(ups, fmt.Sprintf("%x|%d", u.PubKey.GetSecp256K1(), u.Power))
	}
	sort.Strings(ups)
	fmt.Fprintf(&sb, " ups=%s eng=%s", strings.Join(ups, ","), strings.Join(eng, ","))
	return sb.String()
}

// payloadAsTold: is what newPayload carried the recorded payload?
func payloadAsTold(want *goatmod.ExecutionPayload, c *appsim.Call) bool {
	eq := func(a, b [][]byte) bool {
		if len(a) != len(b) {
			return false
		}
		for i := range a {
			if !bytes.Equal(a[i], b[i]) {
				return false
			}
		}
		return true
	}
	return bytes.Equal(want.ParentHash, c.ParentHash[:]) && want.BlockNumber == c.Number && bytes.Equal(want.ExtraData, c.ExtraData) &&
		bytes.Equal(want.FeeRecipient, c.FeeRecipient[:]) && want.Timestamp == c.Timestamp &&
		bytes.Equal(common.BytesToHash(want.BeaconRoot).Bytes(), c.BeaconRoot[:]) && eq(want.Transactions, c.Txs) && eq(want.Requests, c.Requests)
}

func engLog(sim *appsim.Sim) []string {
	var eng []string
	for _, c := range sim.Engine.Calls() {
		switch c.Method {
		case appsim.MethodNewPayload:
			eng = append(eng, fmt.Sprintf("np:%x", c.BlockHash[:]))
		case appsim.MethodFCU:
			eng = append(eng, fmt.Sprintf("fcu:%x/%x/%x", c.Head[:], c.Safe[:], c.Finalized[:]))
		}
	}
	return eng
}

func (s *appStream) runTwin(r *tr.Rng, proposer []byte, txs [][]byte, votes []abci.VoteInfo, evidence []abci.Misbehavior, t time.Time,
	newStatus, fcuStatus string, resp *abci.ResponseFinalizeBlock, ferr error, eng []string) *tr.Op {
	tw := s.twin
	inject := func() {
		tw.Engine.ClearFaults()
		if newStatus != "VALID" {
			f := appsim.Fault{Method: appsim.MethodNewPayload, Status: newStatus}
			if newStatus == "ERROR" {
				f = appsim.Fault{Method: appsim.MethodNewPayload, Err: fmt.Errorf("engine down")}
			}
			tw.Engine.InjectFault(f)
		}
		if fcuStatus != "VALID" {
			f := appsim.Fault{Method: appsim.MethodFCU, Status: fcuStatus}
			if fcuStatus == "ERROR" {
				f = appsim.Fault{Method: appsim.MethodFCU, Err: fmt.Errorf("engine down")}
			}
			tw.Engine.InjectFault(f)
		}
	}
	run := func() (string, error) {
		tw.SetNextTime(t)
		inject()
		tw.Engine.ResetCalls()
		r2, e2 := tw.Finalize(proposer, txs, votes, evidence)
		return fingerprint(r2, e2, engLog(tw)), e2
	}
	want := fingerprint(resp, ferr, eng)
	got1, e1 := run()
	same, detail := "1", "-"
	if got1 != want {
		same, detail = "0", "replica:"+diffTokens(want, got1)
		if os.Getenv("VERIF_DEBUG") != "" && resp != nil {
			fmt.Fprintf(os.Stderr, "DET primary log: %s\n", resp.TxResults[0].Log)
		}
	}
	// crash between FinalizeBlock and Commit: drop the instance, reload from the DB, execute again
	if err := tw.Restart(); err != nil {
		panic(err)
	}
	got2, e2 := run()
	if got2 != want && same == "1" {
		same, detail = "0", "re-execution:"+diffTokens(want, got2)
	}
	if e2 == nil {
		if err := tw.Commit(); err != nil {
			panic(err)
		}
		if r.Chance(10) { // restart between blocks as well
			if err := tw.Restart(); err != nil {
				panic(err)
			}
		}
	} else {
		if err := tw.Restart(); err != nil {
			panic(err)
		}
	}
	_ = e1
	tw.Engine.ClearFaults()
	return tr.NewOp("det/same="+same, "a.det", "height", s.sim.Height+1, "same", same, "detail", detail)
}

func diffTokens(a, b string) string {
	fa, fb := strings.Fields(a), strings.Fields(b)
	for i := range fa {
		if i >= len(fb) || fa[i] != fb[i] {
			x := fa[i]
			y := ""
			if i < len(fb) {
				y = fb[i]
			}
			if len(x) > 60 {
				x = x[:60]
			}
			if len(y) > 60 {
				y = y[:60]
			}
			return x + "!=" + y
		}
	}
	return "length"
}


// ---------------------------------------------------------------------------------- C18: export / import

func canonDump(line string) string {
	// the two boarding queues are rebuilt from the voter statuses in address order: compare them as sets
	f := strings.Fields(line)
	for i, tok := range f {
		if strings.HasPrefix(tok, "on=") || strings.HasPrefix(tok, "off=") {
			k := tok[:strings.IndexByte(tok, '=')+1]
			xs := tr.SplitList(tok[len(k):])
			sort.Strings(xs)
			f[i] = k + tr.StrList(xs)
		}
	}
	return strings.Join(f, " ")
}

// rewardTotal: undistributed pools + validators' unclaimed rewards + payouts queued for the execution layer
func rewardTotal(ctx sdk.Context, k lockingkeeper.Keeper) string {
	t := sdkmath.ZeroInt()
	if p, err := k.RewardPool.Get(ctx); err == nil {
		t = t.Add(p.Goat).Add(p.Gas).Add(p.Remain)
	}
	_ = k.Validators.Walk(ctx, nil, func(_ sdk.ConsAddress, v lockingtypes.Validator) (bool, error) {
		t = t.Add(v.Reward).Add(v.GasReward)
		return false, nil
	})
	if q, err := k.EthTxQueue.Get(ctx); err == nil {
		for _, r := range q.Rewards {
			t = t.Add(r.Goat).Add(r.Gas)
		}
	}
	return t.String()
}

func (s *appStream) exportImport(r *tr.Rng) (op *tr.Op) {
	same, detail := "1", "-"
	fail := func(d string) *tr.Op {
		if len(d) > 300 {
			d = d[:300]
		}
		d = strings.ReplaceAll(strings.ReplaceAll(d, " ", "_"), "=", ":")
		d = strings.Map(func(c rune) rune {
			if c < 0x21 || c > 0x7e {
				return '?'
			}
			return c
		}, d)
		return tr.NewOp("export/same=0", "a.export", "height", s.sim.Height, "same", "0", "detail", d)
	}
	defer func() {
		if e := recover(); e != nil {
			op = fail(fmt.Sprintf("panic:%v", e))
		}
	}()
	sim := s.sim
	exp, err := sim.Export()
	if err != nil {
		return fail("export:" + err.Error())
	}
	before := s.dumpLines()
	cfg := s.cfg
	cfg.Home = ""
	sim2, err := appsim.NewFromExport(cfg, exp, nil)
	if err != nil {
		return fail("import:" + err.Error())
	}
	defer sim2.Close()
	// same state: every collection of the four modules
	w2 := &world.World{ChainID: s.chain, Ctx: sim2.ReadCtx(), Rel: sim2.App.RelayerKeeper, Btc: sim2.App.BitcoinKeeper, Lock: sim2.App.LockingKeeper, Goat: sim2.App.GoatKeeper}
	head, beacon, _ := sim2.EthHead()
	after := []string{world.DumpRel(w2.Ctx, w2), world.DumpBtc(w2.Ctx, w2), world.DumpLock(w2.Ctx, w2),
		fmt.Sprintf("goat head=%x|%d|%x beacon=%x", head.BlockHash, head.BlockNumber, head.ParentHash, beacon)}
	// reward value is accounted for across the restart too (C12): pools + accrued + queued payouts
	if t1, t2 := rewardTotal(sim.ReadCtx(), sim.App.LockingKeeper), rewardTotal(w2.Ctx, sim2.App.LockingKeeper); t1 != t2 {
		return fail("reward-total-differs:" + t1 + "/" + t2)
	}
	for i, b := range before {
		if canonDump(b.res) != canonDump(after[i]) {
			return fail("state-differs:" + []string{"rel", "btc", "lock", "goat"}[i] + ":" + diffTokens(canonDump(b.res), canonDump(after[i])))
		}
	}
	// every query of the four modules returns the same answer on both chains (arguments taken from the original state)
	if q1, q2 := queryDigest(sim), queryDigest2(sim, sim2); q1 != q2 {
		return fail("query-answers-differ:" + diffTokens(q1, q2))
	}
	// a second export is identical to the first (module by module; the imported chain has not
	// committed a block yet, so the application-level export cannot be used on it)
	g1, g2 := moduleExports(sim), moduleExports(sim2)
	for i := range g1 {
		if g1[i] != g2[i] {
			return fail(fmt.Sprintf("second-export-differs:module%d", i))
		}
	}
	// the initial validator set handed to the consensus engine equals the exported active set
	var want, got []string
	for _, v := range exp.Validators {
		want = append(want, fmt.Sprintf("%x|%d", v.PubKey.Bytes(), v.Power))
	}
	for _, v := range sim2.CurSet {
		got = append(got, fmt.Sprintf("%x|%d", v.PubKey, v.Power))
	}
	sort.Strings(want)
	sort.Strings(got)
	if strings.Join(want, ",") != strings.Join(got, ",") {
		return fail("initial-validator-set-differs:" + strings.Join(want, ",") + "/" + strings.Join(got, ","))
	}
	// the imported chain can go on: one empty block
	if _, err := sim2.NextBlockFast(nil); err != nil {
		return fail("imported-chain-halts:" + err.Error())
	}
	return tr.NewOp("export/same="+same, "a.export", "height", sim.Height, "same", same, "detail", detail)
}


// queryDigest: the answers of every gRPC query method of the four modules, for arguments drawn from the state of `from`
// (every validator, voter record, withdrawal id, credited outpoint, a few deposit addresses), asked on `on`.
func queryDigest(sim *appsim.Sim) string { return queryDigest2(sim, sim) }

func queryDigest2(from, on *appsim.Sim) string {
	fctx, ctx := from.ReadCtx(), on.ReadCtx()
	var out []string
	add := func(name string, m interface{ String() string }, err error) {
		if err != nil {
			out = append(out, name+":err:"+strings.ReplaceAll(err.Error(), " ", "_"))
		} else {
			out = append(out, name+":"+strings.ReplaceAll(m.String(), " ", "_"))
		}
	}
	bq := bitcoinkeeper.NewQueryServerImpl(on.App.BitcoinKeeper)
	{
		r, err := bq.Params(ctx, &bitcointypes.QueryParamsRequest{})
		add("btc.params", r, err)
		r2, err := bq.Pubkey(ctx, &bitcointypes.QueryPubkeyRequest{})
		add("btc.pubkey", r2, err)
		r3, err := bq.BlockTip(ctx, &bitcointypes.QueryBlockTipRequest{})
		add("btc.tip", r3, err)
		for v := uint32(0); v < 3; v++ {
			r4, err := bq.DepositAddress(ctx, &bitcointypes.QueryDepositAddress{Version: v, EvmAddress: "0x00112233445566778899aabbccddeeff00112233"})
			add(fmt.Sprintf("btc.depositaddr%d", v), r4, err)
		}
		_ = from.App.BitcoinKeeper.Withdrawals.Walk(fctx, nil, func(id uint64, _ bitcointypes.Withdrawal) (bool, error) {
			r, err := bq.Withdrawal(ctx, &bitcointypes.QueryWithdrawalRequest{Id: id})
			add(fmt.Sprintf("btc.withdrawal%d", id), r, err)
			return false, nil
		})
		n := 0
		_ = from.App.BitcoinKeeper.Deposited.Walk(fctx, nil, func(k collections.Pair[[]byte, uint32], _ uint64) (bool, error) {
			var h chainhash.Hash
			copy(h[:], k.K1())
			for _, vout := range []uint32{k.K2(), k.K2() + 1} {
				r, err := bq.HasDeposited(ctx, &bitcointypes.QueryHasDeposited{Txid: h.String(), Txout: vout})
				add(fmt.Sprintf("btc.hasdeposited:%s:%d", h.String()[:12], vout), r, err)
			}
			n++
			return n > 40, nil
		})
	}
	rq := relayerkeeper.NewQueryServerImpl(on.App.RelayerKeeper)
	{
		r, err := rq.Params(ctx, &relayertypes.QueryParamsRequest{})
		add("rel.params", r, err)
		r2, err := rq.Relayer(ctx, &relayertypes.QueryRelayerRequest{})
		add("rel.relayer", r2, err)
		r3, err := rq.Pubkeys(ctx, &relayertypes.QueryPubkeysRequest{})
		add("rel.pubkeys", r3, err)
		_ = from.App.RelayerKeeper.Voters.Walk(fctx, nil, func(addr string, _ relayertypes.Voter) (bool, error) {
			r, err := rq.Voter(ctx, &relayertypes.QueryVoterRequest{Address: addr})
			add("rel.voter:"+addr, r, err)
			return false, nil
		})
	}
	lq := lockingkeeper.NewQueryServerImpl(on.App.LockingKeeper)
	{
		r, err := lq.Params(ctx, &lockingtypes.QueryParamsRequest{})
		add("lock.params", r, err)
		_ = from.App.LockingKeeper.Validators.Walk(fctx, nil, func(a sdk.ConsAddress, _ lockingtypes.Validator) (bool, error) {
			r, err := lq.Validator(ctx, &lockingtypes.QueryValidatorRequest{Address: fmt.Sprintf("0x%x", []byte(a))})
			add(fmt.Sprintf("lock.validator:%x", []byte(a)), r, err)
			return false, nil
		})
	}
	gq := goatkeeper.NewQueryServerImpl(on.App.GoatKeeper)
	{
		r, err := gq.EthBlockTip(ctx, &goatmod.QueryEthBlockTipRequest{})
		add("goat.tip", r, err)
	}
	return strings.Join(out, " ")
}

func moduleExports(sim *appsim.Sim) []string {
	ctx := sim.ReadCtx()
	out := make([]string, 4)
	mar := func(m interface{ Marshal() ([]byte, error) }) string {
		b, err := m.Marshal()
		if err != nil {
			return "marshal-error"
		}
		return string(b)
	}
	out[0] = mar(relayermodule.ExportGenesis(ctx, sim.App.RelayerKeeper))
	out[1] = mar(bitcoinmodule.ExportGenesis(ctx, sim.App.BitcoinKeeper))
	out[2] = mar(lockingmodule.ExportGenesis(ctx, sim.App.LockingKeeper))
	out[3] = mar(goatmodule.ExportGenesis(ctx, sim.App.GoatKeeper))
	return out
}
