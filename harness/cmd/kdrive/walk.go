package main

import (
	"context"
	"errors"
	"fmt"
	"strings"
	"time"

	sdk "github.com/cosmos/cosmos-sdk/types"
	"github.com/cosmos/cosmos-sdk/types/mempool"
	protov2 "google.golang.org/protobuf/proto"

	"verif/harness/internal/appsim"
	"verif/harness/internal/tr"
	"verif/harness/internal/world"
)

// ---- the mempool walk of PrepareProposal, driven with scripted mempool contents and verdicts (C08, C19)
//
// verdict per mempool entry:  1 = passes the proposal-time verification
//                             0 = fails; the removal from the mempool succeeds
//                             n = fails; the removal answers "tx not found" (tolerated by the handler)
//                             e = fails; the removal answers another error (the handler gives up with that error)

type walkTx struct{ idx int }

func (walkTx) GetMsgs() []sdk.Msg                    { return nil }
func (walkTx) GetMsgsV2() ([]protov2.Message, error) { return nil, nil }

type walkPool struct {
	n       int
	verdict []byte
	evicted []int
	looked  int
}

type walkIter struct {
	p *walkPool
	i int
}

func (it *walkIter) Next() mempool.Iterator {
	if it.i+1 >= it.p.n {
		return nil
	}
	return &walkIter{it.p, it.i + 1}
}
func (it *walkIter) Tx() sdk.Tx {
	if it.i+1 > it.p.looked {
		it.p.looked = it.i + 1
	}
	return walkTx{it.i}
}

func (p *walkPool) Insert(context.Context, sdk.Tx) error { return nil }
func (p *walkPool) CountTx() int                         { return p.n }
func (p *walkPool) Select(context.Context, [][]byte) mempool.Iterator {
	if p.n == 0 {
		return nil
	}
	return &walkIter{p, 0}
}
func (p *walkPool) Remove(tx sdk.Tx) error {
	i := tx.(walkTx).idx
	switch p.verdict[i] {
	case 'n':
		return mempool.ErrTxNotFound
	case 'e':
		return errors.New("mempool is broken")
	}
	p.evicted = append(p.evicted, i)
	return nil
}

func (p *walkPool) PrepareProposalVerifyTx(tx sdk.Tx) ([]byte, error) {
	i := tx.(walkTx).idx
	if p.verdict[i] == '1' {
		return []byte(fmt.Sprintf("walk-tx-%d", i)), nil
	}
	return nil, errors.New("does not pass")
}
func (p *walkPool) ProcessProposalVerifyTx([]byte) (sdk.Tx, error) { return nil, errors.New("unused") }
func (p *walkPool) TxDecode([]byte) (sdk.Tx, error)                { return nil, errors.New("unused") }
func (p *walkPool) TxEncode(sdk.Tx) ([]byte, error)                { return nil, errors.New("unused") }

func ints(xs []int) string {
	var ss []string
	for _, x := range xs {
		ss = append(ss, fmt.Sprint(x))
	}
	return tr.StrList(ss)
}

func (s *appStream) walkPrepare(r *tr.Rng, script *appsim.BlockScript) {
	sim := s.sim
	n := tr.Pick(r, 0, 1, 3, 14, 15, 16, 17, 20, 31)
	if r.Chance(30) {
		n = r.Intn(40)
	}
	v := make([]byte, n)
	pPass := tr.Pick(r, 100, 90, 60, 30, 0)
	withErr := r.Chance(25)
	for i := range v {
		switch {
		case r.Intn(100) < pPass:
			v[i] = '1'
		case r.Chance(85):
			v[i] = '0'
		case r.Chance(85) || !withErr:
			v[i] = 'n'
		default:
			v[i] = 'e'
		}
	}
	pool := &walkPool{n: n, verdict: v}
	sim.Engine.ClearFaults()
	sim.Engine.SetNext(script)
	type res struct {
		txs [][]byte
		err error
	}
	done := make(chan res, 1)
	go func() {
		defer func() {
			if e := recover(); e != nil {
				done <- res{nil, fmt.Errorf("panic: %v", e)}
			}
		}()
		var txs [][]byte
		var err error
		for try := 0; try < 3; try++ {
			// the handler gives the execution client 1.2 s: on a loaded machine the (fake) engine may miss that, which says
			// nothing about the handler - try again with the same mempool
			pool.evicted, pool.looked = nil, 0
			sim.Engine.SetNext(script)
			txs, err = sim.PrepareWith(pool, pool)
			if err == nil || !isEngineTimeout(err) {
				break
			}
			sim.EngineBarrier()
		}
		done <- res{txs, err}
	}()
	vs := make([]string, n)
	for i := range v {
		vs[i] = string(v[i])
	}
	op := tr.NewOp(fmt.Sprintf("walk/n=%d/pass=%d%%", n, pPass), "a.walk", "verdicts", tr.StrList(vs))
	var out res
	select {
	case out = <-done:
	case <-time.After(25 * time.Second):
		s.emit(op, "hang")
		return
	}
	s.processed = true
	sim.EngineBarrier()
	if out.err != nil {
		c := world.Classify(out.err)
		if strings.Contains(out.err.Error(), "mempool is broken") {
			c = "mempool-remove"
		}
		s.emit(op, "err ;; "+c)
		return
	}
	var sel []int
	bad := len(out.txs) == 0 || !sim.IsEthBlockTx(out.txs[0])
	for _, t := range out.txs[1:] {
		var i int
		if _, err := fmt.Sscanf(string(t), "walk-tx-%d", &i); err != nil {
			bad = true
		}
		sel = append(sel, i)
	}
	if bad {
		s.emit(op, "err ;; malformed-proposal")
		return
	}
	s.emit(op, fmt.Sprintf("ok sel=%s ev=%s looked=%d", ints(sel), ints(pool.evicted), pool.looked))
}

func isEngineTimeout(err error) bool {
	m := err.Error()
	return strings.Contains(m, "deadline exceeded") || strings.Contains(m, "context canceled") || strings.Contains(m, "timeout")
}
