package main

import (
	"fmt"
	"math/big"
	"strings"

	"github.com/ethereum/go-ethereum/common"
	"github.com/ethereum/go-ethereum/core/types/goattypes"
	goatcrypto "github.com/goatnetwork/goat/pkg/crypto"
	"verif/harness/internal/tr"
)

// reqdecode stream (C19 / C13 / C16 / C20: "any decodable request list"): the typed request lists an execution payload
// carries are decoded by goat-geth's goattypes.DecodeRequests before any module sees them.  The stream feeds the real
// decoder well-formed lists of every request type (built with the library's own encoders), concatenations, and byte-level
// damage (truncation, extension, unknown type bytes, empty items, more than 255 items), and the Lean model
// (GoatModel.Requests) decodes the same bytes.
type reqdecodeStream struct{}

func init() { streams["reqdecode"] = func(uint64) Stream { return &reqdecodeStream{} } }

func bigR(r *tr.Rng) *big.Int {
	switch r.Intn(6) {
	case 0:
		return big.NewInt(0)
	case 1:
		return new(big.Int).Sub(new(big.Int).Lsh(big.NewInt(1), 256), big.NewInt(1))
	case 2:
		return new(big.Int).Lsh(big.NewInt(1), 255)
	}
	return new(big.Int).SetBytes(r.Bytes(1 + r.Intn(32)))
}

func addrR(r *tr.Rng) common.Address { return common.BytesToAddress(r.Bytes(20)) }

func u64R(r *tr.Rng) uint64 {
	return tr.Pick(r, uint64(0), 1, 255, 256, 1<<32, 1<<63, 1<<64-1, uint64(r.Intn(1000000)))
}

// one typed item: type byte followed by the concatenated records of that type
func genTyped(r *tr.Rng) ([]byte, string) {
	n := 1 + r.Intn(3)
	var body []byte
	var typ byte
	cls := ""
	switch r.Intn(17) {
	case 0:
		typ, cls = goattypes.GasRequestType, "gas"
		for i := 0; i < n; i++ {
			body = append(body, goattypes.NewGasRequest(u64R(r), bigR(r)).Encode()...)
		}
	case 1:
		typ, cls = goattypes.CreateRequestType, "create"
		for i := 0; i < n; i++ {
			var pk [64]byte
			copy(pk[:], r.Bytes(64))
			body = append(body, (&goattypes.CreateRequest{Validator: addrR(r), Pubkey: pk}).Encode()...)
		}
	case 2:
		typ, cls = goattypes.LockRequestType, "lock"
		for i := 0; i < n; i++ {
			body = append(body, (&goattypes.LockRequest{Validator: addrR(r), Token: addrR(r), Amount: bigR(r)}).Encode()...)
		}
	case 3:
		typ, cls = goattypes.UnlockRequestType, "unlock"
		for i := 0; i < n; i++ {
			body = append(body, (&goattypes.UnlockRequest{Id: u64R(r), Validator: addrR(r), Recipient: addrR(r), Token: addrR(r), Amount: bigR(r)}).Encode()...)
		}
	case 4:
		typ, cls = goattypes.ClaimRequestType, "claim"
		for i := 0; i < n; i++ {
			body = append(body, (&goattypes.ClaimRequest{Id: u64R(r), Validator: addrR(r), Recipient: addrR(r)}).Encode()...)
		}
	case 5:
		typ, cls = goattypes.GrantRequestType, "grant"
		for i := 0; i < n; i++ {
			body = append(body, (&goattypes.GrantRequest{Amount: bigR(r)}).Encode()...)
		}
	case 6:
		typ, cls = goattypes.UpdateTokenWeightRequestType, "weight"
		for i := 0; i < n; i++ {
			body = append(body, (&goattypes.UpdateTokenWeightRequest{Token: addrR(r), Weight: u64R(r)}).Encode()...)
		}
	case 7:
		typ, cls = goattypes.UpdateTokenThresholdRequestType, "threshold"
		for i := 0; i < n; i++ {
			body = append(body, (&goattypes.UpdateTokenThresholdRequest{Token: addrR(r), Threshold: bigR(r)}).Encode()...)
		}
	case 8:
		typ, cls = goattypes.WithdrawalRequestType, "withdraw"
		for i := 0; i < n; i++ {
			a := tr.Pick(r, "", "x", "bcrt1qw508d6qejxtdg4y5r3zarvary0c5xw7kygt080", strings.Repeat("a", 90), string(r.Bytes(1+r.Intn(60))))
			body = append(body, (&goattypes.WithdrawalRequest{Id: u64R(r), Amount: u64R(r), TxPrice: u64R(r), Address: a}).Encode()...)
		}
	case 9:
		typ, cls = goattypes.ReplaceByFeeRequestType, "rbf"
		for i := 0; i < n; i++ {
			body = append(body, (&goattypes.ReplaceByFeeRequest{Id: u64R(r), TxPrice: u64R(r)}).Encode()...)
		}
	case 10:
		typ, cls = goattypes.Cancel1RequestType, "cancel"
		for i := 0; i < n; i++ {
			body = append(body, (&goattypes.Cancel1Request{Id: u64R(r)}).Encode()...)
		}
	case 11:
		typ, cls = goattypes.DepositTaxRequestType, "tax"
		for i := 0; i < n; i++ {
			body = append(body, (&goattypes.DepositTaxRequest{Rate: u64R(r), Max: u64R(r)}).Encode()...)
		}
	case 12:
		typ, cls = goattypes.ConfirmationNumberRequestType, "conf"
		for i := 0; i < n; i++ {
			body = append(body, (&goattypes.ConfirmationNumberRequest{Number: u64R(r)}).Encode()...)
		}
	case 13:
		typ, cls = goattypes.MinDepositRequestType, "min"
		for i := 0; i < n; i++ {
			body = append(body, (&goattypes.MinDepositRequest{Satoshi: u64R(r)}).Encode()...)
		}
	case 14:
		typ, cls = goattypes.AddVoterRequestType, "addvoter"
		for i := 0; i < n; i++ {
			body = append(body, (&goattypes.AddVoterRequest{Voter: addrR(r), Pubkey: common.BytesToHash(r.Bytes(32))}).Encode()...)
		}
	case 15:
		typ, cls = goattypes.RemoveVoterRequestType, "removevoter"
		for i := 0; i < n; i++ {
			body = append(body, (&goattypes.RemoveVoterRequest{Voter: addrR(r)}).Encode()...)
		}
	case 16: // a type byte nobody knows (the gaps of the numbering and beyond)
		typ, cls = byte(tr.Pick(r, 8, 9, 10, 17, 18, 19, 22, 23, 100, 255)), "unknown-type"
		body = r.Bytes(r.Intn(40))
	}
	return append([]byte{typ}, body...), cls
}

func (s *reqdecodeStream) Gen(r *tr.Rng) *tr.Op {
	n := tr.Pick(r, 0, 1, 1, 2, 3, 5)
	var items [][]byte
	var cls []string
	for i := 0; i < n; i++ {
		it, c := genTyped(r)
		switch r.Intn(16) {
		case 0:
			if len(it) > 1 {
				it, c = it[:len(it)-1-r.Intn(min(len(it)-1, 9))], c+"/truncated"
			}
		case 1:
			it, c = append(it, r.Bytes(1+r.Intn(9))...), c+"/extended"
		case 2:
			it, c = it[:1], c+"/type-byte-only"
		case 3:
			it, c = []byte{}, "empty-item"
		case 4:
			if len(it) > 2 {
				it = append([]byte{}, it...)
				it[1+r.Intn(len(it)-1)] ^= 1 << uint(r.Intn(8))
				c += "/bitflip"
			}
		}
		items, cls = append(items, it), append(cls, c)
	}
	if r.Chance(2) { // the list itself is too long (more than 255 typed items)
		items, cls = nil, []string{"256-items"}
		for i := 0; i < 256; i++ {
			items = append(items, []byte{goattypes.Cancel1RequestType})
		}
	}
	var hexes []string
	for _, it := range items {
		if len(it) == 0 {
			hexes = append(hexes, "e") // an empty byte string (the list syntax cannot carry it otherwise)
		} else {
			hexes = append(hexes, tr.Hex(it))
		}
	}
	c := strings.Join(cls, "+")
	if len(c) > 70 {
		c = c[:70]
	}
	return tr.NewOp("reqdecode/"+c, "req.decode", "raw", tr.StrList(hexes))
}

func (s *reqdecodeStream) Exec(o *tr.Op) string {
	var reqs [][]byte
	for _, h := range o.List("raw") {
		if h == "e" {
			reqs = append(reqs, []byte{})
		} else {
			reqs = append(reqs, tr.UnHex(h))
		}
	}
	bridge, relayer, locking, err := goattypes.DecodeRequests(reqs)
	if err != nil {
		return "err"
	}
	x := tr.NewOp("", "x")
	reqArgsOf(x, bridge, relayer, locking)
	var heights []string
	for _, g := range locking.Gas {
		heights = append(heights, fmt.Sprint(g.Height))
	}
	return "ok gasheights=" + tr.StrList(heights) + strings.TrimPrefix(x.Line(), "op x")
}

var _ = goatcrypto.SHA256Sum
