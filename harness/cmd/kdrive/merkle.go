package main

import (
	"fmt"

	goatcrypto "github.com/goatnetwork/goat/pkg/crypto"
	"github.com/goatnetwork/goat/x/bitcoin/types"
	"verif/harness/internal/tr"
)

// merkle stream (C04): real VerifyMerkelProof on genuine, aliased, truncated, extended, permuted,
// bit-flipped and malformed proofs over reference trees built here.
type merkleStream struct{ k int }

func init() { streams["merkle"] = func(uint64) Stream { return &merkleStream{} } }

// buildTree returns the levels of a Bitcoin-style merkle tree (odd nodes duplicated).
func buildTree(leaves [][]byte) [][][]byte {
	levels := [][][]byte{leaves}
	cur := leaves
	for len(cur) > 1 {
		if len(cur)%2 == 1 {
			cur = append(append([][]byte{}, cur...), cur[len(cur)-1])
			levels[len(levels)-1] = cur
		}
		var next [][]byte
		for i := 0; i < len(cur); i += 2 {
			next = append(next, goatcrypto.DoubleSHA256Sum(append(append([]byte{}, cur[i]...), cur[i+1]...)))
		}
		levels = append(levels, next)
		cur = next
	}
	return levels
}

func merklePath(levels [][][]byte, idx int) []byte {
	var p []byte
	for l := 0; l < len(levels)-1; l++ {
		p = append(p, levels[l][idx^1]...)
		idx >>= 1
	}
	return p
}

func (m *merkleStream) Gen(r *tr.Rng) *tr.Op {
	m.k++
	// tree sizes: exhaustive small sizes first, then random up to 2^10
	var nl int
	if m.k <= 400 {
		nl = 1 + (m.k % 9)
	} else {
		nl = 1 + r.Intn(tr.Pick(r, 4, 16, 64, 1024))
	}
	leaves := make([][]byte, nl)
	for i := range leaves {
		leaves[i] = r.Bytes(32)
	}
	levels := buildTree(leaves)
	root := levels[len(levels)-1][0]
	pos := r.Intn(nl)
	depth := len(levels) - 1
	path := merklePath(levels, pos)
	txid := leaves[pos]
	index := uint32(pos)
	cls := "genuine"
	switch r.Intn(17) {
	case 14: // a genuine proof for an identifier that is the leaf followed by more bytes: only the length rule refuses it
		txid = append(append([]byte{}, txid...), r.Bytes(1+r.Intn(32))...)
		cls = "txid-extended"
	case 15: // the leaf ends in a zero byte and is presented without it
		leaves[pos] = append(append([]byte{}, leaves[pos][:31]...), 0)
		levels = buildTree(leaves)
		root = levels[len(levels)-1][0]
		path = merklePath(levels, pos)
		txid = leaves[pos][:31]
		cls = "txid-short-zero-tail"
	case 16: // genuine proof, root followed by one more byte / cut by one byte
		if r.Chance(50) {
			root = append(append([]byte{}, root...), 0)
		} else {
			root = root[:31]
		}
		cls = "root-resized"
	case 0, 1:
	case 2: // alias: same low bits, extra high bits
		index = uint32(pos) + uint32(1+r.Intn(3))<<uint(depth)
		cls = "alias-high"
	case 3:
		index = uint32(pos) | 1<<31
		cls = "alias-2^31"
	case 4: // coinbase presented at another position
		txid = leaves[0]
		path = merklePath(levels, 0)
		index = uint32(1+r.Intn(4)) << uint(depth)
		cls = "coinbase-alias"
	case 5:
		if len(path) >= 32 {
			path = path[:len(path)-32]
		}
		cls = "truncated"
	case 6:
		path = append(append([]byte{}, path...), r.Bytes(32)...)
		cls = "extended"
	case 7:
		if len(path) >= 64 {
			p := append([]byte{}, path...)
			copy(p[0:32], path[32:64])
			copy(p[32:64], path[0:32])
			path = p
		}
		cls = "permuted"
	case 8:
		if len(path) > 0 {
			p := append([]byte{}, path...)
			p[r.Intn(len(p))] ^= 1 << uint(r.Intn(8))
			path = p
		} else {
			t := append([]byte{}, txid...)
			t[r.Intn(32)] ^= 1
			txid = t
		}
		cls = "bitflip"
	case 9:
		index = uint32(r.Intn(1 << uint(depth+1)))
		cls = "wrong-index"
	case 10:
		path = append(append([]byte{}, path...), r.Bytes(1+r.Intn(31))...)
		cls = "ragged"
	case 11:
		txid = r.Bytes(tr.Pick(r, 0, 31, 33, 64))
		cls = "bad-txid-size"
	case 12:
		root = r.Bytes(tr.Pick(r, 0, 31, 33))
		cls = "bad-root-size"
	case 13: // extended with the right hash so that the fold still reaches a root of a bigger tree
		sib := r.Bytes(32)
		root = goatcrypto.DoubleSHA256Sum(append(append([]byte{}, root...), sib...))
		path = append(append([]byte{}, path...), sib...)
		index = uint32(pos) + uint32(r.Intn(2))<<uint(depth+1)
		cls = "deeper-tree"
	}
	return tr.NewOp(cls, "merkle.verify", "txid", tr.Hex(txid), "root", tr.Hex(root), "proof", tr.Hex(path), "index", index)
}

func (m *merkleStream) Exec(o *tr.Op) string {
	ok := types.VerifyMerkelProof(o.Bytes("txid"), o.Bytes("root"), o.Bytes("proof"), uint32(o.U64("index")))
	return fmt.Sprint(tr.B(ok))
}
