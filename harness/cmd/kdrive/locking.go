package main

import (
	sdkmath "cosmossdk.io/math"
	"fmt"
	"math/big"
	"sort"
	"strings"

	"github.com/btcsuite/btcd/btcec/v2"
	sdk "github.com/cosmos/cosmos-sdk/types"
	"github.com/ethereum/go-ethereum/common"
	goatcrypto "github.com/goatnetwork/goat/pkg/crypto"
	lockingtypes "github.com/goatnetwork/goat/x/locking/types"
	"verif/harness/internal/tr"
)

// locking stream (C11–C15, C12, C13): block-structured histories on the real locking keeper:
// begin block (rewards, matured unlocks, votes, evidence) → execution-layer requests → end block
// (validator updates, fed to a real CometBFT validator set) → dequeue.

type lval struct {
	addr   []byte
	pub64  []byte
	comp   []byte
	absent int // remaining blocks of scripted absence
}

type lockingStream struct {
	*worldStream
	vals    []*lval
	tokens  [][]byte // token addresses (20 bytes)
	uid     uint64
	cid     uint64
	phase   int
	profile string
	// mapOrderBias: favour lock batches whose outcome would depend on the iteration order of a map
	mapOrderBias bool
	maxAgeD      int64
	maxAgeB      int64
	params       struct{ unlock, exit, jail, window, maxmissed int64 }
	halted       bool
	// CometBFT applies validator updates with a delay of two blocks: the last-commit (vote) infos of block N name the
	// set recorded after block N-3.  setHist keeps the recorded sets; voteDelay (0 or 2) is fixed per world.
	setHist   [][][2]string
	voteDelay int
	// tokens whose weight is raised by the next request batch (follow-up of a directed partial unlock)
	raiseNext [][]byte
	// exitBias: favour validators leaving with unclaimed rewards (export profiles)
	exitBias bool
}

func init() {
	streams["locking"] = func(seed uint64) Stream {
		return &lockingStream{worldStream: newWorldStream("goat-test-1"), profile: "mixed"}
	}
	streams["locking-rewards"] = func(seed uint64) Stream {
		return &lockingStream{worldStream: newWorldStream("goat-test-1"), profile: "rewards"}
	}
}

var goatToken = []byte{0xbc, 0x10, 0, 0, 0, 0, 0, 0, 0, 0, 0, 0, 0, 0, 0, 0, 0, 0, 0, 0x01}

func (s *lockingStream) newVal(r *tr.Rng) *lval {
	_, pub := btcec.PrivKeyFromBytes(r.Bytes(32))
	unc := pub.SerializeUncompressed()[1:]
	comp := pub.SerializeCompressed()
	v := &lval{addr: goatcrypto.Hash160Sum(comp), pub64: unc, comp: comp}
	s.oracle("h160", "in", tr.Hex(comp), "out", tr.Hex(v.addr))
	s.vals = append(s.vals, v)
	return v
}

func e18(n int64) *big.Int { return new(big.Int).Mul(big.NewInt(n), big.NewInt(1e18)) }

func (s *lockingStream) setup(r *tr.Rng) {
	s.setHist, s.voteDelay = nil, tr.Pick(r, 0, 2, 2)
	s.params.unlock = int64(tr.Pick(r, 20, 60, 600)) * 1e9 // 600 s: dozens of pending maturity slots at a time
	s.params.exit = s.params.unlock + int64(tr.Pick(r, 0, 30, 100))*1e9
	s.params.jail = int64(tr.Pick(r, 60, 90)) * 1e9
	s.params.window = int64(tr.Pick(r, 4, 6, 10))
	s.params.maxmissed = int64(tr.Pick(r, 1, 2, 3))
	if s.params.maxmissed >= s.params.window {
		s.params.maxmissed = s.params.window - 1
	}
	maxvals := tr.Pick(r, 1, 2, 3, 4, 100)
	if s.profile == "rewards" {
		maxvals = 100
	}
	halving := tr.Pick(r, 5, 20, 1000000)
	reward := tr.Pick(r, "1", "1000", "2378234400000000000", "999999999999999999")
	remain := tr.Pick(r, "0", "5000", "100000000000000000000", "10000000000000000000000000")
	slashds := tr.Pick(r, "50000000000000000", "1", "999999999999999999", "333333333333333333")
	slashdt := tr.Pick(r, "20000000000000000", "1", "999999999999999999", "500000000000000000")
	s.maxAgeD, s.maxAgeB = int64(tr.Pick(r, 30, 100))*1e9, int64(tr.Pick(r, 3, 10))
	s.tokens = [][]byte{make([]byte, 20), goatToken, r.Bytes(20), r.Bytes(20)}
	s.push(tr.NewOp("init", "init.lock", "unlock", s.params.unlock, "exit", s.params.exit, "jail", s.params.jail, "maxvals", maxvals,
		"window", s.params.window, "maxmissed", s.params.maxmissed, "slashds", slashds, "slashdt", slashdt, "halving", halving,
		"reward", reward, "nonce", r.Intn(3), "remain", remain))
	// bootstrap block (height 1): token weights, a few validators with real stakes, first end block
	var weights, creates, locks []string
	for i, t := range s.tokens {
		weights = append(weights, fmt.Sprintf("%x|%d", t, []int{1, 1, 2, 10}[i]))
	}
	nv := tr.Pick(r, 1, 2, 3, 4, 6)
	if s.profile == "rewards" {
		nv = tr.Pick(r, 3, 6, 7, 9, 11, 13)
	}
	for i := 0; i < nv; i++ {
		v := s.newVal(r)
		creates = append(creates, fmt.Sprintf("%x|%x|%x", v.addr, v.pub64, v.comp))
		a := e18(int64(50 + r.Intn(150)))
		if r.Chance(30) || s.profile == "rewards" {
			a = e18(100) // ties / equal shares (rounding-adversarial)
		}
		tk := s.tokens[r.Intn(2)]
		if i == 0 || s.profile == "rewards" {
			tk = s.tokens[0]
		}
		locks = append(locks, fmt.Sprintf("%x|%x|%s", v.addr, tk, a))
	}
	s.push(tr.NewOp("req.lock/bootstrap", "req.lock", "height", 1, "time", s.now, "gas", "0", "grants", "-", "weights", tr.StrList(weights),
		"thresholds", "-", "creates", tr.StrList(creates), "locks", tr.StrList(locks), "unlocks", "-", "claims", "-"))
	s.push(tr.NewOp("end", "hook.lock.end", "height", 1, "time", s.now))
}

// noHuge: the application-layer profile keeps powers far below 2^60 (beyond that lies known finding
// F6b, after which a real chain is halted and nothing is meaningful)
var noHuge bool

func amt(r *tr.Rng) *big.Int {
	if r.Intn(100) < 3 && !noHuge {
		switch r.Intn(3) {
		case 0:
			return new(big.Int).Lsh(big.NewInt(1), 255)
		case 1:
			return new(big.Int).Sub(new(big.Int).Lsh(big.NewInt(1), 256), big.NewInt(1))
		}
		return new(big.Int).Mul(e18(1), new(big.Int).Lsh(big.NewInt(1), 63)) // power 2^63 at weight 1
	}
	switch r.Intn(10) {
	case 0:
		return big.NewInt(0)
	case 1:
		return big.NewInt(1)
	case 2:
		return big.NewInt(int64(1 + r.Intn(1000))) // dust
	case 3:
		return new(big.Int).Sub(e18(1), big.NewInt(1))
	case 4:
		return new(big.Int).Add(e18(1), big.NewInt(1))
	}
	return new(big.Int).Add(e18(int64(1+r.Intn(200))), big.NewInt(int64(r.Intn(1000))))
}

func (s *lockingStream) pickVal(r *tr.Rng) []byte {
	if len(s.vals) == 0 || r.Intn(1000) < 12 {
		return r.Bytes(20)
	}
	for try := 0; try < 8; try++ {
		v := s.vals[r.Intn(len(s.vals))]
		if ok, _ := s.w.Lock.Validators.Has(s.w.Ctx, v.addr); ok {
			return v.addr
		}
	}
	return s.vals[0].addr
}

// pickTarget: a validator to unlock from / punish; validator 0 is kept safe so that the set never
// becomes empty (an empty set halts a real chain: nothing after it would be meaningful)
func (s *lockingStream) pickTarget(r *tr.Rng) []byte {
	if len(s.vals) < 2 || r.Intn(1000) < 12 {
		return r.Bytes(20)
	}
	for try := 0; try < 8; try++ {
		v := s.vals[1+r.Intn(len(s.vals)-1)]
		if ok, _ := s.w.Lock.Validators.Has(s.w.Ctx, v.addr); ok {
			return v.addr
		}
	}
	return s.vals[1].addr
}
func (s *lockingStream) pickTok(r *tr.Rng) []byte {
	if r.Intn(1000) < 10 {
		return r.Bytes(20)
	}
	return s.tokens[r.Intn(len(s.tokens))]
}

func (s *lockingStream) genReq(r *tr.Rng) *tr.Op {
	var gas, grants, weights, thresholds, creates, locks, unlocks, claims []string
	cls := "req.lock"
	switch r.Intn(30) {
	case 0:
		cls += "/no-gas"
	case 1:
		gas = []string{"5", "7"}
		cls += "/two-gas"
	default:
		gas = []string{tr.Pick(r, "0", "1", "1000", "10000000000000000000", "123456789123456789")}
	}
	if r.Chance(20) {
		grants = append(grants, tr.Pick(r, "0", "1", "3", "100000000000000000000", "7777777777777777777"))
		cls += "+grant"
	}
	rewards := s.profile == "rewards"
	if r.Chance(pick(rewards, 8, 22)) {
		n := 1 + r.Intn(2)
		for i := 0; i < n; i++ {
			w := uint64(tr.Pick(r, 0, 1, 1, 2, 10, 1000, 1<<40))
			if r.Chance(2) {
				w = 1 << 63
			}
			if noHuge && w > 1000 {
				w = 3
			}
			t := s.pickTok(r)
			if string(t) == string(s.tokens[0]) && w != 1<<63 {
				w = uint64(tr.Pick(r, 1, 2, 3)) // keep the safe validator's token weighted
				if r.Intn(1000) < 4 && !noHuge {
					w = 0 // known finding F10: may empty the validator set
				}
			}
			weights = append(weights, fmt.Sprintf("%x|%d", t, w))
		}
		cls += "+weight"
	}
	if r.Chance(pick(rewards, 4, 12)) {
		t := tr.Pick(r, "0", "1", "1000000000000000000", "50000000000000000000", "500")
		thresholds = append(thresholds, fmt.Sprintf("%x|%s", s.pickTok(r), t))
		cls += "+threshold"
	}
	if r.Chance(pick(rewards, 10, 25)) {
		v := s.newVal(r)
		addr := v.addr
		switch r.Intn(12) {
		case 0:
			addr = r.Bytes(20)
			cls += "+create-wrong-address"
		case 1:
			s.push(tr.NewOp("acc", "acc.add", "addr", tr.Hex(v.addr)))
			cls += "+create-account-exists"
		case 2:
			if len(s.vals) > 1 {
				o := s.vals[r.Intn(len(s.vals)-1)]
				creates = append(creates, fmt.Sprintf("%x|%x|%x", o.addr, o.pub64, o.comp))
				cls += "+create-again"
			}
		default:
			cls += "+create"
		}
		creates = append(creates, fmt.Sprintf("%x|%x|%x", addr, v.pub64, v.comp))
	}
	// a candidate that waits: created and given a small stake in the same batch, so that it is pending with a positive power
	// below every member's (export profiles: such a candidate must still be ranked after a restart from the exported state)
	if s.exitBias && r.Chance(12) {
		v := s.newVal(r)
		creates = append(creates, fmt.Sprintf("%x|%x|%x", v.addr, v.pub64, v.comp))
		locks = append(locks, fmt.Sprintf("%x|%x|%s", v.addr, s.tokens[0], e18(int64(1+r.Intn(3))).String()))
		cls += "+waiting-candidate"
	}
	nl := r.Intn(4)
	if r.Chance(3) {
		nl = 6 // several validators in one batch (map order)
	}
	failing := s.mapOrderBias && r.Chance(30)
	if failing {
		nl = 4 + r.Intn(4) // several validators in one batch, one of them failing (map order would change the gas used)
	}
	for i := 0; i < nl; i++ {
		if failing && i == nl/2 {
			locks = append(locks, fmt.Sprintf("%x|%x|%s", r.Bytes(20), s.pickTok(r), amt(r))) // unknown validator
			continue
		}
		locks = append(locks, fmt.Sprintf("%x|%x|%s", s.pickVal(r), s.pickTok(r), amt(r)))
	}
	if failing {
		cls += "+failing-batch"
	}
	if nl > 0 {
		cls += fmt.Sprintf("+lock%d", nl)
	}
	for i := r.Intn(3); i > 0 && r.Chance(pick(rewards, 30, 70)); i-- {
		s.uid++
		unlocks = append(unlocks, fmt.Sprintf("%d|%x|%x|%x|%s", s.uid, s.pickTarget(r), r.Bytes(20), s.pickTok(r), amt(r)))
		cls += "+unlock"
	}
	// a partial unlock followed by a higher weight of the same token: a jailed validator keeps its threshold (it stays jailed,
	// without power and outside the locking index), an active or pending one is left with a non-zero rest below the threshold
	// (it exits).  In both cases the next weight change must not find it in the index (C13, C14: no power, not ranked).
	for _, t := range s.raiseNext {
		if tok, err := s.w.Lock.Tokens.Get(s.w.Ctx, lockingtypes.TokenDenom(common.BytesToAddress(t))); err == nil && tok.Weight < 1<<40 {
			weights = append(weights, fmt.Sprintf("%x|%d", t, tok.Weight+uint64(1+r.Intn(3))))
			cls += "+weight-up-after-partial-unlock"
		}
	}
	s.raiseNext = nil
	if r.Chance(12) && len(s.vals) > 1 {
		for _, v := range s.vals[1:] {
			val, err := s.w.Lock.Validators.Get(s.w.Ctx, v.addr)
			if err != nil || len(val.Locking) == 0 || val.Status == lockingtypes.Inactive || val.Status == lockingtypes.Tombstoned || r.Chance(40) {
				continue
			}
			c := val.Locking[r.Intn(len(val.Locking))]
			var tk []byte
			for _, t := range s.tokens[1:] {
				if lockingtypes.TokenDenom(common.BytesToAddress(t)) == c.Denom {
					tk = t
				}
			}
			tok, err := s.w.Lock.Tokens.Get(s.w.Ctx, c.Denom)
			if tk == nil || err != nil {
				continue
			}
			var out sdkmath.Int
			if val.Status == lockingtypes.Downgrade {
				keep := tok.Threshold
				if !keep.IsPositive() {
					keep = sdkmath.OneInt()
				}
				if !c.Amount.GT(keep) {
					continue
				}
				out = c.Amount.Sub(keep).QuoRaw(int64(1 + r.Intn(2)))
				cls += "+jailed-partial-unlock"
			} else {
				if !tok.Threshold.GT(sdkmath.OneInt()) || c.Amount.LT(tok.Threshold) {
					continue
				}
				out = c.Amount.Sub(tok.Threshold).AddRaw(1) // the rest: threshold - 1
				cls += "+unlock-to-below-threshold"
			}
			if !out.IsPositive() {
				continue
			}
			s.uid++
			unlocks = append(unlocks, fmt.Sprintf("%d|%x|%x|%x|%s", s.uid, v.addr, r.Bytes(20), tk, out.String()))
			s.raiseNext = append(s.raiseNext, tk)
			break
		}
	}
	// a validator leaves with everything it has locked while rewards are still unclaimed: the record stays (inactive, nothing
	// locked) and so does the claim (C12: the accrued amounts are paid by a later claim, also after a restart from an export)
	if r.Chance(pick(s.exitBias, 12, 5)) && len(s.vals) > 1 {
		for _, v := range s.vals[1:] {
			val, err := s.w.Lock.Validators.Get(s.w.Ctx, v.addr)
			if err != nil || len(val.Locking) == 0 || !(val.Reward.IsPositive() || val.GasReward.IsPositive()) ||
				(val.Status != lockingtypes.Active && val.Status != lockingtypes.Pending) {
				continue
			}
			for _, c := range val.Locking {
				for _, t := range s.tokens {
					if lockingtypes.TokenDenom(common.BytesToAddress(t)) == c.Denom {
						s.uid++
						unlocks = append(unlocks, fmt.Sprintf("%d|%x|%x|%x|%s", s.uid, v.addr, r.Bytes(20), t, c.Amount.String()))
					}
				}
			}
			cls += "+exit-with-unclaimed-reward"
			break
		}
	}
	// a jailed validator: now and then every token it holds loses its weight, and a small lock arrives for it (after the jail
	// time this re-admits it — with no voting power at all, so it must not be ranked)
	if r.Chance(20) {
		for _, v := range s.vals[1:] {
			val, err := s.w.Lock.Validators.Get(s.w.Ctx, v.addr)
			if err != nil || val.Status != lockingtypes.Downgrade {
				continue
			}
			if r.Chance(50) {
				for _, c := range val.Locking {
					for _, t := range s.tokens[1:] {
						if lockingtypes.TokenDenom(common.BytesToAddress(t)) == c.Denom {
							weights = append(weights, fmt.Sprintf("%x|0", t))
						}
					}
				}
				cls += "+jailed-holdings-weightless"
			}
			if r.Chance(60) {
				tk := s.tokens[1+r.Intn(len(s.tokens)-1)]
				locks = append(locks, fmt.Sprintf("%x|%x|%d", v.addr, tk, 1+r.Intn(1000)))
				cls += "+dust-lock-to-jailed"
			}
			break
		}
	}
	if r.Chance(30) {
		nc := 1
		if r.Chance(35) {
			nc = 2 + r.Intn(2) // several claims in one block, some for the same validator (paid once, then zero)
		}
		if r.Chance(8) {
			nc = 17 + r.Intn(6) // more reward notices than one block hands over (cap 16)
		}
		v := s.pickVal(r)
		for i := 0; i < nc; i++ {
			if i > 0 && r.Chance(40) {
				v = s.pickVal(r)
			}
			s.cid++
			claims = append(claims, fmt.Sprintf("%d|%x|%x", s.cid, v, r.Bytes(20)))
		}
		cls += fmt.Sprintf("+claim%d", nc)
	}
	if len(cls) > 80 {
		cls = cls[:80]
	}
	return tr.NewOp(cls, "req.lock", "height", s.height, "time", s.now, "gas", tr.StrList(gas), "grants", tr.StrList(grants), "weights", tr.StrList(weights),
		"thresholds", tr.StrList(thresholds), "creates", tr.StrList(creates), "locks", tr.StrList(locks), "unlocks", tr.StrList(unlocks), "claims", tr.StrList(claims))
}

func pick(c bool, a, b int) int {
	if c {
		return a
	}
	return b
}

// valset as recorded by the module (what CometBFT would report back as last-commit validators)
func (s *lockingStream) recordedSet() [][2]string {
	var out [][2]string
	_ = s.w.Lock.ValidatorSet.Walk(s.w.Ctx, nil, func(a sdk.ConsAddress, p uint64) (bool, error) {
		out = append(out, [2]string{fmt.Sprintf("%x", []byte(a)), fmt.Sprint(int64(p))})
		return false, nil
	})
	return out
}

func (s *lockingStream) genBegin(r *tr.Rng) *tr.Op {
	set := s.recordedSet()
	s.setHist = append(s.setHist, set)
	if len(s.setHist) > 8 {
		s.setHist = s.setHist[len(s.setHist)-8:]
	}
	if k := len(s.setHist) - 1 - s.voteDelay; s.voteDelay > 0 && k >= 0 {
		// validators displaced or demoted in the last two blocks still sign (and may be absent)
		set = s.setHist[k]
	}
	cls := "begin"
	var votes []string
	for _, e := range set {
		absent := "0"
		for vi, v := range s.vals {
			if vi > 0 && fmt.Sprintf("%x", v.addr) == e[0] {
				if v.absent > 0 {
					v.absent--
					absent = "1"
				} else if r.Chance(6) {
					v.absent = int(s.params.maxmissed) + r.Intn(2) - 1 // straddle the limit
					if v.absent < 0 {
						v.absent = 0
					}
					absent = "1"
				}
			}
		}
		if absent == "1" {
			cls = "begin/absences"
		}
		votes = append(votes, fmt.Sprintf("%s|%s|%s", e[0], e[1], absent))
	}
	if len(votes) == 0 && s.height >= 2 {
		cls = "begin/no-votes"
	}
	var evs []string
	nev := 0
	if r.Chance(7) && len(s.vals) > 1 {
		nev = 1
		if r.Chance(40) {
			nev = 2 + r.Intn(2) // several pieces of evidence in one block (expired ones before fresh ones, same or other validators)
			cls += fmt.Sprintf("/evidence-x%d", nev)
		}
	}
	staleFirst := nev >= 2 && r.Chance(60)
	for k := 0; nev > 0; nev, k = nev-1, k+1 {
		v := &lval{addr: s.pickTarget(r)}
		if r.Chance(40) {
			// evidence against a ranked candidate that is not (or no longer) a member of the set
			for _, c := range s.vals[1:] {
				if cv, err := s.w.Lock.Validators.Get(s.w.Ctx, c.addr); err == nil && cv.Status == lockingtypes.Pending && cv.Power > 0 {
					v = &lval{addr: c.addr}
					cls += "/evidence-against-pending"
					break
				}
			}
		}
		if ok, _ := s.w.Lock.Validators.Has(s.w.Ctx, v.addr); !ok {
			v = s.vals[0] // evidence always names a validator the module reported (environment assumption)
		}
		kind := tr.Pick(r, 1, 1, 2, 0, 3)
		var eh, et int64
		ageSel := r.Intn(8)
		if staleFirst {
			ageSel = map[bool]int{true: 0, false: 5}[k == 0] // an expired piece first, fresh ones after it
		}
		switch ageSel {
		case 0: // both ages exceeded
			eh, et = s.height-s.maxAgeB-1, s.now-s.maxAgeD-1
			cls += "/evidence-stale"
		case 1: // exactly at the limits
			eh, et = s.height-s.maxAgeB, s.now-s.maxAgeD
			cls += "/evidence-at-limit"
		case 2: // only one age exceeded
			eh, et = s.height-s.maxAgeB-5, s.now-1
			cls += "/evidence-old-blocks-only"
		case 3:
			eh, et = s.height-1, s.now-s.maxAgeD-5e9
			cls += "/evidence-old-time-only"
		case 6: // one age exceeded by the smallest step, the other exactly at its limit (still to be punished)
			eh, et = s.height-s.maxAgeB, s.now-s.maxAgeD-1
			cls += "/evidence-time+1-blocks-at-limit"
		case 7:
			eh, et = s.height-s.maxAgeB-1, s.now-s.maxAgeD
			cls += "/evidence-blocks+1-time-at-limit"
		default:
			eh, et = s.height-1, s.now-1e9
			cls += "/evidence-fresh"
		}
		evs = append(evs, fmt.Sprintf("%d|%x|%d|%d", kind, v.addr, eh, et))
	}
	return tr.NewOp(cls, "hook.lock.begin", "height", s.height, "time", s.now, "votes", tr.StrList(votes),
		"maxage", fmt.Sprintf("%d|%d", s.maxAgeD, s.maxAgeB), "ev", tr.StrList(evs), "obs", "1")
}

// Exec watches for what would halt a real chain (a refused validator update, a failing hook): the
// history is then over, the stream starts a fresh world.
func (s *lockingStream) Exec(o *tr.Op) string {
	if o.Kind == "reset" {
		s.worldStream.reset()
		return "ok"
	}
	res := s.w.Exec(o)
	if strings.HasPrefix(o.Kind, "hook.") && (strings.Contains(res, "comet=err") || strings.Contains(res, "comet=panic") || !strings.HasPrefix(res, "ok")) {
		s.halted = true
	}
	return res
}

func (s *lockingStream) Gen(r *tr.Rng) *tr.Op {
	if s.halted {
		s.halted = false
		s.q = nil
		s.vals = nil
		s.k = 0
		s.height = 1
		return tr.NewOp("reset", "reset")
	}
	if len(s.q) > 0 {
		return s.pop()
	}
	s.k++
	if s.k == 1 {
		s.setup(r)
		return s.pop()
	}
	if r.Chance(3) {
		return lockParamsOp(r) // what the genesis validation admits (the keeper logic relies on validated parameters)
	}
	// one block
	s.height++
	s.now += int64(tr.Pick(r, 0, 1, 5, 5, 7, 30)) * 1e9
	if r.Chance(35) {
		// block times carry nanoseconds: the delays are exact to the nanosecond, not to the second
		s.now += int64(tr.Pick(r, 1, 400000000, 900000000, 999999999, 123456789, 50000000))
	}
	if r.Chance(2) {
		// the chain stood still for a long time (halt, restart): every pending unlock matures in one block
		s.now += s.params.exit + 3600e9
	}
	s.push(s.genBegin(r))
	if r.Chance(80) {
		req := s.genReq(r)
		s.push(req)
		if strings.Contains(req.Cls, "weight-up-after") {
			// look at the state right after the weight change, before the end-of-block hook (which fails - and ends this
			// world - if an exited or jailed validator was handed power)
			s.push(tr.NewOp("dump/mid-block", "dump.lock", "mid", "1"))
		}
	}
	s.push(tr.NewOp("end", "hook.lock.end", "height", s.height, "time", s.now))
	if r.Chance(40) {
		c := tr.B(r.Chance(75))
		s.push(tr.NewOp("dequeue/commit="+c, "lock.dequeue", "commit", c))
	}
	if s.k%8 == 0 {
		s.push(tr.NewOp("dump", "dump.lock"))
		s.push(tr.NewOp("dump", "dump.acc"))
	}
	return s.pop()
}

var _ = sort.Strings
var _ = strings.Join
var _ = lockingtypes.Pending
