package main

import (
	"fmt"

	goatcrypto "github.com/goatnetwork/goat/pkg/crypto"
	relayertypes "github.com/goatnetwork/goat/x/relayer/types"
	"github.com/kelindar/bitmap"
	"verif/harness/internal/keys"
	"verif/harness/internal/tr"
	"verif/harness/internal/world"
)

// base of all world streams: real keepers + an op queue (one logical action = oracle lines + the op)
type worldStream struct {
	w       *world.World
	q       []*tr.Op
	chain   string
	members map[string]*keys.Member // by bech32 address
	now     int64                   // unix nanoseconds
	height  int64
	k       int
	known   map[string]bool // oracle lines already emitted
}

func newWorldStream(chain string) *worldStream {
	return &worldStream{w: world.New(chain), chain: chain, members: map[string]*keys.Member{}, now: 1700000000 * 1e9, height: 1, known: map[string]bool{}}
}

// reset starts a fresh world (used after an event that would halt a real chain)
func (s *worldStream) reset() {
	s.w = world.New(s.chain)
	s.known = map[string]bool{}
}

func (s *worldStream) push(o *tr.Op) { s.q = append(s.q, o) }
func (s *worldStream) pop() *tr.Op {
	o := s.q[0]
	s.q = s.q[1:]
	return o
}
func (s *worldStream) Exec(o *tr.Op) string { return s.w.Exec(o) }

func (s *worldStream) oracle(name string, kv ...any) {
	o := tr.NewOp("oracle", "oracle", append([]any{"name", name}, kv...)...)
	key := o.Line()
	if s.known[key] {
		return
	}
	s.known[key] = true
	s.push(o)
}

func (s *worldStream) newMember(r *tr.Rng) *keys.Member {
	m := keys.NewMember(r)
	s.members[m.Addr] = m
	s.oracle("addr", "in", tr.Hex(m.Raw), "out", m.Addr)
	s.oracle("h160", "in", tr.Hex(m.TxKey), "out", tr.Hex(m.Raw))
	return m
}

// initRelayer creates a group with n voters and emits init.rel
func (s *worldStream) initRelayer(r *tr.Rng, n int, period, timeout int64, pubkeys [][]byte) {
	prop := s.newMember(r)
	var voters []string
	ks := []string{fmt.Sprintf("%s|%x|%x", prop.Addr, prop.Raw, prop.BLSPub)}
	for i := 0; i < n; i++ {
		m := s.newMember(r)
		voters = append(voters, m.Addr)
		ks = append(ks, fmt.Sprintf("%s|%x|%x", m.Addr, m.Raw, m.BLSPub))
	}
	s.push(tr.NewOp("init", "init.rel", "chain", s.chain, "proposer", prop.Addr, "voters", tr.StrList(voters), "keys", tr.StrList(ks),
		"epoch", r.Intn(3), "last", s.now, "acc", tr.B(r.Bool()), "seq", r.Intn(5), "randao", tr.Hex(r.Bytes(32)),
		"period", period, "timeout", timeout, "pubkeys", tr.HexList(pubkeys)))
}

type relView struct {
	rel   relayertypes.Relayer
	seq   uint64
	queue relayertypes.VoterQueue
}

func (s *worldStream) view() relView {
	rel, _ := s.w.Rel.Relayer.Get(s.w.Ctx)
	seq, _ := s.w.Rel.Sequence.Peek(s.w.Ctx)
	q, _ := s.w.Rel.Queue.Get(s.w.Ctx)
	return relView{rel, seq, q}
}

// voteSpec describes how a vote is (mis)constructed
type voteSpec struct {
	cls      string
	marks    []uint32 // bitmap positions
	signers  []string // addresses that really sign (incl. proposer if present)
	seq      uint64
	epoch    uint64
	method   string // method signed
	chain    string
	proposer string // proposer string in the signed doc
	payload  []byte // payload signed
	rawBmp   []byte // if non-nil use as bitmap bytes verbatim
	rawSig   []byte
	noVote   bool
	msgProp  string // proposer field of the message
}

func bitmapBytes(marks []uint32) []byte {
	var b bitmap.Bitmap
	for _, m := range marks {
		b.Set(m)
	}
	return append([]byte{}, b.ToBytes()...)
}

func threshold(n int) int { return (2*(n+1) + 2) / 3 }

// genVote chooses a guard-directed vote class for a voted message with the given method/payload.
func (s *worldStream) genVote(r *tr.Rng, method string, payload []byte) voteSpec {
	v := s.view()
	n := len(v.rel.Voters)
	t := threshold(n)
	all := make([]uint32, n)
	for i := range all {
		all[i] = uint32(i)
	}
	// random subset of size k
	subset := func(k int) []uint32 {
		if k < 0 {
			k = 0
		}
		if k > n {
			k = n
		}
		p := append([]uint32{}, all...)
		for i := len(p) - 1; i > 0; i-- {
			j := r.Intn(i + 1)
			p[i], p[j] = p[j], p[i]
		}
		return p[:k]
	}
	addrOf := func(marks []uint32) []string {
		ss := []string{v.rel.Proposer}
		for _, m := range marks {
			if int(m) < n {
				ss = append(ss, v.rel.Voters[m])
			}
		}
		return ss
	}
	sp := voteSpec{cls: "valid-quorum", seq: v.seq, epoch: v.rel.Epoch, method: method, chain: s.chain, proposer: v.rel.Proposer, payload: payload, msgProp: v.rel.Proposer}
	sp.marks = subset(t - 1 + r.Intn(n-(t-1)+1))
	sp.signers = addrOf(sp.marks)
	switch r.Intn(28) {
	case 0, 1, 2, 3, 4, 5, 6, 7:
	case 8:
		sp.cls, sp.marks = "exact-threshold", subset(t-1)
		sp.signers = addrOf(sp.marks)
	case 9:
		sp.cls, sp.marks = "below-threshold", subset(t-2)
		sp.signers = addrOf(sp.marks)
	case 10: // marks beyond the voter list stand in for signatures (F1)
		k := t - 1
		if k < 1 {
			k = 1
		}
		if k > n { // count must not exceed n for the length check to pass
			k = n
		}
		sp.cls = "marks-beyond-n-only"
		sp.marks = nil
		for i := 0; i < k; i++ {
			sp.marks = append(sp.marks, uint32(n+1+r.Intn(255-n)))
		}
		sp.signers = []string{v.rel.Proposer}
	case 11: // some in range, some beyond
		in := subset(r.Intn(n + 1))
		sp.cls = "marks-mixed-beyond-n"
		sp.marks = in
		for len(sp.marks) < t-1 || r.Chance(30) {
			sp.marks = append(sp.marks, uint32(n+r.Intn(256-n)))
			if len(sp.marks) > n+2 {
				break
			}
		}
		sp.signers = addrOf(in)
	case 12: // signers ⊂ marks
		sp.cls = "signers-subset-of-marks"
		if len(sp.marks) > 0 {
			sp.signers = addrOf(sp.marks[:len(sp.marks)-1])
		} else {
			sp.signers = nil
		}
	case 13: // signers ⊃ marks
		sp.cls = "signers-superset-of-marks"
		if len(sp.marks) < n {
			extra := subset(n)
			for _, e := range extra {
				found := false
				for _, m := range sp.marks {
					if m == e {
						found = true
					}
				}
				if !found {
					sp.signers = append(sp.signers, v.rel.Voters[e])
					break
				}
			}
		} else {
			sp.cls = "valid-all"
		}
	case 14:
		sp.cls = "proposer-did-not-sign"
		sp.signers = sp.signers[1:]
	case 15:
		sp.cls, sp.seq = "doc-wrong-seq", v.seq+uint64(1+r.Intn(2))
	case 16:
		sp.cls, sp.epoch = "doc-wrong-epoch", v.rel.Epoch+1
	case 17:
		sp.cls, sp.method = "doc-wrong-method", tr.Pick(r, "Bitcoin/NewPubkey", "Bitcoin/NewBlocks", "Bitcoin/ProcessWithdrawal", "Bitcoin/NewConsolidation", "Bitcoin/ReplaceWithdrawal")
		if sp.method == method {
			sp.method = method + "x"
		}
	case 18:
		sp.cls, sp.chain = "doc-wrong-chain", s.chain+"-2"
	case 19:
		sp.cls = "doc-wrong-payload"
		sp.payload = append(append([]byte{}, payload...), 0)
	case 20:
		sp.cls = "bitmap-odd-length"
		sp.rawBmp = r.Bytes(tr.Pick(r, 1, 3, 7, 9, 12, 31))
	case 21:
		if r.Bool() {
			sp.cls = "bitmap-too-long"
			sp.rawBmp = append(bitmapBytes(sp.marks), make([]byte, 40)...)[:40]
		} else {
			// the same marks in the longest bitmap the validation admits (32 bytes = 256 positions): a valid vote
			sp.cls += "/bitmap=32-bytes"
			sp.rawBmp = append(bitmapBytes(sp.marks), make([]byte, 32)...)[:32]
		}
	case 22:
		sp.cls = "sig-bad-length"
		sp.rawSig = r.Bytes(tr.Pick(r, 0, 47, 49, 96))
	case 23:
		sp.cls = "not-proposer"
		if n > 0 {
			sp.msgProp = v.rel.Voters[r.Intn(n)]
		} else {
			sp.msgProp = "goat1qqqqqqqqqqqqqqqqqqqqqqqqqqqqqqqqlv9lk7"
		}
	case 24:
		sp.cls = "nil-vote"
		sp.noVote = true
	case 26: // boundary: a mark at position exactly n (the first position that is not a voter) replaces one genuine signer
		in := subset(t - 2)
		sp.cls = "mark-exactly-at-n"
		sp.marks = append(append([]uint32{}, in...), uint32(n))
		sp.signers = addrOf(in)
	case 27: // a genuine quorum plus one mark at n or n+1: still not "every mark denotes a voter"
		sp.cls = "quorum-plus-mark-at-n"
		sp.marks = append(append([]uint32{}, sp.marks...), uint32(n+r.Intn(2)))
	case 25:
		sp.cls = "stale-seq-in-msg"
		// message claims another sequence/epoch than the current one (doc signed for that one)
		if r.Bool() {
			sp.seq = v.seq + 1
		} else {
			sp.epoch = v.rel.Epoch + 1
		}
	}
	return sp
}

// emitVote writes the oracle line for the signature and returns the vote args of the op
func (s *worldStream) emitVote(sp voteSpec) []any {
	doc := relayertypes.VoteSignDoc(sp.method, sp.chain, sp.proposer, sp.seq, sp.epoch, sp.payload)
	var ms []*keys.Member
	for _, a := range sp.signers {
		if m := s.members[a]; m != nil {
			ms = append(ms, m)
		}
	}
	sig := keys.AggSign(ms, doc)
	if sig == nil {
		sig = make([]byte, 48)
		sig[0] = 0xc0 // compressed point at infinity
	} else {
		s.oracle("agg", "sig", tr.Hex(sig), "doc", tr.Hex(doc), "keys", tr.HexList(keys.SortedKeys(ms)))
	}
	if sp.rawSig != nil {
		sig = sp.rawSig
	}
	bmp := bitmapBytes(sp.marks)
	if sp.rawBmp != nil {
		bmp = sp.rawBmp
	}
	hv := "1"
	if sp.noVote {
		hv = "0"
	}
	// the message carries the *current-context* claim: for the doc-wrong-* classes the message still
	// names the current seq/epoch, only the signed document differs
	v := s.view()
	mseq, mepoch := v.seq, v.rel.Epoch
	if sp.cls == "stale-seq-in-msg" {
		mseq, mepoch = sp.seq, sp.epoch
	}
	return []any{"proposer", sp.msgProp, "seq", mseq, "epoch", mepoch, "bitmap", tr.Hex(bmp), "sig", tr.Hex(sig), "hasvote", hv}
}

// ---------------------------------------------------------------------------- relayer stream

type relayerStream struct {
	*worldStream
	pending []*keys.Member // members added via request, not yet registered
	oldVotes []*tr.Op       // previously produced vote ops (replayed later)
	btcKey  *keys.BtcKey
	// dupKeyHash: add requests may repeat the key hash of another pending voter (profile app-export-dupkey, known finding F11)
	dupKeyHash bool
}

func init() {
	streams["relayer"] = func(seed uint64) Stream {
		s := &relayerStream{worldStream: newWorldStream("goat-test-1")}
		return s
	}
}

func (s *relayerStream) setup(r *tr.Rng) {
	n := tr.Pick(r, 0, 1, 2, 3, 3, 4, 5, 7, 8)
	period := int64(tr.Pick(r, 60, 600)) * 1e9
	timeout := int64(tr.Pick(r, 0, 20, 30)) * 1e9
	s.btcKey = keys.NewBtcKey(r, "0")
	s.oracle("h160", "in", tr.Hex(s.btcKey.Pub), "out", tr.Hex(goatcrypto.Hash160Sum(s.btcKey.Pub)))
	enc := relayertypes.EncodePublicKey(s.btcKey.PublicKey())
	s.initRelayer(r, n, period, timeout, [][]byte{enc})
	s.push(tr.NewOp("init", "init.btc", "net", "regtest", "conf", 1, "min", 10000, "magic", tr.Hex([]byte("GTT0")), "rate", 0, "max", 0,
		"kind", "0", "key", tr.Hex(s.btcKey.Pub), "tip", 100, "hash", tr.Hex(r.Bytes(32)), "nonce", 0))
}

func (s *relayerStream) Gen(r *tr.Rng) *tr.Op {
	if len(s.q) > 0 {
		return s.pop()
	}
	s.k++
	if s.k == 1 {
		s.setup(r)
		return s.pop()
	}
	if s.k%40 == 0 {
		s.push(tr.NewOp("dump", "dump.rel"))
		s.push(tr.NewOp("dump", "dump.btc"))
		s.push(tr.NewOp("dump", "dump.acc"))
		return s.pop()
	}
	v := s.view()
	c := r.Intn(100)
	implicitAccept := false
	if !v.rel.ProposerAccepted && len(s.pending) > 0 && r.Chance(50) {
		// a freshly elected proposer that has not accepted yet: its first valid non-voted message accepts implicitly
		c, implicitAccept = 80, true
	}
	switch {
	case c < 45: // voted message: new block hashes
		tip, _ := s.w.Btc.BlockTip.Peek(s.w.Ctx)
		start := tip + 1
		cls2 := ""
		if r.Chance(15) {
			// a batch must start right above the tip: below (rewrite), gap of one, larger gap
			start = tip + uint64(tr.Pick(r, 0, 2, 2, 3, 6))
			if r.Chance(15) && tip > 2 {
				start = tip - 1
			}
			cls2 = fmt.Sprintf("/start-tip%+d", int64(start)-int64(tip))
		}
		nh := r.Intn(4)
		if r.Chance(3) {
			nh = 17
		}
		var hashes [][]byte
		for i := 0; i < nh; i++ {
			hashes = append(hashes, r.Bytes(32))
		}
		m := &bitcointypesMsgNewBlockHashes{StartBlockNumber: start, BlockHash: hashes}
		sp := s.genVote(r, "Bitcoin/NewBlocks", m.sigDoc())
		args := s.emitVote(sp)
		op := tr.NewOp("hashes/"+sp.cls+cls2, "tx.hashes", append(args, "start", start, "hashes", tr.HexList(hashes))...)
		s.push(op)
		s.oldVotes = append(s.oldVotes, op)
	case c < 55: // voted message: new pubkey (duplicate key => failure after the signature check)
		k := keys.NewBtcKey(r, tr.Pick(r, "0", "1"))
		cls2 := "/new"
		if r.Chance(35) {
			k = s.btcKey
			cls2 = "/dup-key"
		}
		enc := relayertypes.EncodePublicKey(k.PublicKey())
		sp := s.genVote(r, "Bitcoin/NewPubkey", enc)
		args := s.emitVote(sp)
		op := tr.NewOp("pubkey/"+sp.cls+cls2, "tx.pubkey", append(args, "kind", k.Kind, "key", tr.Hex(k.Pub))...)
		s.push(op)
		s.oldVotes = append(s.oldVotes, op)
	case c < 60: // replay an old vote verbatim
		if len(s.oldVotes) > 0 {
			o := s.oldVotes[r.Intn(len(s.oldVotes))]
			cp := *o
			cp.Cls = "replay-old-vote"
			s.push(&cp)
		} else {
			s.push(tr.NewOp("dump", "dump.rel"))
		}
	case c < 72: // membership requests from the execution layer
		var adds, removes []string
		na := r.Intn(3)
		for i := 0; i < na; i++ {
			var m *keys.Member
			switch r.Intn(5) {
			case 0: // re-add an existing member
				if len(v.rel.Voters) > 0 {
					m = s.members[v.rel.Voters[r.Intn(len(v.rel.Voters))]]
				}
			case 1: // address whose account already exists (not a member)
				m = s.newMember(r)
				s.push(tr.NewOp("acc", "acc.add", "addr", tr.Hex(m.Raw)))
			}
			if m == nil {
				m = s.newMember(r)
			}
			if s.dupKeyHash && len(s.pending) > 0 && r.Chance(60) {
				// a fresh address registered under the key hash of another pending voter
				m = s.newMember(r)
				m.KeyHash = s.pending[r.Intn(len(s.pending))].KeyHash
			}
			s.pending = append(s.pending, m)
			adds = append(adds, fmt.Sprintf("%x|%x", m.Raw, m.KeyHash))
		}
		nr := r.Intn(4)
		if r.Chance(10) {
			nr = len(v.rel.Voters) + 2 // try to empty the group
		}
		cands := append([]string{v.rel.Proposer}, v.rel.Voters...)
		for i := 0; i < nr; i++ {
			var raw []byte
			switch r.Intn(6) {
			case 0:
				raw = r.Bytes(20) // unknown
			case 1:
				if len(s.pending) > 0 {
					raw = s.pending[r.Intn(len(s.pending))].Raw // pending (not activated)
				}
			}
			if raw == nil {
				raw = s.members[cands[r.Intn(len(cands))]].Raw
			}
			removes = append(removes, fmt.Sprintf("%x", raw))
		}
		s.height++
		s.push(tr.NewOp(fmt.Sprintf("req.relayer/adds%d-removes%d", len(adds), len(removes)), "req.relayer", "height", s.height, "adds", tr.StrList(adds), "removes", tr.StrList(removes)))
	case c < 84: // voter registration
		if len(s.pending) == 0 {
			s.push(tr.NewOp("dump", "dump.rel"))
			break
		}
		m := s.pending[r.Intn(len(s.pending))]
		rec, err := s.w.Rel.Voters.Get(s.w.Ctx, m.Addr)
		height := uint64(s.height)
		if err == nil {
			height = rec.Height
		}
		cls := "newvoter/valid"
		epoch := v.rel.Epoch
		chain := s.chain
		prop := v.rel.Proposer
		blsKey := m.BLSPub
		signer := m
		blsSigner := m
		switch r.Intn(12) {
		case 0:
			cls, epoch = "newvoter/proof-for-other-epoch", v.rel.Epoch+1
		case 1:
			cls, chain = "newvoter/proof-for-other-chain", s.chain+"x"
		case 2:
			cls, height = "newvoter/proof-for-other-height", height+1
		case 3:
			cls = "newvoter/tx-proof-by-other-key"
			signer = keys.NewMember(r)
		case 4:
			cls = "newvoter/bls-proof-by-other-key"
			blsSigner = keys.NewMember(r)
		case 5:
			cls = "newvoter/other-bls-key"
			o := keys.NewMember(r)
			blsKey = o.BLSPub
			blsSigner = o
		case 6:
			cls = "newvoter/not-proposer"
			if len(v.rel.Voters) > 0 {
				prop = v.rel.Voters[0]
			} else {
				prop = m.Addr
			}
		}
		doc := relayertypes.VoteSignDoc("Relayer/NewVoter", chain, prop, 0, epoch,
			relayertypes.NewOnBoardingVoterRequest(height, m.Raw, m.KeyHash).SignDoc())
		txProof := signer.EcdsaSign(doc)
		blsProof := goatcrypto.Sign(blsSigner.BLS, doc)
		s.oracle("ecdsa", "key", tr.Hex(signer.TxKey), "doc", tr.Hex(doc), "sig", tr.Hex(txProof))
		s.oracle("bls", "key", tr.Hex(blsSigner.BLSPub), "doc", tr.Hex(doc), "sig", tr.Hex(blsProof))
		if r.Chance(4) {
			cls = "newvoter/bad-lengths"
			txProof = txProof[:63]
		}
		if implicitAccept {
			cls += "/proposer-not-yet-accepted"
		}
		s.push(tr.NewOp(cls, "tx.newvoter", "proposer", prop, "blskey", tr.Hex(blsKey), "blsproof", tr.Hex(blsProof), "txkey", tr.Hex(m.TxKey), "txproof", tr.Hex(txProof), "time", s.now))
		if implicitAccept {
			s.push(tr.NewOp("dump", "dump.rel"))
		}
	case c < 90: // accept proposer
		cls := "accept/current"
		prop, epoch := v.rel.Proposer, v.rel.Epoch
		switch r.Intn(5) {
		case 0:
			cls, epoch = "accept/wrong-epoch", epoch+1
		case 1:
			cls = "accept/not-proposer"
			if len(v.rel.Voters) > 0 {
				prop = v.rel.Voters[0]
			}
		}
		s.push(tr.NewOp(cls, "tx.accept", "proposer", prop, "epoch", epoch, "time", s.now))
	default: // end of block: time advances around the two deadlines
		p, _ := s.w.Rel.Params.Get(s.w.Ctx)
		last := v.rel.LastElected.UnixNano()
		var t int64
		switch r.Intn(8) {
		case 0:
			t = last + int64(p.ElectingPeriod) - 1
		case 1:
			t = last + int64(p.ElectingPeriod)
		case 2:
			t = last + int64(p.AcceptProposerTimeout) - 1
		case 3:
			t = last + int64(p.AcceptProposerTimeout)
		case 4:
			t = last + int64(p.AcceptProposerTimeout) + 1
		default:
			t = s.now + int64(r.Intn(15))*1e9
		}
		if t < s.now {
			t = s.now
		}
		s.now = t
		s.height++
		s.push(tr.NewOp("endblock", "hook.rel.end", "time", s.now, "height", s.height))
	}
	return s.pop()
}

// minimal copy of MsgNewBlockHashes.VoteSigDoc so that the *harness* computes the signed payload
// independently of the code under test
type bitcointypesMsgNewBlockHashes struct {
	StartBlockNumber uint64
	BlockHash        [][]byte
}

func (m *bitcointypesMsgNewBlockHashes) sigDoc() []byte {
	data := make([]byte, 8)
	data = append(data, goatcrypto.Uint64LE(m.StartBlockNumber)...)
	for _, h := range m.BlockHash {
		data = append(data, h...)
	}
	return data
}
