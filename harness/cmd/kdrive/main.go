// kdrive — layer K of the correspondence harness: generates operations, executes them on the real
// keepers/types of /repo in-process and writes a self-contained trace (op lines + observed results).
//
//	kdrive -stream <name> -seed <n> -n <ops>      generate and execute
//	kdrive -stream <name> -replay <trace file>    re-execute the op lines of a trace on the real code
package main

import (
	"bufio"
	"flag"
	"fmt"
	"os"
	"sort"
	"strings"

	"verif/harness/internal/tr"
)

// Stream is one family of operations with its own real-code state.
type Stream interface {
	// Gen produces the next operation (may inspect the real state to choose mostly-valid inputs).
	Gen(r *tr.Rng) *tr.Op
	// Exec runs the op on the real code and returns the canonical observed outcome.
	Exec(o *tr.Op) string
}

var streams = map[string]func(seed uint64) Stream{}

func safeExec(s Stream, o *tr.Op) (res string) {
	defer func() {
		if e := recover(); e != nil {
			res = "panic-recovered"
		}
	}()
	return s.Exec(o)
}

func main() {
	name := flag.String("stream", "", "stream name")
	seed := flag.Uint64("seed", 1, "seed")
	n := flag.Int("n", 1000, "number of ops")
	replay := flag.String("replay", "", "trace file to re-execute")
	list := flag.Bool("list", false, "list streams")
	flag.Parse()
	if *list {
		var names []string
		for k := range streams {
			names = append(names, k)
		}
		sort.Strings(names)
		fmt.Println(strings.Join(names, "\n"))
		return
	}
	mk, ok := streams[*name]
	if !ok {
		fmt.Fprintln(os.Stderr, "unknown stream", *name)
		os.Exit(2)
	}
	t := tr.NewTrace()
	defer t.Close()
	s := mk(*seed)
	if *replay != "" {
		f, err := os.Open(*replay)
		if err != nil {
			fmt.Fprintln(os.Stderr, err)
			os.Exit(2)
		}
		sc := bufio.NewScanner(f)
		sc.Buffer(make([]byte, 1<<20), 1<<26)
		for sc.Scan() {
			if o := tr.ParseOp(sc.Text()); o != nil {
				t.Emit(o, safeExec(s, o))
			}
		}
		return
	}
	t.Comment("stream=%s seed=%d n=%d", *name, *seed, *n)
	r := tr.NewRng(*seed)
	for i := 0; i < *n; i++ {
		o := s.Gen(r)
		if o == nil {
			break
		}
		t.Emit(o, safeExec(s, o))
	}
}
