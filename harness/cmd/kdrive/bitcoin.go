package main

import (
	"bytes"
	"encoding/hex"
	"fmt"
	"os"
	"sort"
	"strings"

	"github.com/btcsuite/btcd/btcutil"
	"github.com/btcsuite/btcd/chaincfg"
	"github.com/btcsuite/btcd/chaincfg/chainhash"
	"github.com/btcsuite/btcd/txscript"
	"github.com/btcsuite/btcd/wire"
	goatcrypto "github.com/goatnetwork/goat/pkg/crypto"
	bitcointypes "github.com/goatnetwork/goat/x/bitcoin/types"
	relayertypes "github.com/goatnetwork/goat/x/relayer/types"
	"verif/harness/internal/keys"
	"verif/harness/internal/tr"
)

// ---------------------------------------------------------------- synthetic Bitcoin chain

type btcTx struct {
	raw  []byte
	txid []byte
	outs []*wire.TxOut
	// set when the transaction is a coinbase that is itself a well-formed version-0 deposit
	depKey *keys.BtcKey
	depEvm []byte
}

type btcBlock struct {
	height uint64
	header []byte
	hash   []byte
	txs    []*btcTx
	levels [][][]byte
}

func mkTx(r *tr.Rng, outs []*wire.TxOut, nIn int) *btcTx {
	tx := wire.NewMsgTx(2)
	for i := 0; i < nIn; i++ {
		var h chainhash.Hash
		copy(h[:], r.Bytes(32))
		tx.AddTxIn(wire.NewTxIn(wire.NewOutPoint(&h, uint32(r.Intn(4))), nil, nil))
	}
	for _, o := range outs {
		tx.AddTxOut(o)
	}
	tx.LockTime = uint32(r.Intn(1000))
	var buf bytes.Buffer
	_ = tx.SerializeNoWitness(&buf)
	raw := buf.Bytes()
	return &btcTx{raw: raw, txid: goatcrypto.DoubleSHA256Sum(raw), outs: outs}
}

// mkTxSized: like mkTx, with the first input's (legacy) signature script padded so that the no-witness serialisation
// has exactly `target` bytes (the size limits of the message validation: 32 KiB)
func mkTxSized(r *tr.Rng, outs []*wire.TxOut, nIn int, target int) *btcTx {
	base := mkTx(r, outs, nIn)
	deficit := target - len(base.raw)
	if deficit <= 0 {
		return base
	}
	pad := deficit // the script length prefix grows from 1 to 3 bytes at 253
	if deficit >= 253+2 {
		pad = deficit - 2
	} else if deficit >= 253 {
		return base
	}
	tx := wire.NewMsgTx(2)
	if err := tx.DeserializeNoWitness(bytes.NewReader(base.raw)); err != nil {
		return base
	}
	tx.TxIn[0].SignatureScript = r.Bytes(pad)
	var buf bytes.Buffer
	_ = tx.SerializeNoWitness(&buf)
	raw := buf.Bytes()
	return &btcTx{raw: raw, txid: goatcrypto.DoubleSHA256Sum(raw), outs: outs}
}

// sizeClass: now and then a transaction of exactly the largest admissible size, or one byte more
func sizeClass(r *tr.Rng, tx *btcTx, nIn int, cls *string) *btcTx {
	switch r.Intn(40) {
	case 0:
		*cls += "/size=max"
		return mkTxSized(r, tx.outs, nIn, bitcointypes.MaxAllowedBtcTxSize)
	case 1:
		*cls += "/size=max+1"
		return mkTxSized(r, tx.outs, nIn, bitcointypes.MaxAllowedBtcTxSize+1)
	}
	return tx
}

func mkBlock(r *tr.Rng, height uint64, txs []*btcTx) *btcBlock {
	leaves := make([][]byte, len(txs))
	for i, t := range txs {
		leaves[i] = t.txid
	}
	levels := buildTree(leaves)
	root := levels[len(levels)-1][0]
	header := r.Bytes(80)
	copy(header[36:68], root)
	return &btcBlock{height: height, header: header, hash: goatcrypto.DoubleSHA256Sum(header), txs: txs, levels: levels}
}

func (b *btcBlock) proof(i int) []byte { return merklePath(b.levels, i) }

// ---------------------------------------------------------------- addresses

type addrInfo struct {
	str    string
	script []byte // nil = must be rejected
	cls    string
}

func (s *bitcoinStream) genAddr(r *tr.Rng) addrInfo {
	net := &chaincfg.RegressionNetParams
	mk := func(a btcutil.Address, err error, cls string, valid bool) addrInfo {
		if err != nil {
			return addrInfo{str: "bad", cls: "garbage"}
		}
		var sc []byte
		if valid {
			sc, _ = txscript.PayToAddrScript(a)
		}
		return addrInfo{str: a.EncodeAddress(), script: sc, cls: cls}
	}
	switch r.Intn(13) {
	case 0, 1, 2:
		a, err := btcutil.NewAddressWitnessPubKeyHash(r.Bytes(20), net)
		return mk(a, err, "p2wpkh", true)
	case 3:
		a, err := btcutil.NewAddressWitnessScriptHash(r.Bytes(32), net)
		return mk(a, err, "p2wsh", true)
	case 4, 5:
		a, err := btcutil.NewAddressTaproot(r.Bytes(32), net)
		return mk(a, err, "p2tr", true)
	case 6:
		a, err := btcutil.NewAddressPubKeyHash(r.Bytes(20), net)
		return mk(a, err, "p2pkh", true)
	case 7:
		a, err := btcutil.NewAddressScriptHashFromHash(r.Bytes(20), net)
		return mk(a, err, "p2sh", true)
	case 8: // foreign network
		a, err := btcutil.NewAddressWitnessPubKeyHash(r.Bytes(20), &chaincfg.MainNetParams)
		return mk(a, err, "foreign-bech32", false)
	case 9:
		a, err := btcutil.NewAddressPubKeyHash(r.Bytes(20), &chaincfg.MainNetParams)
		return mk(a, err, "foreign-base58", false)
	case 10: // pay-to-pubkey given as hex public key
		k := keys.NewBtcKey(r, "0")
		return addrInfo{str: fmt.Sprintf("%x", k.Pub), cls: "p2pk-hex"}
	case 11: // checksum / character mutation of a valid address
		a, _ := btcutil.NewAddressWitnessPubKeyHash(r.Bytes(20), net)
		str := []byte(a.EncodeAddress())
		i := 5 + r.Intn(len(str)-5)
		if str[i] == 'q' {
			str[i] = 'p'
		} else {
			str[i] = 'q'
		}
		return addrInfo{str: string(str), cls: "bech32-mutated"}
	}
	return addrInfo{str: tr.Pick(r, "", "hello", "bcrt1", "1", "bcrt1qqqqqqqqqqqqqqqqqqqqqqqqqqqqqqqqq"), cls: "garbage"}
}

// decodeOracle: what decoding must yield — computed with btcutil directly in the harness (the
// function under test is x/bitcoin/types.DecodeBtcAddress)
func decodeOracle(str string, net *chaincfg.Params) []byte {
	a, err := btcutil.DecodeAddress(str, net)
	if err != nil || !a.IsForNet(net) {
		return nil
	}
	if _, ok := a.(*btcutil.AddressPubKey); ok {
		return nil
	}
	sc, err := txscript.PayToAddrScript(a)
	if err != nil {
		return nil
	}
	return sc
}

// ---------------------------------------------------------------- stream

type wd struct {
	id     uint64
	addr   addrInfo
	amount uint64
	price  uint64
}

type proc struct {
	pid  uint64
	ids  []uint64
	txs  []*btcTx
	fee  uint64
	done bool
}

type bitcoinStream struct {
	*worldStream
	net      *chaincfg.Params
	keys     []*keys.BtcKey // registered relayer keys (last = current)
	allKeys  []*keys.BtcKey // every key a NewPubkey message was ever generated for
	unreg    *keys.BtcKey
	blocks   map[uint64]*btcBlock
	wds      map[uint64]*wd
	nextWid  uint64
	procs    []*proc
	mempool  []*btcTx // txs to be included in the next block
	pastDeps []string // deposit items used before (for duplicates)
	evms     [][]byte
	// genesisValidTax: generate only deposit-tax requests that leave parameters the genesis validation accepts
	genesisValidTax bool
	// taxBias: every bridge request list carries a deposit-tax request (profile app-export-tax, known finding F7c)
	taxBias bool
}

func init() {
	streams["bitcoin"] = func(seed uint64) Stream {
		return &bitcoinStream{worldStream: newWorldStream("goat-test-1"), net: &chaincfg.RegressionNetParams,
			blocks: map[uint64]*btcBlock{}, wds: map[uint64]*wd{}, nextWid: 1}
	}
}

func (s *bitcoinStream) keyOracles(k *keys.BtcKey) {
	if k.Kind == "0" {
		s.oracle("h160", "in", tr.Hex(k.Pub), "out", tr.Hex(goatcrypto.Hash160Sum(k.Pub)))
	} else {
		s.oracle("tweakns", "in", tr.Hex(k.Pub), "out", tr.Hex(keys.TweakNoScript(k.Pub)))
	}
}

func (s *bitcoinStream) setup(r *tr.Rng) {
	k := keys.NewBtcKey(r, "0")
	s.keys = []*keys.BtcKey{k}
	s.unreg = keys.NewBtcKey(r, "0")
	s.keyOracles(k)
	s.keyOracles(s.unreg)
	for i := 0; i < 4; i++ {
		s.evms = append(s.evms, r.Bytes(20))
	}
	s.initRelayer(r, tr.Pick(r, 0, 1, 2), 600e9, 0, [][]byte{relayertypes.EncodePublicKey(k.PublicKey())})
	rate, max := uint64(0), uint64(0)
	if r.Chance(60) {
		rate, max = uint64(tr.Pick(r, 1, 20, 500, 9999)), uint64(tr.Pick(r, 1, 3000, 100000000))
	}
	s.push(tr.NewOp("init", "init.btc", "net", "regtest", "conf", 1, "min", tr.Pick(r, 1000, 10000, 20000), "magic", tr.Hex([]byte("GTT0")),
		"rate", rate, "max", max, "kind", "0", "key", tr.Hex(k.Pub), "tip", 100, "hash", tr.Hex(r.Bytes(32)), "nonce", r.Intn(3)))
}

func (s *bitcoinStream) cur() *keys.BtcKey { return s.keys[len(s.keys)-1] }

// validVote returns vote args with a full valid quorum (everybody signs) for method/payload
func (s *bitcoinStream) validVote(r *tr.Rng, method string, payload []byte) (string, []any) {
	if r.Chance(6) {
		sp := s.genVote(r, method, payload)
		return "/vote:" + sp.cls, s.emitVote(sp)
	}
	v := s.view()
	sp := voteSpec{cls: "valid-all", seq: v.seq, epoch: v.rel.Epoch, method: method, chain: s.chain, proposer: v.rel.Proposer, payload: payload, msgProp: v.rel.Proposer}
	sp.signers = []string{v.rel.Proposer}
	for i, a := range v.rel.Voters {
		sp.marks = append(sp.marks, uint32(i))
		sp.signers = append(sp.signers, a)
	}
	return "", s.emitVote(sp)
}

// depositOutput builds the output script(s) for a deposit through the *address builders* of the
// repository (C17: what the node hands out), decoded independently with btcutil.
func (s *bitcoinStream) depositOutputs(k *keys.BtcKey, version int, evm []byte, magic []byte) ([]byte, []byte) {
	if version == 0 {
		a, err := bitcointypes.DepositAddressV0(k.PublicKey(), evm, s.net)
		if err != nil {
			return nil, nil
		}
		dec, err := btcutil.DecodeAddress(a.EncodeAddress(), s.net)
		if err != nil {
			return nil, nil
		}
		sc, _ := txscript.PayToAddrScript(dec)
		if k.Kind == "1" {
			s.oracle("tweak", "in", tr.Hex(append(append([]byte{}, k.Pub...), evm...)), "out", tr.Hex(keys.Tweak(k.Pub, evm)))
		}
		return sc, nil
	}
	a, data, err := bitcointypes.DepositAddressV1(k.PublicKey(), magic, evm, s.net)
	if err != nil {
		return nil, nil
	}
	dec, err := btcutil.DecodeAddress(a.EncodeAddress(), s.net)
	if err != nil {
		return nil, nil
	}
	sc, _ := txscript.PayToAddrScript(dec)
	return sc, data
}

func (s *bitcoinStream) tip() uint64 {
	t, _ := s.w.Btc.BlockTip.Peek(s.w.Ctx)
	return t
}

// voteBlocks: builds n blocks (first one contains the mempool) and votes their hashes
func (s *bitcoinStream) voteBlocks(r *tr.Rng, n int) {
	tip := s.tip()
	var hashes [][]byte
	for i := 0; i < n; i++ {
		h := tip + 1 + uint64(i)
		txs := []*btcTx{s.coinbase(r)}
		if i == 0 {
			txs = append(txs, s.mempool...)
			s.mempool = nil
		}
		for j := r.Intn(3); j > 0; j-- {
			txs = append(txs, mkTx(r, []*wire.TxOut{wire.NewTxOut(int64(1000+r.Intn(100000)), r.Bytes(22))}, 1))
		}
		b := mkBlock(r, h, txs)
		s.blocks[h] = b
		hashes = append(hashes, b.hash)
	}
	m := &bitcointypesMsgNewBlockHashes{StartBlockNumber: tip + 1, BlockHash: hashes}
	cls, args := s.validVote(r, "Bitcoin/NewBlocks", m.sigDoc())
	s.push(tr.NewOp("hashes/blocks"+cls, "tx.hashes", append(args, "start", tip+1, "hashes", tr.HexList(hashes))...))
}

// voteBlockFirst: one block whose first transaction is `first` (followed by a few others), voted
func (s *bitcoinStream) voteBlockFirst(r *tr.Rng, first *btcTx) {
	tip := s.tip()
	h := tip + 1
	txs := []*btcTx{first}
	for j := 1 + r.Intn(3); j > 0; j-- {
		txs = append(txs, mkTx(r, []*wire.TxOut{wire.NewTxOut(int64(1000+r.Intn(100000)), r.Bytes(22))}, 1))
	}
	b := mkBlock(r, h, txs)
	s.blocks[h] = b
	m := &bitcointypesMsgNewBlockHashes{StartBlockNumber: h, BlockHash: [][]byte{b.hash}}
	cls, args := s.validVote(r, "Bitcoin/NewBlocks", m.sigDoc())
	s.push(tr.NewOp("hashes/blocks"+cls, "tx.hashes", append(args, "start", h, "hashes", tr.HexList([][]byte{b.hash}))...))
}

// coinbase: first transaction of a block; frequently itself a well-formed deposit (maturity rule)
func (s *bitcoinStream) coinbase(r *tr.Rng) *btcTx {
	p, _ := s.w.Btc.Params.Get(s.w.Ctx)
	if r.Chance(60) {
		k, evm := s.keys[r.Intn(len(s.keys))], s.evms[r.Intn(len(s.evms))]
		if sc, _ := s.depositOutputs(k, 0, evm, p.DepositMagicPrefix); sc != nil {
			tx := mkTx(r, []*wire.TxOut{wire.NewTxOut(int64(p.MinDepositAmount+uint64(r.Intn(50000))), sc)}, 1)
			tx.depKey, tx.depEvm = k, evm
			return tx
		}
	}
	return mkTx(r, []*wire.TxOut{wire.NewTxOut(5000000000, r.Bytes(34))}, 1)
}

// newDepositTx creates a deposit transaction of a guard-directed class and puts it in the mempool
type depSpec struct {
	cls     string
	tx      *btcTx
	version int
	outIdx  uint32
	evm     []byte
	key     *keys.BtcKey
}

func (s *bitcoinStream) Gen(r *tr.Rng) *tr.Op {
	if len(s.q) > 0 {
		return s.pop()
	}
	s.k++
	if s.k == 1 {
		s.setup(r)
		return s.pop()
	}
	if s.k%30 == 0 {
		s.push(tr.NewOp("dump", "dump.btc"))
		s.push(tr.NewOp("dump", "dump.rel"))
		return s.pop()
	}
	switch c := r.Intn(100); {
	case c < 14:
		s.genDepositTxs(r)
		s.voteBlocks(r, 1+r.Intn(2))
	case c < 34:
		s.genDeposits(r)
	case c < 46:
		s.genBridgeReq(r)
	case c < 58:
		s.genProcess(r)
	case c < 64:
		s.genReplace(r)
	case c < 74:
		s.genFinalize(r)
	case c < 80:
		s.genApprove(r)
	case c < 84:
		s.genConsolidate(r)
	case c < 88:
		s.genNewKey(r)
	case c < 92:
		if r.Chance(15) { // many blocks at once: makes coinbases mature
			s.voteBlocks(r, 16)
		} else {
			s.voteBlocks(r, 1)
		}
	default:
		if (s.k/90)%3 == 1 && !r.Chance(10) {
			// accumulation phase: the queues outgrow the per-block caps (16 deposits, 8 withdrawals) before the next hand-over
			s.genDepositTxs(r)
			s.voteBlocks(r, 1)
			s.genDeposits(r)
		} else {
			s.push(tr.NewOp("dequeue/commit="+tr.B(r.Chance(70)), "btc.dequeue", "commit", tr.B(r.Chance(70))))
		}
	}
	if r.Chance(6) {
		// what the node hands out for the CURRENT relayer key: the DepositAddress query
		evm := fmt.Sprintf("0x%x", s.evms[r.Intn(len(s.evms))])
		cls := "query/deposit-address"
		switch r.Intn(8) {
		case 0:
			evm, cls = evm[:len(evm)-2], cls+"/short-evm"
		case 1:
			evm, cls = evm[2:], cls+"/no-0x"
		case 2:
			evm, cls = "0x"+strings.ToUpper(evm[2:]), cls+"/upper-hex"
		}
		ver := tr.Pick(r, 0, 0, 1, 1, 2)
		cur := s.cur()
		// the key in force when the query runs is one of the most recent ones (a key change queued before it may or may
		// not succeed): state the hash / tweak facts for each of them
		cands := map[*keys.BtcKey]bool{}
		for i := len(s.keys) - 1; i >= 0 && i >= len(s.keys)-3; i-- {
			cands[s.keys[i]] = true
		}
		for i := len(s.allKeys) - 1; i >= 0 && i >= len(s.allKeys)-3; i-- {
			cands[s.allKeys[i]] = true // a key change queued just before this query (not executed yet) may be in force when it runs
		}
		if pk, err := s.w.Btc.Pubkey.Get(s.w.Ctx); err == nil { // the key in force right now
			raw := pk.GetSecp256K1()
			if raw == nil {
				raw = pk.GetSchnorr()
			}
			found := false
			for _, k := range append(append([]*keys.BtcKey{}, s.keys...), s.allKeys...) {
				if bytes.Equal(k.Pub, raw) {
					cands[k] = true
					found = true
				}
			}
			if !found && os.Getenv("VERIF_DEBUG") != "" {
				fmt.Fprintf(os.Stderr, "QUERY: key in force %x is not among the %d generated keys\n", raw, len(s.keys))
			}
		}
		seenKey := map[*keys.BtcKey]bool{}
		for _, k := range append(append([]*keys.BtcKey{}, s.keys...), s.allKeys...) { // deterministic order
			if !cands[k] || seenKey[k] {
				continue
			}
			seenKey[k] = true
			s.keyOracles(k)
			if raw, err := hex.DecodeString(strings.TrimPrefix(evm, "0x")); err == nil && len(raw) == 20 && k.Kind == "1" {
				s.oracle("tweak", "in", tr.Hex(append(append([]byte{}, k.Pub...), raw...)), "out", tr.Hex(keys.Tweak(k.Pub, raw)))
			}
		}
		s.push(tr.NewOp(fmt.Sprintf("%s/v%d-k%s", cls, ver, cur.Kind), "q.depositaddr", "version", ver, "evm", evm))
	}
	if len(s.q) == 0 {
		s.push(tr.NewOp("dump", "dump.btc"))
	}
	return s.pop()
}

func (s *bitcoinStream) genNewKey(r *tr.Rng) {
	k := keys.NewBtcKey(r, tr.Pick(r, "0", "1"))
	cls := "/new"
	if r.Chance(25) {
		k = s.keys[r.Intn(len(s.keys))]
		cls = "/dup-key"
	}
	s.keyOracles(k)
	enc := relayertypes.EncodePublicKey(k.PublicKey())
	vcls, args := s.validVote(r, "Bitcoin/NewPubkey", enc)
	key := k.Pub
	if r.Chance(6) {
		key = key[:len(key)-1]
		cls = "/bad-key-length"
	}
	s.push(tr.NewOp("pubkey"+cls+vcls, "tx.pubkey", append(args, "kind", k.Kind, "key", tr.Hex(key))...))
	if cls == "/new" && vcls == "" {
		s.keys = append(s.keys, k)
	}
	s.allKeys = append(s.allKeys, k) // whichever way the vote goes, this key may become the key in force
}

// a deposit candidate: transaction in a voted (or about to be voted) block
type depCand struct {
	tx      *btcTx
	version int
	outIdx  uint32
	evm     []byte
	key     *keys.BtcKey
	cls     string
	used    bool
	sibling *depCand // another deposit output of the same transaction
}

var depCands []*depCand

func (s *bitcoinStream) genDepositTxs(r *tr.Rng) {
	p, _ := s.w.Btc.Params.Get(s.w.Ctx)
	n := 1 + r.Intn(3)
	for i := 0; i < n; i++ {
		k := s.keys[r.Intn(len(s.keys))]
		evm := s.evms[r.Intn(len(s.evms))]
		version := 0
		if k.Kind == "0" && r.Chance(40) {
			version = 1
		}
		cls := fmt.Sprintf("v%d-k%s", version, k.Kind)
		val := p.MinDepositAmount + uint64(r.Intn(200000))
		switch r.Intn(20) {
		case 0:
			val, cls = p.MinDepositAmount, cls+"/value=min"
		case 1:
			val, cls = p.MinDepositAmount-1, cls+"/value=min-1"
		case 2:
			val, cls = 10000, cls+"/value=10000"
		case 3:
			val, cls = 10001, cls+"/value=10001"
		case 4:
			val, cls = uint64(10000*(1+r.Intn(50))), cls+"/value=k*10000"
		case 5:
			val, cls = 1<<63+uint64(r.Intn(1000)), cls+"/value-negative-int64"
		}
		if p.MinDepositAmount >= 1<<62 { // paused: every ordinary value - dust in particular - stays below the minimum
			val, cls = tr.Pick(r, uint64(0), 1, 546, 600, 999, 10000, 100000000), cls+"/below-huge-minimum"
		}
		sc, data := s.depositOutputs(k, version, evm, p.DepositMagicPrefix)
		if k.Kind == "1" && r.Chance(12) {
			// version 1 exists only for ECDSA keys: the obvious analogue for a Schnorr key (key-path output of the relayer key
			// followed by the magic-prefixed data output) must not be accepted
			version, cls = 1, "v1-k1/schnorr-analogue"
			sc = s.sysScript(k)
			data = append(append([]byte{0x6a, 0x18}, p.DepositMagicPrefix...), evm...)
		}
		if sc == nil {
			continue
		}
		key := k
		switch r.Intn(28) {
		case 24, 25: // only the version / push opcode of the script is wrong (everything after it is right)
			sc = append([]byte{}, sc...)
			sc[r.Intn(2)] ^= 1 << uint(r.Intn(8))
			cls += "/script-opcode-flipped"
		case 26, 27: // only the OP_RETURN / push opcode of the version-1 data output is wrong
			if version == 1 && len(data) > 2 {
				data = append([]byte{}, data...)
				data[r.Intn(2)] ^= 1 << uint(r.Intn(8))
				cls += "/v1-data-opcode-flipped"
			}
		case 0: // one byte of the script flipped
			sc = append([]byte{}, sc...)
			sc[r.Intn(len(sc))] ^= 1 << uint(r.Intn(8))
			cls += "/script-flipped"
		case 1: // script for another evm address
			sc, data = s.depositOutputs(k, version, s.evms[(r.Intn(len(s.evms)-1)+1)%len(s.evms)], p.DepositMagicPrefix)
			cls += "/script-for-some-evm"
		case 2:
			if version == 1 {
				data = append([]byte{}, data...)
				data[2+r.Intn(len(data)-2)] ^= 0x10
				cls += "/v1-data-flipped"
			}
		case 3:
			key = s.unreg
			sc, data = s.depositOutputs(key, version, evm, p.DepositMagicPrefix)
			cls += "/unregistered-key"
		}
		var outs []*wire.TxOut
		outIdx := uint32(0)
		if version == 0 {
			pre := r.Intn(3)
			for j := 0; j < pre; j++ {
				outs = append(outs, wire.NewTxOut(int64(1000+r.Intn(5000)), r.Bytes(22)))
			}
			outIdx = uint32(pre)
			outs = append(outs, wire.NewTxOut(int64(val), sc))
			if r.Chance(30) {
				outs = append(outs, wire.NewTxOut(int64(1000+r.Intn(5000)), r.Bytes(22)))
			}
		} else {
			outs = append(outs, wire.NewTxOut(int64(val), sc))
			if r.Chance(8) {
				cls += "/v1-single-output"
				// pad so that the tx stays ≥ 94 bytes: second input instead of second output
			} else {
				outs = append(outs, wire.NewTxOut(0, data))
			}
			if r.Chance(15) {
				outs = append(outs, wire.NewTxOut(int64(1000+r.Intn(5000)), r.Bytes(22)))
			}
		}
		nin := 1 + r.Intn(2)
		if len(outs) == 1 && version == 1 {
			nin = 2
		}
		// two deposits in one bitcoin transaction: outputs of the same txid credited separately (the credited set is keyed by
		// (txid, output), not by txid)
		second := -1
		var evm2 []byte
		if version == 0 && r.Chance(pick(s.genesisValidTax, 45, 15)) {
			evm2 = s.evms[r.Intn(len(s.evms))]
			if sc2, _ := s.depositOutputs(key, 0, evm2, p.DepositMagicPrefix); sc2 != nil {
				second = len(outs)
				outs = append(outs, wire.NewTxOut(int64(p.MinDepositAmount+uint64(r.Intn(90000))), sc2))
				cls += "/two-deposit-outputs"
			}
		}
		tx := sizeClass(r, mkTx(r, outs, nin), nin, &cls)
		var sib *depCand
		if second >= 0 {
			sib = &depCand{tx: tx, version: 0, outIdx: uint32(second), evm: evm2, key: key, cls: cls + "/second"}
			depCands = append(depCands, sib)
		}
		switch r.Intn(40) {
		case 0: // the block commits to bytes that are a transaction plus one byte: only the parser's "no trailing bytes" rule refuses it
			tx.raw = append(append([]byte{}, tx.raw...), byte(r.Intn(2)))
			tx.txid = goatcrypto.DoubleSHA256Sum(tx.raw)
			cls += "/leaf-with-trailing-byte"
		case 1: // ... or to a transaction whose lock time is cut short: only the parser's error refuses it
			tx.raw = append([]byte{}, tx.raw[:len(tx.raw)-1-r.Intn(3)]...)
			tx.txid = goatcrypto.DoubleSHA256Sum(tx.raw)
			cls += "/leaf-truncated"
		}
		s.mempool = append(s.mempool, tx)
		depCands = append(depCands, &depCand{tx: tx, version: version, outIdx: outIdx, evm: evm, key: key, cls: cls, sibling: sib})
	}
}

func (s *bitcoinStream) findTx(txid []byte) (*btcBlock, int) {
	hs := make([]uint64, 0, len(s.blocks))
	for h := range s.blocks {
		hs = append(hs, h)
	}
	sort.Slice(hs, func(i, j int) bool { return hs[i] > hs[j] })
	for _, h := range hs {
		for i, t := range s.blocks[h].txs {
			if bytes.Equal(t.txid, txid) {
				return s.blocks[h], i
			}
		}
	}
	return nil, 0
}

func (s *bitcoinStream) genDeposits(r *tr.Rng) {
	tip := s.tip()
	n := 1
	if r.Chance(35) {
		n = 2 + r.Intn(3)
	}
	var items []string
	headers := map[uint64][]byte{}
	cls := ""
	add := func(it string, c string) {
		items = append(items, it)
		s.pastDeps = append(s.pastDeps, it)
		cls += "+" + c
	}
	item := func(version int, block uint64, txIndex uint32, raw []byte, outIdx uint32, proof []byte, evm []byte, k *keys.BtcKey) string {
		kind, key := "2", []byte(nil)
		if k != nil {
			kind, key = k.Kind, k.Pub
		}
		return fmt.Sprintf("%d|%d|%d|%s|%d|%s|%s|%s|%s", version, block, txIndex, tr.Hex(raw), outIdx, tr.Hex(proof), tr.Hex(evm), kind, tr.Hex(key))
	}
	// the largest admissible batch (16 deposits) and one more, all of them fresh and well-formed
	if r.Chance(5) {
		var fresh []*depCand
		for _, x := range depCands {
			if !x.used && !strings.Contains(x.cls, "/") {
				if b, _ := s.findTx(x.tx.txid); b != nil {
					fresh = append(fresh, x)
				}
			}
		}
		if want := 16 + r.Intn(2); len(fresh) >= want {
			for _, d := range fresh[:want] {
				d.used = true
				b, idx := s.findTx(d.tx.txid)
				headers[b.height] = b.header
				add(item(d.version, b.height, uint32(idx), d.tx.raw, d.outIdx, b.proof(idx), d.evm, d.key), d.cls)
			}
			cls = fmt.Sprintf("+batch-of-%d", want)
			n = 0
		}
	}
	// both deposit outputs of one bitcoin transaction, well-formed, credited in one clean batch (export profiles: the credited
	// set then holds two entries of one txid when the state is exported)
	cleanBatch := false
	if s.genesisValidTax && n > 0 && r.Chance(60) {
		for _, x := range depCands {
			sb := x.sibling
			if sb == nil || x.used || sb.used {
				continue
			}
			bad := false
			for _, w := range []string{"flipped", "script-for", "leaf", "negative", "below", "min-1", "schnorr", "size"} {
				bad = bad || strings.Contains(x.cls, w)
			}
			b, idx := s.findTx(x.tx.txid)
			if bad || b == nil {
				continue
			}
			x.used, sb.used = true, true
			headers[b.height] = b.header
			add(item(x.version, b.height, uint32(idx), x.tx.raw, x.outIdx, b.proof(idx), x.evm, x.key), x.cls)
			add(item(sb.version, b.height, uint32(idx), x.tx.raw, sb.outIdx, b.proof(idx), sb.evm, sb.key), sb.cls)
			cls += "+both-outputs-clean"
			n, cleanBatch = 0, true
			break
		}
	}
	for i := 0; i < n; i++ {
		// coinbase deposits (maturity rule) or ordinary candidates
		if r.Chance(18) && len(s.blocks) > 0 {
			hs := make([]uint64, 0)
			for h := range s.blocks {
				hs = append(hs, h)
			}
			sort.Slice(hs, func(i, j int) bool { return hs[i] < hs[j] })
			h := hs[r.Intn(len(hs))]
			if r.Chance(75) { // aim at the maturity boundary: tip = h+99 (refused), h+100 (first accepted), h+101
				want := tip - uint64(tr.Pick(r, 99, 100, 100, 101))
				if _, ok := s.blocks[want]; ok {
					h = want
				}
			}
			b := s.blocks[h]
			idx := uint32(0)
			c := fmt.Sprintf("coinbase/tip-h=%d", int64(tip)-int64(h))
			if int64(tip)-int64(h) > 100 {
				c = "coinbase/mature"
			} else if int64(tip)-int64(h) < 99 {
				c = "coinbase/immature"
			}
			if r.Chance(35) { // coinbase presented under an aliased (non-zero) index — F2
				idx = uint32(1+r.Intn(3)) << uint(len(b.levels)-1)
				c += "/aliased-index"
			}
			headers[h] = b.header
			ck, cevm := s.cur(), s.evms[0]
			if b.txs[0].depKey != nil { // the coinbase pays to a deposit address: only the maturity rule can refuse it
				ck, cevm = b.txs[0].depKey, b.txs[0].depEvm
				c += "/is-deposit"
			}
			add(item(0, h, idx, b.txs[0].raw, 0, b.proof(0), cevm, ck), c)
			continue
		}
		if len(depCands) == 0 {
			continue
		}
		var d *depCand
		if r.Chance(70) && len(depCands) > 4 {
			d = depCands[len(depCands)-1-r.Intn(4)]
		} else {
			d = depCands[r.Intn(len(depCands))]
		}
		if d.used && r.Chance(85) {
			for _, x := range depCands {
				if !x.used {
					d = x
				}
			}
		}
		d.used = true
		b, idx := s.findTx(d.tx.txid)
		c := d.cls
		if b == nil {
			// not in any voted block yet: claim it for the tip block (unvoted inclusion)
			b = s.blocks[tip]
			if b == nil {
				continue
			}
			idx = 1
			c += "/not-in-block"
		}
		version, block, txIndex, raw, outIdx, proof, evm, key := d.version, b.height, uint32(idx), d.tx.raw, d.outIdx, b.proof(idx), d.evm, d.key
		hdr := b.header
		switch r.Intn(48) {
		case 0:
			block, c = tip+1+uint64(r.Intn(3)), c+"/unvoted-height"
		case 1:
			hdr = append([]byte{}, hdr...)
			hdr[r.Intn(80)] ^= 1
			c += "/header-flipped"
		case 2:
			if o := s.blocks[b.height-1]; o != nil {
				hdr = o.header
				c += "/header-of-other-block"
			}
		case 3:
			raw = append(append([]byte{}, raw...), 0)
			c += "/tx-trailing-byte"
		case 4:
			outIdx, c = uint32(len(d.tx.outs)), c+"/outidx=len"
		case 5:
			if len(d.tx.outs) > 1 {
				outIdx, c = (outIdx+1)%uint32(len(d.tx.outs)), c+"/other-output"
			}
		case 6:
			txIndex, c = txIndex+uint32(1<<uint(len(b.levels)-1)), c+"/aliased-index"
		case 7:
			txIndex, c = txIndex^1, c+"/wrong-index"
		case 8:
			if len(proof) > 0 {
				proof = append([]byte{}, proof...)
				proof[r.Intn(len(proof))] ^= 4
				c += "/proof-flipped"
			}
		case 9:
			evm, c = s.evms[(r.Intn(len(s.evms)-1)+1)%len(s.evms)], c+"/some-evm"
		case 10:
			evm, c = r.Bytes(tr.Pick(r, 0, 19, 21)), c+"/evm-bad-length"
		case 11:
			version, c = 1-version, c+"/version-swapped"
		case 12:
			version, c = 2, c+"/version=2"
		case 13:
			key, c = s.keys[r.Intn(len(s.keys))], c+"/some-registered-key"
		case 14:
			key, c = nil, c+"/nil-key"
		case 15:
			raw, c = raw[:len(raw)-1], c+"/tx-truncated"
		}
		headers[block] = hdr
		if _, ok := headers[b.height]; !ok && r.Chance(90) {
			headers[b.height] = b.header
		}
		add(item(version, block, txIndex, raw, outIdx, proof, evm, key), c)
		if sb := d.sibling; sb != nil && !sb.used && r.Chance(75) {
			// the other deposit output of the same bitcoin transaction, credited in the same batch
			sb.used = true
			add(item(sb.version, block, txIndex, raw, sb.outIdx, proof, sb.evm, sb.key), sb.cls)
		}
		if r.Chance(8) { // duplicate inside the same batch
			items = append(items, items[len(items)-1])
			cls += "+dup-in-batch"
		}
	}
	if r.Chance(15) && len(s.pastDeps) > 0 && !cleanBatch { // duplicate across batches
		it := s.pastDeps[r.Intn(len(s.pastDeps))]
		items = append(items, it)
		f := splitBar(it)
		if b := s.blocks[parseU(f[1])]; b != nil {
			if _, ok := headers[b.height]; !ok {
				headers[b.height] = b.header
			}
		}
		cls += "+replayed-item"
	}
	var hs []string
	hk := make([]uint64, 0, len(headers))
	for h := range headers {
		hk = append(hk, h)
	}
	sort.Slice(hk, func(i, j int) bool { return hk[i] < hk[j] })
	for _, h := range hk {
		hs = append(hs, fmt.Sprintf("%d|%s", h, tr.Hex(headers[h])))
	}
	switch r.Intn(pick(cleanBatch, 1000, 25)) + pick(cleanBatch, 3, 0) {
	case 0:
		if len(hs) > 0 {
			hs = append(hs, hs[0])
			cls += "+dup-header-height"
		}
	case 1:
		hs = nil
		cls += "+no-headers"
	case 2:
		if len(hk) > 0 {
			hs = append(hs, fmt.Sprintf("%d|%s", hk[0]+1000, tr.Hex(r.Bytes(79))))
			cls += "+short-header"
		}
	}
	v := s.view()
	prop := v.rel.Proposer
	if r.Chance(4) {
		prop = "goat1qqqqqqqqqqqqqqqqqqqqqqqqqqqqqqqqlv9lk7"
		cls += "+not-proposer"
	}
	if len(cls) > 90 {
		cls = cls[:90]
	}
	s.push(tr.NewOp("deposits"+cls, "tx.deposits", "proposer", prop, "headers", tr.StrList(hs), "deps", tr.StrList(items)))
}

func splitBar(s string) []string {
	var out []string
	cur := ""
	for _, c := range s {
		if c == '|' {
			out = append(out, cur)
			cur = ""
		} else {
			cur += string(c)
		}
	}
	return append(out, cur)
}
func parseU(s string) uint64 {
	var v uint64
	fmt.Sscan(s, &v)
	return v
}

func (s *bitcoinStream) genBridgeReq(r *tr.Rng) {
	var ws, rbf, cancel, tax, conf, min []string
	cls := ""
	nw := r.Intn(3)
	if r.Chance(7) { // burst: more than the per-block caps of the system-transaction queue (8 paid / rejected)
		nw = 9 + r.Intn(12)
		cls += "+burst"
	}
	for i := nw; i > 0; i-- {
		a := s.genAddr(r)
		id := s.nextWid
		if r.Chance(5) && id > 1 { // id reuse (excluded by the environment hypothesis; exercised anyway)
			id = 1 + uint64(r.Intn(int(id-1)))
			cls += "+id-reuse"
		} else {
			s.nextWid++
		}
		sc := decodeOracle(a.str, s.net)
		out := "x"
		if sc != nil {
			out = tr.Hex(sc)
		}
		s.oracle("decode", "in", tr.Hex([]byte(a.str)), "out", out)
		w := &wd{id: id, addr: addrInfo{a.str, sc, a.cls}, amount: uint64(tr.Pick(r, 1000, 50000, 1000000, 1<<40)), price: uint64(tr.Pick(r, 1, 2, 5, 100, 100, 1<<20, 1<<20))}
		if r.Chance(4) {
			w.price = 0
		}
		s.wds[id] = w
		ws = append(ws, fmt.Sprintf("%d|%d|%d|%s", id, w.amount, w.price, tr.Hex([]byte(a.str))))
		cls += "+w:" + a.cls
	}
	pickID := func() uint64 {
		if r.Chance(8) || s.nextWid <= 1 {
			return s.nextWid + uint64(r.Intn(5))
		}
		return 1 + uint64(r.Intn(int(s.nextWid-1)))
	}
	for i := r.Intn(2); i > 0 && r.Chance(50); i-- {
		id := pickID()
		price := uint64(tr.Pick(r, 0, 1, 7, 1000))
		rbf = append(rbf, fmt.Sprintf("%d|%d", id, price))
		if w := s.wds[id]; w != nil {
			cls += "+rbf"
		} else {
			cls += "+rbf-unknown-id"
		}
	}
	for i := r.Intn(3); i > 0 && r.Chance(55); i-- {
		id := pickID()
		cancel = append(cancel, fmt.Sprint(id))
		if s.wds[id] != nil {
			cls += "+cancel"
		} else {
			cls += "+cancel-unknown-id"
		}
	}
	big := []uint64{0, 1, 999, 1000, 1001, 9999, 10000, 10001, 100000000, 100000001, 1<<64 - 1}
	if r.Chance(25) || s.taxBias {
		if s.genesisValidTax {
			// only pairs the genesis validation accepts (the others are known finding F7c and would mask every later export)
			pairs := [][2]uint64{{0, 0}, {1, 1}, {999, 100000000}, {9999, 1000}, {1000, 999}, {1, 100000000}, {5000, 1}}
			p := pairs[r.Intn(len(pairs))]
			tax = append(tax, fmt.Sprintf("%d|%d", p[0], p[1]))
		} else {
			tax = append(tax, fmt.Sprintf("%d|%d", big[r.Intn(len(big))], big[r.Intn(len(big))]))
		}
		cls += "+tax"
	}
	if r.Chance(12) {
		conf = append(conf, fmt.Sprint(tr.Pick(r, uint64(0), 1, 6, 1<<64-1)))
		cls += "+conf"
	}
	if r.Chance(20) {
		min = append(min, fmt.Sprint(big[r.Intn(8)]))
		cls += "+min"
	} else if r.Chance(3) && !s.genesisValidTax {
		// deposits "paused" by a minimum no output can reach: any value of the 64-bit field is legal for the request decoder
		min = append(min, fmt.Sprint(tr.Pick(r, uint64(1)<<63, 1<<63+1, 1<<64-1, 1<<63-1)))
		cls += "+min-huge"
	}
	s.push(tr.NewOp("req.bridge"+cls, "req.bridge", "withdraws", tr.StrList(ws), "rbf", tr.StrList(rbf), "cancel", tr.StrList(cancel),
		"tax", tr.StrList(tax), "conf", tr.StrList(conf), "min", tr.StrList(min)))
}

func le64(xs ...uint64) []byte { return goatcrypto.Uint64LE(xs...) }

// payout builds a withdrawal transaction for ids with guard-directed defects
func (s *bitcoinStream) payout(r *tr.Rng, ids []uint64, cls *string) (*btcTx, uint64) {
	var outs []*wire.TxOut
	minPrice := uint64(1 << 62)
	for _, id := range ids {
		w := s.wds[id]
		sc := []byte{0x00, 0x14}
		sc = append(sc, r.Bytes(20)...)
		amt := uint64(1000)
		if w != nil {
			if w.addr.script != nil {
				sc = w.addr.script
			}
			amt = w.amount - uint64(r.Intn(int(min64(w.amount, 500))))
			if r.Chance(30) {
				amt = w.amount // pays exactly what was requested (boundary of "no more than the requested amount")
			}
			if w.price < minPrice {
				minPrice = w.price
			}
		}
		outDefect := r.Intn(30)
		if len(ids) > 8 {
			outDefect = r.Intn(30 * len(ids)) // large payouts: at most about one defective output per transaction
		}
		switch outDefect {
		case 0:
			amt, *cls = amt+uint64(1+r.Intn(int(min64(w0amount(w), 10)+1))), *cls+"/over-amount"
			if w != nil {
				amt = w.amount + 1
			}
		case 1:
			sc = append([]byte{}, sc...)
			sc[len(sc)-1] ^= 1
			*cls += "/wrong-script"
		case 2: // only the version / push opcode of the user's script is wrong
			sc = append([]byte{}, sc...)
			sc[r.Intn(2)] ^= 1 << uint(r.Intn(8))
			*cls += "/script-opcode-flipped"
		}
		outs = append(outs, wire.NewTxOut(int64(amt), sc))
	}
	switch r.Intn(10) {
	case 0, 1, 2, 3: // change to the current key
		outs = append(outs, wire.NewTxOut(int64(1000+r.Intn(100000)), s.sysScript(s.cur())))
		*cls += "/change"
	case 7: // change to the current key's program under a wrong version / push opcode
		csc := append([]byte{}, s.sysScript(s.cur())...)
		csc[r.Intn(2)] ^= 1 << uint(r.Intn(8))
		outs = append(outs, wire.NewTxOut(int64(1000+r.Intn(100000)), csc))
		*cls += "/change-opcode-flipped"
	case 4:
		if len(s.keys) > 1 {
			outs = append(outs, wire.NewTxOut(1234, s.sysScript(s.keys[0])))
			*cls += "/change-to-old-key"
		}
	case 5:
		outs = append(outs, wire.NewTxOut(1234, r.Bytes(22)))
		*cls += "/change-to-stranger"
	case 6:
		outs = append(outs, wire.NewTxOut(1, s.sysScript(s.cur())), wire.NewTxOut(1, s.sysScript(s.cur())))
		*cls += "/two-extra-outputs"
	}
	nIn := 1 + r.Intn(2)
	tx := sizeClass(r, mkTx(r, outs, nIn), nIn, cls)
	defectiveBytes(r, tx, cls)
	if minPrice == 1<<62 {
		minPrice = 1
	}
	size := uint64(len(tx.raw))
	var fee uint64
	switch r.Intn(12) {
	case 3:
		fee, *cls = minPrice*size, *cls+"/fee=max"
	case 1:
		fee, *cls = minPrice*size+1, *cls+"/fee=max+1"
	case 2:
		if r.Chance(30) {
			fee, *cls = 0, *cls+"/fee=0"
		} else {
			fee = 1
		}
	default:
		if minPrice*size > 0 {
			fee = 1 + uint64(r.Intn(int(min64(minPrice*size, 1<<30))))
		} else {
			fee = 1
			*cls += "/price-0"
		}
	}
	return tx, fee
}

// defectiveBytes: now and then the voted bytes are a transaction followed by one more byte, or a transaction whose
// lock time is cut short (only the parser's "no trailing bytes" / error rule refuses them; the vote is over these bytes)
func defectiveBytes(r *tr.Rng, tx *btcTx, cls *string) {
	switch r.Intn(28) {
	case 0:
		tx.raw = append(append([]byte{}, tx.raw...), byte(r.Intn(2)))
		*cls += "/tx-trailing-byte"
	case 1:
		tx.raw = append([]byte{}, tx.raw[:len(tx.raw)-1-r.Intn(3)]...)
		*cls += "/tx-truncated"
	case 2, 3, 4, 5:
		// parser classes (GoatModel.BtcTx / C03T): the vote is over these bytes, so the parser alone decides
		var m wire.MsgTx
		if err := m.DeserializeNoWitness(bytes.NewReader(tx.raw)); err != nil || len(m.TxIn) == 0 || len(m.TxIn) >= 0xfd || len(m.TxOut) >= 0xfd {
			return
		}
		insEnd := 5
		for _, in := range m.TxIn {
			insEnd += in.SerializeSize()
		}
		var buf bytes.Buffer
		switch r.Intn(4) {
		case 0: // the input count as a three-byte var-int: refused as non-canonical
			tx.raw = append(append(append([]byte{}, tx.raw[:4]...), 0xfd, tx.raw[4], 0), tx.raw[5:]...)
			*cls += "/tx-noncanonical-incount"
		case 1: // the output count as a three-byte var-int
			tx.raw = append(append(append([]byte{}, tx.raw[:insEnd]...), 0xfd, tx.raw[insEnd], 0), tx.raw[insEnd+1:]...)
			*cls += "/tx-noncanonical-outcount"
		case 2: // the same outputs spent from no input at all: the no-witness parser accepts a zero input count
			m.TxIn = nil
			_ = m.SerializeNoWitness(&buf)
			tx.raw = buf.Bytes()
			*cls += "/tx-zero-inputs"
		case 3: // the segwit serialisation (marker 00, flag 01) offered to the no-witness parser
			m.TxIn[0].Witness = wire.TxWitness{[]byte{1}}
			_ = m.Serialize(&buf)
			tx.raw = buf.Bytes()
			*cls += "/tx-witness-serialised"
		}
	default:
		return
	}
	tx.txid = goatcrypto.DoubleSHA256Sum(tx.raw)
}

func w0amount(w *wd) uint64 {
	if w == nil {
		return 0
	}
	return w.amount
}
func min64(a, b uint64) uint64 {
	if a < b {
		return a
	}
	return b
}

func (s *bitcoinStream) sysScript(k *keys.BtcKey) []byte {
	if k.Kind == "0" {
		return append([]byte{0x00, 0x14}, goatcrypto.Hash160Sum(k.Pub)...)
	}
	return append([]byte{0x51, 0x20}, keys.TweakNoScript(k.Pub)...)
}

func (s *bitcoinStream) idsWithStatus(st ...bitcointypes.WithdrawalStatus) []uint64 {
	var ids []uint64
	_ = s.w.Btc.Withdrawals.Walk(s.w.Ctx, nil, func(id uint64, w bitcointypes.Withdrawal) (bool, error) {
		for _, x := range st {
			if w.Status == x {
				ids = append(ids, id)
			}
		}
		return false, nil
	})
	return ids
}

func (s *bitcoinStream) genProcess(r *tr.Rng) {
	cands := s.idsWithStatus(bitcointypes.WITHDRAWAL_STATUS_PENDING, bitcointypes.WITHDRAWAL_STATUS_CANCELING)
	cls := "process"
	var ids []uint64
	n := 1 + r.Intn(3)
	if r.Chance(10) { // burst: pay more withdrawals at once than one block hands over (cap 8)
		n = 9 + r.Intn(8)
		cls += "/burst"
	}
	if len(cands) >= 33 && r.Chance(40) { // the most withdrawals one transaction may pay (32), and one more
		n = 32 + r.Intn(2)
		cls += fmt.Sprintf("/ids=%d", n)
	}
	if n > 8 { // large payouts: only withdrawals that tolerate a fee at all (one zero maximum price would refuse the whole transaction)
		var pos []uint64
		for _, id := range cands {
			if w := s.wds[id]; w != nil && w.price >= 2 && w.addr.script != nil {
				pos = append(pos, id)
			}
		}
		if len(pos) >= n {
			cands = pos
		}
	}
	for i := 0; i < n && len(cands) > 0; i++ {
		j := r.Intn(len(cands))
		ids = append(ids, cands[j])
		cands = append(cands[:j], cands[j+1:]...)
	}
	switch r.Intn(14) {
	case 0:
		other := s.idsWithStatus(bitcointypes.WITHDRAWAL_STATUS_PROCESSING, bitcointypes.WITHDRAWAL_STATUS_PAID, bitcointypes.WITHDRAWAL_STATUS_CANCELED)
		if len(other) > 0 {
			ids = append(ids, other[r.Intn(len(other))])
			cls += "/id-in-wrong-status"
		}
	case 1:
		if len(ids) > 0 {
			ids = append(ids, ids[0])
			cls += "/dup-id"
		}
	case 2:
		ids = append(ids, s.nextWid+7)
		cls += "/unknown-id"
	case 3:
		ids = nil
		cls += "/no-ids"
	}
	if len(ids) == 0 && cls == "process" {
		s.push(tr.NewOp("dump", "dump.btc"))
		return
	}
	tx, fee := s.payout(r, ids, &cls)
	payload := append(append(le64(ids...), goatcrypto.SHA256Sum(tx.raw)...), le64(fee)...)
	vcls, args := s.validVote(r, "Bitcoin/ProcessWithdrawal", payload)
	pidBefore, _ := s.w.Btc.ProcessID.Peek(s.w.Ctx)
	s.push(tr.NewOp(cls+vcls, "tx.process", append(args, "ids", tr.U64List(ids), "tx", tr.Hex(tx.raw), "fee", fee)...))
	s.procs = append(s.procs, &proc{pid: pidBefore, ids: ids, txs: []*btcTx{tx}, fee: fee})
}

func (s *bitcoinStream) livePids() []uint64 {
	var pids []uint64
	_ = s.w.Btc.Processing.Walk(s.w.Ctx, nil, func(id uint64, p bitcointypes.Processing) (bool, error) {
		pids = append(pids, id)
		return false, nil
	})
	return pids
}

func (s *bitcoinStream) procOf(pid uint64) *proc {
	for i := len(s.procs) - 1; i >= 0; i-- {
		if s.procs[i].pid == pid {
			return s.procs[i]
		}
	}
	return nil
}

func (s *bitcoinStream) genReplace(r *tr.Rng) {
	pids := s.livePids()
	cls := "replace"
	if len(pids) == 0 {
		s.push(tr.NewOp("dump", "dump.btc"))
		return
	}
	pid := pids[r.Intn(len(pids))]
	rec, _ := s.w.Btc.Processing.Get(s.w.Ctx, pid)
	tx, fee := s.payout(r, rec.Withdrawals, &cls)
	switch r.Intn(8) {
	case 0:
		fee, cls = rec.Fee, cls+"/fee-equal"
	case 1:
		if rec.Fee > 0 {
			fee, cls = rec.Fee-1, cls+"/fee-lower"
		}
	case 2, 3, 4:
		fee, cls = rec.Fee+1+uint64(r.Intn(50)), cls+"/fee-higher"
	case 5:
		if p := s.procOf(pid); p != nil {
			tx, cls = p.txs[r.Intn(len(p.txs))], cls+"/same-tx"
			fee = rec.Fee + 1
		}
	}
	if r.Chance(5) {
		pid, cls = pid+100, cls+"/unknown-pid"
	}
	payload := append(le64(pid, fee), goatcrypto.SHA256Sum(tx.raw)...)
	vcls, args := s.validVote(r, "Bitcoin/ReplaceWithdrawal", payload)
	s.push(tr.NewOp(cls+vcls, "tx.replace", append(args, "pid", pid, "tx", tr.Hex(tx.raw), "fee", fee)...))
	if p := s.procOf(pid); p != nil {
		p.txs = append(p.txs, tx)
	}
}

func (s *bitcoinStream) genFinalize(r *tr.Rng) {
	pids := s.livePids()
	if len(pids) == 0 {
		s.push(tr.NewOp("dump", "dump.btc"))
		return
	}
	pid := pids[r.Intn(len(pids))]
	rec, _ := s.w.Btc.Processing.Get(s.w.Ctx, pid)
	p := s.procOf(pid)
	cls := fmt.Sprintf("finalize/candidates=%d", len(rec.Txid))
	// choose a candidate (first / last / middle) and get it mined
	ci := r.Intn(len(rec.Txid))
	txid := rec.Txid[ci]
	cls += fmt.Sprintf("/choose=%d", ci)
	var tx *btcTx
	if p != nil {
		for _, t := range p.txs {
			if bytes.Equal(t.txid, txid) {
				tx = t
			}
		}
	}
	if tx == nil {
		tx = mkTx(r, []*wire.TxOut{wire.NewTxOut(1000, r.Bytes(22))}, 1)
		cls += "/foreign-tx"
	}
	b, idx := s.findTx(tx.txid)
	if b == nil && r.Chance(10) {
		// the payout mined as the FIRST transaction of its block: position 0 with a genuine path must still be
		// refused (position 0 means coinbase)
		s.voteBlockFirst(r, tx)
		cls += "/payout-is-first-tx"
		b, idx = s.findTx(tx.txid)
	}
	if b == nil {
		s.mempool = append(s.mempool, tx)
		s.voteBlocks(r, 1)
		// the block exists in the generator's view even before the vote op executes
		b, idx = s.findTx(tx.txid)
	}
	block, txIndex, proof, header, ftxid := b.height, uint32(idx), b.proof(idx), b.header, tx.txid
	switch r.Intn(16) {
	case 0:
		ftxid, cls = r.Bytes(32), cls+"/txid-not-candidate"
	case 1:
		block, cls = s.tip()+5, cls+"/unvoted-block"
	case 2:
		txIndex, proof, cls = 0, b.proof(0), cls+"/txindex=0"
	case 3:
		header = append([]byte{}, header...)
		header[r.Intn(80)] ^= 2
		cls += "/header-flipped"
	case 4:
		if len(proof) > 0 {
			proof = append([]byte{}, proof...)
			proof[r.Intn(len(proof))] ^= 8
			cls += "/proof-flipped"
		}
	case 5:
		txIndex, cls = txIndex+uint32(1<<uint(len(b.levels)-1)), cls+"/aliased-index"
	case 6:
		pid, cls = pid+50, cls+"/unknown-pid"
	case 7:
		header, cls = header[:79], cls+"/short-header"
	case 8: // present the coinbase of the block under an aliased index as "the payout"
		ftxid, proof, txIndex, cls = b.txs[0].txid, b.proof(0), uint32(1<<uint(len(b.levels)-1)), cls+"/coinbase-aliased"
	}
	v := s.view()
	s.push(tr.NewOp(cls, "tx.finalize", "proposer", v.rel.Proposer, "pid", pid, "txid", tr.Hex(ftxid), "block", block, "txindex", txIndex,
		"proof", tr.Hex(proof), "header", tr.Hex(header)))
}

func (s *bitcoinStream) genApprove(r *tr.Rng) {
	ids := s.idsWithStatus(bitcointypes.WITHDRAWAL_STATUS_CANCELING)
	cls := "approve"
	if len(ids) == 0 && r.Chance(85) {
		s.genBridgeReq(r)
		return
	}
	if len(ids) > 2 {
		ids = ids[:1+r.Intn(2)]
	}
	switch r.Intn(6) {
	case 0:
		o := s.idsWithStatus(bitcointypes.WITHDRAWAL_STATUS_PENDING, bitcointypes.WITHDRAWAL_STATUS_PROCESSING, bitcointypes.WITHDRAWAL_STATUS_PAID, bitcointypes.WITHDRAWAL_STATUS_CANCELED)
		if len(o) > 0 {
			ids = append(ids, o[r.Intn(len(o))])
			cls += "/id-not-canceling"
		}
	case 1:
		if len(ids) > 0 {
			ids = append(ids, ids[0])
			cls += "/dup-id"
		}
	case 2:
		ids = append(ids, s.nextWid+3)
		cls += "/unknown-id"
	}
	v := s.view()
	s.push(tr.NewOp(cls, "tx.approve", "proposer", v.rel.Proposer, "ids", tr.U64List(ids)))
}

func (s *bitcoinStream) genConsolidate(r *tr.Rng) {
	cls := "consolidate"
	outs := []*wire.TxOut{wire.NewTxOut(int64(10000+r.Intn(100000)), s.sysScript(s.cur()))}
	switch r.Intn(6) {
	case 0:
		outs = append(outs, wire.NewTxOut(1, s.sysScript(s.cur())))
		cls += "/two-outputs"
	case 1:
		if len(s.keys) > 1 {
			outs[0].PkScript = s.sysScript(s.keys[0])
			cls += "/to-old-key"
		}
	case 2:
		outs[0].PkScript = r.Bytes(22)
		cls += "/to-stranger"
	case 3:
		outs[0].PkScript = append([]byte{}, outs[0].PkScript...)
		outs[0].PkScript[r.Intn(2)] ^= 1 << uint(r.Intn(8))
		cls += "/opcode-flipped"
	}
	nIn := 1 + r.Intn(4) // one input and one output to an ECDSA key: the smallest transaction the validation admits
	tx := sizeClass(r, mkTx(r, outs, nIn), nIn, &cls)
	defectiveBytes(r, tx, &cls)
	vcls, args := s.validVote(r, "Bitcoin/NewConsolidation", goatcrypto.SHA256Sum(tx.raw))
	s.push(tr.NewOp(cls+vcls, "tx.consolidate", append(args, "tx", tr.Hex(tx.raw))...))
}
