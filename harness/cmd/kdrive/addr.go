package main

import (
	"fmt"

	"github.com/btcsuite/btcd/btcutil"
	"github.com/btcsuite/btcd/btcutil/bech32"
	"github.com/btcsuite/btcd/chaincfg"
	goatcrypto "github.com/goatnetwork/goat/pkg/crypto"
	bitcointypes "github.com/goatnetwork/goat/x/bitcoin/types"
	"verif/harness/internal/keys"
	"verif/harness/internal/tr"
)

// addr stream (C17, C20 genesis validation): deposit address builders vs verifiers for both key
// types and versions, withdrawal address decoding on all four networks (well-formed, mutated,
// foreign-network, pay-to-pubkey), and Params.Validate on a boundary grid.
type addrStream struct {
	*worldStream
}

func init() {
	streams["addr"] = func(seed uint64) Stream { return &addrStream{worldStream: newWorldStream("goat-test-1")} }
}

var netNames = []string{"regtest", "mainnet", "testnet3", "signet"}

func mutateStr(r *tr.Rng, s string) string {
	if len(s) < 6 {
		return s + "q"
	}
	b := []byte(s)
	switch r.Intn(5) {
	case 0:
		i := 4 + r.Intn(len(b)-4)
		if b[i] == 'q' {
			b[i] = 'p'
		} else {
			b[i] = 'q'
		}
	case 1: // upper-case everything (bech32 allows all-upper, base58 does not)
		for i := range b {
			if b[i] >= 'a' && b[i] <= 'z' {
				b[i] -= 32
			}
		}
	case 2: // mixed case
		i := 4 + r.Intn(len(b)-4)
		if b[i] >= 'a' && b[i] <= 'z' {
			b[i] -= 32
		}
	case 3:
		b = b[:len(b)-1-r.Intn(3)]
	case 4:
		b = append(b, b[len(b)-1])
	}
	return string(b)
}

func (s *addrStream) Gen(r *tr.Rng) *tr.Op {
	if len(s.q) > 0 {
		return s.pop()
	}
	s.k++
	switch c := r.Intn(100); {
	case c < 40: // deposit address builder vs verifier
		net := netNames[r.Intn(4)]
		k1 := keys.NewBtcKey(r, tr.Pick(r, "0", "0", "1"))
		k2 := keys.NewBtcKey(r, tr.Pick(r, "0", "1"))
		evm, evm2 := r.Bytes(20), r.Bytes(20)
		magic := []byte(tr.Pick(r, "GTT0", "GTV1", "ABCD"))
		version := r.Intn(2)
		cls := fmt.Sprintf("deposit/v%d-k%s", version, k1.Kind)
		key1 := k1.Pub
		switch r.Intn(14) {
		case 0:
			evm, cls = r.Bytes(tr.Pick(r, 0, 19, 21)), cls+"/bad-evm-length"
		case 1:
			magic, cls = magic[:3], cls+"/bad-magic-length"
		case 2:
			key1, cls = key1[:len(key1)-1], cls+"/bad-key-length"
		case 3:
			if k1.Kind == "0" {
				key1 = append([]byte{4}, key1[1:]...)
				cls += "/bad-key-prefix"
			}
		case 4:
			if k1.Kind == "1" { // x coordinate not on the curve
				key1 = make([]byte, 32)
				key1[31] = 5
				cls += "/schnorr-not-on-curve"
			}
		case 5:
			k2, cls = k1, cls+"/same-key-as-other"
		}
		for _, k := range [][2][]byte{{key1, evm}, {key1, evm2}, {k2.Pub, evm}} {
			s.oracle("h160", "in", tr.Hex(k[0]), "out", tr.Hex(goatcrypto.Hash160Sum(k[0])))
			if len(k[0]) == 32 {
				if tw := keys.Tweak(k[0], k[1]); tw != nil {
					s.oracle("tweak", "in", tr.Hex(append(append([]byte{}, k[0]...), k[1]...)), "out", tr.Hex(tw))
				}
			}
		}
		// a mutated copy of the handed-out script (witness version, push length, a program byte, the last byte) must
		// never verify: the verifier accepts exactly the handed-out script and no other
		mutpos := tr.Pick(r, 0, 0, 0, 1, 2, 17, 33, 21)
		mutval := tr.Pick(r, 0x00, 0x51, 0x52, 0x60, 0x20, 0x14, 0xff, 0x6a)
		cls += fmt.Sprintf("/mut@%d", mutpos)
		s.push(tr.NewOp(cls, "addr.deposit", "net", net, "version", version, "kind", k1.Kind, "key", tr.Hex(key1), "kind2", k2.Kind, "key2", tr.Hex(k2.Pub),
			"evm", tr.Hex(evm), "evm2", tr.Hex(evm2), "magic", tr.Hex(magic), "mutpos", mutpos, "mutval", mutval))
		// cross probes: each verifier is offered what the node hands out (or would plausibly hand out) for the OTHER
		// combinations of key type and version; it must accept none of them
		if string(key1) == string(k1.Pub) && len(evm) == 20 && len(magic) == 4 && r.Chance(60) {
			sys := append([]byte{0x00, 0x14}, goatcrypto.Hash160Sum(k1.Pub)...)
			if k1.Kind == "1" {
				sys = append([]byte{0x51, 0x20}, keys.TweakNoScript(k1.Pub)...)
			}
			data := append(append([]byte{0x6a, 0x18}, magic...), evm...)
			var v0 []byte
			if a, err := bitcointypes.DepositAddressV0(k1.PublicKey(), evm, bitcointypes.BitcoinNetworks[net]); err == nil {
				if dec, err := btcutil.DecodeAddress(a.EncodeAddress(), bitcointypes.BitcoinNetworks[net]); err == nil {
					v0 = dec.ScriptAddress()
					if k1.Kind == "1" {
						v0 = append([]byte{0x51, 0x20}, v0...)
					} else {
						v0 = append([]byte{0x00, 0x20}, v0...)
					}
				}
			}
			probe := func(c string, ver int, o0, o1 []byte) {
				s.push(tr.NewOp("verify/k"+k1.Kind+"/"+c, "addr.verify", "version", ver, "kind", k1.Kind, "key", tr.Hex(k1.Pub), "evm", tr.Hex(evm), "magic", tr.Hex(magic),
					"out0", tr.Hex(o0), "out1", tr.Hex(o1)))
			}
			probe("v1-on-key-path-output+data", 1, sys, data) // the version-1 shape: accepted for ECDSA keys only
			probe("v0-on-key-path-output", 0, sys, nil)        // the relayer's own change script is not a deposit script
			if v0 != nil {
				probe("v1-on-v0-script+data", 1, v0, data)
				probe("v0-on-v0-script", 0, v0, nil)
			}
		}
	case c < 85: // withdrawal address decoding
		net := netNames[r.Intn(4)]
		from := net
		cls := "decode/"
		if r.Chance(25) {
			from = netNames[r.Intn(4)]
		}
		params := bitcointypes.BitcoinNetworks[from]
		var a btcutil.Address
		var str string
		switch r.Intn(11) {
		case 8: // segwit strings of every witness version and program length, with either checksum (bech32 / bech32m)
			ver := byte(tr.Pick(r, 0, 1, 1, 2, 16, 17))
			plen := tr.Pick(r, 20, 20, 32, 2, 40, 41, 1, 21)
			conv, _ := bech32.ConvertBits(r.Bytes(plen), 8, 5, true)
			data := append([]byte{ver}, conv...)
			if r.Bool() {
				str, _ = bech32.EncodeM(params.Bech32HRPSegwit, data)
			} else {
				str, _ = bech32.Encode(params.Bech32HRPSegwit, data)
			}
			cls += fmt.Sprintf("segwit-v%d-len%d", ver, plen)
		case 9: // the simnet prefix (registered in btcd, not a network of the bridge), odd prefixes
			conv, _ := bech32.ConvertBits(r.Bytes(20), 8, 5, true)
			str, _ = bech32.Encode(tr.Pick(r, "sb", "BC", "bc1", "tb"), append([]byte{0}, conv...))
			cls += "segwit-other-prefix"
		case 10: // bytes that are not ASCII / not UTF-8 / control characters inside an otherwise valid address
			a0, _ := btcutil.NewAddressWitnessPubKeyHash(r.Bytes(20), params)
			b := []byte(a0.EncodeAddress())
			b[4+r.Intn(len(b)-4)] = byte(tr.Pick(r, 0xc3, 0xff, 0x00, 0x7f, 0x20))
			str = string(b)
			cls += "non-ascii"
		case 0, 1:
			a, _ = btcutil.NewAddressWitnessPubKeyHash(r.Bytes(20), params)
			cls += "p2wpkh"
		case 2:
			a, _ = btcutil.NewAddressWitnessScriptHash(r.Bytes(32), params)
			cls += "p2wsh"
		case 3:
			a, _ = btcutil.NewAddressTaproot(r.Bytes(32), params)
			cls += "p2tr"
		case 4:
			a, _ = btcutil.NewAddressPubKeyHash(r.Bytes(20), params)
			cls += "p2pkh"
		case 5:
			a, _ = btcutil.NewAddressScriptHashFromHash(r.Bytes(20), params)
			cls += "p2sh"
		case 6:
			k := keys.NewBtcKey(r, "0")
			str = fmt.Sprintf("%x", k.Pub)
			if r.Bool() {
				str = fmt.Sprintf("%x", k.Priv.PubKey().SerializeUncompressed())
			}
			cls += "p2pk-hex"
		case 7:
			str = tr.Pick(r, "", "x", "bc1", "bcrt1q", "tb1qqqqqqqqqqqqqqqqqqqqqqqqqqqqqqqqqqqqq", "3", "1111111111111111111114oLvT2")
			cls += "garbage"
		}
		if a != nil {
			str = a.EncodeAddress()
		}
		if from != net {
			cls += "/from-" + from + "-on-" + net
		}
		if r.Chance(25) {
			str = mutateStr(r, str)
			cls += "/mutated"
		}
		out := "x"
		if sc := decodeOracle(str, bitcointypes.BitcoinNetworks[net]); sc != nil {
			out = tr.Hex(sc)
		}
		_ = chaincfg.MainNetParams
		s.known = map[string]bool{} // the decode oracle is per network: always restate
		s.oracle("decode", "in", tr.Hex([]byte(str)), "out", out)
		s.push(tr.NewOp(cls, "addr.decode", "net", net, "str", tr.Hex([]byte(str))))
	case c < 92:
		s.push(lockParamsOp(r))
	default: // genesis validation of the bridge parameters on a boundary grid
		g := []uint64{0, 1, 999, 1000, 1001, 9999, 10000, 10001, 100000000, 100000001, 1<<64 - 1}
		net := tr.Pick(r, "regtest", "regtest", "mainnet", "nonet")
		magic := []byte("GTT0")
		if r.Chance(10) {
			magic = magic[:r.Intn(4)]
		}
		s.push(tr.NewOp("validateparams", "btc.validateparams", "net", net, "conf", tr.Pick(r, uint64(0), 1, 6), "min", g[r.Intn(len(g))],
			"magic", tr.Hex(magic), "rate", g[r.Intn(len(g))], "max", g[r.Intn(len(g))]))
	}
	return s.pop()
}

// lockParamsOp: genesis validation of the locking parameters — every bound at, below and above its limit
func lockParamsOp(r *tr.Rng) *tr.Op {
	one := int64(1e18)
	p := map[string]any{"unlock": int64(604800e9), "exit": int64(1814400e9), "jail": int64(10800e9), "maxvals": int64(21), "window": int64(1200),
		"maxmissed": int64(200), "slashds": int64(5e16), "slashdt": int64(2e16), "halving": int64(42048000), "reward": int64(2378234400000000000)}
	cls := "lockparams/valid"
	for k := r.Intn(3); k > 0; k-- { // up to two fields off their defaults
		switch r.Intn(11) {
		case 0:
			p["maxvals"], cls = tr.Pick(r, int64(0), 1, 100, 101, -1), cls+"/maxvals"
		case 1:
			p["maxmissed"], cls = tr.Pick(r, int64(0), 1, 1199, 1200, 1201, -1), cls+"/maxmissed"
		case 2:
			p["window"], cls = tr.Pick(r, int64(0), 1, 200, 201, -5), cls+"/window"
		case 3:
			p["slashds"], cls = tr.Pick(r, int64(0), 1, one-1, one, one+1, -1, -one/2), cls+"/slashds"
		case 4:
			p["slashdt"], cls = tr.Pick(r, int64(0), 1, one-1, one, one+1, -1, -one/2), cls+"/slashdt"
		case 5:
			p["jail"], cls = tr.Pick(r, int64(0), 60e9-1, 60e9, 60e9+1, -1), cls+"/jail"
		case 6:
			p["exit"], cls = tr.Pick(r, int64(604800e9-1), 604800e9, 604800e9+1, 0), cls+"/exit"
		case 7:
			p["unlock"], cls = tr.Pick(r, int64(1814400e9-1), 1814400e9, 1814400e9+1, 0, -1), cls+"/unlock"
		case 8:
			p["reward"], cls = tr.Pick(r, int64(0), 1, 2, -1), cls+"/reward"
		case 9:
			p["halving"], cls = tr.Pick(r, int64(0), 1, 2, -1), cls+"/halving"
		case 10: // both fractions negative / one of each sign
			p["slashds"], p["slashdt"], cls = tr.Pick(r, -one/2, -1, int64(5e16)), tr.Pick(r, -one/2, -1, int64(2e16)), cls+"/fractions-signs"
		}
	}
	return tr.NewOp(cls, "lock.validateparams", "unlock", p["unlock"], "exit", p["exit"], "jail", p["jail"], "maxvals", p["maxvals"], "window", p["window"],
		"maxmissed", p["maxmissed"], "slashds", p["slashds"], "slashdt", p["slashdt"], "halving", p["halving"], "reward", p["reward"])
}
