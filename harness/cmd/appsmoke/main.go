// appsmoke — smoke test of package appsim: boots the real GOAT app against the fake engine and
// walks through the main driving paths. Prints PASS/FAIL lines; exit code 1 if anything failed.
package main

import (
	"bytes"
	"flag"
	"fmt"
	"math/big"
	"os"
	"runtime"
	"time"

	sdk "github.com/cosmos/cosmos-sdk/types"
	"github.com/ethereum/go-ethereum/beacon/engine"
	"github.com/ethereum/go-ethereum/common"
	"github.com/ethereum/go-ethereum/core/types/goattypes"
	bitcointypes "github.com/goatnetwork/goat/x/bitcoin/types"
	relayertypes "github.com/goatnetwork/goat/x/relayer/types"

	"verif/harness/internal/appsim"
)

var failed bool

func check(name string, ok bool, format string, args ...any) bool {
	if ok {
		fmt.Printf("PASS %s\n", name)
	} else {
		failed = true
		fmt.Printf("FAIL %s: %s\n", name, fmt.Sprintf(format, args...))
	}
	return ok
}

func must(name string, err error) {
	if err != nil {
		fmt.Printf("FAIL %s: %v\n", name, err)
		os.Exit(1)
	}
}

func allOK(br *appsim.BlockResult) (bool, string) {
	for i, r := range br.TxResults {
		if r.Code != 0 {
			return false, fmt.Sprintf("tx %d code %d: %s", i, r.Code, r.Log)
		}
	}
	return len(br.TxResults) > 0, "no txs"
}

func main() {
	nFast := flag.Int("n", 300, "number of blocks for the fast-path throughput step")
	prune := flag.Bool("prune", false, "use pruning=everything")
	flag.Parse()
	t0 := time.Now()
	cfg := appsim.Config{Seed: 7, NumVoters: 3, NumValidators: 2, PruneEverything: *prune}
	s, err := appsim.New(cfg)
	must("boot", err)
	defer s.Close()
	check("boot", s.Height == 0 && len(s.CurSet) == 2, "height %d set %d", s.Height, len(s.CurSet))
	fmt.Printf("     boot took %v\n", time.Since(t0))

	// ---- 1. five empty blocks through the real PrepareProposal handler
	for i := 0; i < 5; i++ {
		br, err := s.NextBlock(nil)
		must("empty block", err)
		ok, why := allOK(br)
		if !check(fmt.Sprintf("empty block %d", br.Height), ok && len(br.Txs) == 1, "%s", why) {
			break
		}
	}
	blk, _, err := s.EthHead()
	must("eth head", err)
	check("eth head advanced", blk.BlockNumber == 5 && s.Height == 5, "eth %d cmt %d", blk.BlockNumber, s.Height)
	head, safe, fin := s.Engine.Forkchoice()
	check("engine forkchoice", head == common.BytesToHash(blk.BlockHash) && safe == common.BytesToHash(blk.ParentHash) && fin == safe,
		"head %x safe %x", head[:4], safe[:4])

	// ---- 2. MsgNewBlockHashes with a full-quorum vote via CheckTx + NextBlock
	tip0, err := s.App.BitcoinKeeper.BlockTip.Peek(s.ReadCtx())
	must("tip", err)
	prop, err := s.CurrentProposer()
	must("proposer", err)
	msg := &bitcointypes.MsgNewBlockHashes{
		Proposer:         prop.AddrStr,
		StartBlockNumber: tip0 + 1,
		BlockHash:        [][]byte{appsim.BtcBlockHash(cfg.Seed, tip0+1), appsim.BtcBlockHash(cfg.Seed, tip0+2)},
	}
	msg.Vote, err = s.FullVote(msg)
	must("vote", err)
	tx, err := s.SignTx(prop.AccPriv, []sdk.Msg{msg}, appsim.TxOpts{})
	must("sign", err)
	code, log := s.CheckTx(tx)
	check("CheckTx MsgNewBlockHashes", code == 0, "code %d: %s", code, log)
	br, err := s.NextBlock(nil)
	must("block with relayer tx", err)
	ok, why := allOK(br)
	check("MsgNewBlockHashes executed", ok && len(br.Txs) == 2 && bytes.Equal(br.Txs[1], tx), "%s (txs=%d)", why, len(br.Txs))
	tip1, _ := s.App.BitcoinKeeper.BlockTip.Peek(s.ReadCtx())
	check("bitcoin BlockTip advanced", tip1 == tip0+2, "tip %d -> %d", tip0, tip1)
	_, seq, _ := s.RelayerState()
	check("relayer sequence bumped", seq == 1, "seq %d", seq)

	// a vote below quorum (proposer only, threshold = ceil(4*2/3) = 3) must fail
	msg2 := &bitcointypes.MsgNewBlockHashes{Proposer: prop.AddrStr, StartBlockNumber: tip1 + 1, BlockHash: [][]byte{appsim.BtcBlockHash(cfg.Seed, tip1+1)}}
	msg2.Vote, err = s.MakeVote(msg2, nil)
	must("vote2", err)
	tx2, err := s.SignTx(prop.AccPriv, []sdk.Msg{msg2}, appsim.TxOpts{})
	must("sign2", err)
	// CheckTx only runs the ante handler (signature, proposer, allow-list), not the message: the tx
	// is admitted, selected by PrepareProposal, and fails in FinalizeBlock
	code, _ = s.CheckTx(tx2)
	check("CheckTx admits sub-quorum vote (ante only)", code == 0, "code %d", code)

	// the next two blocks must carry the bitcoin-hash system txs (one per block)
	s.Engine.ResetCalls()
	br, err = s.NextBlock(nil)
	must("block with goat tx", err)
	pl, err := s.DecodeEthBlockTx(br.Txs[0])
	must("decode", err)
	check("goat system tx in payload", br.TxResults[0].Code == 0 && len(pl.Payload.Transactions) == 1 && pl.Payload.ExtraData[0] == 1,
		"code %d txs=%d", br.TxResults[0].Code, len(pl.Payload.Transactions))
	check("sub-quorum vote fails in FinalizeBlock", len(br.Txs) == 2 && br.TxResults[1].Code != 0, "txs %d", len(br.Txs))
	_, seq, _ = s.RelayerState()
	tip2, _ := s.App.BitcoinKeeper.BlockTip.Peek(s.ReadCtx())
	check("failed relayer tx left no trace", seq == 1 && tip2 == tip1, "seq %d tip %d", seq, tip2)
	var sawAttrs bool
	for _, c := range s.Engine.Calls() {
		if c.Method == appsim.MethodFCU && c.Attrs != nil && len(c.Attrs.GoatTxs) == 1 {
			sawAttrs = true
		}
	}
	check("engine saw GoatTxs in payload attributes", sawAttrs, "calls: %v", s.Engine.Calls())

	// ---- 3. scripted locking requests from the execution layer: Grant + Lock for validator 0
	pool0, _ := s.App.LockingKeeper.RewardPool.Get(s.ReadCtx())
	lockAmt := new(big.Int).Mul(big.NewInt(50), big.NewInt(1e18))
	s.Engine.SetNextRequests(goattypes.BridgeRequests{}, goattypes.RelayerRequests{}, goattypes.LockingRequests{
		Grants: []*goattypes.GrantRequest{{Amount: big.NewInt(1_000_000)}},
		Locks: []*goattypes.LockRequest{{
			Validator: common.BytesToAddress(s.Validators[0].ConsAddr), Token: goattypes.GoatTokenContract, Amount: lockAmt,
		}},
	})
	br, err = s.NextBlock(nil)
	must("block with locking requests", err)
	ok, why = allOK(br)
	check("locking requests executed", ok, "%s", why)
	v0, err := s.App.LockingKeeper.Validators.Get(s.ReadCtx(), s.Validators[0].ConsAddr)
	must("validator 0", err)
	check("lock applied to validator 0", v0.Power == 150 && v0.Locking.AmountOf("goat").BigInt().Cmp(new(big.Int).Mul(big.NewInt(150), big.NewInt(1e18))) == 0,
		"power %d locking %s", v0.Power, v0.Locking)
	check("validator update emitted", len(br.ValidatorUpdates) == 1 && br.ValidatorUpdates[0].Power == 150, "updates %v", br.ValidatorUpdates)
	pool1, _ := s.App.LockingKeeper.RewardPool.Get(s.ReadCtx())
	// grant of 1e6 goes to Remain, then min(blockReward, remain) = all of it moves to Goat
	check("grant applied to reward pool", pool1.Goat.Sub(pool0.Goat).Add(pool1.Remain.Sub(pool0.Remain)).Int64() == 1_000_000,
		"pool %v -> %v", pool0, pool1)
	// the CometBFT-side set reflects the update two heights later
	check("tracked validator set (+2 delay)", s.NextSet[string(s.Validators[0].ConsAddr)].Power == 150 && s.CurSet[string(s.Validators[0].ConsAddr)].Power == 100,
		"cur %d next %d", s.CurSet[string(s.Validators[0].ConsAddr)].Power, s.NextSet[string(s.Validators[0].ConsAddr)].Power)

	// ---- 3b. two relayer txs of the same signer in one block (low-level vote API, check-state sequence),
	// the second one injected without CheckTx
	{
		rel, rseq, err := s.RelayerState()
		must("relayer state", err)
		signers := []int{s.RelayerKeyIndex(rel.Proposer)}
		var positions []int
		for i, v := range rel.Voters {
			signers = append(signers, s.RelayerKeyIndex(v))
			positions = append(positions, i)
		}
		tip, _ := s.App.BitcoinKeeper.BlockTip.Peek(s.ReadCtx())
		var raws [][]byte
		for k := uint64(0); k < 2; k++ {
			m := &bitcointypes.MsgNewBlockHashes{Proposer: rel.Proposer, StartBlockNumber: tip + 1 + k, BlockHash: [][]byte{appsim.BtcBlockHash(cfg.Seed, tip+1+k)}}
			sig, err := s.SignVote(m, signers, rseq+k, rel.Epoch, s.ChainID)
			must("SignVote", err)
			m.Vote = &relayertypes.Votes{Sequence: rseq + k, Epoch: rel.Epoch, Voters: appsim.VoterBitmap(positions), Signature: sig}
			// the 2nd tx takes its account sequence from the CheckTx state (bumped by the 1st CheckTx)
			raw, err := s.SignTx(prop.AccPriv, []sdk.Msg{m}, appsim.TxOpts{UseCheckState: k == 1})
			must("SignTx", err)
			raws = append(raws, raw)
			if k == 0 {
				code, log = s.CheckTx(raw)
				check("CheckTx first queued tx", code == 0, "code %d %s", code, log)
			}
		}
		br, err = s.NextBlock([][]byte{raws[1]})
		must("block with two relayer txs", err)
		ok, why = allOK(br)
		tipN, _ := s.App.BitcoinKeeper.BlockTip.Peek(s.ReadCtx())
		check("two relayer txs in one block", ok && len(br.Txs) == 3 && tipN == tip+2, "%s txs=%d tip %d->%d", why, len(br.Txs), tip, tipN)
	}

	// ---- 3c. Strict engine: a payload the engine did not build is INVALID for the execution layer
	{
		s.Engine.Strict = true
		good, err := s.BuildPayload(0)
		must("BuildPayload", err)
		forged := *good
		forged.BlockHash = bytes.Repeat([]byte{7}, 32)
		ftx, err := s.BuildEthBlockTx(s.Validators[0], &forged, uint64(s.Height+1), nil)
		must("forged tx", err)
		acc, _ := s.Process(s.ProposerAddr(0), [][]byte{ftx})
		check("strict engine rejects forged block hash", !acc, "accepted")
		gtx, err := s.BuildEthBlockTx(s.Validators[0], good, uint64(s.Height+1), nil)
		must("good tx", err)
		acc, _ = s.Process(s.ProposerAddr(0), [][]byte{gtx})
		check("strict engine accepts its own payload", acc, "rejected: %s", s.RejectReason())
		s.Engine.Strict = false
	}

	// ---- 4. engine fault injection: NewPayload INVALID during ProcessProposal -> reject
	txs, err := s.Prepare(s.ProposerAddr(0), nil)
	must("prepare", err)
	s.Engine.InjectFault(appsim.Fault{Method: appsim.MethodNewPayload, Status: engine.INVALID, ValidationError: "scripted"})
	acc, err := s.Process(s.ProposerAddr(0), txs)
	must("process", err)
	check("ProcessProposal rejects on INVALID payload", !acc, "accepted; reason %q", s.RejectReason())
	acc, err = s.Process(s.ProposerAddr(0), txs)
	must("process", err)
	check("ProcessProposal accepts once the fault is consumed", acc, "reason %q", s.RejectReason())
	// a hand-mutated payload (wrong parent) is rejected by the app itself
	bad := *pl.Payload
	bad.ParentHash = bytes.Repeat([]byte{9}, 32)
	badTx, err := s.BuildEthBlockTx(s.Validators[0], &bad, uint64(s.Height+1), nil)
	must("bad tx", err)
	acc, _ = s.Process(s.ProposerAddr(0), [][]byte{badTx})
	check("ProcessProposal rejects mutated payload", !acc, "accepted")
	// prepare failure is reported
	s.Engine.InjectFault(appsim.Fault{Method: appsim.MethodFCU, NilPayloadID: true})
	_, err = s.Prepare(s.ProposerAddr(0), nil)
	check("Prepare reports handler failure", err != nil, "no error")
	_, err = s.NextBlock(nil)
	must("block after faults", err)

	// ---- 5. restart over the same DB
	hBefore := s.Height
	must("restart", s.Restart())
	br, err = s.NextBlock(nil)
	must("block after restart", err)
	ok, why = allOK(br)
	check("block after Restart", ok && br.Height == hBefore+1, "%s height %d", why, br.Height)

	// failed FinalizeBlock (engine error in EndBlock) -> dirty -> restart -> continue
	txs, err = s.BuildProposal(0, nil)
	must("build", err)
	s.Engine.InjectFault(appsim.Fault{Method: appsim.MethodFCU, Match: func(c *appsim.Call) bool { return c.Attrs == nil }, Status: engine.INVALID})
	_, err = s.Finalize(s.ProposerAddr(0), txs, nil, nil)
	check("FinalizeBlock fails on INVALID forkchoice", err != nil && s.Dirty, "err %v", err)
	must("restart2", s.Restart())
	br, err = s.NextBlockFast(nil)
	must("block after failed finalize", err)
	ok, why = allOK(br)
	check("block after failed FinalizeBlock + Restart", ok && br.Height == hBefore+2, "%s height %d", why, br.Height)

	// ---- 6. fast path throughput, with a different proposer
	s.Proposer = 1
	s.SkipProcess = true
	t1 := time.Now()
	n := *nFast
	for i := 0; i < n; i++ {
		br, err = s.NextBlockFast(nil)
		must("fast block", err)
		if ok, why := allOK(br); !ok {
			check("fast block", false, "%s", why)
			break
		}
	}
	d := time.Since(t1)
	check("fast path", true, "")
	var ms runtime.MemStats
	runtime.GC()
	runtime.ReadMemStats(&ms)
	fmt.Printf("     %d fast blocks in %v (%.0f blocks/min), live heap %d MiB\n", n, d, float64(n)/d.Minutes(), ms.HeapAlloc>>20)
	s.Proposer, s.SkipProcess = 0, false

	// ---- 7. export and re-import on a fresh DB
	exp, err := s.Export()
	must("export", err)
	check("export", exp.Height == s.Height+1 && len(exp.Validators) == 2, "height %d vals %d", exp.Height, len(exp.Validators))
	cfg2 := cfg
	cfg2.ChainID = "goat-appsim-2"
	cfg2.GenesisTime = s.Time
	// faithful re-genesis (initial_height = exported height): the real app cannot finalize its first
	// block because x/locking DistributeReward treats "height < 2" as the only commit-less block
	sx, err := appsim.NewFromExport(cfg2, exp, s.Engine)
	must("NewFromExport(initial height = export height)", err)
	_, err = sx.NextBlockFast(nil)
	check("KNOWN FINDING reproduced: first block after export with initial_height>=2 fails (invalid zero power)",
		err != nil && sx.Dirty, "err %v", err)
	fmt.Printf("     error: %v\n", err)
	sx.Close()
	cfg2.InitialHeight = 1
	s2, err := appsim.NewFromExport(cfg2, exp, s.Engine)
	must("NewFromExport", err)
	defer s2.Close()
	br, err = s2.NextBlock(nil)
	must("block on new chain", err)
	ok, why = allOK(br)
	check("block on exported chain (real prepare)", ok && br.Height == 1, "%s height %d", why, br.Height)
	br, err = s2.NextBlockFast(nil)
	must("fast block on new chain", err)
	ok, why = allOK(br)
	check("block on exported chain (fast)", ok && br.Height == 2, "%s", why)
	v0b, err := s2.App.LockingKeeper.Validators.Get(s2.ReadCtx(), s2.Validators[0].ConsAddr)
	must("validator 0 on new chain", err)
	check("state carried over export", v0b.Power == 150, "power %d", v0b.Power)
	// a fresh engine works too
	s3, err := appsim.NewFromExport(cfg2, exp, nil)
	must("NewFromExport(new engine)", err)
	defer s3.Close()
	br, err = s3.NextBlock(nil)
	must("block on new chain/new engine", err)
	ok, why = allOK(br)
	check("block on exported chain with a new engine", ok, "%s", why)

	// ---- 8. determinism of the fast path
	hashes := [2][]byte{}
	for k := 0; k < 2; k++ {
		d, err := appsim.New(appsim.Config{Seed: 99, NumVoters: 2, NumValidators: 3})
		must("boot determinism", err)
		for i := 0; i < 20; i++ {
			br, err = d.NextBlockFast(nil)
			must("det block", err)
		}
		hashes[k] = br.AppHash
		d.Close()
	}
	check("fast path is deterministic", bytes.Equal(hashes[0], hashes[1]), "%x vs %x", hashes[0], hashes[1])

	fmt.Printf("total %v\n", time.Since(t0))
	if failed {
		fmt.Println("RESULT FAIL")
		os.Exit(1)
	}
	fmt.Println("RESULT PASS")
}
