// Command msgreg prints, at RUNTIME, what the GOAT application registers in its
// protobuf interface registry.  It builds the application's depinject graph the
// same way /repo/cmd/goatd/cmd/root.go does (app.AppConfig() + a logger; no
// engine client / validator key is needed for that), then prints, sorted:
//
//	msg <proto full name>        every implementation of cosmos.base.v1beta1.Msg
//	service <proto full name>    every gRPC service carrying the cosmos.msg.v1.service option
//	                             whose file belongs to a registered msg (i.e. the Msg services)
//	method <full name> <input>   every method of those services with its request type
//	iface <name>                 (with -ifaces) every registered interface name
//
// The output is consumed by /verif/factgen via `-msgs <file>`.
package main

import (
	"flag"
	"fmt"
	"os"
	"sort"
	"strings"

	"cosmossdk.io/depinject"
	"cosmossdk.io/log"
	codectypes "github.com/cosmos/cosmos-sdk/codec/types"
	sdk "github.com/cosmos/cosmos-sdk/types"
	"github.com/cosmos/gogoproto/proto"
	protov2 "google.golang.org/protobuf/proto"
	"google.golang.org/protobuf/reflect/protoreflect"

	msgv1 "cosmossdk.io/api/cosmos/msg/v1"

	"github.com/goatnetwork/goat/app"
)

func main() {
	ifaces := flag.Bool("ifaces", false, "also list every registered interface name")
	flag.Parse()

	var registry codectypes.InterfaceRegistry
	if err := depinject.Inject(
		depinject.Configs(app.AppConfig(), depinject.Supply(log.NewNopLogger())),
		&registry,
	); err != nil {
		fmt.Fprintln(os.Stderr, "msgreg: depinject:", err)
		os.Exit(1)
	}

	var lines []string

	msgs := registry.ListImplementations(sdk.MsgInterfaceProtoName)
	msgFiles := map[string]bool{}
	for _, typeURL := range msgs {
		name := strings.TrimPrefix(typeURL, "/")
		lines = append(lines, "msg "+name)
	}

	// Msg services: walk the merged file descriptor set and keep services that
	// carry the cosmos.msg.v1.service option.
	files, err := proto.MergedRegistry()
	if err != nil {
		fmt.Fprintln(os.Stderr, "msgreg: merged registry:", err)
		os.Exit(1)
	}
	for _, typeURL := range msgs {
		name := protoreflect.FullName(strings.TrimPrefix(typeURL, "/"))
		if d, err := files.FindDescriptorByName(name); err == nil {
			msgFiles[d.ParentFile().Path()] = true
		}
	}
	files.RangeFiles(func(fd protoreflect.FileDescriptor) bool {
		if !msgFiles[fd.Path()] {
			return true
		}
		svcs := fd.Services()
		for i := 0; i < svcs.Len(); i++ {
			sd := svcs.Get(i)
			if isMsgService(sd) {
				lines = append(lines, "service "+string(sd.FullName()))
				ms := sd.Methods()
				for j := 0; j < ms.Len(); j++ {
					m := ms.Get(j)
					lines = append(lines, fmt.Sprintf("method %s %s", m.FullName(), m.Input().FullName()))
				}
			}
		}
		return true
	})

	if *ifaces {
		for _, n := range registry.ListAllInterfaces() {
			lines = append(lines, "iface "+strings.TrimPrefix(n, "/"))
		}
	}

	sort.Strings(lines)
	for _, l := range lines {
		fmt.Println(l)
	}
}

// isMsgService reports whether the service carries `(cosmos.msg.v1.service) = true`
// (same test as cosmos-sdk/types/msgservice.ValidateProtoAnnotations), falling
// back to the SDK's own naming heuristic (service named "Msg").
func isMsgService(sd protoreflect.ServiceDescriptor) (ok bool) {
	defer func() {
		if recover() != nil {
			ok = sd.Name() == "Msg"
		}
	}()
	if opts := sd.Options(); opts != nil {
		if b, isBool := protov2.GetExtension(opts, msgv1.E_Service).(bool); isBool && b {
			return true
		}
	}
	return sd.Name() == "Msg"
}
