/-
  Model of the genesis export / import of the two modules that rebuild derived data:

    x/locking/module/genesis.go   ExportGenesis, InitGenesis
    x/relayer/module/genesis.go   ExportGenesis, InitGenesis
    x/relayer/types/genesis.go    GenesisState.Validate
    x/relayer/types/types.go      Voter.Validate
    x/relayer/types/params.go     Params.Validate
    x/relayer/types/pubkey.go     PublicKey.Validate, EncodePublicKey, DecodePublicKey

  The exported genesis carries *values only*: the store key of a validator is re-derived from its
  public key (`sdk.ConsAddress(pubkey.Address())`, i.e. hash160 — parameter `h160`), the store key of
  a voter record from its raw address (`AddrCodec.BytesToString` — parameter `addrOf`).  KV-store
  iteration is key order: validators by address bytes, tokens/slashed by denom, unlock queue by
  time, voter records by address string, public keys by encoded bytes.  The model state keeps
  association lists in arbitrary order, so export sorts (`sortVals`, …).

  Core Lean only.
-/
import GoatModel.Locking
import GoatModel.Relayer
namespace Goat.Genesis

/-! ## generic helpers -/

/-- a list has two equal elements (the Go code detects these with a `map[...]` "seen" set) -/
def hasDup {α} [BEq α] : List α → Bool
  | [] => false
  | x :: xs => xs.contains x || hasDup xs

/-- equality of two lists as finite sets -/
def sameSet {α} [BEq α] (a b : List α) : Bool := a.all (fun x => b.contains x) && b.all (fun x => a.contains x)

/-! ## x/locking -/
section locking
open Goat.Locking

/-- `types.GenesisState` of x/locking.  `validators` are values only (no address);
    `tokens` are `TokenGenesis{Denom, Token}`; `slashed` is an `sdk.Coins`;
    `qRewards`/`qUnlocks` are the two lists of `EthTxQueue`. -/
structure LGenesis where
  params : Params
  validators : List Validator
  tokens : List (String × Token)
  slashed : Coins
  nonce : Nat
  qRewards : List Reward
  qUnlocks : List Unlock
  pool : Pool
  unlockQueue : List (Int × List Unlock)
  deriving DecidableEq, Repr, Inhabited

/-! ### key order of the collections -/
def sortVals (l : List (Bytes × Validator)) : List (Bytes × Validator) :=
  l.mergeSort (fun a b => !bytesLt b.1 a.1)
def sortTokens (l : List (String × Token)) : List (String × Token) :=
  l.mergeSort (fun a b => !decide (b.1 < a.1))
def sortCoins (l : List (String × Int)) : List (String × Int) :=
  l.mergeSort (fun a b => !decide (b.1 < a.1))
def sortQueue (l : List (Int × List Unlock)) : List (Int × List Unlock) :=
  l.mergeSort (fun a b => decide (a.1 ≤ b.1))

/-- the `slashed` block of ExportGenesis: iterate `Slashed` in key order,
    `coins = coins.Add(sdk.NewCoin(denom, amount))` (zero amounts vanish, result sorted) -/
def exportSlashed (sl : List (String × Int)) : Coins :=
  (sortCoins sl).foldl (fun acc e => addCoin acc e.1 e.2) []

/-- ExportGenesis (x/locking): primary data only.  The derived collections `Locking`,
    `PowerRanking`, `ValidatorSet`, `Threshold` are not exported. -/
def exportGenesis (s : State) : LGenesis :=
  { params := s.params
    validators := (sortVals s.validators).map (·.2)
    tokens := sortTokens s.tokens
    slashed := exportSlashed s.slashed
    nonce := s.nonce
    qRewards := s.qRewards
    qUnlocks := s.qUnlocks
    pool := s.pool
    unlockQueue := sortQueue s.unlockQueue }

/-- ExportGenesis with its only data-dependent panic: `sdk.NewCoin` refuses a negative amount -/
def exportGenesisO (s : State) : Outcome LGenesis :=
  if s.slashed.any (fun e => e.2 < 0) then .panic "negative-coin" else .ok (exportGenesis s)

/-- the state of a fresh store after `Params.Set` -/
def emptyState (p : Params) : State :=
  { params := p, validators := [], lockingIdx := [], ranking := [], valset := [], tokens := [], threshold := [],
    slashed := [], nonce := 0, pool := { goat := 0, gas := 0, remain := 0 }, qRewards := [], qUnlocks := [],
    unlockQueue := [] }

/-- `ValidatorSet.Set(address, power)` -/
def valsetSet (s : State) (a : Bytes) (p : Nat) : State :=
  { s with valset := (s.valset.filter (·.1 != a)) ++ [(a, p)] }

/-- `Slashed.Set(denom, amount)` -/
def slashedSet (s : State) (d : String) (x : Int) : State :=
  { s with slashed := (s.slashed.filter (·.1 != d)) ++ [(d, x)] }

/-- `UnlockQueue.Set(time, unlocks)` -/
def queueSet (s : State) (t : Int) (us : List Unlock) : State :=
  { s with unlockQueue :=
      if s.unlockQueue.any (·.1 == t) then s.unlockQueue.map (fun e => if e.1 == t then (t, us) else e)
      else s.unlockQueue ++ [(t, us)] }

/-- body of the validator loop of InitGenesis; the accumulator is (store, `vs`) -/
def initValidator (h160 : Bytes → Bytes) (acc : State × List Update) (v : Validator) : State × List Update :=
  let addr := h160 v.pubkey
  let s0 := vset acc.1 addr v
  if v.status ≠ .active ∧ v.status ≠ .pending then (s0, acc.2)
  else
    let s1 := v.locking.foldl (fun s c => idxSet s c.1 addr c.2) s0
    let r : State × List Update :=
      if v.status = .active then (valsetSet s1 addr v.power, acc.2 ++ [{ pubkey := v.pubkey, power := v.power }])
      else (s1, acc.2)
    -- repaired code: a validator without power is not ranked
    (if v.power > 0 then rankSet r.1 v.power addr else r.1, r.2)

/-- body of the token loop: `Tokens.Set`, and `threshold = threshold.Add(NewCoin(denom, t))` for
    non-zero thresholds -/
def initToken (acc : State × Coins) (t : String × Token) : State × Coins :=
  (tset acc.1 t.1 t.2, if t.2.threshold ≠ 0 then addCoin acc.2 t.1 t.2.threshold else acc.2)

def initTokens (s : State) (toks : List (String × Token)) : State :=
  let r := toks.foldl initToken (s, [])
  { r.1 with threshold := r.2 }

/-- InitGenesis (x/locking) without the panic; returns the store and the validator updates `vs` -/
def initGenesisCore (h160 : Bytes → Bytes) (g : LGenesis) : State × List Update :=
  let r := g.validators.foldl (initValidator h160) (emptyState g.params, [])
  let s2 := initTokens r.1 g.tokens
  let s3 := g.slashed.foldl (fun s c => slashedSet s c.1 c.2) s2
  let s4 := { s3 with nonce := g.nonce, qRewards := g.qRewards, qUnlocks := g.qUnlocks, pool := g.pool }
  let s5 := g.unlockQueue.foldl (fun s e => queueSet s e.1 e.2) s4
  (s5, r.2)

/-- InitGenesis (x/locking).  The only data-dependent panic is `sdk.NewCoin` on a negative token
    threshold (a panic anywhere aborts InitChain, so its position in the loop is immaterial). -/
def initGenesis (h160 : Bytes → Bytes) (g : LGenesis) : Outcome (State × List Update) :=
  if g.tokens.any (fun t => t.2.threshold < 0) then .panic "negative-coin" else .ok (initGenesisCore h160 g)

/-! ### the derived collections as functions of the primary data (monitor for C18) -/

/-- status ∈ {Active, Pending} -/
def isAP (v : Validator) : Bool := v.status == .active || v.status == .pending

/-- `Locking` index determined by the validators: the holdings of the Active/Pending ones -/
def idxOf (kvs : List (Bytes × Validator)) : List ((String × Bytes) × Int) :=
  kvs.flatMap (fun e => if isAP e.2 then e.2.locking.map (fun c => ((c.1, e.1), c.2)) else [])
/-- `ValidatorSet` determined by the validators: address ↦ power of the Active ones -/
def valsetOf (kvs : List (Bytes × Validator)) : List (Bytes × Nat) :=
  (kvs.filter (fun e => e.2.status == .active)).map (fun e => (e.1, e.2.power))
/-- `PowerRanking` determined by the validators: Active/Pending with positive power -/
def rankOf (kvs : List (Bytes × Validator)) : List (Nat × Bytes) :=
  (kvs.filter (fun e => isAP e.2 && decide (e.2.power > 0))).map (fun e => (e.2.power, e.1))
/-- the non-zero token thresholds -/
def thresholdsOf (toks : List (String × Token)) : List (String × Int) :=
  (toks.filter (fun t => t.2.threshold != 0)).map (fun t => (t.1, t.2.threshold))

/-- executable form of `C18.Derived`: the four derived collections are the functions above of the
    primary data (as sets, without repeated keys; the threshold list sorted by denom) -/
def derivedOk (s : State) : Bool :=
  sameSet s.lockingIdx (idxOf s.validators) && decide ((s.lockingIdx.map (·.1)).Nodup) &&
  sameSet s.ranking (rankOf s.validators) && decide s.ranking.Nodup &&
  sameSet s.valset (valsetOf s.validators) && decide ((s.valset.map (·.1)).Nodup) &&
  decide (s.threshold.Pairwise (fun x y => x.1 < y.1)) && sameSet s.threshold (thresholdsOf s.tokens)

/-- the address oracle read off a state: the store key under which a public key is filed -/
def keyOracle (s : State) : Bytes → Bytes :=
  fun pk => ((s.validators.find? (fun e => e.2.pubkey == pk)).map (·.1)).getD []

/-- public key of the validator filed under `a` -/
def pubkeyOf (s : State) (a : Bytes) : Bytes := ((vget s a).map (·.pubkey)).getD []

/-- executable round-trip check for x/locking: re-import of the export reproduces the primary data
    exactly (up to list order) and the derived data as sets, and the initial validator updates are the
    recorded validator set. -/
def lockingRoundTripOk (h160 : Bytes → Bytes) (s : State) : Bool :=
  match initGenesis h160 (exportGenesis s) with
  | .ok (s', ups) =>
    s'.params == s.params && sameSet s'.validators s.validators && sameSet s'.tokens s.tokens &&
    sameSet s'.slashed s.slashed && s'.nonce == s.nonce && s'.pool == s.pool &&
    s'.qRewards == s.qRewards && s'.qUnlocks == s.qUnlocks && sameSet s'.unlockQueue s.unlockQueue &&
    sameSet s'.lockingIdx s.lockingIdx && sameSet s'.ranking s.ranking && sameSet s'.valset s.valset &&
    s'.threshold == s.threshold &&
    sameSet ups (s.valset.map (fun e => ({ pubkey := pubkeyOf s e.1, power := e.2 } : Update))) &&
    -- second export identical to the first
    exportGenesis s' == exportGenesis s
  | _ => false

end locking

/-! ## x/relayer -/
section relayer
open Goat.Relayer

/-- `types.PublicKey` (oneof); `invalid` stands for nil / an unknown oneof case -/
inductive GPubKey where
  | secp (k : Bytes)
  | schnorr (k : Bytes)
  | invalid
  deriving DecidableEq, Repr, Inhabited

/-- `PublicKey.Validate` -/
def GPubKey.valid : GPubKey → Bool
  | .secp k => k.length == 33 && (k.head? == some 2 || k.head? == some 3)
  | .schnorr k => k.length == 32
  | .invalid => false

/-- `EncodePublicKey` -/
def GPubKey.encode : GPubKey → Bytes
  | .secp k => 0 :: k
  | .schnorr k => 1 :: k
  | .invalid => []

/-- `DecodePublicKey` (nil ⇒ none) -/
def decodePub : Bytes → Option GPubKey
  | [] => none
  | t :: k =>
    if k.length = 33 then (if t = 0 then some (.secp k) else none)
    else if k.length = 32 then (if t = 1 then some (.schnorr k) else none)
    else none

/-- the `Relayer` item -/
structure RelayerItem where
  epoch : Nat
  proposer : String
  voters : List String
  lastElected : Int
  accepted : Bool
  deriving DecidableEq, Repr, Inhabited

/-- `types.GenesisState` of x/relayer; `relayer` is a pointer (nil ⇒ none) -/
structure RGenesis where
  params : Relayer.Params
  relayer : Option RelayerItem
  sequence : Nat
  voters : List Voter
  pubkeys : List GPubKey
  randao : Bytes
  deriving DecidableEq, Repr, Inhabited

def sortRecs (l : List (String × Voter)) : List (String × Voter) :=
  l.mergeSort (fun a b => !decide (b.1 < a.1))
def sortKeys (l : List Bytes) : List Bytes :=
  l.mergeSort (fun a b => !Locking.bytesLt b a)

/-- ExportGenesis (x/relayer).  The boarding queue is *not* exported.  Panics when a stored public
    key does not decode. -/
def exportRelayerGenesis (s : Relayer.State) : Outcome RGenesis :=
  if !(sortKeys s.pubkeys).all (fun k => (decodePub k).isSome) then .panic "invalid-public-key"
  else
    .ok { params := s.params
          relayer := some { epoch := s.epoch, proposer := s.proposer, voters := s.voters,
                            lastElected := s.lastElected, accepted := s.accepted }
          sequence := s.seq
          voters := (sortRecs s.recs).map (·.2)
          pubkeys := (sortKeys s.pubkeys).filterMap decodePub
          randao := s.randao }

/-- `Voter.Validate` (as repaired: a pending voter holds the 32-byte hash of its key) -/
def voterValidate (v : Voter) : Bool :=
  if v.status = .pending then v.voteKey.length == 32 else v.voteKey.length == 96

/-- `Params.Validate` -/
def paramsValidate (p : Relayer.Params) : Bool := p.electingPeriod != 0

/-- `GenesisState.Validate` -/
def genesisValidate (g : RGenesis) : Bool := paramsValidate g.params && g.voters.all voterValidate

/-- the loop over `genState.Relayer.Voters`; `seen` is `keySet`; the result is the class of the
    first panic -/
def checkVoters (proposer : String) (known : List String) : List String → List String → Option String
  | [], _ => none
  | v :: rest, seen =>
    if seen.contains v then some "duplicated-voter"
    else if v == proposer then some "voter-is-proposer"
    else if !known.contains v then some "missing-voter"
    else checkVoters proposer known rest (v :: seen)

/-- body of the last loop: queue by status, `Voters.Set(addr, v)` -/
def initVoter (addrOf : Bytes → String) (acc : List (String × Voter) × List String × List String) (v : Voter) :
    List (String × Voter) × List String × List String :=
  let addr := addrOf v.address
  let q : List String × List String :=
    match v.status with
    | .onBoarding => (acc.2.1 ++ [addr], acc.2.2)
    | .offBoarding => (acc.2.1, acc.2.2 ++ [addr])
    | _ => acc.2
  (Relayer.insert acc.1 addr v, q)

/-- `Pubkeys.Set(key)` on a key set -/
def keyAdd (ks : List Bytes) (k : Bytes) : List Bytes := if ks.contains k then ks else ks ++ [k]

/-- InitGenesis (x/relayer).  Every failure is a Go panic; the class names the check, in the order
    in which the Go code performs them.  `decodable` is `AddrCodec.StringToBytes(·)` succeeding. -/
def initRelayerGenesis (addrOf : Bytes → String) (decodable : String → Bool) (g : RGenesis) : Outcome Relayer.State :=
  if !paramsValidate g.params then .panic "params"
  else if !g.voters.all voterValidate then .panic "voter-validate"
  else match g.relayer with
  | none => .panic "no-relayer"
  | some r =>
    let addrs := g.voters.map (fun v => addrOf v.address)
    if hasDup addrs then .panic "duplicated-voter-record"
    else if !addrs.contains r.proposer then .panic "missing-proposer"
    else if !decodable r.proposer then .panic "proposer-address"
    else match checkVoters r.proposer addrs r.voters [] with
    | some e => .panic e
    | none =>
      if !g.pubkeys.all GPubKey.valid then .panic "public-key"
      else if g.voters.isEmpty then .panic "no-voters"
      else if hasDup (g.voters.map (·.voteKey)) then .panic "duplicated-vote-key"
      else
        let r3 := g.voters.foldl (initVoter addrOf) ([], [], [])
        .ok { params := g.params, proposer := r.proposer, voters := r.voters, epoch := r.epoch,
              lastElected := r.lastElected, accepted := r.accepted, seq := g.sequence, randao := g.randao,
              recs := r3.1, onBoarding := r3.2.1, offBoarding := r3.2.2,
              pubkeys := g.pubkeys.foldl (fun ks p => keyAdd ks p.encode) [] }

/-- the codec read off a state: the store key under which a raw address is filed -/
def addrOracle (s : Relayer.State) : Bytes → String :=
  fun a => ((s.recs.find? (fun e => e.2.address == a)).map (·.1)).getD ""

/-- the boarding queue determined by the voter records' status, in key order -/
def statusQueue (s : Relayer.State) (st : VStatus) : List String :=
  ((sortRecs s.recs).filter (fun e => e.2.status == st)).map (·.1)

/-- executable form of `C18.QueueDerived`: the boarding queue holds exactly the records with the
    corresponding status -/
def queueOk (s : Relayer.State) : Bool :=
  sameSet s.onBoarding ((s.recs.filter (fun e => e.2.status == .onBoarding)).map (·.1)) &&
  sameSet s.offBoarding ((s.recs.filter (fun e => e.2.status == .offBoarding)).map (·.1))

/-- executable round-trip check for x/relayer -/
def relayerRoundTripOk (addrOf : Bytes → String) (decodable : String → Bool) (s : Relayer.State) : Bool :=
  match exportRelayerGenesis s with
  | .ok g =>
    match initRelayerGenesis addrOf decodable g with
    | .ok s' =>
      s'.params == s.params && s'.proposer == s.proposer && s'.voters == s.voters && s'.epoch == s.epoch &&
      s'.lastElected == s.lastElected && s'.accepted == s.accepted && s'.seq == s.seq && s'.randao == s.randao &&
      sameSet s'.recs s.recs && sameSet s'.pubkeys s.pubkeys &&
      sameSet s'.onBoarding s.onBoarding && sameSet s'.offBoarding s.offBoarding &&
      exportRelayerGenesis s' == .ok g
    | _ => false
  | _ => false

end relayer

/-- **Executable C18 check** for the differential driver: re-import of the export of both modules
    succeeds and reproduces the given state — primary data exactly (up to the order of association
    lists), derived data (locking index, power ranking, validator set, threshold list, boarding queue)
    as sets, initial validator updates = recorded validator set, second export = first export.
    Store keys are re-derived with the oracles read off the state itself (`keyOracle`, `addrOracle`);
    use `lockingRoundTripOk`/`relayerRoundTripOk` directly to supply real hash160 / bech32 oracles. -/
def roundTripOk (s : Locking.State) (r : Relayer.State) : Bool :=
  lockingRoundTripOk (keyOracle s) s && relayerRoundTripOk (addrOracle r) (fun a => a != "") r

end Goat.Genesis
