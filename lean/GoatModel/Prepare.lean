/-
  PrepareProposal (x/goat/keeper/abci.go, PrepareProposalHandler): what the proposer's node builds.

  Two goroutines: one asks the execution client for the next payload on top of the recorded head (with the system
  transactions due now) and signs the execution-block message for it; the other walks the application mempool in its
  order.  A transaction that fails the proposal-time verification (`PrepareProposalVerifyTx`: the ante chain in
  prepare mode on the accumulating proposal state) is removed from the mempool and skipped; a passing one is appended;
  the walk stops as soon as `len(memTxs)+1 >= maxTxLen` (16).  The proposal is the block message followed by the
  selected transactions.
-/
import GoatModel.App
namespace Goat.Prepare
open Goat Goat.App

def maxTxLen : Nat := 16

/-- the mempool walk: `verdicts` are the outcomes of the proposal-time verification in mempool order; the result is
    (selected indices, evicted indices, how many entries were looked at) -/
def walk : List Bool → Nat → List Nat → List Nat → List Nat × List Nat × Nat
  | [], i, sel, ev => (sel.reverse, ev.reverse, i)
  | false :: vs, i, sel, ev => walk vs (i + 1) sel (i :: ev)             -- removed from the mempool, skipped
  | true :: vs, i, sel, ev =>
    if (i :: sel).length + 1 ≥ maxTxLen then ((i :: sel).reverse, ev.reverse, i + 1)   -- full: the walk stops here
    else walk vs (i + 1) (i :: sel) ev

/-- what the handler meets at one mempool entry: the transaction passes the proposal-time verification, or it fails and
    the removal from the mempool succeeds / answers `ErrTxNotFound` (tolerated) / answers another error (the handler gives
    up with that error: no proposal) -/
inductive Verdict where
  | pass | evict | notFound | removeErr
  deriving DecidableEq, Repr, Inhabited

def Verdict.isPass : Verdict → Bool
  | .pass => true
  | _ => false

/-- the walk with the removal outcomes: (selected, removed, looked at), or the removal error -/
def walkV : List Verdict → Nat → List Nat → List Nat → Outcome (List Nat × List Nat × Nat)
  | [], i, sel, ev => .ok (sel.reverse, ev.reverse, i)
  | .evict :: vs, i, sel, ev => walkV vs (i + 1) sel (i :: ev)
  | .notFound :: vs, i, sel, ev => walkV vs (i + 1) sel ev
  | .removeErr :: _, _, _, _ => .err "mempool-remove"
  | .pass :: vs, i, sel, ev =>
    if (i :: sel).length + 1 ≥ maxTxLen then .ok ((i :: sel).reverse, ev.reverse, i + 1)
    else walkV vs (i + 1) (i :: sel) ev

def select (verdicts : List Bool) : List Nat := (walk verdicts 0 [] []).1
def evicted (verdicts : List Bool) : List Nat := (walk verdicts 0 [] []).2.1

/-- the proposal as ProcessProposal will see it on the other validators: every selected transaction passed the ante chain
    on the same state, the payload is the execution client's answer `pl`, signed by the proposer itself -/
def proposal (verdicts : List Bool) (pl : Payload) (proposer : Bytes) (engineStatus : String) : Proposal :=
  let n := (select verdicts).length
  { kinds := "eth" :: List.replicate n "rel", anteOk := List.replicate (n + 1) true, payload := some pl,
    proposer := proposer, comet := proposer, reqDecodeOk := true, gasRequests := 1, engineStatus := engineStatus }

end Goat.Prepare
