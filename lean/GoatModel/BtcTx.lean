/-
  Model of btcd `wire.MsgTx.DeserializeNoWitness` followed by the "no trailing bytes" test, as used
  by VerifyDeposit / ProcessWithdrawal / ReplaceWithdrawal / NewConsolidation.
  Only what the callers look at is kept: the outputs (value as the uint64 reinterpretation of the
  int64 field, and the pkScript).
-/
import GoatModel.Prelude
namespace Goat.BtcTx

structure TxOut where
  value : Nat
  pkScript : Bytes
  deriving DecidableEq, Repr, Inhabited

def maxTxIn : Nat := 33554432 / 41 + 1
def maxTxOut : Nat := 33554432 / 9 + 1
def maxScript : Nat := 4000000

/-- canonical Bitcoin var-int (non-canonical encodings are errors) -/
def readVarInt (bs : Bytes) : Option (Nat × Bytes) :=
  match bs with
  | [] => none
  | d :: rest =>
    if d.toNat = 0xff then
      if rest.length < 8 then none
      else let v := leToNat (rest.take 8); if v < 0x100000000 then none else some (v, rest.drop 8)
    else if d.toNat = 0xfe then
      if rest.length < 4 then none
      else let v := leToNat (rest.take 4); if v < 0x10000 then none else some (v, rest.drop 4)
    else if d.toNat = 0xfd then
      if rest.length < 2 then none
      else let v := leToNat (rest.take 2); if v < 0xfd then none else some (v, rest.drop 2)
    else some (d.toNat, rest)

def readScript (bs : Bytes) : Option (Bytes × Bytes) := do
  let (n, rest) ← readVarInt bs
  if n > maxScript then none
  else if rest.length < n then none
  else some (rest.take n, rest.drop n)

def readIns : Nat → Bytes → Option Bytes
  | 0, bs => some bs
  | k + 1, bs =>
    if bs.length < 36 then none
    else match readScript (bs.drop 36) with
      | none => none
      | some (_, rest) => if rest.length < 4 then none else readIns k (rest.drop 4)

def readOuts : Nat → Bytes → List TxOut → Option (List TxOut × Bytes)
  | 0, bs, acc => some (acc.reverse, bs)
  | k + 1, bs, acc =>
    if bs.length < 8 then none
    else match readScript (bs.drop 8) with
      | none => none
      | some (sc, rest) => readOuts k rest ({ value := leToNat (bs.take 8), pkScript := sc } :: acc)

/-- `DeserializeNoWitness` + `txrd.Len() == 0`: the outputs, or none when invalid. -/
def parseNoWitness (bs : Bytes) : Option (List TxOut) := do
  if bs.length < 4 then none
  let (nin, r1) ← readVarInt (bs.drop 4)
  if nin > maxTxIn then none
  -- an input needs ≥ 41 bytes: a count that cannot fit fails with EOF (avoid a huge recursion)
  if nin * 41 > r1.length then none
  let r2 ← readIns nin r1
  let (nout, r3) ← readVarInt r2
  if nout > maxTxOut then none
  if nout * 9 > r3.length then none
  let (outs, r4) ← readOuts nout r3 []
  if r4.length ≠ 4 then none
  some outs

end Goat.BtcTx
