/-
  Top-level step function of the driver: layer-K operations (GoatModel.World) plus the application
  layer (ante guard, execution-block message, block boundaries with commit / halt semantics,
  proposal checking, state loading).
-/
import GoatModel.World
import GoatModel.Prepare
import GoatModel.Load
import GoatModel.App
import GoatModel.Genesis
import GoatModel.GenesisBtc
namespace Goat.Driver
open Goat.Wire Goat.World

structure D where
  w : W := {}
  goat : App.GState := default
  snap : Option (W × App.GState) := none     -- state at the start of the block being executed
  halting : Bool := false                    -- the harness announced that this block will not commit
  failed : Option String := none             -- first failing hook of the current block
  deriving Inhabited

/-- message names carried by a trace operation (for the ante guard) -/
def msgNamesOf (o : Op) : List String :=
  match o.kind with
  | "tx.hashes" => ["goat.bitcoin.v1.MsgNewBlockHashes"]
  | "tx.pubkey" => ["goat.bitcoin.v1.MsgNewPubkey"]
  | "tx.deposits" => ["goat.bitcoin.v1.MsgNewDeposits"]
  | "tx.process" => ["goat.bitcoin.v1.MsgProcessWithdrawal"]
  | "tx.replace" => ["goat.bitcoin.v1.MsgReplaceWithdrawal"]
  | "tx.finalize" => ["goat.bitcoin.v1.MsgFinalizeWithdrawal"]
  | "tx.approve" => ["goat.bitcoin.v1.MsgApproveCancellation"]
  | "tx.consolidate" => ["goat.bitcoin.v1.MsgNewConsolidation"]
  | "tx.newvoter" => ["goat.relayer.v1.MsgNewVoterRequest"]
  | "tx.accept" => ["goat.relayer.v1.MsgAcceptProposerRequest"]
  | "tx.ethblock" => ["goat.goat.v1.MsgNewEthBlock"]
  | _ => o.list "msgs"

/-- the ante chain as far as it is modelled: the guard, then "valid signature and account sequence"
    as facts stated by the harness -/
def ante (d : D) (o : Op) : Outcome Unit :=
  match o.get? "ante" with
  | none => .ok ()
  | some m =>
    let mode := App.Mode.ofString m
    -- the transaction's signer is the one its message names (cosmos.msg.v1.signer = proposer field)
    let msgSigner := if o.kind == "tx.ethblock" then o.str "signer" else o.str "proposer"
    if o.nat "memo" > 0 then .err "ante:memo"
    else if o.str "signerdecodes" == "0" then .err "ante:signers"
    else
    let isProp := msgSigner == d.w.rel.proposer
    match App.guard mode (o.nat "memo") (o.nat "signers") (o.nat "timeout") (o.nat "height") ((msgNamesOf o).map App.nameOf) isProp with
    | .err e => .err ("ante:" ++ e)
    | .panic e => .panic e
    | .ok () =>
      -- SetPubKey / SigVerification / IncrementSequence, as facts stated by the harness
      if o.str "signer" != msgSigner then .err "ante:signature"
      else if o.str "seqok" == "0" then .err "ante:sequence"
      else if o.str "sigok" == "0" then .err "ante:signature"
      else .ok ()

def payloadOf (o : Op) : Option App.Payload :=
  if o.str "haspayload" == "0" then none
  else some { parentHash := o.bytes "parent", feeRecipient := o.bytes "feerecip", blockNumber := o.nat "number",
              blockHash := o.bytes "hash", blobGasUsed := o.nat "blob", beaconRoot := o.bytes "beacon",
              extraData := o.bytes "extra", txs := o.list "txs", timestampInFuture := o.bool "tsfuture" }

/-- the system transactions due now, as canonical texts (and the states after popping them) -/
def dueTxs (w : W) : Outcome (Bitcoin.State × Locking.State × List String × List String) :=
  match Bitcoin.dequeue w.btc with
  | .err e => .err e
  | .panic e => .panic e
  | .ok (btc, txs) =>
    let (lk, rews, unls, n0) := Locking.dequeue w.lock
    let t1 := rews.zipIdx.map (fun (r, i) => sysTxText (.reward (n0 + i) r.id (fitLeft 20 r.recipient) r.goat r.gas))
    let t2 := unls.zipIdx.map (fun (u, i) => sysTxText (.unlock (n0 + rews.length + i) u.id (fitLeft 20 u.recipient) (fitLeft 20 u.token) u.amount))
    .ok (btc, lk, txs.map sysTxText, t1 ++ t2)

/-- MsgNewEthBlock (x/goat/keeper/tx.go) -/
def newEthBlock (d : D) (o : Op) : Outcome D :=
  let rc := relCrypto d.w.o
  let bc := btcCrypto d.w.o
  let proposer := o.bytes "proposer"
  let comet := o.bytes "comet"
  match payloadOf o with
  | none => if proposer ≠ comet then .err "proposer" else .panic "nil-payload"
  | some p =>
  match App.newEthBlockChecks d.goat proposer comet (some p) with
  | .err e => .err e
  | .panic e => .panic e
  | .ok p =>
    match dueTxs d.w with
    | .err e => .err e
    | .panic e => .panic e
    | .ok (btc1, lk1, dueB, dueL) =>
      match App.verifyDequeue p.extraData p.txs dueB dueL with
      | .err _ => .err "dequeue-mismatch"
      | .panic e => .panic e
      | .ok () =>
        if o.str "reqdecode" == "err" then .err "requests-decode"
        else
          let w1 := { d.w with btc := btc1, lock := lk1 }
          match Locking.processRequests rc.hash160 (fun a => w1.accounts.contains a) w1.lock (o.int "height") (o.int "time") (lockReqs o) with
          | .err e => .err e
          | .panic e => .panic e
          | .ok (lk2, accs) =>
            match Bitcoin.processBridgeRequest bc w1.btc (bridgeReqs o) with
            | .err e => .err e
            | .panic e => .panic e
            | .ok btc2 =>
              let adds := (o.list "adds").map (fun x => let f := flds x; ({ voter := fitLeft 20 (bytesOf f[0]!), keyHash := fitLeft 32 (bytesOf f[1]!) } : Relayer.AddReq))
              let removes := (o.list "removes").map (fun x => fitLeft 20 (bytesOf x))
              let rel2 := Relayer.processRequest rc w1.rel (o.nat "height") adds removes
              .ok { d with w := { w1 with lock := lk2, btc := btc2, rel := rel2, accounts := w1.accounts ++ accs },
                           goat := { head := { blockHash := p.blockHash, blockNumber := p.blockNumber, parentHash := p.parentHash },
                                     beaconRoot := o.bytes "headerhash" } }

/-- ProcessProposal on a throw-away branch of the state -/
def processProposal (d : D) (o : Op) : Outcome Unit :=
  match dueTxs d.w with
  | .err e => .err e
  | .panic e => .panic e
  | .ok (_, _, dueB, dueL) =>
    App.processProposal d.goat dueB dueL
      { kinds := o.list "kinds", anteOk := (o.list "anteok").map (· != "0"), payload := payloadOf o,
        proposer := o.bytes "proposer", comet := o.bytes "comet", reqDecodeOk := o.str "reqdecode" != "err",
        gasRequests := (o.list "gas").length, engineStatus := o.str "newstatus" }

def res {α} (r : Outcome α) : String :=
  match r with
  | .ok _ => "ok"
  | .err e => "err ;; " ++ e
  | .panic e => "panic ;; " ++ e

/-- One transaction as baseapp runs it: the ante chain, then the message handler on a cached branch
    of the state that is written back only when the handler answers without error or panic. -/
def runTx (d : D) (o : Op) : D × String :=
  match ante d o with
  | .err e => (d, "=> err ;; " ++ e)
  | .panic e => (d, "=> panic ;; " ++ e)
  | .ok () =>
    if o.str "oog" == "1" then (d, "=> err ;; out-of-gas") -- the gas limit runs out inside the handler: the branch is dropped
    else if o.kind == "tx.ethblock" then
      match newEthBlock d o with
      | .ok d' => (d', "=> ok")
      | .err e => (d, "=> err ;; " ++ e)
      | .panic e => (d, "=> panic ;; " ++ e)
    else if o.kind == "tx.generic" then (d, "=> guard-passed")
    else ({ d with w := (txStep d.w o).1 }, (txStep d.w o).2)

/-- start of a block: the state is saved so that a block that does not commit leaves nothing behind -/
def startBlock (d : D) (halting : Bool) : D :=
  { d with snap := some (d.w, d.goat), halting := halting, failed := none }

/-- a block that does not commit: the state saved at `a.blockstart` comes back -/
def failBlock (d : D) (eng : List String) (cls : String) : D × Bool × String :=
  match d.snap with
  | some (w0, g0) => ({ d with w := w0, goat := g0, snap := none, halting := false, failed := none }, false, "=> halt eng=" ++ lst eng ++ " ;; " ++ cls)
  | none => ({ d with halting := false, failed := none }, false, "=> halt eng=" ++ lst eng ++ " ;; " ++ cls)

/-- End of a block: relayer election, engine notification (`Finalized`), validator updates.  Returns
    the new driver state, whether the block is committed, and the canonical outcome line.  A block
    that is not committed leaves exactly the state saved at `a.blockstart`. -/
def endBlock (d : D) (time : Int) (newStatus fcuStatus : String) : D × Bool × String :=
  let rc := relCrypto d.w.o
  let np := "np:" ++ toHex (fitLeft 32 d.goat.head.blockHash)
  let fcu := "fcu:" ++ toHex (fitLeft 32 d.goat.head.blockHash) ++ "/" ++ toHex (fitLeft 32 d.goat.head.parentHash) ++ "/" ++ toHex (fitLeft 32 d.goat.head.parentHash)
  let npFails := newStatus == "ERROR" || newStatus == "INVALID"
  let fail := failBlock d
  match d.failed with
  | some cls => fail [] cls
  | none =>
  match Relayer.endBlocker rc d.w.rel time with
  | .err e => fail [] e
  | .panic e => fail [] e
  | .ok rel =>
    match App.finalized newStatus fcuStatus with
    | .err e => fail (if npFails then [np] else [np, fcu]) e
    | .panic e => fail [np] e
    | .ok () =>
      match Locking.endBlocker d.w.lock with
      | .err e => fail [np, fcu] e
      | .panic e => fail [np, fcu] e
      | .ok (lk, ups) =>
        let ss := sortStr (ups.map (fun u => s!"{toHex u.pubkey}|{u.power}"))
        let (cs, cres) := match Comet.apply d.w.comet (ups.map (fun u => (u.pubkey, Comet.toInt64 u.power))) with
          | .ok cs => (cs, "comet=ok")
          | .error e => (d.w.comet, "comet=err:" ++ e)
        ({ d with w := { d.w with rel := rel, lock := lk, comet := cs }, snap := none, halting := false, failed := none }, true,
          "=> ok ups=" ++ lst ss ++ " eng=" ++ lst [np, fcu] ++ " ;; " ++ cres)

def step (d : D) (o : Op) : D × String :=
  match o.kind with
  | "reset" => ({}, "=> ok")
  | "load.rel" => ({ d with w := { d.w with rel := Load.loadRel o, chainId := o.str "chain" } }, "=> ok")
  | "load.btc" => ({ d with w := { d.w with btc := Load.loadBtc o } }, "=> ok")
  | "load.lock" => ({ d with w := { d.w with lock := Load.loadLock d.w.lock o } }, "=> ok")
  | "load.acc" => ({ d with w := { d.w with accounts := o.bytesList "accs" } }, "=> ok")
  | "load.comet" =>
    ({ d with w := { d.w with comet := (o.list "set").map (fun x => let f := flds x; (bytesOf f[0]!, natOf f[1]!)) } }, "=> ok")
  | "init.goat" =>
    ({ d with goat := { head := { blockHash := o.bytes "hash", blockNumber := o.nat "number", parentHash := o.bytes "parent" },
                        beaconRoot := o.bytes "beacon" } }, "=> ok")
  | "dump.goat" =>
    (d, s!"=> goat head={toHex d.goat.head.blockHash}|{d.goat.head.blockNumber}|{toHex d.goat.head.parentHash} beacon={toHex d.goat.beaconRoot}")
  | "a.blockstart" => (startBlock d (o.str "halt" == "1"), "=> ok")
  | "a.det" => (d, "=> ok")
  -- the real application ran one block with and without its failing last transaction and compared the module states
  -- (C19: failed_tx_changes_nothing is what the model says about it); an observation of the implementation only
  | "a.failiso" => (d, "=> ok")
  -- the application's own PrepareProposal handler built a proposal from its mempool: it always answers (the proposal
  -- itself follows as an `a.process` operation); nothing is written
  | "a.prepare" =>
    -- `got`: the number of transactions of the proposal it built (absent when the handler failed or hung): the block
    -- message plus at most 15 selected ones (GoatModel.Prepare, C08P.prepared_size)
    (d, if (o.get? "got").isNone || (decide (1 ≤ o.nat "got") && decide (o.nat "got" ≤ Prepare.maxTxLen)) then "=> ok"
        else "=> err ;; proposal-size")
  -- the mempool walk of the PrepareProposal handler on a scripted mempool (GoatModel.Prepare.walkV)
  | "a.walk" =>
    let vs := (o.list "verdicts").map (fun x => if x == "1" then Prepare.Verdict.pass else if x == "0" then .evict
                                               else if x == "n" then .notFound else .removeErr)
    (d, match Prepare.walkV vs 0 [] [] with
        | .ok (sel, ev, k) => s!"=> ok sel={lst (sel.map toString)} ev={lst (ev.map toString)} looked={k}"
        | .err e => "=> err ;; " ++ e
        | .panic e => "=> panic ;; " ++ e)
  | "a.export" =>
    -- does the locking + relayer state survive export → import (GoatModel.Genesis)?  Compared with the real
    -- application's verdict whenever that could be observed (`lrobs=1`)
    let lr := if o.str "lrobs" == "1" then (if Genesis.roundTripOk d.w.lock d.w.rel then "1" else "0") else "-"
    -- bitcoin + goat modules (GoatModel.GenesisBtc); traces written before this part of the model existed carry no `brobs`
    let br := if o.str "brobs" == "1" then (if GenesisBtc.genesisRoundTripOk d.w.rel d.w.btc d.goat then "1" else "0") else "-"
    (d, if (o.get? "brobs").isSome then s!"=> ok lr={lr} br={br}" else s!"=> ok lr={lr}")
  | "a.process" => (d, "=> " ++ res (processProposal d o))
  | "a.checktx" =>
    -- CheckTx runs the ante chain only.  Before the first commit (height 0) the check state is a branch of
    -- the still empty committed store: the guard's read of the relayer item fails (`collections: not found`),
    -- so nothing is admitted to the mempool yet.
    (d, "=> " ++ res (match ante d o with
      | .ok () => if o.nat "height" == 0 then .err "ante:not-found" else .ok ()
      | r => r))
  | "a.end" => let r := endBlock d (o.int "time") (o.str "newstatus") (o.str "fcustatus"); (r.1, r.2.2)
  | "tx.raw" => (d, if d.halting then "=> n/a" else "=> err ;; undecodable")
  | _ =>
    if o.kind.startsWith "tx." then
      let r := runTx d o
      if d.halting then (r.1, "=> n/a") else r
    else if o.kind.startsWith "hook." && d.snap.isSome then
      -- a block hook inside a block: a failure means the block is not committed
      let (w', r) := World.step d.w o
      let d' := { d with w := w' }
      let d'' := if r.startsWith "=> ok" then d' else { d' with failed := d.failed.orElse (fun _ => some ((r.drop 3).toString)) }
      if d.halting then (d'', "=> n/a") else (d'', r)
    else
      let (w', r) := World.step d.w o; ({ d with w := w' }, r)

end Goat.Driver
