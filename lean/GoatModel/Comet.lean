/-
  Model of CometBFT's validator-set update rules (types/validator_set.go: processChanges,
  verifyRemovals, verifyUpdates, "would result in empty set") — what decides whether the update list
  returned by EndBlocker / InitChain is *acceptable* to the consensus engine (C13).
  Validators are identified by their public key (the address is a hash of it).
-/
import GoatModel.Prelude
namespace Goat.Comet

def maxTotal : Nat := 1152921504606846975   -- MaxInt64 / 8

abbrev VSet := List (Bytes × Nat)

def toInt64 (p : Nat) : Int := if p % two64 < two63 then (p % two64 : Nat) else ((p % two64 : Nat) : Int) - (two64 : Int)

def total (s : VSet) : Nat := (s.map (·.2)).sum

def hasDup : List Bytes → Bool
  | [] => false
  | x :: xs => xs.contains x || hasDup xs

/-- apply an update list (pubkey, int64 power); error classes name the rule that fires -/
def apply (s : VSet) (ups : List (Bytes × Int)) : Except String VSet :=
  if ups.isEmpty then .ok s
  else if hasDup (ups.map (·.1)) then .error "duplicate"
  else if ups.any (fun u => u.2 < 0) then .error "negative"
  else if ups.any (fun u => u.2 > (maxTotal : Int)) then .error "too-high"
  else
    let dels := ups.filter (fun u => u.2 == 0)
    let upds := ups.filter (fun u => u.2 != 0)
    let numNew := (upds.filter (fun u => !(s.any (·.1 == u.1)))).length
    if numNew == 0 && s.length == dels.length then .error "empty-set"
    else if dels.any (fun d => !(s.any (·.1 == d.1))) then .error "remove-non-member"
    else
      let s1 := s.filter (fun e => !(dels.any (·.1 == e.1)))
      let s2 := s1.map (fun e => match upds.find? (·.1 == e.1) with
        | some u => (e.1, u.2.toNat)
        | none => e)
      let s3 := s2 ++ (upds.filter (fun u => !(s.any (·.1 == u.1)))).map (fun u => (u.1, u.2.toNat))
      if total s3 > maxTotal then .error "total-overflow" else .ok s3

end Goat.Comet
