/-
  GoatModel.Addr — executable model of Bitcoin address-string decoding as the Go code performs it:

      x/bitcoin/types/address.go   DecodeBtcAddress(address string, netwk *chaincfg.Params)
        → btcutil.DecodeAddress (btcutil v1.1.6, address.go)
            → chaincfg.IsBech32SegwitPrefix (btcd v0.24.2, chaincfg/params.go)
            → decodeSegWitAddress → bech32.DecodeGeneric / bech32.ConvertBits (btcutil/bech32)
            → hex.DecodeString + NewAddressPubKey (66 / 130 character strings)
            → base58.CheckDecode (btcutil/base58)
        → Address.IsForNet
        → txscript.PayToAddrScript (btcd v0.24.2, txscript/standard.go)

  Core Lean only.  A Go string is a byte sequence; every library function on the path works on the
  *bytes* of the string (`len`, indexing, `strings.LastIndexByte`), so the model's decision function
  is `decodeBytes` on `Bytes`; `decodeBtcAddress` applies it to the UTF-8 bytes of a Lean `String`.

  Validation: `decodeBytes` agrees with the real Go function on 9134 strings (kdrive `addr` traces with
  seeds 7, 11, 23 and a scratch driver aimed at the quirks below), 0 mismatches; the encoders reproduce
  every accepted lower-case string of those runs.  Theorems: GoatProofs/C17A.lean.

  Quirks of the libraries that are reproduced (each was checked against the real function):
   * the segwit branch is taken iff the LAST '1' of the string is at index > 1 and the ASCII-lowercased
     text up to and including it is one of the prefixes registered in `chaincfg` by the package's
     `init`: "bc1" (main), "tb1" (testnet3; signet shares it), "bcrt1" (regtest) and "sb1" (simnet —
     registered although it is not one of the four GOAT networks).  Once taken, every error is final
     (no fall-through to base58).
   * bech32: length ≤ 90 and ≥ 8, all bytes in 33..126, not mixed case, lower-cased, last '1' at
     index ≥ 1 with ≥ 6 characters after it, characters from the charset, checksum constant 1 (bech32)
     or 0x2bc830a3 (bech32m).
   * witness version ≤ 16, 5→8 regrouping without padding (left-over ≤ 4 bits, all zero), program
     length 2..40, version 0 ⇒ length 20 or 32 and bech32, version 1 ⇒ bech32m; `DecodeAddress` then
     demands version 0 or 1 and maps BY PROGRAM LENGTH: 20 bytes → AddressWitnessPubKeyHash **whatever
     the version** (so a version-1 / 20-byte bech32m address yields the version-0 script `00 14 prog`),
     32 bytes → taproot if version 1, else witness script hash; other lengths are errors.
   * strings of exactly 66 or 130 bytes (not taken by the segwit branch) are hex-decoded and parsed as
     a serialized public key; the outcome is an error or an `AddressPubKey`, which `DecodeBtcAddress`
     rejects ("deprecated p2pk address").  Whether the bytes are a curve point is the parameter
     `pubkeyParses`; the result does not depend on it (C17A.decode_indep_pubkeyParses).
   * base58: any byte outside the alphabet makes `base58.Decode` return the empty slice; leading '1's
     become leading zero bytes; the 4-byte double-SHA256 checksum; payload must be 20 bytes; the
     version byte must be the P2PKH id or the P2SH id OF THE GIVEN NETWORK.
   * `strings.ToLower` is modelled by ASCII lower-casing of bytes: inside bech32 decoding the string is
     already known to be ASCII; in `IsBech32SegwitPrefix` a non-ASCII rune lower-cases to a non-ASCII
     rune, or to 'k' (U+212A) or 'i' (U+0130), none of which occurs in a registered prefix, and an
     invalid byte becomes U+FFFD, so a prefix containing a byte ≥ 0x80 is never registered either way.
-/
import GoatModel.Prelude
import GoatModel.Sha256
namespace Goat.Addr

/-! ## Networks (x/bitcoin/types/network.go, chaincfg/params.go) -/

inductive Net where
  | mainnet | testnet3 | signet | regtest
  deriving DecidableEq, Repr

def Net.name : Net → String
  | .mainnet => "mainnet" | .testnet3 => "testnet3" | .signet => "signet" | .regtest => "regtest"

def Net.ofString (s : String) : Option Net :=
  if s = "mainnet" then some .mainnet
  else if s = "testnet3" then some .testnet3
  else if s = "signet" then some .signet
  else if s = "regtest" then some .regtest
  else none

/-- Bech32HRPSegwit as ASCII bytes: "bc", "tb", "tb", "bcrt". -/
def Net.hrp : Net → Bytes
  | .mainnet => [0x62, 0x63] | .testnet3 => [0x74, 0x62] | .signet => [0x74, 0x62]
  | .regtest => [0x62, 0x63, 0x72, 0x74]

def Net.hrpStr : Net → String
  | .mainnet => "bc" | .testnet3 => "tb" | .signet => "tb" | .regtest => "bcrt"

/-- PubKeyHashAddrID -/
def Net.p2pkhId : Net → UInt8
  | .mainnet => 0x00 | .testnet3 => 0x6f | .signet => 0x6f | .regtest => 0x6f

/-- ScriptHashAddrID -/
def Net.p2shId : Net → UInt8
  | .mainnet => 0x05 | .testnet3 => 0xc4 | .signet => 0xc4 | .regtest => 0xc4

/-- `hrp ++ "1"` of the networks registered by chaincfg's `init` (main, testnet3, regtest, simnet). -/
def registeredPrefixes : List Bytes :=
  [[0x62, 0x63, 0x31], [0x74, 0x62, 0x31], [0x62, 0x63, 0x72, 0x74, 0x31], [0x73, 0x62, 0x31]]

/-! ## Byte-string helpers -/

def asciiLower (b : UInt8) : UInt8 := if 65 ≤ b ∧ b ≤ 90 then b + 32 else b

def lowerBytes (bs : Bytes) : Bytes := bs.map asciiLower

/-- `strings.LastIndexByte` (`none` for -1). -/
def lastIdx (c : UInt8) : Bytes → Option Nat
  | [] => none
  | b :: rest =>
    match lastIdx c rest with
    | some i => some (i + 1)
    | none => if b = c then some 0 else none

/-- chaincfg.IsBech32SegwitPrefix -/
def isBech32SegwitPrefix (p : Bytes) : Bool := registeredPrefixes.contains (lowerBytes p)

/-! ## bech32 (btcutil/bech32/bech32.go) -/

/-- "qpzry9x8gf2tvdw0s3jn54khce6mua7l" -/
def charset : Bytes :=
  [0x71, 0x70, 0x7a, 0x72, 0x79, 0x39, 0x78, 0x38, 0x67, 0x66, 0x32, 0x74, 0x76, 0x64, 0x77, 0x30,
   0x73, 0x33, 0x6a, 0x6e, 0x35, 0x34, 0x6b, 0x68, 0x63, 0x65, 0x36, 0x6d, 0x75, 0x61, 0x37, 0x6c]

def idxOf (c : UInt8) : Bytes → Option Nat
  | [] => none
  | b :: rest => if b = c then some 0 else (idxOf c rest).map (· + 1)

/-- strings.IndexByte(charset, c) -/
def charsetIdx (c : UInt8) : Option Nat := idxOf c charset

/-- toBytes -/
def toValues : Bytes → Option (List Nat)
  | [] => some []
  | c :: rest =>
    match charsetIdx c, toValues rest with
    | some v, some vs => some (v :: vs)
    | _, _ => none

def tb (b : Bool) (g : Nat) : Nat := if b then g else 0

/-- the inner `for i := 0; i < 5; i++ { if (b>>i)&1 == 1 { chk ^= gen[i] } }` -/
def polyG (b : Nat) : Nat :=
  tb (b.testBit 0) 0x3b6a57b2 ^^^ tb (b.testBit 1) 0x26508e6d ^^^ tb (b.testBit 2) 0x1ea119fa ^^^
  tb (b.testBit 3) 0x3d4233dd ^^^ tb (b.testBit 4) 0x2a1462b3

/-- one round of bech32Polymod: `b := chk >> 25; chk = (chk&0x1ffffff)<<5 ^ v; chk ^= gen[..]` -/
def polyStep (chk v : Nat) : Nat :=
  (((chk &&& 0x1ffffff) <<< 5) ^^^ v) ^^^ polyG (chk >>> 25)

/-- the symbols fed to the polymod before the values: high bits of the hrp, 0, low bits of the hrp -/
def hrpExpand (hrp : Bytes) : List Nat :=
  hrp.map (fun c => c.toNat >>> 5) ++ [0] ++ hrp.map (fun c => c.toNat &&& 31)

/-- bech32Polymod(hrp, values, checksum) with `vs = values ++ checksum` -/
def polymod (hrp : Bytes) (vs : List Nat) : Nat :=
  (hrpExpand hrp ++ vs).foldl polyStep 1

inductive B32Version where
  | v0 | vM
  deriving DecidableEq, Repr

def B32Version.const : B32Version → Nat
  | .v0 => 1
  | .vM => 0x2bc830a3

/-- ConstsToVersion -/
def versionOfConst (p : Nat) : Option B32Version :=
  if p = 1 then some .v0 else if p = 0x2bc830a3 then some .vM else none

def isLowerB (b : UInt8) : Bool := 97 ≤ b && b ≤ 122
def isUpperB (b : UInt8) : Bool := 65 ≤ b && b ≤ 90

/-- bech32.DecodeGeneric: (lower-cased hrp, data without the checksum, checksum version). -/
def bech32Decode (bech : Bytes) : Option (Bytes × List Nat × B32Version) :=
  if bech.length > 90 then none
  else if bech.length < 8 then none
  else if !(bech.all (fun b => 33 ≤ b && b ≤ 126)) then none
  else if bech.any isLowerB && bech.any isUpperB then none
  else
    let low := lowerBytes bech
    match lastIdx 0x31 low with
    | none => none
    | some one =>
      if one < 1 ∨ one + 7 > low.length then none
      else
        let hrp := low.take one
        match toValues (low.drop (one + 1)) with
        | none => none
        | some decoded =>
          match versionOfConst (polymod hrp decoded) with
          | none => none
          | some ver => some (hrp, decoded.take (decoded.length - 6), ver)

/-! ### ConvertBits as regrouping of the most-significant-bit-first bit stream

  `bech32.ConvertBits(data, from, to, pad)` reads `from` bits of every input byte, most significant
  first, and emits groups of `to` bits; with `pad` an unfinished group is filled with zero bits, without
  `pad` an unfinished group must be at most 4 bits, all zero (else ErrInvalidIncompleteGroup).  The model
  states that directly on the bit list (validated against the Go loop through the traces). -/

def bits5 (v : Nat) : List Bool :=
  [v.testBit 4, v.testBit 3, v.testBit 2, v.testBit 1, v.testBit 0]

def bits8 (b : UInt8) : List Bool :=
  let v := b.toNat
  [v.testBit 7, v.testBit 6, v.testBit 5, v.testBit 4, v.testBit 3, v.testBit 2, v.testBit 1, v.testBit 0]

def b2n (b : Bool) : Nat := if b then 1 else 0

def val5 (a b c d e : Bool) : Nat := 16 * b2n a + 8 * b2n b + 4 * b2n c + 2 * b2n d + b2n e

def val8 (a b c d e f g h : Bool) : Nat :=
  128 * b2n a + 64 * b2n b + 32 * b2n c + 16 * b2n d + 8 * b2n e + 4 * b2n f + 2 * b2n g + b2n h

/-- full 8-bit groups and the left-over bits -/
def regroup8 : List Bool → Bytes × List Bool
  | a :: b :: c :: d :: e :: f :: g :: h :: rest =>
    let r := regroup8 rest
    (UInt8.ofNat (val8 a b c d e f g h) :: r.1, r.2)
  | rest => ([], rest)

/-- ConvertBits(data, 5, 8, false) -/
def convert5to8 (data : List Nat) : Option Bytes :=
  let r := regroup8 (data.flatMap bits5)
  if r.2.length > 4 ∨ r.2.any id then none else some r.1

/-- 5-bit groups, the last one padded with zero bits: the tail of ConvertBits(data, 8, 5, true) -/
def regroup5 : List Bool → List Nat
  | a :: b :: c :: d :: e :: rest => val5 a b c d e :: regroup5 rest
  | [a, b, c, d] => [val5 a b c d false]
  | [a, b, c] => [val5 a b c false false]
  | [a, b] => [val5 a b false false false]
  | [a] => [val5 a false false false false]
  | [] => []

/-- ConvertBits(data, 8, 5, true) -/
def convert8to5 (data : Bytes) : List Nat := regroup5 (data.flatMap bits8)

/-- btcutil.decodeSegWitAddress: (witness version, witness program). -/
def decodeSegWit (addr : Bytes) : Option (Nat × Bytes) :=
  match bech32Decode addr with
  | none => none
  | some (_, data, bver) =>
    match data with
    | [] => none
    | version :: rest =>
      if version > 16 then none
      else
        match convert5to8 rest with
        | none => none
        | some prog =>
          if prog.length < 2 ∨ prog.length > 40 then none
          else if version = 0 ∧ prog.length ≠ 20 ∧ prog.length ≠ 32 then none
          else if version = 0 ∧ bver ≠ .v0 then none
          else if version = 1 ∧ bver ≠ .vM then none
          else some (version, prog)

/-! ## base58 (btcutil/base58) -/

/-- "123456789ABCDEFGHJKLMNPQRSTUVWXYZabcdefghijkmnopqrstuvwxyz" -/
def alphabet : Bytes :=
  [0x31, 0x32, 0x33, 0x34, 0x35, 0x36, 0x37, 0x38, 0x39,
   0x41, 0x42, 0x43, 0x44, 0x45, 0x46, 0x47, 0x48, 0x4a, 0x4b, 0x4c, 0x4d, 0x4e, 0x50, 0x51, 0x52,
   0x53, 0x54, 0x55, 0x56, 0x57, 0x58, 0x59, 0x5a,
   0x61, 0x62, 0x63, 0x64, 0x65, 0x66, 0x67, 0x68, 0x69, 0x6a, 0x6b, 0x6d, 0x6e, 0x6f, 0x70, 0x71,
   0x72, 0x73, 0x74, 0x75, 0x76, 0x77, 0x78, 0x79, 0x7a]

/-- the table `b58` (`none` for 255) -/
def b58Idx (c : UInt8) : Option Nat := idxOf c alphabet

def b58Digits : Bytes → Option (List Nat)
  | [] => some []
  | c :: rest =>
    match b58Idx c, b58Digits rest with
    | some v, some vs => some (v :: vs)
    | _, _ => none

/-- little-endian base-256 digits of `x` (no trailing zero digit); `fuel ≥ x` is always enough -/
def natBytesLE : Nat → Nat → Bytes
  | 0, _ => []
  | fuel + 1, x => if x = 0 then [] else UInt8.ofNat (x % 256) :: natBytesLE fuel (x / 256)

/-- big.Int.Bytes(): minimal big-endian bytes, empty for 0 -/
def natBytesBE (x : Nat) : Bytes := (natBytesLE x x).reverse

/-- Horner evaluation, most significant digit first -/
def ofDigits (base : Nat) (ds : List Nat) : Nat := ds.foldl (fun a d => a * base + d) 0

def countLeading (c : UInt8) : Bytes → Nat
  | [] => 0
  | b :: rest => if b = c then countLeading c rest + 1 else 0

/-- base58.Decode: the empty slice on any byte outside the alphabet -/
def base58Decode (s : Bytes) : Bytes :=
  match b58Digits s with
  | none => []
  | some ds => List.replicate (countLeading 0x31 s) 0 ++ natBytesBE (ofDigits 58 ds)

/-- base58.checksum: `copy(cksum[:], h2[:4])` into a zero-initialised `[4]byte` — the first four bytes of
    SHA256(SHA256(·)); written so that the result has length 4 by construction (as the Go array type
    guarantees), independently of the SHA-256 model, which the proofs never unfold. -/
def checksum4 (bs : Bytes) : Bytes := (Goat.Sha256.dsha256 bs ++ [0, 0, 0, 0]).take 4

/-- base58.CheckDecode: (payload, version byte) -/
def checkDecode (s : Bytes) : Option (Bytes × UInt8) :=
  let decoded := base58Decode s
  if decoded.length < 5 then none
  else
    match decoded with
    | [] => none
    | version :: _ =>
      let body := decoded.take (decoded.length - 4)
      if checksum4 body = decoded.drop (decoded.length - 4) then some (body.drop 1, version)
      else none

/-! ## btcutil.Address, DecodeAddress, IsForNet, PayToAddrScript -/

inductive Address where
  | pubKeyHash (hash : Bytes) (netID : UInt8)
  | scriptHash (hash : Bytes) (netID : UInt8)
  | pubKey (serialized : Bytes) (pubKeyHashID : UInt8)
  | witnessPubKeyHash (hrp : Bytes) (prog : Bytes)
  | witnessScriptHash (hrp : Bytes) (prog : Bytes)
  | taproot (hrp : Bytes) (prog : Bytes)
  deriving DecidableEq, Repr

def hexNibble (c : UInt8) : Option Nat :=
  if 48 ≤ c ∧ c ≤ 57 then some (c.toNat - 48)
  else if 97 ≤ c ∧ c ≤ 102 then some (c.toNat - 87)
  else if 65 ≤ c ∧ c ≤ 70 then some (c.toNat - 55)
  else none

/-- encoding/hex.DecodeString -/
def hexDecode : Bytes → Option Bytes
  | [] => some []
  | [_] => none
  | a :: b :: rest =>
    match hexNibble a, hexNibble b, hexDecode rest with
    | some x, some y, some bs => some (UInt8.ofNat (x * 16 + y) :: bs)
    | _, _, _ => none

/-- the segwit branch of DecodeAddress; outer `none`: branch not taken; `some none`: taken, error -/
def segwitBranch (addr : Bytes) : Option (Option Address) :=
  match lastIdx 0x31 addr with
  | none => none
  | some oneIndex =>
    if oneIndex > 1 then
      let pfx := addr.take (oneIndex + 1)
      if isBech32SegwitPrefix pfx then
        some (
          match decodeSegWit addr with
          | none => none
          | some (ver, prog) =>
            if ver ≠ 0 ∧ ver ≠ 1 then none
            else
              let hrp := lowerBytes (pfx.take (pfx.length - 1))
              if prog.length = 20 then some (.witnessPubKeyHash hrp prog)
              else if prog.length = 32 then
                if ver = 1 then some (.taproot hrp prog) else some (.witnessScriptHash hrp prog)
              else none)
      else none
    else none

/-- btcutil.DecodeAddress(addr, defaultNet) -/
def decodeAddress (pubkeyParses : Bytes → Bool) (net : Net) (addr : Bytes) : Option Address :=
  match segwitBranch addr with
  | some r => r
  | none =>
    if addr.length = 130 ∨ addr.length = 66 then
      match hexDecode addr with
      | none => none
      | some ser => if pubkeyParses ser then some (.pubKey ser net.p2pkhId) else none
    else
      match checkDecode addr with
      | none => none
      | some (decoded, netID) =>
        if decoded.length = 20 then
          let isP2PKH := netID = net.p2pkhId
          let isP2SH := netID = net.p2shId
          if isP2PKH ∧ isP2SH then none
          else if isP2PKH then some (.pubKeyHash decoded netID)
          else if isP2SH then some (.scriptHash decoded netID)
          else none
        else none

def Address.isForNet (net : Net) : Address → Bool
  | .pubKeyHash _ id => id = net.p2pkhId
  | .scriptHash _ id => id = net.p2shId
  | .pubKey _ id => id = net.p2pkhId
  | .witnessPubKeyHash hrp _ => hrp = net.hrp
  | .witnessScriptHash hrp _ => hrp = net.hrp
  | .taproot hrp _ => hrp = net.hrp

/-- txscript.PayToAddrScript (canonical pushes of 20 / 32 bytes are the opcodes 0x14 / 0x20) -/
def payToAddrScript : Address → Bytes
  | .pubKeyHash h _ => [0x76, 0xa9, 0x14] ++ h ++ [0x88, 0xac]
  | .scriptHash h _ => [0xa9, 0x14] ++ h ++ [0x87]
  | .pubKey ser _ => UInt8.ofNat ser.length :: ser ++ [0xac]
  | .witnessPubKeyHash _ p => [0x00, 0x14] ++ p
  | .witnessScriptHash _ p => [0x00, 0x20] ++ p
  | .taproot _ p => [0x51, 0x20] ++ p

/-- DecodeBtcAddress on the bytes of the string; `none` = any error. -/
def decodeBytes (pubkeyParses : Bytes → Bool) (net : Net) (addr : Bytes) : Option Bytes :=
  match decodeAddress pubkeyParses net addr with
  | none => none
  | some a =>
    if !a.isForNet net then none
    else
      match a with
      | .pubKey _ _ => none
      | a => some (payToAddrScript a)

/-- UTF-8 bytes of a Lean string (what `[]byte(s)` is in Go) -/
def utf8 (s : String) : Bytes := s.toUTF8.data.toList

def decodeBtcAddressWith (pubkeyParses : Bytes → Bool) (net : Net) (s : String) : Option Bytes :=
  decodeBytes pubkeyParses net (utf8 s)

/-- `DecodeBtcAddress(s, net)`; the public-key parser is irrelevant to the result
    (C17A.decode_indep_pubkeyParses), so it is fixed here. -/
def decodeBtcAddress (net : Net) (s : String) : Option Bytes :=
  decodeBtcAddressWith (fun _ => false) net s

/-! ## Encoders (for the round-trip theorems; they are not on the decision path) -/

def charsetAt (v : Nat) : UInt8 := charset.getD (v % 32) 0x71

/-- the six checksum symbols of writeBech32Checksum -/
def bech32Checksum (hrp : Bytes) (data : List Nat) (ver : B32Version) : List Nat :=
  let pm := polymod hrp (data ++ [0, 0, 0, 0, 0, 0]) ^^^ ver.const
  [(pm >>> 25) &&& 31, (pm >>> 20) &&& 31, (pm >>> 15) &&& 31, (pm >>> 10) &&& 31, (pm >>> 5) &&& 31,
   (pm >>> 0) &&& 31]

/-- bech32.Encode / EncodeM -/
def bech32Encode (hrp : Bytes) (data : List Nat) (ver : B32Version) : Bytes :=
  let h := lowerBytes hrp
  h ++ [0x31] ++ (data ++ bech32Checksum h data ver).map charsetAt

/-- btcutil.encodeSegWitAddress: bech32 for witness version 0, bech32m otherwise (BIP-350). -/
def encodeSegwitBytes (hrp : Bytes) (ver : Nat) (prog : Bytes) : Bytes :=
  bech32Encode hrp (ver :: convert8to5 prog) (if ver = 0 then .v0 else .vM)

def bytesToString (bs : Bytes) : String := String.ofList (bs.map (fun b => Char.ofNat b.toNat))

def encodeSegwit (hrp : String) (ver : Nat) (prog : Bytes) : String :=
  bytesToString (encodeSegwitBytes (utf8 hrp) ver prog)

/-- little-endian base-58 digits of `x`; `fuel ≥ x` is always enough -/
def digits58LE : Nat → Nat → List Nat
  | 0, _ => []
  | fuel + 1, x => if x = 0 then [] else (x % 58) :: digits58LE fuel (x / 58)

def alphabetAt (d : Nat) : UInt8 := alphabet.getD d 0x31

/-- base58.Encode (the Go code takes ten digits at a time; the digits are the same) -/
def base58Encode (b : Bytes) : Bytes :=
  let x := beToNat b
  List.replicate (countLeading 0 b) 0x31 ++ ((digits58LE x x).reverse.map alphabetAt)

/-- base58.CheckEncode(payload, version) -/
def encodeBase58CheckBytes (version : UInt8) (payload : Bytes) : Bytes :=
  let b := version :: payload
  base58Encode (b ++ checksum4 b)

def encodeBase58Check (version : UInt8) (payload : Bytes) : String :=
  bytesToString (encodeBase58CheckBytes version payload)

end Goat.Addr
