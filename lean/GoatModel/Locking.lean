/-
  Model of x/locking: keeper/{msg_create,msg_lock,msg_unlock,msg_token,msg_claim,reward,votes,
  evidence,abci,ethtx}.go.  `math.Int` is `Int` with the 256-bit overflow panic made explicit where
  execution-layer values can reach it; `uint64` fields are `Nat` with explicit wrap; `LegacyDec` is
  an `Int` scaled by 10^18 with the SDK's exact rounding.
-/
import GoatModel.Prelude
namespace Goat.Locking

/-! ### numbers -/
def two256 : Nat := 2 ^ 256
def e18 : Nat := 1000000000000000000

/-- `math.Int` results must fit 256 bits (`Add`, `Mul` panic otherwise) -/
def fits256 (x : Int) : Bool := x.natAbs < two256

/-- banker's rounding of a non-negative integer scaled by 10^18 (chopPrecisionAndRound) -/
def chopRound (d : Nat) : Nat :=
  let q := d / e18
  let r := d % e18
  if r = 0 then q
  else if r < 500000000000000000 then q
  else if r > 500000000000000000 then q + 1
  else if q % 2 = 0 then q else q + 1

/-- `LegacyNewDec(p).Quo(LegacyNewDec(t))` as a scaled integer (rounded) -/
def decQuo (p t : Nat) : Nat := chopRound (p * e18 * (e18 * e18) / (t * e18))

/-- `LegacyNewDec(p).QuoTruncate(LegacyNewDec(t))` as a scaled integer -/
def decQuoTruncate (p t : Nat) : Nat := p * e18 * e18 / (t * e18)

/-- `LegacyNewDecFromBigInt(x).MulTruncate(frac).TruncateInt()` -/
def mulTruncInt (x frac : Nat) : Nat := x * e18 * frac / e18 / e18

/-- `LegacyNewDecFromInt(a).Mul(frac).TruncateInt()` (the product is exact, see DESIGN §7) -/
def slashAmount (a frac : Nat) : Nat := chopRound (a * e18 * frac) / e18

/-! ### sdk.Coins: sorted by denom, no zero entries -/
abbrev Coins := List (String × Int)

def amountOf (c : Coins) (d : String) : Int := ((c.find? (·.1 == d)).map (·.2)).getD 0

def setAmount (c : Coins) (d : String) (a : Int) : Coins :=
  let rest := c.filter (·.1 != d)
  if a = 0 then rest
  else
    let rec ins : Coins → Coins
      | [] => [(d, a)]
      | e :: es => if d < e.1 then (d, a) :: e :: es else e :: ins es
    ins rest

/-- `coins.Add(coin)` -/
def addCoin (c : Coins) (d : String) (a : Int) : Coins := setAmount c d (amountOf c d + a)

def addCoins (c : Coins) (cs : Coins) : Coins := cs.foldl (fun acc e => addCoin acc e.1 e.2) c

/-- `IsAllGTE` -/
def isAllGTE (c b : Coins) : Bool :=
  if b.isEmpty then true else if c.isEmpty then false else b.all (fun e => !(e.2 > amountOf c e.1))

/-! ### state -/
inductive Status where
  | pending | active | downgrade | tombstoned | inactive
  deriving DecidableEq, Repr, Inhabited

def Status.toNat : Status → Nat
  | .pending => 0 | .active => 1 | .downgrade => 2 | .tombstoned => 3 | .inactive => 4

structure Validator where
  pubkey : Bytes
  power : Nat
  locking : Coins
  reward : Int
  gasReward : Int
  status : Status
  offset : Nat
  missed : Nat
  jailedUntil : Int
  deriving DecidableEq, Repr, Inhabited

structure Token where
  weight : Nat
  threshold : Int
  deriving DecidableEq, Repr, Inhabited

structure Params where
  unlockDuration : Int
  exitingDuration : Int
  downtimeJail : Int
  maxValidators : Int
  signedBlocksWindow : Int
  maxMissed : Int
  slashDoubleSign : Nat     -- scaled by 10^18
  slashDowntime : Nat       -- scaled by 10^18
  halvingInterval : Int
  initialReward : Int
  deriving DecidableEq, Repr, Inhabited

structure Unlock where
  id : Nat
  token : Bytes
  recipient : Bytes
  amount : Int
  deriving DecidableEq, Repr, Inhabited

structure Reward where
  id : Nat
  recipient : Bytes
  goat : Int
  gas : Int
  deriving DecidableEq, Repr, Inhabited

structure Pool where
  goat : Int
  gas : Int
  remain : Int
  deriving DecidableEq, Repr, Inhabited

structure State where
  params : Params
  validators : List (Bytes × Validator)
  lockingIdx : List ((String × Bytes) × Int)     -- (token, validator) ↦ amount
  ranking : List (Nat × Bytes)                   -- PowerRanking key set
  valset : List (Bytes × Nat)                    -- ValidatorSet
  tokens : List (String × Token)
  threshold : Coins
  slashed : List (String × Int)
  nonce : Nat
  pool : Pool
  qRewards : List Reward
  qUnlocks : List Unlock
  unlockQueue : List (Int × List Unlock)         -- time ↦ unlocks
  deriving Repr, Inhabited

/-! ### map helpers -/
def vget (s : State) (a : Bytes) : Option Validator := (s.validators.find? (·.1 == a)).map (·.2)
def vset (s : State) (a : Bytes) (v : Validator) : State :=
  { s with validators := if s.validators.any (·.1 == a) then s.validators.map (fun e => if e.1 == a then (a, v) else e)
                          else s.validators ++ [(a, v)] }
def tget (s : State) (d : String) : Option Token := (s.tokens.find? (·.1 == d)).map (·.2)
def tset (s : State) (d : String) (t : Token) : State :=
  { s with tokens := if s.tokens.any (·.1 == d) then s.tokens.map (fun e => if e.1 == d then (d, t) else e)
                      else s.tokens ++ [(d, t)] }
def rankRemove (s : State) (p : Nat) (a : Bytes) : State := { s with ranking := s.ranking.filter (fun e => !(e.1 == p && e.2 == a)) }
def rankSet (s : State) (p : Nat) (a : Bytes) : State :=
  if s.ranking.any (fun e => e.1 == p && e.2 == a) then s else { s with ranking := s.ranking ++ [(p, a)] }
def idxSet (s : State) (d : String) (a : Bytes) (x : Int) : State :=
  { s with lockingIdx := (s.lockingIdx.filter (fun e => !(e.1.1 == d && e.1.2 == a))) ++ [((d, a), x)] }
def idxRemove (s : State) (d : String) (a : Bytes) : State :=
  { s with lockingIdx := s.lockingIdx.filter (fun e => !(e.1.1 == d && e.1.2 == a)) }
def slashedAdd (s : State) (d : String) (x : Int) : State :=
  let cur := ((s.slashed.find? (·.1 == d)).map (·.2)).getD 0
  { s with slashed := (s.slashed.filter (·.1 != d)) ++ [(d, cur + x)] }

/-- lexicographic order on byte strings (store key order) -/
def bytesLt : Bytes → Bytes → Bool
  | [], [] => false
  | [], _ :: _ => true
  | _ :: _, [] => false
  | a :: as, b :: bs => if a < b then true else if b < a then false else bytesLt as bs

/-! ### requests -/
structure LockReq where
  validator : Bytes
  token : String     -- denom ("btc", "goat", "tkn:<hex>")
  amount : Int
  deriving Repr, Inhabited

structure UnlockReq where
  id : Nat
  validator : Bytes
  recipient : Bytes
  token : String
  tokenAddr : Bytes
  amount : Int
  deriving Repr, Inhabited

structure CreateReq where
  validator : Bytes
  compressed : Bytes   -- 33-byte compressed form of the request's 64-byte key
  deriving Repr, Inhabited

structure ClaimReq where
  id : Nat
  validator : Bytes
  recipient : Bytes
  deriving Repr, Inhabited

structure Reqs where
  gas : List Int := []
  grants : List Int := []
  weights : List (String × Nat) := []
  thresholds : List (String × Int) := []
  creates : List CreateReq := []
  locks : List LockReq := []
  unlocks : List UnlockReq := []
  claims : List ClaimReq := []
  deriving Repr, Inhabited

/-! ### reward pool (reward.go) -/

/-- the reward scheduled for an execution block at `height`: initial reward halved once per elapsed
    halving interval -/
def scheduledReward (p : Params) (height : Int) : Int :=
  let halvings := height / p.halvingInterval
  if halvings > 0 then p.initialReward / (2 ^ halvings.toNat : Nat) else p.initialReward

/-- move `min(remaining grant, scheduled)` from the grant into the distribution pool -/
def emit (pool : Pool) (sched : Int) : Pool :=
  let reward := if sched > pool.remain then pool.remain else sched
  if reward ≠ 0 then { pool with goat := pool.goat + reward, remain := pool.remain - reward } else pool

/-- gas revenue (positive amounts only) and grants; `none` models the 256-bit overflow panic -/
def addIncome (pool : Pool) (gas grants : List Int) : Option Pool :=
  let g := gas.foldl (fun (acc : Int) x => if x > 0 then acc + x else acc) pool.gas
  if !fits256 g then none
  else
    (grants.foldl (fun (acc : Option Int) x =>
      match acc with
      | none => none
      | some r => if fits256 (r + x) then some (r + x) else none) (some pool.remain)).map
      (fun remain => { pool with gas := g, remain := remain })

def updateRewardPool (s : State) (height : Int) (gas grants : List Int) : Outcome State :=
  if gas.length ≠ 1 then .err "gas-length"
  else match addIncome s.pool gas grants with
  | none => .panic "int-overflow"
  | some p1 =>
    let p2 := emit p1 (scheduledReward s.params height)
    if !fits256 p2.goat then .panic "int-overflow" else .ok { s with pool := p2 }

structure VoteInfo where
  address : Bytes
  power : Int
  absent : Bool
  deriving Repr, Inhabited

/-- DistributeReward (as repaired: truncating division for the share fraction). -/
def distributeReward (s : State) (height : Int) (votes : List VoteInfo) : Outcome State :=
  if height < 2 then .ok s
  else if votes.isEmpty then .ok s    -- repair of F9: a first block (any initial height) carries no last commit
  else
    let total : Int := votes.foldl (fun acc v => acc + v.power) 0
    if total = 0 then .err "zero-power"
    else
      let rec go : List VoteInfo → State → Int → Int → Outcome (State × Int × Int)
        | [], s, rg, rr => .ok (s, rg, rr)
        | v :: rest, s, rg, rr =>
          match vget s v.address with
          | none => .err "not-found"
          | some val =>
            let frac := decQuoTruncate v.power.toNat total.toNat
            let gshare : Int := if s.pool.gas ≠ 0 then mulTruncInt s.pool.gas.toNat frac else 0
            let rshare : Int := if s.pool.goat ≠ 0 then mulTruncInt s.pool.goat.toNat frac else 0
            let val' := { val with gasReward := val.gasReward + gshare, reward := val.reward + rshare }
            go rest (vset s v.address val') (rg - gshare) (rr - rshare)
      match go votes s s.pool.gas s.pool.goat with
      | .err e => .err e
      | .panic e => .panic e
      | .ok (s', rg, rr) => .ok { s' with pool := { s'.pool with gas := rg, goat := rr } }

/-- the unrepaired share fraction (rounded `Quo`) — finding F5 -/
def distributeRewardRounded (s : State) (height : Int) (votes : List VoteInfo) : Outcome State :=
  if height < 2 then .ok s
  else
    let total : Int := votes.foldl (fun acc v => acc + v.power) 0
    if total = 0 then .err "zero-power"
    else
      let rec go : List VoteInfo → State → Int → Int → Outcome (State × Int × Int)
        | [], s, rg, rr => .ok (s, rg, rr)
        | v :: rest, s, rg, rr =>
          match vget s v.address with
          | none => .err "not-found"
          | some val =>
            let frac := decQuo v.power.toNat total.toNat
            let gshare : Int := if s.pool.gas ≠ 0 then mulTruncInt s.pool.gas.toNat frac else 0
            let rshare : Int := if s.pool.goat ≠ 0 then mulTruncInt s.pool.goat.toNat frac else 0
            let val' := { val with gasReward := val.gasReward + gshare, reward := val.reward + rshare }
            go rest (vset s v.address val') (rg - gshare) (rr - rshare)
      match go votes s s.pool.gas s.pool.goat with
      | .err e => .err e
      | .panic e => .panic e
      | .ok (s', rg, rr) => .ok { s' with pool := { s'.pool with gas := rg, goat := rr } }

def claim (s : State) (reqs : List ClaimReq) : Outcome State :=
  reqs.foldlM (fun (s : State) r =>
    match vget s r.validator with
    | none => Outcome.err "not-found"
    | some v =>
      let s1 := { s with qRewards := s.qRewards ++ [{ id := r.id, recipient := r.recipient, goat := v.reward, gas := v.gasReward }] }
      .ok (vset s1 r.validator { v with reward := 0, gasReward := 0 })) s

/-! ### tokens (msg_token.go) -/

/-- power contribution `weight·amount / 10^18`; `none` ⇒ not a uint64; panic when the product
    overflows 256 bits -/
def powerOf (weight : Nat) (amount : Int) : Outcome (Option Nat) :=
  let prod := (weight : Int) * amount
  if !fits256 prod then .panic "int-overflow"
  else
    let p := prod / (e18 : Int)
    if p < 0 ∨ p ≥ (two64 : Int) then .ok none else .ok (some p.toNat)

def onWeightChanged (s : State) (token : String) (prev cur : Nat) : Outcome State :=
  if prev = cur then .ok s
  else
    -- iterate the (token, *) prefix of the Locking index in key order
    let entries := (s.lockingIdx.filter (·.1.1 == token)).mergeSort (fun a b => !bytesLt b.1.2 a.1.2)
    entries.foldlM (fun (s : State) e =>
      let addr := e.1.2
      let amount := e.2
      match vget s addr with
      | none => Outcome.err "not-found"
      | some v =>
        let s1 := rankRemove s v.power addr
        if cur > prev then
          match powerOf (cur - prev) amount with
          | .panic p => .panic p
          | .err x => .err x
          | .ok none => .err "power-too-large"
          | .ok (some d) =>
            let v' := { v with power := (v.power + d) % two64 }
            let s2 := vset s1 addr v'
            .ok (if v'.power > 0 then rankSet s2 v'.power addr else s2)
        else
          match powerOf (prev - cur) amount with
          | .panic p => .panic p
          | .err x => .err x
          | .ok none => .panic "uint64"
          | .ok (some d) =>
            let v' := { v with power := if v.power > d then v.power - d else 0 }
            let s2 := vset s1 addr v'
            .ok (if v'.power > 0 then rankSet s2 v'.power addr else s2)) s

def updateTokens (s : State) (weights : List (String × Nat)) (thresholds : List (String × Int)) : Outcome State := do
  let s1 ← weights.foldlM (fun (s : State) (u : String × Nat) =>
    let tok := (tget s u.1).getD { weight := u.2, threshold := 0 }
    match onWeightChanged s u.1 tok.weight u.2 with
    | .ok s' => Outcome.ok (tset s' u.1 { tok with weight := u.2 })
    | .err e => .err e
    | .panic e => .panic e) s
  if thresholds.isEmpty then pure s1
  else
    thresholds.foldlM (fun (s : State) (u : String × Int) =>
      match tget s u.1 with
      | none => Outcome.err "not-found"
      | some tok =>
        let sub := u.2 - tok.threshold
        if sub = 0 then .ok s
        else
          let cur := amountOf s.threshold u.1
          if cur + sub < 0 then .panic "negative-coin"
          else .ok (tset { s with threshold := setAmount s.threshold u.1 (cur + sub) } u.1 { tok with threshold := u.2 })) s1

/-! ### create (msg_create.go) -/

/-- returns the state and the list of accounts to create -/
def create (hash160 : Bytes → Bytes) (hasAccount : Bytes → Bool) (s : State) (reqs : List CreateReq) :
    Outcome (State × List Bytes) :=
  reqs.foldlM (fun (acc : State × List Bytes) r =>
    let (s, newAccs) := acc
    let address := hash160 r.compressed
    if address ≠ r.validator then Outcome.err "address-mismatch"
    else if (vget s address).isSome then .ok (s, newAccs)
    else
      let has := hasAccount address || newAccs.contains address
      let v : Validator := { pubkey := r.compressed, power := 0, locking := [], reward := 0, gasReward := 0,
                             status := if has then .inactive else .pending, offset := 0, missed := 0, jailedUntil := 0 }
      .ok (vset s address v, if has then newAccs else newAccs ++ [address])) (s, [])

/-! ### lock (msg_lock.go) -/

/-- add the power of `coins` (token weights) to `p`, updating the Locking index with `amountFn` -/
def lockOne (s : State) (now : Int) (addr : Bytes) (coins : Coins) : Outcome State :=
  match vget s addr with
  | none => .err "not-found"
  | some v =>
    let newLocking := addCoins v.locking coins
    if newLocking.any (fun e => !fits256 e.2) then .panic "int-overflow"
    else
    let v := { v with locking := newLocking }
    match v.status with
    | .pending | .active =>
      let s1 := rankRemove s v.power addr
      let r := coins.foldlM (fun (acc : State × Nat) (c : String × Int) =>
        let (s, pw) := acc
        match tget s c.1 with
        | none => Outcome.err "not-found"
        | some tok =>
          let next : Outcome Nat :=
            if tok.weight > 0 then
              match powerOf tok.weight c.2 with
              | .panic p => .panic p
              | .err x => .err x
              | .ok none => .err "power-too-large"
              | .ok (some d) => .ok ((pw + d) % two64)
            else .ok pw
          match next with
          | .ok pw' => .ok (idxSet s c.1 addr (amountOf v.locking c.1), pw')
          | .err e => .err e
          | .panic e => .panic e) (s1, v.power)
      match r with
      | .err e => .err e
      | .panic e => .panic e
      | .ok (s2, pw) =>
        let v' := { v with power := pw }
        -- repair of F6a: only validators with positive power are ranked
        let s3 := if pw > 0 then rankSet s2 pw addr else s2
        .ok (vset s3 addr v')
    | .downgrade =>
      if now > v.jailedUntil ∧ isAllGTE v.locking s.threshold then
        let r := v.locking.foldlM (fun (acc : State × Nat) (c : String × Int) =>
          let (s, pw) := acc
          let s := idxSet s c.1 addr c.2
          match tget s c.1 with
          | none => Outcome.err "not-found"
          | some tok =>
            if tok.weight > 0 then
              match powerOf tok.weight c.2 with
              | .panic p => .panic p
              | .err x => .err x
              | .ok none => .err "power-too-large"
              | .ok (some d) => .ok (s, (pw + d) % two64)
            else .ok (s, pw)) (s, v.power)
        match r with
        | .err e => .err e
        | .panic e => .panic e
        | .ok (s2, pw) =>
          let v' := { v with power := pw, status := .pending }
          let s3 := if pw > 0 then rankSet s2 pw addr else s2
          .ok (vset s3 addr v')
      else .ok (vset s addr v)
    | .tombstoned | .inactive => .ok (vset s addr v)

/-- aggregate lock requests per validator (`updates` map), validators in the order of their first
    request (repair of F3: the Go code ranged over the map in random order) -/
def aggregateLocks (reqs : List LockReq) : Outcome (List (Bytes × Coins)) :=
  let agg := reqs.foldl (fun (acc : List (Bytes × Coins)) r =>
    let cur := ((acc.find? (·.1 == r.validator)).map (·.2)).getD []
    let cur' := addCoin cur r.token r.amount
    if acc.any (·.1 == r.validator) then acc.map (fun e => if e.1 == r.validator then (e.1, cur') else e)
    else acc ++ [(r.validator, cur')]) []
  if agg.any (fun e => e.2.any (fun c => !fits256 c.2)) then .panic "int-overflow"
  else .ok agg

def lock (s : State) (now : Int) (reqs : List LockReq) : Outcome State :=
  if reqs.isEmpty then .ok s
  else if reqs.any (fun r => r.amount < 0) then .panic "negative-coin"
  else match aggregateLocks reqs with
  | .err e => .err e
  | .panic e => .panic e
  | .ok agg => agg.foldlM (fun s e => lockOne s now e.1 e.2) s

/-! ### unlock (msg_unlock.go) -/

/-- amount actually released by an unlock request: clipped to the holding -/
def unlockAmount (held requested : Int) : Int := if held < requested then held else requested

/-- a validator is exiting when already inactive/tombstoned or when the holding drops below the
    token's threshold -/
def exitingOf (st : Status) (left threshold : Int) : Bool :=
  st == .inactive || st == .tombstoned || left < threshold

/-- maturity of the unlock: block time + exit or unlock period -/
def unlockTime (p : Params) (now : Int) (exiting : Bool) : Int :=
  if exiting then now + p.exitingDuration else now + p.unlockDuration

/-- append an unlock to the time-keyed queue -/
def enqueueUnlock (s : State) (t : Int) (u : Unlock) : State :=
  { s with unlockQueue :=
      if s.unlockQueue.any (·.1 == t) then s.unlockQueue.map (fun e => if e.1 == t then (t, e.2 ++ [u]) else e)
      else s.unlockQueue ++ [(t, [u])] }

/-- everything `unlock` does except the enqueue: power, status, indices, holding -/
def unlockCore (s : State) (r : UnlockReq) : Outcome (State × Bool × Int) :=
  match vget s r.validator with
  | none => .err "not-found"
  | some v =>
    let s1 := rankRemove s v.power r.validator
    match tget s1 r.token with
    | none => .err "not-found"
    | some tok =>
      let held := amountOf v.locking r.token
      let amount := unlockAmount held r.amount
      if amount < 0 then .panic "negative-coin"
      else
      let updated := setAmount v.locking r.token (held - amount)
      let left := held - amount
      let exiting := exitingOf v.status left tok.threshold
      let pw : Outcome Nat :=
        if amount ≠ 0 ∧ tok.weight > 0 ∧ !exiting ∧ (v.status == .active || v.status == .pending) then
          match powerOf tok.weight amount with
          | .panic p => .panic p
          | .err x => .err x
          | .ok none => .err "power-too-large"
          | .ok (some d) => .ok (if v.power > d then v.power - d else 0)
        else .ok v.power
      match pw with
      | .err e => .err e
      | .panic e => .panic e
      | .ok pw =>
        let (s2, v2) :=
          if exiting then
            let st := match v.status with
              | .active | .pending | .downgrade => Status.inactive
              | x => x
            let s2 := v.locking.foldl (fun s c => idxRemove s c.1 r.validator) s1
            (s2, { v with power := 0, status := st })
          else
            let v2 := { v with power := pw }
            if v.status == .active || v.status == .pending then
              let s2 := if left = 0 then idxRemove s1 r.token r.validator else idxSet s1 r.token r.validator left
              let s3 := if pw > 0 then rankSet s2 pw r.validator else s2
              (s3, v2)
            else (s1, v2)
        .ok (vset s2 r.validator { v2 with locking := updated }, exiting, amount)

def unlockOne (s : State) (now : Int) (r : UnlockReq) : Outcome State :=
  match unlockCore s r with
  | .err e => .err e
  | .panic e => .panic e
  | .ok (s3, exiting, amount) =>
    .ok (enqueueUnlock s3 (unlockTime s.params now exiting)
      { id := r.id, token := r.tokenAddr, recipient := r.recipient, amount := amount })

def unlock (s : State) (now : Int) (reqs : List UnlockReq) : Outcome State :=
  reqs.foldlM (fun s r => unlockOne s now r) s

/-- time-queue entries with key ≤ now, in key order -/
def dueUnlocks (s : State) (now : Int) : List (Int × List Unlock) :=
  (s.unlockQueue.filter (·.1 ≤ now)).mergeSort (fun a b => a.1 ≤ b.1)

/-- DequeueMatureUnlocks: entries with key ≤ now, in key order -/
def dequeueMature (s : State) (now : Int) : State :=
  if (dueUnlocks s now).isEmpty then s
  else { s with unlockQueue := s.unlockQueue.filter (fun e => !(e.1 ≤ now)),
                qUnlocks := s.qUnlocks ++ ((dueUnlocks s now).map (·.2)).flatten }

/-- ProcessLockingRequest -/
def processRequests (hash160 : Bytes → Bytes) (hasAccount : Bytes → Bool) (s : State) (height now : Int) (r : Reqs) :
    Outcome (State × List Bytes) := do
  let s1 ← updateRewardPool s height r.gas r.grants
  let s2 ← updateTokens s1 r.weights r.thresholds
  let (s3, accs) ← create hash160 hasAccount s2 r.creates
  let s4 ← lock s3 now r.locks
  let s5 ← unlock s4 now r.unlocks
  let s6 ← claim s5 r.claims
  pure (s6, accs)

/-! ### slashing, votes, evidence -/

/-- one coin of a slash: drop its index entry, book the slashed part, keep the rest -/
def slashStep (addr : Bytes) (frac : Nat) (acc : State × Coins) (c : String × Int) : State × Coins :=
  let s := idxRemove acc.1 c.1 addr
  let a0 : Int := slashAmount c.2.toNat frac
  if a0 = 0 then (slashedAdd s c.1 c.2, acc.2)
  else (slashedAdd s c.1 a0, addCoin acc.2 c.1 (c.2 - a0))

/-- slash every held coin by `frac`; returns (state with `slashed` and index updated, remaining coins) -/
def slashAll (s : State) (addr : Bytes) (v : Validator) (frac : Nat) : State × Coins :=
  v.locking.foldl (slashStep addr frac) (s, [])

def handleVote (s : State) (now : Int) (vi : VoteInfo) : Outcome State :=
  match vget s vi.address with
  | none => .err "not-found"
  | some v =>
    if v.status ≠ .active then .ok s
    else
      let missed := if vi.absent then v.missed + 1 else v.missed
      let isDown := (missed : Int) ≥ s.params.maxMissed
      let offset := v.offset + 1
      let (missed', offset') := if (offset : Int) ≥ s.params.signedBlocksWindow then (0, 0) else (missed, offset)
      let v1 := { v with missed := missed', offset := offset' }
      if isDown then
        let s1 := rankRemove s v.power vi.address
        let (s2, upd) := slashAll s1 vi.address v1 s.params.slashDowntime
        .ok (vset s2 vi.address { v1 with locking := upd, status := .downgrade, power := 0, jailedUntil := now + s.params.downtimeJail })
      else .ok (vset s vi.address v1)

def handleVotes (s : State) (now : Int) (votes : List VoteInfo) : Outcome State :=
  votes.foldlM (fun s v => handleVote s now v) s

structure Evidence where
  kind : Nat          -- 1 duplicate vote, 2 light client attack, other: ignored
  address : Bytes
  height : Int
  time : Int
  deriving Repr, Inhabited

/-- evidence is ignored only when it is older than *both* age limits of the consensus parameters -/
def isStale (now height : Int) (maxAge : Option (Int × Int)) (e : Evidence) : Bool :=
  match maxAge with
  | some (d, b) => decide (now - e.time > d) && decide (height - e.height > b)
  | none => false

/-- `maxAge`: consensus evidence params (duration ns, blocks) or none -/
def handleEvidence (s : State) (now height : Int) (maxAge : Option (Int × Int)) (e : Evidence) : Outcome State :=
  if e.kind ≠ 1 ∧ e.kind ≠ 2 then .ok s
  else
    if isStale now height maxAge e then .ok s
    else match vget s e.address with
    | none => .err "not-found"
    | some v =>
      if v.status == .tombstoned then .ok s
      else
        let s1 := rankRemove s v.power e.address
        let (s2, upd) := slashAll s1 e.address v s.params.slashDoubleSign
        .ok (vset s2 e.address { v with locking := upd, status := .tombstoned, power := 0 })

def beginBlock (s : State) (height now : Int) (votes : List VoteInfo) (maxAge : Option (Int × Int)) (evs : List Evidence) :
    Outcome State := do
  let s1 ← distributeReward s height votes
  let s2 := dequeueMature s1 now
  let s3 ← handleVotes s2 now votes
  evs.foldlM (fun s e => handleEvidence s now height maxAge e) s3

/-! ### EndBlocker (abci.go) -/

structure Update where
  pubkey : Bytes
  power : Nat       -- uint64 field value; reported to CometBFT as int64(power)
  deriving DecidableEq, Repr, Inhabited

/-- ranking in descending (power, address) order -/
def rankingDesc (s : State) : List (Nat × Bytes) :=
  s.ranking.mergeSort (fun a b => a.1 > b.1 || (a.1 == b.1 && !bytesLt a.2 b.2))

def endBlocker (s : State) : Outcome (State × List Update) :=
  let top := (rankingDesc s).take s.params.maxValidators.toNat
  let r : Outcome (State × List (Bytes × Nat) × List Update) := top.foldlM (fun (acc : State × List (Bytes × Nat) × List Update) (e : Nat × Bytes) =>
    let (s, last, ups) := acc
    let addr := e.2
    match vget s addr with
    | none => (Outcome.err "not-found" : Outcome (State × List (Bytes × Nat) × List Update))
    | some v =>
      match v.status with
      | .active =>
        let old := ((last.find? (·.1 == addr)).map (·.2)).getD 0
        let last' := last.filter (·.1 != addr)
        if old ≠ v.power then
          .ok ({ s with valset := (s.valset.filter (·.1 != addr)) ++ [(addr, v.power)] }, last', ups ++ [{ pubkey := v.pubkey, power := v.power }])
        else .ok (s, last', ups)
      | .pending =>
        if last.any (·.1 == addr) then .err "pending-in-set"
        else
          let s1 := vset s addr { v with status := .active, offset := 0, missed := 0 }
          .ok ({ s1 with valset := s1.valset ++ [(addr, v.power)] }, last, ups ++ [{ pubkey := v.pubkey, power := v.power }])
      | _ => .err "status-in-ranking") (s, s.valset, [])
  match r with
  | .err e => .err e
  | .panic e => .panic e
  | .ok (s1, leftovers, ups) =>
    -- removal of the leftovers (the Go code ranges over a map: order-insensitive, see C07)
    let lo := leftovers.mergeSort (fun a b => !bytesLt b.1 a.1)
    let r2 : Outcome (State × List Update) := lo.foldlM (fun (acc : State × List Update) (e : Bytes × Nat) =>
      let (s, ups) := acc
      match vget s e.1 with
      | none => (Outcome.err "not-found" : Outcome (State × List Update))
      | some v =>
        let s' := if v.status == .active then vset s e.1 { v with status := .pending } else s
        .ok ({ s' with valset := s'.valset.filter (·.1 != e.1) }, ups ++ [{ pubkey := v.pubkey, power := 0 }])) (s1, ups)
    r2

/-- DequeueLockingModuleTx: ≤16 rewards then ≤16 unlocks -/
def dequeue (s : State) : State × List Reward × List Unlock × Nat :=
  if s.qRewards.isEmpty ∧ s.qUnlocks.isEmpty then (s, [], [], s.nonce)
  else
    let nr := min s.qRewards.length 16
    let nu := min s.qUnlocks.length 16
    ({ s with qRewards := s.qRewards.drop nr, qUnlocks := s.qUnlocks.drop nu, nonce := (s.nonce + nr + nu) % two64 },
     s.qRewards.take nr, s.qUnlocks.take nu, s.nonce)

end Goat.Locking
