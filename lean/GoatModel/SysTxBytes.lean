/-
  GoatModel.SysTxBytes — the BYTE encoding of the system transactions the consensus layer hands to the
  execution layer (what `VerifyDequeue` compares with `bytes.Equal`).

  Go sources modelled (goat-geth v0.1.0 unless stated):
    * /repo/x/bitcoin/types/ethtx.go, /repo/x/locking/types/ethtx.go — the constructors
      `ethtypes.NewTx(ethtypes.NewGoatTx(module, action, nonce, inner))`; the ×10^10 satoshi→wei scaling of the
      deposit / paid amounts, `common.BytesToHash` / `common.BytesToAddress` on hashes and addresses.
    * core/types/tx_goat.go — `GoatTx{Module uint8, Action uint8, Nonce uint64, Data []byte}`; `encode` =
      `rlp.Encode` of the struct (an RLP list of the four fields; `inner` is `rlp:"-"`), `GoatTxType = 0x60`.
    * core/types/transaction.go — `MarshalBinary` / `encodeTyped`: type byte followed by the RLP.
    * core/types/goattypes/{tx.go, tx_bridge.go, tx_locking.go} — module / action numbers, the 4-byte method ids
      and the ABI word layout of each inner transaction's `Encode()`.
    * rlp/encode.go — integers as minimal big-endian strings (0 = 0x80, a single byte below 0x80 is itself),
      string / list headers (short form up to 55 bytes of payload, long form above).

  Field conventions are those of `World.sysTxText`: a `deposit` / `paid` carries the RECEIPT (satoshi amounts, the
  encoder scales them by 10^10), hashes and addresses are left-padded / cropped (`fit` = `World.fitLeft`).
  Core Lean only.
-/
import GoatModel.Prelude
import GoatModel.Bitcoin
namespace Goat.SysTxBytes
open Goat.Bitcoin (SysTx)

/-! ## bytes -/

/-- `n` as `k` big-endian bytes (`big.Int.FillBytes(make([]byte, k))`, `binary.BigEndian.PutUintXX`).  The Go
    calls cannot be reached with `n ≥ 256^k` (`FillBytes` would panic, the fixed-width integers cannot hold
    more); the model truncates. -/
def beFixed (k n : Nat) : Bytes := (leBytes k n).reverse

/-- number of bytes of the minimal big-endian representation (0 for 0) -/
def byteLen (n : Nat) : Nat := if n = 0 then 0 else Nat.log2 n / 8 + 1

/-- minimal big-endian bytes: no leading zero, `0 ↦ []` (`rlp.putint`, `big.Int.Bytes`) -/
def beMin (n : Nat) : Bytes := beFixed (byteLen n) n

/-- big-endian bytes to number -/
def natOfBE (bs : Bytes) : Nat := leToNat bs.reverse

def zeros (n : Nat) : Bytes := List.replicate n 0

/-- `common.BytesToHash` (n = 32) / `common.BytesToAddress` (n = 20): crop from the left or left-pad to `n`
    bytes.  Same function as `World.fitLeft` (proved in GoatProofs.C06B). -/
def fit (n : Nat) (b : Bytes) : Bytes :=
  if b.length ≥ n then b.drop (b.length - n) else List.replicate (n - b.length) 0 ++ b

/-! ## RLP (rlp/encode.go) -/

/-- header of a string (`base = 0x80`) or list (`base = 0xc0`) of `len` payload bytes: one byte `base + len`
    up to 55, otherwise `base + 55 + (number of length bytes)` followed by the minimal big-endian length.
    (Real RLP lengths are below 2^64, i.e. at most 8 length bytes.) -/
def lenPrefix (base len : Nat) : Bytes :=
  if len < 56 then [UInt8.ofNat (base + len)]
  else UInt8.ofNat (base + 55 + (beMin len).length) :: beMin len

/-- RLP of a byte string -/
def rlpBytes (b : Bytes) : Bytes :=
  match b with
  | [x] => if x < 0x80 then [x] else lenPrefix 0x80 1 ++ [x]
  | _ => lenPrefix 0x80 b.length ++ b

/-- RLP of an unsigned integer (uint8 / uint64 / big.Int ≥ 0): the string of its minimal big-endian bytes -/
def rlpNat (n : Nat) : Bytes := rlpBytes (beMin n)

/-- RLP of a list whose items are ALREADY encoded -/
def rlpList (items : List Bytes) : Bytes :=
  lenPrefix 0xc0 items.flatten.length ++ items.flatten

/-! ## the inner transactions (goattypes) -/

def goatTxType : UInt8 := 0x60

def bridgeModule : Nat := 1
def lockingModule : Nat := 2

/-- module number of the envelope -/
def moduleOf : SysTx → Nat
  | .newBlock .. => bridgeModule
  | .deposit .. => bridgeModule
  | .paid .. => bridgeModule
  | .cancel2 .. => bridgeModule
  | .reward .. => lockingModule
  | .unlock .. => lockingModule

/-- action number: bridge deposit 1, cancel2 2, paid 3, new block 4; locking complete-unlock 1, distribute-reward 2 -/
def actionOf : SysTx → Nat
  | .deposit .. => 1
  | .cancel2 .. => 2
  | .paid .. => 3
  | .newBlock .. => 4
  | .unlock .. => 1
  | .reward .. => 2

def nonceOf : SysTx → Nat
  | .newBlock n _ => n
  | .deposit n _ => n
  | .paid n _ _ => n
  | .cancel2 n _ => n
  | .reward n .. => n
  | .unlock n .. => n

/-- `newBlockHash(bytes32 hash)` -/
def midNewBlock : Bytes := [0x94, 0xf4, 0x90, 0xbd]
/-- `deposit(bytes32 txid, uint32 txout, address target, uint256 amount, uint256 tax)` -/
def midDeposit : Bytes := [0x90, 0x41, 0x83, 0xcb]
/-- `paid(uint256 id, bytes32 txid, uint32 txout, uint256 paid)` -/
def midPaid : Bytes := [0xb6, 0x70, 0xab, 0x5e]
/-- `cancel2(uint256)` -/
def midCancel2 : Bytes := [0xc1, 0x9d, 0xd3, 0x20]
/-- `distributeReward(uint64 id, address recipient, uint256 goat, uint256 amount)` -/
def midReward : Bytes := [0xbd, 0x9f, 0xad, 0xb5]
/-- `completeUnlock(uint64 id, address recipient, address token, uint256 amount)` -/
def midUnlock : Bytes := [0x00, 0xab, 0xa5, 0x1a]

/-- satoshi → wei -/
def satoshi : Nat := 10000000000

/-- ABI words -/
def wordHash (h : Bytes) : Bytes := fit 32 h                       -- `Txid[:]` of `common.BytesToHash`
def wordAddr (a : Bytes) : Bytes := zeros 12 ++ fit 20 a           -- `LeftPadBytes(BytesToAddress(a)[:], 32)`
def wordU32 (n : Nat) : Bytes := zeros 28 ++ beFixed 4 n           -- `PutUint32(w[28:], n)`
def wordU64 (n : Nat) : Bytes := zeros 24 ++ beFixed 8 n           -- `PutUint64(w[24:], n)`
def wordNat (n : Nat) : Bytes := beFixed 32 n                      -- `x.FillBytes(make([]byte, 32))`, x ≥ 0
/-- `x.FillBytes(make([]byte, 32))` of a possibly negative big.Int: FillBytes writes the ABSOLUTE value. -/
def wordInt (x : Int) : Bytes := beFixed 32 x.natAbs

/-- `inner.Encode()`: method id ‖ ABI words. -/
def encodeData : SysTx → Bytes
  | .newBlock _ h => midNewBlock ++ wordHash h
  | .deposit _ r =>
    midDeposit ++ wordHash r.txid ++ wordU32 r.txout ++ wordAddr r.address ++ wordNat (r.amount * satoshi) ++ wordNat (r.tax * satoshi)
  | .paid _ id r => midPaid ++ wordNat id ++ wordHash r.txid ++ wordU32 r.txout ++ wordNat (r.amount * satoshi)
  | .cancel2 _ id => midCancel2 ++ wordNat id
  | .reward _ id rc g gs => midReward ++ wordU64 id ++ wordAddr rc ++ wordInt g ++ wordInt gs
  | .unlock _ id rc tk a => midUnlock ++ wordU64 id ++ wordAddr rc ++ wordAddr tk ++ wordInt a

/-- the four RLP items of the `GoatTx` struct -/
def envelopeItems (tx : SysTx) : List Bytes :=
  [rlpNat (moduleOf tx), rlpNat (actionOf tx), rlpNat (nonceOf tx), rlpBytes (encodeData tx)]

/-- `tx.MarshalBinary()`: type byte ‖ RLP list [module, action, nonce, data]. -/
def encodeSysTx (tx : SysTx) : Bytes := goatTxType :: rlpList (envelopeItems tx)

/-! ## decoding -/

/-- header of the first RLP item of `bs`: (is a list, header length, payload length).  A single byte below 0x80
    is its own payload (header length 0). -/
def header : Bytes → Option (Bool × Nat × Nat)
  | [] => none
  | x :: rest =>
    let t := x.toNat
    if t < 0x80 then some (false, 0, 1)
    else if t < 0xb8 then some (false, 1, t - 0x80)
    else if t < 0xc0 then some (false, 1 + (t - 0xb7), natOfBE (rest.take (t - 0xb7)))
    else if t < 0xf8 then some (true, 1, t - 0xc0)
    else some (true, 1 + (t - 0xf7), natOfBE (rest.take (t - 0xf7)))

/-- split off the first RLP item: (is a list, payload, what follows).  Lenient: non-canonical headers (which the
    Go decoder rejects) are accepted. -/
def decodeItem (bs : Bytes) : Option (Bool × Bytes × Bytes) :=
  match header bs with
  | none => none
  | some (isList, h, n) =>
    if h + n ≤ bs.length then some (isList, (bs.drop h).take n, bs.drop (h + n)) else none

/-- read a 32-byte word at word index `i` (after the 4-byte method id) -/
def wordAt (d : Bytes) (i : Nat) : Bytes := (d.drop (4 + 32 * i)).take 32

/-- `goattypes.DecodeTx(module, action, data)`: the inner transaction is chosen by module and action; `Decode`
    checks the exact size and the method id, reads the last 4 / 8 / 20 bytes of the uint32 / uint64 / address words
    (the padding is not checked, as in Go).  The satoshi amounts are recovered by dividing by 10^10. -/
def decodeData (module action nonce : Nat) (d : Bytes) : Option SysTx :=
  let w := wordAt d
  let lo (k : Nat) (x : Bytes) : Bytes := x.drop (32 - k)
  if module = bridgeModule then
    if action = 1 then
      if d.length = 164 ∧ d.take 4 = midDeposit then
        some (.deposit nonce { txid := w 0, txout := natOfBE (lo 4 (w 1)), address := lo 20 (w 2),
                               amount := natOfBE (w 3) / satoshi, tax := natOfBE (w 4) / satoshi })
      else none
    else if action = 2 then
      if d.length = 36 ∧ d.take 4 = midCancel2 then some (.cancel2 nonce (natOfBE (w 0))) else none
    else if action = 3 then
      if d.length = 132 ∧ d.take 4 = midPaid then
        some (.paid nonce (natOfBE (w 0)) { txid := w 1, txout := natOfBE (lo 4 (w 2)), amount := natOfBE (w 3) / satoshi })
      else none
    else if action = 4 then
      if d.length = 36 ∧ d.take 4 = midNewBlock then some (.newBlock nonce (w 0)) else none
    else none
  else if module = lockingModule then
    if action = 1 then
      if d.length = 132 ∧ d.take 4 = midUnlock then
        some (.unlock nonce (natOfBE (lo 8 (w 0))) (lo 20 (w 1)) (lo 20 (w 2)) (Int.ofNat (natOfBE (w 3))))
      else none
    else if action = 2 then
      if d.length = 132 ∧ d.take 4 = midReward then
        some (.reward nonce (natOfBE (lo 8 (w 0))) (lo 20 (w 1)) (Int.ofNat (natOfBE (w 2))) (Int.ofNat (natOfBE (w 3))))
      else none
    else none
  else none

/-- `tx.UnmarshalBinary(bs)` for a goat transaction: type byte 0x60, then one RLP list (nothing after it) of
    exactly four strings module, action, nonce, data.  Lenient where the Go RLP decoder is strict (canonical
    integers / sizes, the uint8 / uint64 width); exact on well-formed encodings (GoatProofs.C06B `decode_encode`). -/
def decodeSysTx (bs : Bytes) : Option SysTx :=
  match bs with
  | [] => none
  | t :: body =>
    if t ≠ goatTxType then none else
    match decodeItem body with
    | some (true, p, []) =>
      match decodeItem p with
      | some (false, m, r1) =>
        match decodeItem r1 with
        | some (false, a, r2) =>
          match decodeItem r2 with
          | some (false, n, r3) =>
            match decodeItem r3 with
            | some (false, d, []) => decodeData (natOfBE m) (natOfBE a) (natOfBE n) d
            | _ => none
          | _ => none
        | _ => none
      | _ => none
    | _ => none

end Goat.SysTxBytes
