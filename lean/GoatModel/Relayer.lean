/-
  Model of x/relayer: VerifyProposal, VerifyNonProposal, UpdateRandao, ProcessRelayerRequest,
  NewVoter, AcceptProposer, EndBlocker.  Follows the Go code function by function
  (x/relayer/keeper/{proposal,eth,tx,abci,keeper}.go, x/relayer/types/{relayer,types}.go).

  Cryptography is a parameter (`Crypto`): hash, aggregate verification, single BLS verification,
  ECDSA verification, hash160.  Addresses are modelled by their *string* form (the bech32 string the
  Go code stores); `addrOf : Bytes → String` (bech32 encoding of a 20-byte address) is a parameter.
-/
import GoatModel.Prelude
namespace Goat.Relayer

inductive VStatus where
  | unspecified | pending | onBoarding | offBoarding | activated
  deriving DecidableEq, Repr, Inhabited

def VStatus.toNat : VStatus → Nat
  | .unspecified => 0 | .pending => 1 | .onBoarding => 2 | .offBoarding => 3 | .activated => 4

structure Voter where
  address : Bytes
  voteKey : Bytes
  status : VStatus
  height : Nat
  deriving DecidableEq, Repr, Inhabited

/-- Crypto and encoding parameters of the relayer model. -/
structure Crypto where
  sha256 : Bytes → Bytes
  hash160 : Bytes → Bytes
  /-- `AggregateVerify(pubkeys, msg, sig)` of pkg/crypto/blst.go (false on empty key list) -/
  aggVerify : List Bytes → Bytes → Bytes → Bool
  blsVerify : Bytes → Bytes → Bytes → Bool
  ecdsaVerify : Bytes → Bytes → Bytes → Bool
  /-- bech32 account-address string of 20 raw bytes -/
  addrOf : Bytes → String

structure Params where
  electingPeriod : Int        -- nanoseconds
  acceptProposerTimeout : Int -- nanoseconds
  deriving DecidableEq, Repr, Inhabited

structure State where
  params : Params
  proposer : String
  voters : List String
  epoch : Nat
  lastElected : Int           -- unix nanoseconds
  accepted : Bool
  seq : Nat
  randao : Bytes
  recs : List (String × Voter)   -- Voters map (insertion order irrelevant; looked up by key)
  onBoarding : List String
  offBoarding : List String
  pubkeys : List Bytes
  deriving DecidableEq, Repr, Inhabited

/-! ### finite-map helpers over association lists -/

def lookup {α} (m : List (String × α)) (k : String) : Option α := (m.find? (·.1 == k)).map (·.2)

def insert {α} (m : List (String × α)) (k : String) (v : α) : List (String × α) :=
  if m.any (·.1 == k) then m.map (fun e => if e.1 == k then (k, v) else e) else m ++ [(k, v)]

def erase {α} (m : List (String × α)) (k : String) : List (String × α) := m.filter (·.1 != k)

/-! ### bitmap (github.com/kelindar/bitmap semantics on little-endian 64-bit words) -/

/-- `bitmap.FromBytes` panics when the length is not a multiple of 8 (empty ⇒ nil bitmap). -/
def bitmapOk (b : Bytes) : Bool := b.length % 8 == 0

/-- `Contains(i)`: bit `i` of the little-endian word array; false beyond the last word. -/
def bitmapContains (b : Bytes) (i : Nat) : Bool :=
  match b[i / 8]? with
  | some byte => (byte.toNat / 2 ^ (i % 8)) % 2 == 1
  | none => false

def popByte (n : Nat) : Nat :=
  n % 2 + n / 2 % 2 + n / 4 % 2 + n / 8 % 2 + n / 16 % 2 + n / 32 % 2 + n / 64 % 2 + n / 128 % 2

/-- `Count()` — number of set bits -/
def bitmapCount (b : Bytes) : Nat := (b.map (fun x => popByte x.toNat)).sum

/-- largest marked position + 1 (0 for the empty bitmap); used by the repaired range check -/
def bitmapMarksBelow (b : Bytes) (n : Nat) : Nat :=
  ((List.range n).filter (bitmapContains b)).length

/-- `Relayer.Threshold()` = ceil((n+1)·2/3) computed in integers -/
def threshold (n : Nat) : Nat := (2 * (n + 1) + 2) / 3

/-! ### sign doc -/

def voteSignDoc (c : Crypto) (method chainId proposer : String) (seq epoch : Nat) (data : Bytes) : Bytes :=
  c.sha256 (strBytes chainId ++ le64 seq ++ le64 epoch ++ strBytes method ++ strBytes proposer ++ data)

/-- a voted message as seen by VerifyProposal -/
structure VoteMsg where
  proposer : String
  method : String
  sigDoc : Bytes        -- VoteSigDoc() payload encoding
  seq : Nat
  epoch : Nat
  bitmap : Bytes
  signature : Bytes
  deriving Repr, Inhabited

/-- keys collected by VerifyProposal: proposer key first, then marked voters in list order.
    `none` when a record is missing (collections.ErrNotFound). -/
def collectKeys (s : State) (bitmap : Bytes) : Option (List Bytes) := do
  let p ← lookup s.recs s.proposer
  let rec go : List String → Nat → List Bytes → Option (List Bytes)
    | [], _, acc => some acc.reverse
    | v :: rest, i, acc =>
      if bitmapContains bitmap i then
        match lookup s.recs v with
        | some r => go rest (i + 1) (r.voteKey :: acc)
        | none => none
      else go rest (i + 1) acc
  let ks ← go s.voters 0 []
  pure (p.voteKey :: ks)

/-- `VerifyProposal` (as repaired: every mark must denote a current voter, i.e. the marks below
    `len(voters)` are all the marks).  Returns the new state (only `accepted` may change) and the
    sequence.  Error classes name the check that fired. -/
def verifyProposal (c : Crypto) (chainId : String) (s : State) (m : VoteMsg) : Outcome (State × Nat) :=
  if s.proposer ≠ m.proposer then .err "not-proposer"
  else if m.seq ≠ s.seq then .err "sequence"
  else if m.epoch ≠ s.epoch then .err "epoch"
  else if !bitmapOk m.bitmap then .panic "bitmap-length"
  else
    let cnt := bitmapCount m.bitmap
    let n := s.voters.length
    if cnt + 1 < threshold n ∨ cnt > n then .err "voters-length"
    else
      match collectKeys s m.bitmap with
      | none => .err "not-found"
      | some keys =>
        -- repair of F1: every mark must have contributed a key
        if keys.length ≠ cnt + 1 then .err "voters-length"
        else
        let doc := voteSignDoc c m.method chainId s.proposer s.seq s.epoch m.sigDoc
        if !c.aggVerify keys doc m.signature then .err "signature"
        else .ok ({ s with accepted := true }, s.seq)

/-- The function at the pinned commit (no range check on marks) — kept to state finding F1. -/
def verifyProposalUnchecked (c : Crypto) (chainId : String) (s : State) (m : VoteMsg) : Outcome (State × Nat) :=
  if s.proposer ≠ m.proposer then .err "not-proposer"
  else if m.seq ≠ s.seq then .err "sequence"
  else if m.epoch ≠ s.epoch then .err "epoch"
  else if !bitmapOk m.bitmap then .panic "bitmap-length"
  else
    let cnt := bitmapCount m.bitmap
    let n := s.voters.length
    if cnt + 1 < threshold n ∨ cnt > n then .err "voters-length"
    else
      match collectKeys s m.bitmap with
      | none => .err "not-found"
      | some keys =>
        let doc := voteSignDoc c m.method chainId s.proposer s.seq s.epoch m.sigDoc
        if !c.aggVerify keys doc m.signature then .err "signature"
        else .ok ({ s with accepted := true }, s.seq)

def verifyNonProposal (s : State) (proposer : String) : Outcome State :=
  if s.proposer ≠ proposer then .err "not-proposer" else .ok { s with accepted := true }

/-- what every voted handler does after its own checks: `SetProposalSeq(seq+1)`; `UpdateRandao` -/
def consumeVote (c : Crypto) (s : State) (seq : Nat) (signature : Bytes) : State :=
  { s with seq := (seq + 1) % two64, randao := c.sha256 (s.randao ++ signature) }

/-! ### execution-layer requests -/

structure AddReq where
  voter : Bytes     -- 20-byte address
  keyHash : Bytes   -- 32-byte SHA-256 of the BLS key
  deriving Repr, Inhabited

/-- ProcessRelayerRequest: adds first, then removes. `height` = block height. -/
def processRequest (c : Crypto) (s : State) (height : Nat) (adds : List AddReq) (removes : List Bytes) : State :=
  let s1 := adds.foldl (fun (s : State) a =>
    let addr := c.addrOf a.voter
    if (lookup s.recs addr).isSome then s
    else { s with recs := insert s.recs addr { address := a.voter, voteKey := a.keyHash, status := .pending, height := height } }) s
  if removes.isEmpty then s1
  else
    let active0 : Int := (s1.voters.length : Int) + 1 - (s1.offBoarding.length : Int)
    let rec go : List Bytes → State → Int → State
      | [], s, _ => s
      | rm :: rest, s, active =>
        let addr := c.addrOf rm
        match lookup s.recs addr with
        | none => go rest s active
        | some v =>
          if v.status ≠ .activated then go rest s active
          else
            let active' := active - 1
            if active' < 1 then s   -- break
            else
              go rest { s with recs := insert s.recs addr { v with status := .offBoarding },
                               offBoarding := s.offBoarding ++ [addr] } active'
    go removes s1 active0

/-! ### messages -/

structure NewVoterMsg where
  proposer : String
  blsKey : Bytes
  blsProof : Bytes
  txKey : Bytes
  txProof : Bytes
  deriving Repr, Inhabited

def newVoterValidate (m : NewVoterMsg) : Bool :=
  m.blsKey.length == 96 && m.blsProof.length == 48 && m.txKey.length == 33 && m.txProof.length == 64

/-- NewVoter. `hasAccount` : whether an account already exists for the derived address.
    Returns the new state and whether an account must be created. -/
def newVoter (c : Crypto) (chainId : String) (s : State) (m : NewVoterMsg) (hasAccount : String → Bool) :
    Outcome (State × Option String) :=
  if !newVoterValidate m then .err "validate"
  else match verifyNonProposal s m.proposer with
  | .err e => .err e
  | .panic e => .panic e
  | .ok s =>
    let raw := c.hash160 m.txKey
    let addr := c.addrOf raw
    match lookup s.recs addr with
    | none => .err "not-found"
    | some v =>
      if v.status ≠ .pending then .err "not-pending"
      else if c.sha256 m.blsKey ≠ v.voteKey then .err "key-hash"
      else
        let doc := voteSignDoc c "Relayer/NewVoter" chainId m.proposer 0 s.epoch (le64 v.height ++ raw ++ v.voteKey)
        if !c.ecdsaVerify m.txKey doc m.txProof then .err "tx-proof"
        else if !c.blsVerify m.blsKey doc m.blsProof then .err "bls-proof"
        else
          let has := hasAccount addr
          if has then
            .ok ({ s with recs := insert s.recs addr { v with voteKey := m.blsKey, status := .offBoarding },
                          offBoarding := s.offBoarding ++ [addr] }, none)
          else
            .ok ({ s with recs := insert s.recs addr { v with voteKey := m.blsKey, status := .onBoarding },
                          onBoarding := s.onBoarding ++ [addr] }, some addr)

def acceptProposer (s : State) (proposer : String) (epoch : Nat) (now : Int) : Outcome State :=
  if s.proposer ≠ proposer then .err "not-proposer"
  else if s.accepted then .err "accepted"
  else if s.epoch ≠ epoch then .err "epoch"
  else if now - s.lastElected > s.params.acceptProposerTimeout then .err "timeout"
  else .ok { s with accepted := true }

/-! ### EndBlocker -/

def electionDue (s : State) (now : Int) : Bool :=
  let d := now - s.lastElected
  !(d < s.params.electingPeriod ∧ (s.accepted ∨ s.params.acceptProposerTimeout = 0 ∨ d < s.params.acceptProposerTimeout))

def swapAt (l : List String) (i : Nat) (x : String) : List String := l.set i x

/-- EndBlocker. Error `"too-many"` models "delete too many voters in ElectProposer" (never reached
    from states satisfying the group invariant: theorem C16). -/
def endBlocker (c : Crypto) (s : State) (now : Int) : Outcome State :=
  if !electionDue s now then .ok s
  else
    let onB := !s.onBoarding.isEmpty
    let offB := !s.offBoarding.isEmpty
    -- activate on-boarding (a missing record is an error)
    match s.onBoarding.foldlM (fun (recs : List (String × Voter)) v =>
        match lookup recs v with
        | some r => some (insert recs v { r with status := .activated })
        | none => none) s.recs with
    | none => .err "not-found"
    | some recs1 =>
    let voters1 := if onB then s.voters ++ s.onBoarding else s.voters
    let recs2 := s.offBoarding.foldl erase recs1
    let removed := s.offBoarding.contains s.proposer
    let newVoters := if offB then voters1.filter (fun v => !s.offBoarding.contains v) else voters1
    if offB ∧ removed ∧ newVoters.isEmpty then .err "too-many"
    else
      let (prop2, voters2) :=
        if offB ∧ removed then (newVoters.head!, newVoters.tail) else (s.proposer, newVoters)
      let epoch := (s.epoch + 1) % two64
      let s2 : State := { s with recs := recs2, proposer := prop2, voters := voters2, epoch := epoch, lastElected := now,
                                 onBoarding := if onB ∨ offB then [] else s.onBoarding,
                                 offBoarding := if onB ∨ offB then [] else s.offBoarding }
      if removed then .ok { s2 with accepted := false }
      else
        let n := voters2.length
        if n = 0 then .ok { s2 with accepted := true }
        else
          let idx := if n > 1 then beToNat (c.sha256 (s.randao ++ le64 epoch)) % n else 0
          let newProp := voters2[idx]!
          .ok { s2 with proposer := newProp, voters := voters2.set idx prop2, accepted := false }

end Goat.Relayer
