/-
  Line protocol helpers for the driver: `op <kind> k=v k=v …`
-/
import GoatModel.Prelude
namespace Goat.Wire

structure Op where
  kind : String
  args : List (String × String)

def splitKV (tok : String) : Option (String × String) :=
  match tok.splitOn "=" with
  | [k, v] => some (k, v)
  | k :: v :: rest => some (k, String.intercalate "=" (v :: rest))
  | _ => none

def parseOp (line : String) : Option Op :=
  match (line.trimAscii.toString.splitOn " ").filter (· ≠ "") with
  | "op" :: kind :: rest => some { kind := kind, args := rest.filterMap splitKV }
  | _ => none

def Op.get? (o : Op) (k : String) : Option String := (o.args.find? (·.1 == k)).map (·.2)
def Op.str (o : Op) (k : String) : String := (o.get? k).getD ""
def Op.nat? (o : Op) (k : String) : Option Nat := (o.get? k).bind String.toNat?
def Op.nat (o : Op) (k : String) : Nat := (o.nat? k).getD 0
def Op.int (o : Op) (k : String) : Int := ((o.get? k).bind String.toInt?).getD 0
def Op.bytes? (o : Op) (k : String) : Option Bytes := (o.get? k).bind fromHex
def Op.bytes (o : Op) (k : String) : Bytes := (o.bytes? k).getD []
def Op.bool (o : Op) (k : String) : Bool := o.str k == "1" || o.str k == "true"

/-- comma separated list; "-" or "" is the empty list -/
def listOf (s : String) : List String :=
  if s == "-" || s == "" then [] else s.splitOn ","

def Op.list (o : Op) (k : String) : List String := listOf (o.str k)
def Op.natList (o : Op) (k : String) : List Nat := (o.list k).filterMap String.toNat?
def Op.bytesList (o : Op) (k : String) : List Bytes := (o.list k).filterMap fromHex

def boolStr (b : Bool) : String := if b then "1" else "0"

end Goat.Wire
