/-
  Model of the genesis export / import of x/bitcoin and x/goat:

    x/bitcoin/module/genesis.go   InitGenesis, ExportGenesis
    x/bitcoin/types/genesis.go    GenesisState.Validate, DefaultGenesis
    x/bitcoin/types/params.go     Params.Validate          (= `Bitcoin.paramsValidate`)
    x/bitcoin/keeper/keeper.go    MustHasKey               (relayer key set: `Relayer.State.pubkeys`)
    x/relayer/types/pubkey.go     PublicKey.Validate, EncodePublicKey   (= `Bitcoin.PubKey.validate/encode`)
    x/goat/module/genesis.go      InitGenesis, ExportGenesis
    x/goat/types/genesis.go       GenesisState.Validate, DefaultGenesis

  The model state (`Bitcoin.State`) keeps the four maps (BlockHashes, Deposited, Withdrawals,
  Processing) as association lists in arbitrary order.  The exported genesis carries them in the
  order in which the Go code walks the store:

    BlockHashes   from `BlockTip` downwards (`Get(tip)`, `Get(tip-1)`, …) until the first height
                  without a hash — heights are *not* exported, only the hashes
    Deposited     ascending store-key order.  The key codec is
                  `PairKeyCodec(BytesKey, Uint32Key)`: one length byte, the txid, the output index as
                  4 big-endian bytes (`depKeyBytes`); byte-wise comparison of such keys is
                  (length, txid bytes, txout) lexicographically (`depLt`)
    Withdrawals   descending id   (`(&collections.Range[uint64]{}).Descending()`)
    Processing    descending id

  The sorts are insertion sorts by structural recursion, so that closed examples evaluate in the
  kernel (`decide`).  Core Lean only.
-/
import GoatModel.Bitcoin
import GoatModel.Relayer
import GoatModel.Locking
import GoatModel.App
namespace Goat.GenesisBtc
open Goat.Bitcoin

/-! ## finite maps as association lists, any key type -/

/-- `Map.Get(k)`; `Bitcoin.nlookup` is the instance for `Nat` keys (by `rfl`) -/
def klookup {κ α} [BEq κ] (m : List (κ × α)) (k : κ) : Option α := (m.find? (·.1 == k)).map (·.2)

/-- `Map.Set(k, v)`; `Bitcoin.ninsert` is the instance for `Nat` keys (by `rfl`) -/
def kinsert {κ α} [BEq κ] (m : List (κ × α)) (k : κ) (v : α) : List (κ × α) :=
  if m.any (·.1 == k) then m.map (fun e => if e.1 == k then (k, v) else e) else m ++ [(k, v)]

/-- two association lists denote the same finite map: the same `Get` answer for every key that
    occurs in either of them (every other key is answered "not found" by both) -/
def mapEq {κ α} [BEq κ] [BEq α] (m m' : List (κ × α)) : Bool :=
  (m ++ m').all (fun e => klookup m' e.1 == klookup m e.1)

/-! ## store iteration order -/

def natLt (a b : Nat) : Bool := decide (a < b)
/-- descending ids -/
def natGt (a b : Nat) : Bool := decide (b < a)

/-- lexicographic product of two strict orders -/
def lexLt {α β} [BEq α] (lt1 : α → α → Bool) (lt2 : β → β → Bool) (a b : α × β) : Bool :=
  lt1 a.1 b.1 || (a.1 == b.1 && lt2 a.2 b.2)

/-- the comparison view of a `Deposited` key: (length byte, txid, txout) -/
def depKeyOf (k : Bytes × Nat) : Nat × Bytes × Nat := (k.1.length, k.1, k.2)

/-- store order of the `Deposited` keys -/
def depLt (a b : Bytes × Nat) : Bool :=
  lexLt natLt (lexLt Locking.bytesLt natLt) (depKeyOf a) (depKeyOf b)

/-- `Uint32Key`: 4 big-endian bytes -/
def be32 (n : Nat) : Bytes :=
  [UInt8.ofNat (n / 16777216), UInt8.ofNat (n / 65536), UInt8.ofNat (n / 256), UInt8.ofNat n]

/-- the raw store key of `collections.Join(txid, txout)` under
    `PairKeyCodec(BytesKey, Uint32Key)` (collections v0.4.0: `bytesKey.EncodeNonTerminal` writes
    `uint8(len(key))` and the bytes; keys longer than 255 bytes are refused).  `depLt` is the
    byte-wise order of these keys (proved in GoatProofs/C18B: `depLt_is_store_order`). -/
def depKeyBytes (k : Bytes × Nat) : Bytes := UInt8.ofNat k.1.length :: (k.1 ++ be32 k.2)

/-- insertion into a list sorted by `lt` on the keys (after the entries that are not greater) -/
def insertBy {κ α} (lt : κ → κ → Bool) (x : κ × α) : List (κ × α) → List (κ × α)
  | [] => [x]
  | y :: ys => if lt x.1 y.1 then x :: y :: ys else y :: insertBy lt x ys

/-- the entries of a map in the iteration order given by `lt` -/
def sortBy {κ α} (lt : κ → κ → Bool) (l : List (κ × α)) : List (κ × α) := l.foldr (insertBy lt) []

/-- `Deposited.Iterate(ctx, nil)` -/
def sortDeposits (l : List ((Bytes × Nat) × Nat)) : List ((Bytes × Nat) × Nat) := sortBy depLt l
/-- `Iterate(ctx, (&collections.Range[uint64]{}).Descending())` -/
def sortDesc {α} (l : List (Nat × α)) : List (Nat × α) := sortBy natGt l

/-! ## x/bitcoin -/

/-- `types.GenesisState` of x/bitcoin.  `pubkey` is a pointer (nil ⇒ `none`); `deposits` are
    `DepositGenesis{Txid, Txout, Amount}` written `((txid, txout), amount)`; `withdrawals` are
    `WithdrawalGenesis{Id, Withdrawal}`; `processing` are `ProcessingGenesis{Id, Processing}`.
    (`Params.NetworkName` is not part of the model's `Params`; it is copied verbatim.) -/
structure BGenesis where
  params : Params
  tip : Nat
  hashes : List Bytes
  nonce : Nat
  queue : Queue
  pubkey : Option PubKey
  deposits : List ((Bytes × Nat) × Nat)
  withdrawals : List (Nat × Withdrawal)
  processing : List (Nat × Processing)
  processId : Nat
  deriving DecidableEq, Repr, Inhabited

/-- the block-hash loop of ExportGenesis: `for i := tip+1; i > 0; i-- { Get(i-1) … }`, started with
    `i = n`; stops (`break`) at the first height without a hash -/
def exportHashes (m : List (Nat × Bytes)) : Nat → List Bytes
  | 0 => []
  | i + 1 =>
    match nlookup m i with
    | none => []
    | some h => h :: exportHashes m i

/-- ExportGenesis (x/bitcoin).
    Items: `Params.Get`, `Pubkey.Get`, `EthTxQueue.Get` panic when the item was never set; the model
    state always holds params and queue; a state whose `pubkey.kind = 2` (the model's "nil") stands for
    a store without the `Pubkey` item.  The sequences `BlockTip`, `EthTxNonce`, `ProcessID` are read
    with `Peek` (never fail).  `tip + 1` is computed in uint64. -/
def exportGenesis (s : State) : Outcome BGenesis :=
  if s.pubkey.kind = 2 then .panic "pubkey-not-found"
  else
    .ok { params := s.params
          tip := s.tip
          pubkey := some s.pubkey
          hashes := exportHashes s.hashes ((s.tip + 1) % two64)
          nonce := s.nonce
          queue := s.queue
          deposits := sortDeposits s.deposited
          withdrawals := sortDesc s.withdrawals
          processId := s.processId
          processing := sortDesc s.processing }

/-- `GenesisState.Validate` -/
def genesisValidate (g : BGenesis) : Outcome Unit :=
  if !paramsValidate g.params then .err "params"
  else if (match g.pubkey with
           | some pk => !pk.validate
           | none => false) then .err "pubkey"
  else if g.hashes.isEmpty then .err "no-block-hash"
  else .ok ()

/-- the block-hash loop of InitGenesis; `idx` is the loop index, `acc` the `BlockHashes` map -/
def initHashes (tip : Nat) : List Bytes → Nat → List (Nat × Bytes) → Outcome (List (Nat × Bytes))
  | [], _, acc => .ok acc
  | h :: rest, idx, acc =>
    if h.length ≠ 32 then .panic "block-hash-length"
    else if tip < idx then .panic "block-hash-count"
    else initHashes tip rest (idx + 1) (ninsert acc (tip - idx) h)

/-- `Deposited.Set` refuses a txid of more than 255 bytes (`MaxBytesKeyNonTerminalSize`) -/
def depKeyOk (k : Bytes × Nat) : Bool := decide (k.1.length ≤ 255)

/-- InitGenesis (x/bitcoin).  Every failure is a Go panic; the class names the check, in the order in
    which the Go code performs them: Validate (params, key, no hash), the hash loop (length, count),
    MustHasKey (a nil key is dereferenced there), the deposit keys.  `rel` is the relayer module's
    store (its InitGenesis runs first). -/
def initGenesis (rel : Relayer.State) (g : BGenesis) : Outcome State :=
  match genesisValidate g with
  | .err e => .panic e
  | .panic e => .panic e
  | .ok () =>
    match initHashes g.tip g.hashes 0 [] with
    | .err e => .panic e
    | .panic e => .panic e
    | .ok hs =>
      match g.pubkey with
      | none => .panic "nil-pubkey"
      | some pk =>
        if !rel.pubkeys.contains pk.encode then .panic "key-not-found"
        else if !g.deposits.all (fun d => depKeyOk d.1) then .panic "deposit-key"
        else
          .ok { params := g.params
                pubkey := pk
                tip := g.tip
                hashes := hs
                deposited := g.deposits.foldl (fun m d => kinsert m d.1 d.2) []
                nonce := g.nonce
                withdrawals := g.withdrawals.foldl (fun m w => ninsert m w.1 w.2) []
                processId := g.processId
                processing := g.processing.foldl (fun m p => ninsert m p.1 p.2) []
                queue := g.queue }

/-- `NewParams()` -/
def defaultParams : Params := { minDeposit := 10000, confirmations := 1, taxRate := 0, maxTax := 0, magic := [71, 84, 84, 48] }

/-- the regtest genesis block hash in internal byte order (`chainhash.NewHashFromStr`) -/
def regtestGenesisHash : Bytes :=
  [0x06, 0x22, 0x6e, 0x46, 0x11, 0x1a, 0x0b, 0x59, 0xca, 0xaf, 0x12, 0x60, 0x43, 0xeb, 0x5b, 0xbf,
   0x28, 0xc3, 0x4f, 0x3a, 0x5e, 0x33, 0x2a, 0x1f, 0xc7, 0xb2, 0xb7, 0x3c, 0xf1, 0x88, 0x91, 0x0f]

/-- `DefaultGenesis()` (no key: it cannot be imported as it stands) -/
def defaultGenesis : BGenesis :=
  { params := defaultParams, tip := 0, hashes := [regtestGenesisHash], nonce := 0,
    queue := { blockNumber := 0, deposits := [], paid := [], rejected := [] }, pubkey := none,
    deposits := [], withdrawals := [], processing := [], processId := 0 }

/-- **Executable C18 check for x/bitcoin** (for the differential driver): the export of `s` is
    imported without panic, the imported store has the same items and sequences and denotes the same
    four finite maps, and exporting it again gives the same genesis. -/
def btcRoundTripOk (rel : Relayer.State) (s : State) : Bool :=
  match exportGenesis s with
  | .ok g =>
    match initGenesis rel g with
    | .ok s' =>
      s'.params == s.params && s'.pubkey == s.pubkey && s'.tip == s.tip && s'.nonce == s.nonce &&
      s'.processId == s.processId && s'.queue == s.queue &&
      mapEq s.hashes s'.hashes && mapEq s.deposited s'.deposited &&
      mapEq s.withdrawals s'.withdrawals && mapEq s.processing s'.processing &&
      exportGenesis s' == .ok g
    | _ => false
  | _ => false

/-- the heights carrying a hash are exactly a non-empty range ending at the tip (executable form of
    the gap-freeness clause of `C18B.BWf`): the walk from the tip downwards meets every entry -/
def gapFreeOk (s : State) : Bool :=
  let n := (exportHashes s.hashes (s.tip + 1)).length
  decide (0 < n) && s.hashes.all (fun e => decide (s.tip + 1 ≤ e.1 + n) && decide (e.1 ≤ s.tip))

/-- duplicate-free keys -/
def keysNodup {κ α} [DecidableEq κ] (m : List (κ × α)) : Bool := decide ((m.map (·.1)).Nodup)

/-- executable form of `C18B.BWf` -/
def bwfOk (rel : Relayer.State) (s : State) : Bool :=
  paramsValidate s.params && s.pubkey.validate && rel.pubkeys.contains s.pubkey.encode &&
  decide (s.tip + 1 < two64) && s.hashes.all (fun e => e.2.length == 32) && gapFreeOk s &&
  s.deposited.all (fun e => depKeyOk e.1) &&
  keysNodup s.hashes && keysNodup s.deposited && keysNodup s.withdrawals && keysNodup s.processing

/-! ## x/goat -/
section goat
open Goat.App

/-- `types.GenesisState` of x/goat: `Params` (an empty message), `EthBlock` (the recorded execution
    head; the model keeps the three fields the consensus code reads, the other fields of the
    `ExecutionPayload` are copied alike), `BeaconRoot`. -/
structure GGenesis where
  ethBlock : Head
  beaconRoot : Bytes
  deriving DecidableEq, Repr, Inhabited

/-- the three items of the module store, each possibly never set -/
structure GStore where
  params : Option Unit
  block : Option Head
  beaconRoot : Option Bytes
  deriving DecidableEq, Repr, Inhabited

/-- a fresh store -/
def GStore.empty : GStore := { params := none, block := none, beaconRoot := none }

/-- the store of a running chain -/
def GStore.ofState (s : GState) : GStore := { params := some (), block := some s.head, beaconRoot := some s.beaconRoot }

/-- the state read back from a store (the keeper's `Block.Get` / `BeaconRoot.Get`) -/
def GStore.toState (st : GStore) : Option GState :=
  match st.params, st.block, st.beaconRoot with
  | some (), some b, some r => some { head := b, beaconRoot := r }
  | _, _, _ => none

/-- ExportGenesis (x/goat): three `Item.Get`, each panics on a missing item -/
def exportGoatStore (st : GStore) : Outcome GGenesis :=
  match st.params with
  | none => .panic "params-not-found"
  | some () =>
    match st.block with
    | none => .panic "block-not-found"
    | some b =>
      match st.beaconRoot with
      | none => .panic "beacon-root-not-found"
      | some r => .ok { ethBlock := b, beaconRoot := r }

/-- InitGenesis (x/goat): three `Item.Set`; nothing is checked (`Validate` is not called and
    `Params.Validate` accepts everything) -/
def initGoatStore (g : GGenesis) : GStore :=
  { params := some (), block := some g.ethBlock, beaconRoot := some g.beaconRoot }

/-- `GenesisState.Validate` (x/goat) -/
def goatGenesisValidate (_ : GGenesis) : Outcome Unit := .ok ()

/-- ExportGenesis on the model state -/
def exportGoatGenesis (s : GState) : Outcome GGenesis := exportGoatStore (GStore.ofState s)

/-- InitGenesis on the model state (never fails) -/
def initGoatGenesis (g : GGenesis) : Outcome GState :=
  match (initGoatStore g).toState with
  | some s => .ok s
  | none => .panic "unreachable"

/-- **Executable C18 check for x/goat** -/
def goatRoundTripOk (s : GState) : Bool :=
  match exportGoatGenesis s with
  | .ok g =>
    match initGoatGenesis g with
    | .ok s' => s' == s && exportGoatGenesis s' == .ok g
    | _ => false
  | _ => false

end goat

/-- **Executable C18 check for x/bitcoin and x/goat together** -/
def genesisRoundTripOk (rel : Relayer.State) (s : State) (gs : App.GState) : Bool :=
  btcRoundTripOk rel s && goatRoundTripOk gs

/-! ## sanity checks (evaluation) -/
section sanity

/-- store order of deposit keys: shorter txids first, then txid bytes, then the output index -/
example : depLt ([9, 9], 7) ([1, 1, 1], 0) = true ∧ depLt ([1, 2], 300) ([1, 3], 0) = true ∧
    depLt ([1, 2], 255) ([1, 2], 256) = true ∧ depLt ([1, 2], 256) ([1, 2], 255) = false := by decide
/-- … which is the byte-wise order of the raw keys -/
example : Locking.bytesLt (depKeyBytes ([9, 9], 7)) (depKeyBytes ([1, 1, 1], 0)) = true ∧
    Locking.bytesLt (depKeyBytes ([1, 2], 255)) (depKeyBytes ([1, 2], 256)) = true := by decide

example : sortDesc [(2, "b"), (7, "c"), (1, "a")] = [(7, "c"), (2, "b"), (1, "a")] := by decide
example : sortDeposits [(([2, 0], 1), 5), (([1, 9], 3), 6), (([1, 9], 0), 7), (([3], 0), 8)] =
    [(([3], 0), 8), (([1, 9], 0), 7), (([1, 9], 3), 6), (([2, 0], 1), 5)] := by decide

/-- the walk stops at the first missing height: the hash at height 3 is not exported -/
example : exportHashes [(3, [3]), (5, [5]), (6, [6])] 7 = [[6], [5]] := by decide

/-- `DefaultGenesis()` has no key: InitGenesis panics in MustHasKey -/
example (rel : Relayer.State) : initGenesis rel defaultGenesis = .panic "nil-pubkey" := by
  simp [initGenesis, genesisValidate, defaultGenesis, defaultParams, paramsValidate, initHashes, regtestGenesisHash]

example : goatRoundTripOk { head := { blockHash := [1], blockNumber := 5, parentHash := [0] }, beaconRoot := [9] } = true := by
  decide
example : exportGoatStore GStore.empty = .panic "params-not-found" := by decide

end sanity

end Goat.GenesisBtc
