/-
  Model of app/ante.go (GoatGuardHandler), x/goat/keeper/{tx,eth,abci,keeper}.go:
  NewEthBlock, VerifyDequeue, ProcessProposal's structural checks, Finalized.
-/
import GoatModel.Prelude
import GoatModel.Relayer
import GoatModel.Bitcoin
import GoatModel.Locking
namespace Goat.App

/-! ### ante guard -/

inductive Mode where
  | check | recheck | prepare | process | finalize | simulate | other
  deriving DecidableEq, Repr, Inhabited

def Mode.ofString : String → Mode
  | "check" => .check | "recheck" => .recheck | "prepare" => .prepare | "process" => .process
  | "finalize" => .finalize | "simulate" => .simulate | _ => .other

/-- message names are lists of character codes (so that prefix tests reduce in the kernel) -/
abbrev Name := List Nat

def nameOf (s : String) : Name := s.toList.map Char.toNat

/-- "goat.goat.v1.MsgNewEthBlock" -/
def ethBlockMsg : Name := [103, 111, 97, 116, 46, 103, 111, 97, 116, 46, 118, 49, 46, 77, 115, 103, 78, 101, 119, 69, 116, 104, 66, 108, 111, 99, 107]
/-- "goat.bitcoin." -/
def nsBitcoin : Name := [103, 111, 97, 116, 46, 98, 105, 116, 99, 111, 105, 110, 46]
/-- "goat.relayer." -/
def nsRelayer : Name := [103, 111, 97, 116, 46, 114, 101, 108, 97, 121, 101, 114, 46]

def isRelayerNs (name : Name) : Bool := nsBitcoin.isPrefixOf name || nsRelayer.isPrefixOf name

/-- `relayerTxOnly` -/
def relayerTxOnly (name : Name) (signerIsProposer : Bool) : Outcome Unit :=
  if !isRelayerNs name then .err "not-relayer-msg"
  else if !signerIsProposer then .err "not-proposer"
  else .ok ()

/-- the allow-list test applied to one message -/
def guardStep (mode : Mode) (timeout height : Nat) (signerIsProposer : Bool) (name : Name) : Outcome Unit :=
  match mode with
  | .check | .recheck | .prepare => relayerTxOnly name signerIsProposer
  | .process | .finalize =>
    if name == ethBlockMsg then
      if timeout ≠ height then .err "ethblock-timeout" else .ok ()
    else relayerTxOnly name signerIsProposer
  | _ => .ok ()

/-- GoatGuardHandler.AnteHandle: memo, signer count, timeout height, allow list.
    `signers` = number of signers of the tx; `signerIsProposer` = the first signer is the current
    relayer proposer. -/
def guard (mode : Mode) (memoLen signers : Nat) (timeout height : Nat) (msgs : List Name) (signerIsProposer : Bool) : Outcome Unit :=
  if memoLen > 0 then .err "memo"
  else if signers ≠ 1 then .err "signers"
  else if timeout > 0 ∧ height > timeout then .err "timeout"
  else msgs.foldlM (fun (_ : Unit) name => guardStep mode timeout height signerIsProposer name) ()

/-! ### goat module -/

structure Head where
  blockHash : Bytes
  blockNumber : Nat
  parentHash : Bytes
  deriving DecidableEq, Repr, Inhabited

structure GState where
  head : Head
  beaconRoot : Bytes
  deriving DecidableEq, Repr, Inhabited

structure Payload where
  parentHash : Bytes
  feeRecipient : Bytes
  blockNumber : Nat
  blockHash : Bytes
  blobGasUsed : Nat
  beaconRoot : Bytes
  extraData : Bytes
  txs : List String          -- canonical text of each transaction (system txs decoded, others opaque)
  timestampInFuture : Bool
  deriving Repr, Inhabited

/-- VerifyDequeue on abstract transactions. `due` = canonical texts of the system transactions due
    now (bridge first, then locking). -/
def verifyDequeue (extra : Bytes) (txs : List String) (dueBtc dueLock : List String) : Outcome Unit :=
  if extra.length ≠ 33 then .err "tx-root"
  else
    let n := (extra.head!).toNat
    if txs.length < n then .err "tx-length"
    else if txs.length < dueBtc.length then .err "tx-mismatch"
    else if txs.take dueBtc.length ≠ dueBtc then .err "bridge-tx-mismatch"
    else
      let rest := txs.drop dueBtc.length
      if rest.length < dueLock.length then .err "tx-mismatch"
      else if rest.take dueLock.length ≠ dueLock then .err "locking-tx-mismatch"
      else if (n : Int) - dueBtc.length - dueLock.length ≠ 0 then .err "goat-tx-count"
      else .ok ()

/-- structural part of NewEthBlock before the requests are applied -/
def newEthBlockChecks (g : GState) (proposer cometProposer : Bytes) (p : Option Payload) : Outcome Payload :=
  match p with
  | none => .panic "nil-payload"       -- `req.Payload.FeeRecipient` is read before the nil check
  | some p =>
    if proposer ≠ cometProposer ∨ proposer ≠ p.feeRecipient then .err "proposer"
    else if g.head.blockHash ≠ p.parentHash ∨ g.head.blockNumber + 1 ≠ p.blockNumber then .err "parent"
    else if p.blobGasUsed > 0 then .err "blob"
    else if g.beaconRoot ≠ p.beaconRoot then .err "beacon-root"
    else .ok p

/-- a block proposal as seen by ProcessProposal -/
structure Proposal where
  kinds : List String        -- per tx: "eth" (exactly one MsgNewEthBlock), "eth+" (MsgNewEthBlock among several), "rel"
  anteOk : List Bool         -- per tx: passes the ante chain in process mode
  payload : Option Payload   -- payload of the first transaction's MsgNewEthBlock
  proposer : Bytes           -- proposer named by the message
  comet : Bytes              -- consensus proposer of the height
  reqDecodeOk : Bool
  gasRequests : Nat          -- number of gas-revenue requests in the decoded list
  engineStatus : String      -- answer of engine_newPayload ("VALID", …, "ERROR")
  deriving Repr, Inhabited

/-- ProcessProposal + verifyEthBlockProposal on the state `g` with the system transactions due now -/
def processProposal (g : GState) (dueBtc dueLock : List String) (p : Proposal) : Outcome Unit :=
  if p.kinds.length = 0 then .err "no-txs"
  else if p.kinds.length > 16 then .err "too-many"
  else if p.anteOk.any (· == false) then .err "invalid-tx"
  else if p.kinds.head? ≠ some "eth" then .err "first-not-ethblock"
  else if p.kinds.tail.any (fun k => k == "eth" || k == "eth+") then .err "ethblock-not-first"
  else
    match p.payload with
    | none => .err "empty-payload"
    | some pl =>
      if p.proposer ≠ p.comet then .err "proposer"
      else if p.proposer ≠ pl.feeRecipient then .err "fee-recipient"
      else if pl.timestampInFuture then .err "timestamp"
      else if g.head.blockHash ≠ pl.parentHash then .err "parent"
      else if g.head.blockNumber + 1 ≠ pl.blockNumber then .err "parent"
      else if !p.reqDecodeOk then .err "requests-decode"
      else if p.gasRequests ≠ 1 then .err "gas-length"
      else if g.beaconRoot ≠ pl.beaconRoot then .err "beacon-root"
      else
        match verifyDequeue pl.extraData pl.txs dueBtc dueLock with
        | .err e => .err e
        | .panic e => .panic e
        | .ok () => if p.engineStatus != "VALID" then .err "engine" else .ok ()

/-- Finalized: the two engine calls at the end of every block.  `newStatus`/`fcuStatus` are the
    scripted answers ("VALID", "INVALID", "SYNCING", "ACCEPTED", or "ERROR" for a transport error). -/
def finalized (newStatus fcuStatus : String) : Outcome Unit :=
  if newStatus == "ERROR" then .err "engine-error"
  else if newStatus == "INVALID" then .err "engine-invalid"
  else if fcuStatus == "ERROR" then .err "engine-error"
  else if fcuStatus == "INVALID" then .err "engine-invalid"
  else .ok ()

end Goat.App
