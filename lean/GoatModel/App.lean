/-
  Model of app/ante.go (GoatGuardHandler), x/goat/keeper/{tx,eth,abci,keeper}.go:
  NewEthBlock, VerifyDequeue, ProcessProposal's structural checks, Finalized.
-/
import GoatModel.Prelude
import GoatModel.Relayer
import GoatModel.Bitcoin
import GoatModel.Locking
namespace Goat.App

/-! ### ante guard -/

inductive Mode where
  | check | recheck | prepare | process | finalize | simulate | other
  deriving DecidableEq, Repr, Inhabited

def Mode.ofString : String → Mode
  | "check" => .check | "recheck" => .recheck | "prepare" => .prepare | "process" => .process
  | "finalize" => .finalize | "simulate" => .simulate | _ => .other

def ethBlockMsg : String := "goat.goat.v1.MsgNewEthBlock"

def isRelayerNs (name : String) : Bool := name.startsWith "goat.bitcoin." || name.startsWith "goat.relayer."

/-- `relayerTxOnly` -/
def relayerTxOnly (name : String) (signerIsProposer : Bool) : Outcome Unit :=
  if !isRelayerNs name then .err "not-relayer-msg"
  else if !signerIsProposer then .err "not-proposer"
  else .ok ()

/-- GoatGuardHandler.AnteHandle: memo, signer count, timeout height, allow list.
    `signers` = number of signers of the tx; `signerIsProposer` = the first signer is the current
    relayer proposer. -/
def guard (mode : Mode) (memoLen signers : Nat) (timeout height : Nat) (msgs : List String) (signerIsProposer : Bool) : Outcome Unit :=
  if memoLen > 0 then .err "memo"
  else if signers ≠ 1 then .err "signers"
  else if timeout > 0 ∧ height > timeout then .err "timeout"
  else
    msgs.foldlM (fun (_ : Unit) name =>
      match mode with
      | .check | .recheck | .prepare => relayerTxOnly name signerIsProposer
      | .process | .finalize =>
        if name == ethBlockMsg then
          if timeout ≠ height then .err "ethblock-timeout" else .ok ()
        else relayerTxOnly name signerIsProposer
      | _ => .ok ()) ()

/-! ### goat module -/

structure Head where
  blockHash : Bytes
  blockNumber : Nat
  parentHash : Bytes
  deriving DecidableEq, Repr, Inhabited

structure GState where
  head : Head
  beaconRoot : Bytes
  deriving DecidableEq, Repr, Inhabited

structure Payload where
  parentHash : Bytes
  feeRecipient : Bytes
  blockNumber : Nat
  blockHash : Bytes
  blobGasUsed : Nat
  beaconRoot : Bytes
  extraData : Bytes
  txs : List String          -- canonical text of each transaction (system txs decoded, others opaque)
  timestampInFuture : Bool
  deriving Repr, Inhabited

/-- VerifyDequeue on abstract transactions. `due` = canonical texts of the system transactions due
    now (bridge first, then locking). -/
def verifyDequeue (extra : Bytes) (txs : List String) (dueBtc dueLock : List String) : Outcome Unit :=
  if extra.length ≠ 33 then .err "tx-root"
  else
    let n := (extra.head!).toNat
    if txs.length < n then .err "tx-length"
    else if txs.length < dueBtc.length then .err "tx-mismatch"
    else if txs.take dueBtc.length ≠ dueBtc then .err "bridge-tx-mismatch"
    else
      let rest := txs.drop dueBtc.length
      if rest.length < dueLock.length then .err "tx-mismatch"
      else if rest.take dueLock.length ≠ dueLock then .err "locking-tx-mismatch"
      else if (n : Int) - dueBtc.length - dueLock.length ≠ 0 then .err "goat-tx-count"
      else .ok ()

/-- structural part of NewEthBlock before the requests are applied -/
def newEthBlockChecks (g : GState) (proposer cometProposer : Bytes) (p : Option Payload) : Outcome Payload :=
  match p with
  | none => .panic "nil-payload"       -- `req.Payload.FeeRecipient` is read before the nil check
  | some p =>
    if proposer ≠ cometProposer ∨ proposer ≠ p.feeRecipient then .err "proposer"
    else if g.head.blockHash ≠ p.parentHash ∨ g.head.blockNumber + 1 ≠ p.blockNumber then .err "parent"
    else if p.blobGasUsed > 0 then .err "blob"
    else if g.beaconRoot ≠ p.beaconRoot then .err "beacon-root"
    else .ok p

/-- Finalized: the two engine calls at the end of every block.  `newStatus`/`fcuStatus` are the
    scripted answers ("VALID", "INVALID", "SYNCING", "ACCEPTED", or "ERROR" for a transport error). -/
def finalized (newStatus fcuStatus : String) : Outcome Unit :=
  if newStatus == "ERROR" then .err "engine-error"
  else if newStatus == "INVALID" then .err "engine-invalid"
  else if fcuStatus == "ERROR" then .err "engine-error"
  else if fcuStatus == "INVALID" then .err "engine-invalid"
  else .ok ()

end Goat.App
