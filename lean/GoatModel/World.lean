/-
  World: the composed model state driven by trace operations (layer K vocabulary), canonical dumps,
  and the oracle tables through which the harness states cryptographic facts (who signed what,
  hash160 / taproot tweak / bech32 / address decoding results computed with the real libraries).
-/
import GoatModel.Prelude
import GoatModel.Sha256
import GoatModel.Wire
import GoatModel.Merkle
import GoatModel.Relayer
import GoatModel.Bitcoin
import GoatModel.Locking
import GoatModel.LockingParams
import GoatModel.Addr
import GoatModel.Requests
import GoatModel.SysTxBytes
import GoatModel.Comet
namespace Goat.World
open Goat.Wire

structure Oracles where
  h160 : List (Bytes × Bytes) := []
  addr : List (Bytes × String) := []
  tweak : List (Bytes × Bytes) := []
  tweakns : List (Bytes × Bytes) := []
  decode : List (String × Option Bytes) := []
  agg : List (Bytes × Bytes × List Bytes) := []     -- signature ↦ (doc, sorted signer keys)
  bls : List (Bytes × Bytes × Bytes) := []          -- (key, doc, sig)
  ecdsa : List (Bytes × Bytes × Bytes) := []
  deriving Inhabited

structure W where
  chainId : String := ""
  rel : Relayer.State := default
  btc : Bitcoin.State := default
  lock : Locking.State := default
  accounts : List Bytes := []
  comet : Comet.VSet := []
  o : Oracles := {}
  deriving Inhabited

def blookup {β} (m : List (Bytes × β)) (k : Bytes) : Option β := (m.find? (·.1 == k)).map (·.2)

def sortBytes (l : List Bytes) : List Bytes := l.mergeSort (fun a b => !Locking.bytesLt b a)
def sortStr (l : List String) : List String := l.mergeSort (fun a b => !(b < a))

def relCrypto (o : Oracles) : Relayer.Crypto :=
  { sha256 := Sha256.sha256
    hash160 := fun k => (blookup o.h160 k).getD []
    aggVerify := fun keys doc sig =>
      !keys.isEmpty &&
      (match (o.agg.find? (·.1 == sig)) with
       | some (_, d, ks) => d == doc && sortBytes keys == ks
       | none => false)
    blsVerify := fun k d s => o.bls.any (fun e => e.1 == k && e.2.1 == d && e.2.2 == s)
    ecdsaVerify := fun k d s => o.ecdsa.any (fun e => e.1 == k && e.2.1 == d && e.2.2 == s)
    addrOf := fun raw => (blookup o.addr raw).getD ("?" ++ toHex raw) }

def btcCrypto (o : Oracles) : Bitcoin.Crypto :=
  { sha256 := Sha256.sha256
    dsha256 := Sha256.dsha256
    hash160 := fun k => (blookup o.h160 k).getD []
    tweak := fun k e => blookup o.tweak (k ++ e)
    tweakNoScript := fun k => blookup o.tweakns k
    -- withdrawal addresses are decoded by the model itself (GoatModel.Addr; every stream runs the bridge on regtest);
    -- the `decode` oracle lines of older traces are ignored
    decodeAddr := fun a => Addr.decodeBtcAddress .regtest a }

/-! ### formatting -/
def hexD (b : Bytes) : String := if b.isEmpty then "-" else toHex b
def lst (l : List String) : String := if l.isEmpty then "-" else String.intercalate "," l
def plus (l : List String) : String := if l.isEmpty then "-" else String.intercalate "+" l

def dumpRel (s : Relayer.State) : String :=
  let recs := sortStr (s.recs.map (fun (k, v) => s!"{k}|{toHex v.address}|{v.status.toNat}|{v.height}|{toHex v.voteKey}"))
  let keys := sortStr (s.pubkeys.map toHex)
  s!"rel period={s.params.electingPeriod} timeout={s.params.acceptProposerTimeout} prop={s.proposer} voters={lst s.voters} epoch={s.epoch} last={s.lastElected} acc={boolStr s.accepted} seq={s.seq} randao={toHex s.randao} recs={lst recs} on={lst s.onBoarding} off={lst s.offBoarding} keys={lst keys}"

def pkText (p : Bitcoin.PubKey) : String :=
  if p.kind = 0 then "0|" ++ hexD p.key else if p.kind = 1 then "1|" ++ hexD p.key else if p.kind = 2 then "2|-" else "3|-"

def dumpBtc (s : Bitcoin.State) : String :=
  let p := s.params
  let hashes := (s.hashes.mergeSort (fun a b => a.1 ≤ b.1)).map (fun (h, v) => s!"{h}|{toHex v}")
  let deps := (s.deposited.mergeSort (fun a b => Locking.bytesLt a.1.1 b.1.1 || (a.1.1 == b.1.1 && a.1.2 ≤ b.1.2))).map
    (fun ((t, v), a) => s!"{toHex t}|{v}|{a}")
  let ws := (s.withdrawals.mergeSort (fun a b => a.1 ≤ b.1)).map (fun (id, w) =>
    let rc := match w.receipt with
      | some r => s!"{hexD r.txid}/{r.txout}/{r.amount}"
      | none => "-"
    s!"{id}|{hexD (strBytes w.address)}|{w.requestAmount}|{w.maxTxPrice}|{w.status.toNat}|{rc}")
  let ps := (s.processing.mergeSort (fun a b => a.1 ≤ b.1)).map (fun (id, p) =>
    s!"{id}|{p.fee}|{plus (p.withdrawals.map toString)}|{plus (p.txids.map hexD)}|{plus (p.outputs.map (fun vs => String.intercalate "/" (vs.map toString)))}")
  let qd := s.queue.deposits.map (fun d => s!"{toHex d.address}|{toHex d.txid}|{d.txout}|{d.amount}|{d.tax}")
  let qp := s.queue.paid.map (fun (id, r) => s!"{id}|{hexD r.txid}|{r.txout}|{r.amount}")
  let qr := s.queue.rejected.map toString
  s!"btc params={p.minDeposit}|{p.confirmations}|{p.taxRate}|{p.maxTax}|{toHex p.magic} pubkey={pkText s.pubkey} tip={s.tip} nonce={s.nonce} pid={s.processId} qbn={s.queue.blockNumber} hashes={lst hashes} deposited={lst deps} w={lst ws} proc={lst ps} qdep={lst qd} qpaid={lst qp} qrej={lst qr}"

def coinsText (c : Locking.Coins) : String := plus (c.map (fun (d, a) => s!"{d}/{a}"))

def statusName : Locking.Status → String
  | .pending => "pending" | .active => "active" | .downgrade => "downgrade"
  | .tombstoned => "tombstoned" | .inactive => "inactive"

def pad20 (n : Nat) : String :=
  let s := toString n
  String.ofList (List.replicate (20 - s.length) '0') ++ s

def dumpLock (s : Locking.State) : String :=
  let vals := (s.validators.mergeSort (fun a b => !Locking.bytesLt b.1 a.1)).map (fun (a, v) =>
    s!"{toHex a}|{statusName v.status}|{v.power}|{v.reward}|{v.gasReward}|{v.offset}|{v.missed}|{v.jailedUntil}|{coinsText v.locking}|{toHex v.pubkey}")
  let idx := sortStr (s.lockingIdx.map (fun ((d, a), x) => s!"{d}|{toHex a}|{x}"))
  let rank := sortStr (s.ranking.map (fun (p, a) => s!"{pad20 p}|{toHex a}"))
  let set := (s.valset.mergeSort (fun a b => !Locking.bytesLt b.1 a.1)).map (fun (a, p) => s!"{toHex a}|{p}")
  let toks := sortStr (s.tokens.map (fun (d, t) => s!"{d}|{t.weight}|{t.threshold}"))
  let sl := sortStr (s.slashed.map (fun (d, x) => s!"{d}|{x}"))
  let uq := (s.unlockQueue.mergeSort (fun a b => a.1 ≤ b.1)).map (fun (t, us) =>
    s!"{t}|{plus (us.map (fun u => s!"{u.id}/{toHex u.token}/{toHex u.recipient}/{u.amount}"))}")
  let qr := s.qRewards.map (fun r => s!"{r.id}|{toHex r.recipient}|{r.goat}|{r.gas}")
  let qu := s.qUnlocks.map (fun u => s!"{u.id}|{toHex u.token}|{toHex u.recipient}|{u.amount}")
  s!"lock vals={lst vals} idx={lst idx} rank={lst rank} set={lst set} tokens={lst toks} thr={coinsText s.threshold} slashed={lst sl} nonce={s.nonce} pool={s.pool.goat}|{s.pool.gas}|{s.pool.remain} qrew={lst qr} qunl={lst qu} uq={lst uq}"

def sysTxText : Bitcoin.SysTx → String
  | .newBlock n h => s!"nb|{n}|{toHex h}"
  | .deposit n r => s!"dep|{n}|{toHex r.txid}|{r.txout}|{toHex r.address}|{r.amount * 10000000000}|{r.tax * 10000000000}"
  | .paid n id r => s!"paid|{n}|{id}|{toHex r.txid}|{r.txout}|{r.amount * 10000000000}"
  | .cancel2 n id => s!"c2|{n}|{id}"
  | .reward n id rc g gs => s!"rew|{n}|{id}|{toHex rc}|{g}|{gs}"
  | .unlock n id rc tk a => s!"unl|{n}|{id}|{toHex rc}|{toHex tk}|{a}"

/-- `common.BytesToHash` / `BytesToAddress` left-pad or crop to n bytes -/
def fitLeft (n : Nat) (b : Bytes) : Bytes :=
  if b.length ≥ n then b.drop (b.length - n) else List.replicate (n - b.length) 0 ++ b

/-! ### op argument decoding -/
def flds (s : String) : List String := s.splitOn "|"
def natOf (s : String) : Nat := s.toNat?.getD 0
def intOf (s : String) : Int := s.toInt?.getD 0
def bytesOf (s : String) : Bytes := (fromHex s).getD []

def voteOf (o : Op) : Relayer.VoteMsg :=
  { proposer := o.str "proposer", method := "", sigDoc := [], seq := o.nat "seq", epoch := o.nat "epoch",
    bitmap := o.bytes "bitmap", signature := o.bytes "sig" }

def hasVote (o : Op) : Bool := o.str "hasvote" != "0"

def pubKeyOf (kind : String) (key : Bytes) : Bitcoin.PubKey :=
  { kind := if kind == "0" then 0 else if kind == "1" then 1 else if kind == "2" then 2 else 3, key := key }

def denomOf (tokenAddr : Bytes) : String :=
  let a := fitLeft 20 tokenAddr
  if a == List.replicate 20 0 then "btc"
  else if a == bytesOf "bc10000000000000000000000000000000000001" then "goat"
  else "tkn:" ++ toHex a

def res {α} (r : Outcome α) : String :=
  match r with
  | .ok _ => "ok"
  | .err e => "err ;; " ++ e
  | .panic e => "panic ;; " ++ e

def hasAccountStr (w : W) (addr : String) : Bool :=
  w.accounts.any (fun raw => (relCrypto w.o).addrOf raw == addr)

def rawOfAddr (w : W) (addr : String) : Bytes :=
  ((w.o.addr.find? (·.2 == addr)).map (·.1)).getD []

def lockReqs (o : Op) : Locking.Reqs :=
  { gas := (o.list "gas").map intOf
    grants := (o.list "grants").map intOf
    weights := (o.list "weights").map (fun x => let f := flds x; (denomOf (bytesOf f[0]!), natOf f[1]!))
    thresholds := (o.list "thresholds").map (fun x => let f := flds x; (denomOf (bytesOf f[0]!), intOf f[1]!))
    creates := (o.list "creates").map (fun x => let f := flds x; { validator := fitLeft 20 (bytesOf f[0]!), compressed := bytesOf f[2]! })
    locks := (o.list "locks").map (fun x => let f := flds x; { validator := fitLeft 20 (bytesOf f[0]!), token := denomOf (bytesOf f[1]!), amount := intOf f[2]! })
    unlocks := (o.list "unlocks").map (fun x => let f := flds x;
      { id := natOf f[0]!, validator := fitLeft 20 (bytesOf f[1]!), recipient := fitLeft 20 (bytesOf f[2]!),
        token := denomOf (bytesOf f[3]!), tokenAddr := fitLeft 20 (bytesOf f[3]!), amount := intOf f[4]! })
    claims := (o.list "claims").map (fun x => let f := flds x;
      { id := natOf f[0]!, validator := fitLeft 20 (bytesOf f[1]!), recipient := fitLeft 20 (bytesOf f[2]!) }) }

def bridgeReqs (o : Op) : Bitcoin.BridgeReqs :=
  { withdraws := (o.list "withdraws").map (fun x => let f := flds x;
      { id := natOf f[0]!, amount := natOf f[1]!, txPrice := natOf f[2]!, address := String.fromUTF8! (ByteArray.mk (bytesOf f[3]!).toArray) })
    rbf := (o.list "rbf").map (fun x => let f := flds x; (natOf f[0]!, natOf f[1]!))
    cancel1 := (o.list "cancel").map natOf
    depositTax := (o.list "tax").map (fun x => let f := flds x; (natOf f[0]!, natOf f[1]!))
    confirmation := (o.list "conf").map natOf
    minDeposit := (o.list "min").map natOf }

/-! ### the step function -/

/-- how a transaction's outcome is applied: baseapp writes the transaction's cached store only when
    the handler answered without error or panic -/
def commitTx {α} (w : W) (r : Outcome α) (f : α → W) : W × String :=
  match r with
  | .ok a => (f a, "=> ok")
  | _ => (w, "=> " ++ res r)

/-- the message handlers (each runs inside one transaction) -/
def txStep (w : W) (o : Op) : W × String :=
  let rc := relCrypto w.o
  let bc := btcCrypto w.o
  match o.kind with
  | "tx.hashes" =>
    let r := Bitcoin.newBlockHashes rc w.chainId w.rel w.btc (voteOf o) (hasVote o) (o.nat "start") (o.bytesList "hashes")
    commitTx w r (fun (rel, btc) => { w with rel := rel, btc := btc })
  | "tx.pubkey" =>
    let r := Bitcoin.newPubkey rc w.chainId w.rel w.btc (voteOf o) (hasVote o) (pubKeyOf (o.str "kind") (o.bytes "key"))
    commitTx w r (fun (rel, btc) => { w with rel := rel, btc := btc })
  | "tx.deposits" =>
    let m : Bitcoin.NewDepositsMsg :=
      { proposer := o.str "proposer"
        headers := (o.list "headers").map (fun x => let f := flds x; (natOf f[0]!, bytesOf f[1]!))
        deposits := (o.list "deps").map (fun x => let f := flds x;
          { version := natOf f[0]!, blockNumber := natOf f[1]!, txIndex := natOf f[2]!, noWitnessTx := bytesOf f[3]!,
            outputIndex := natOf f[4]!, proof := bytesOf f[5]!, evm := bytesOf f[6]!, pubkey := pubKeyOf f[7]! (bytesOf f[8]!) }) }
    let r := Bitcoin.newDeposits bc w.rel w.btc m
    commitTx w r (fun (rel, btc) => { w with rel := rel, btc := btc })
  | "tx.process" =>
    let r := Bitcoin.processWithdrawal bc rc w.chainId w.rel w.btc (voteOf o) (hasVote o) (o.natList "ids") (o.bytes "tx") (o.nat "fee")
    commitTx w r (fun (rel, btc) => { w with rel := rel, btc := btc })
  | "tx.replace" =>
    let r := Bitcoin.replaceWithdrawal bc rc w.chainId w.rel w.btc (voteOf o) (hasVote o) (o.nat "pid") (o.bytes "tx") (o.nat "fee")
    commitTx w r (fun (rel, btc) => { w with rel := rel, btc := btc })
  | "tx.finalize" =>
    let m : Bitcoin.FinalizeMsg := { proposer := o.str "proposer", pid := o.nat "pid", txid := o.bytes "txid", blockNumber := o.nat "block",
                                     txIndex := o.nat "txindex", proof := o.bytes "proof", header := o.bytes "header" }
    let r := Bitcoin.finalizeWithdrawal bc w.rel w.btc m
    commitTx w r (fun (rel, btc) => { w with rel := rel, btc := btc })
  | "tx.approve" =>
    let r := Bitcoin.approveCancellation w.rel w.btc (o.str "proposer") (o.natList "ids")
    commitTx w r (fun (rel, btc) => { w with rel := rel, btc := btc })
  | "tx.consolidate" =>
    let r := Bitcoin.newConsolidation bc rc w.chainId w.rel w.btc (voteOf o) (hasVote o) (o.bytes "tx")
    commitTx w r (fun (rel, btc) => { w with rel := rel, btc := btc })
  | "tx.newvoter" =>
    let m : Relayer.NewVoterMsg := { proposer := o.str "proposer", blsKey := o.bytes "blskey", blsProof := o.bytes "blsproof",
                                     txKey := o.bytes "txkey", txProof := o.bytes "txproof" }
    let r := Relayer.newVoter rc w.chainId w.rel m (hasAccountStr w)
    commitTx w r (fun (rel, newAcc) =>
      let accs := match newAcc with
        | some a => w.accounts ++ [rawOfAddr w a]
        | none => w.accounts
      { w with rel := rel, accounts := accs })
  | "tx.accept" =>
    let r := Relayer.acceptProposer w.rel (o.str "proposer") (o.nat "epoch") (o.int "time")
    commitTx w r (fun rel => { w with rel := rel })
  | k => (w, s!"=> unknown-op {k}")

/-- execution-layer request lists (applied inside the MsgNewEthBlock transaction) -/
def reqStep (w : W) (o : Op) : W × String :=
  let rc := relCrypto w.o
  let bc := btcCrypto w.o
  match o.kind with
  | "req.relayer" =>
    let adds := (o.list "adds").map (fun x => let f := flds x; ({ voter := fitLeft 20 (bytesOf f[0]!), keyHash := fitLeft 32 (bytesOf f[1]!) } : Relayer.AddReq))
    let removes := (o.list "removes").map (fun x => fitLeft 20 (bytesOf x))
    ({ w with rel := Relayer.processRequest rc w.rel (o.nat "height") adds removes }, "=> ok")
  | "req.bridge" =>
    let r := Bitcoin.processBridgeRequest bc w.btc (bridgeReqs o)
    match r with
    | .ok btc => ({ w with btc := btc }, "=> ok")
    | _ => (w, "=> " ++ res r)
  | "req.lock" =>
    let r := Locking.processRequests rc.hash160 (fun a => w.accounts.contains a) w.lock (o.int "height") (o.int "time") (lockReqs o)
    match r with
    | .ok (lk, accs) => ({ w with lock := lk, accounts := w.accounts ++ accs }, "=> ok")
    | _ => (w, "=> " ++ res r)
  | k => (w, s!"=> unknown-op {k}")

def step (w : W) (o : Op) : W × String :=
  let rc := relCrypto w.o
  let bc := btcCrypto w.o
  match o.kind with
  | "oracle" =>
    let name := o.str "name"
    let i := o.bytes "in"
    let out := o.bytes "out"
    let or := w.o
    let or' : Oracles :=
      if name == "h160" then { or with h160 := (i, out) :: or.h160 }
      else if name == "addr" then { or with addr := (i, o.str "out") :: or.addr }
      else if name == "tweak" then { or with tweak := (i, out) :: or.tweak }
      else if name == "tweakns" then { or with tweakns := (i, out) :: or.tweakns }
      else if name == "decode" then
        { or with decode := (String.fromUTF8! (ByteArray.mk i.toArray), if o.str "out" == "x" then none else some out) :: or.decode }
      else if name == "agg" then { or with agg := (o.bytes "sig", o.bytes "doc", sortBytes (o.bytesList "keys")) :: or.agg }
      else if name == "bls" then { or with bls := (o.bytes "key", o.bytes "doc", o.bytes "sig") :: or.bls }
      else if name == "ecdsa" then { or with ecdsa := (o.bytes "key", o.bytes "doc", o.bytes "sig") :: or.ecdsa }
      else or
    ({ w with o := or' }, "=> ok")
  | "init.rel" =>
    let recs := (o.list "keys").map (fun x => let f := flds x;
      (f[0]!, ({ address := bytesOf f[1]!, voteKey := bytesOf f[2]!, status := .activated, height := 0 } : Relayer.Voter)))
    let rel : Relayer.State :=
      { params := { electingPeriod := o.int "period", acceptProposerTimeout := o.int "timeout" }
        proposer := o.str "proposer", voters := o.list "voters", epoch := o.nat "epoch", lastElected := o.int "last",
        accepted := o.bool "acc", seq := o.nat "seq", randao := o.bytes "randao", recs := recs,
        onBoarding := [], offBoarding := [], pubkeys := o.bytesList "pubkeys" }
    ({ w with rel := rel, chainId := o.str "chain", accounts := w.accounts ++ recs.map (·.2.address) }, "=> ok")
  | "init.btc" =>
    let btc : Bitcoin.State :=
      { params := { minDeposit := o.nat "min", confirmations := o.nat "conf", taxRate := o.nat "rate", maxTax := o.nat "max", magic := o.bytes "magic" }
        pubkey := pubKeyOf (o.str "kind") (o.bytes "key"), tip := o.nat "tip", hashes := [(o.nat "tip", o.bytes "hash")],
        deposited := [], nonce := o.nat "nonce", withdrawals := [], processId := 0, processing := [],
        queue := { blockNumber := o.nat "tip", deposits := [], paid := [], rejected := [] } }
    ({ w with btc := btc }, "=> ok")
  | "init.lock" =>
    let lk : Locking.State :=
      { params := { unlockDuration := o.int "unlock", exitingDuration := o.int "exit", downtimeJail := o.int "jail",
                    maxValidators := o.int "maxvals", signedBlocksWindow := o.int "window", maxMissed := o.int "maxmissed",
                    slashDoubleSign := o.nat "slashds", slashDowntime := o.nat "slashdt", halvingInterval := o.int "halving",
                    initialReward := o.int "reward" }
        validators := [], lockingIdx := [], ranking := [], valset := [], tokens := [], threshold := [], slashed := [],
        nonce := o.nat "nonce", pool := { goat := 0, gas := 0, remain := o.int "remain" }, qRewards := [], qUnlocks := [], unlockQueue := [] }
    ({ w with lock := lk }, "=> ok")
  | "reset" => ({}, "=> ok")
  | "acc.add" => ({ w with accounts := w.accounts ++ [o.bytes "addr"] }, "=> ok")
  | "dump.rel" => (w, "=> " ++ dumpRel w.rel)
  | "dump.btc" => (w, "=> " ++ dumpBtc w.btc)
  | "dump.lock" => (w, "=> " ++ dumpLock w.lock)
  | "dump.acc" => (w, "=> acc " ++ lst ((sortBytes w.accounts).map toHex))
  -- hooks ---------------------------------------------------------------------------------------
  | "hook.rel.end" =>
    let r := Relayer.endBlocker rc w.rel (o.int "time")
    match r with
    | .ok rel => ({ w with rel := rel }, "=> ok")
    | _ => (w, "=> " ++ res r)
  | "hook.lock.begin" =>
    let votes := (o.list "votes").map (fun x => let f := flds x; ({ address := bytesOf f[0]!, power := intOf f[1]!, absent := f[2]! == "1" } : Locking.VoteInfo))
    let evs := (o.list "ev").map (fun x => let f := flds x; ({ kind := natOf f[0]!, address := bytesOf f[1]!, height := intOf f[2]!, time := intOf f[3]! } : Locking.Evidence))
    let maxAge := if o.str "maxage" == "-" || o.str "maxage" == "" then none else
      let f := flds (o.str "maxage"); some (intOf f[0]!, intOf f[1]!)
    let r := Locking.beginBlock w.lock (o.int "height") (o.int "time") votes maxAge evs
    match r with
    | .ok lk =>
      -- cosmos math.Int is 256 bits wide: `slashed.Add(amount)` in handleVoteInfo / HandleEvidences panics when the
      -- cumulative slashed total of a token no longer fits (known finding F12); the hook then fails as a whole
      if lk.slashed.any (fun e => !Locking.fits256 e.2) then (w, "=> panic ;; int-overflow")
      -- likewise `validator.Reward.Add(share)` / `GasReward.Add(share)` in DistributeReward (known finding F13)
      else if lk.validators.any (fun e => !Locking.fits256 e.2.reward || !Locking.fits256 e.2.gasReward) then (w, "=> panic ;; int-overflow")
      else if o.str "obs" == "1" then
        -- who is punished by this hook: validators whose status becomes downgrade / tombstoned
        let pun := lk.validators.filterMap (fun (a, v) =>
          let old := (w.lock.validators.find? (·.1 == a)).map (·.2.status)
          if old != some v.status && (v.status == .downgrade || v.status == .tombstoned) then some s!"{toHex a}|{statusName v.status}" else none)
        ({ w with lock := lk }, "=> ok pun=" ++ lst (sortStr pun))
      else ({ w with lock := lk }, "=> ok")
    | _ => (w, "=> " ++ res r)
  | "hook.lock.end" =>
    let r := Locking.endBlocker w.lock
    match r with
    | .ok (lk, ups) =>
      let ss := sortStr (ups.map (fun u => s!"{toHex u.pubkey}|{u.power}"))
      match Comet.apply w.comet (ups.map (fun u => (u.pubkey, Comet.toInt64 u.power))) with
      | .ok cs => ({ w with lock := lk, comet := cs }, "=> ok ups=" ++ lst ss ++ " ;; comet=ok")
      | .error e => ({ w with lock := lk }, "=> ok ups=" ++ lst ss ++ " ;; comet=err:" ++ e)
    | _ => (w, "=> " ++ res r)
  | "btc.dequeue" =>
    match Bitcoin.dequeue w.btc with
    | .ok (btc, txs) =>
      ((if o.str "commit" == "0" then w else { w with btc := btc }),
        "=> ok txs=" ++ lst (txs.map sysTxText) ++ " raw=" ++ lst (txs.map (fun t => toHex (SysTxBytes.encodeSysTx t))))
    | r => (w, "=> " ++ res r)
  | "lock.dequeue" =>
    let (lk, rews, unls, n0) := Locking.dequeue w.lock
    let x1 : List Bitcoin.SysTx := rews.zipIdx.map (fun (r, i) => .reward (n0 + i) r.id (fitLeft 20 r.recipient) r.goat r.gas)
    let x2 : List Bitcoin.SysTx := unls.zipIdx.map (fun (u, i) => .unlock (n0 + rews.length + i) u.id (fitLeft 20 u.recipient) (fitLeft 20 u.token) u.amount)
    ((if o.str "commit" == "0" then w else { w with lock := lk }),
      "=> ok txs=" ++ lst ((x1 ++ x2).map sysTxText) ++ " raw=" ++ lst ((x1 ++ x2).map (fun t => toHex (SysTxBytes.encodeSysTx t))))
  | "btc.validateparams" =>
    let p : Bitcoin.Params := { minDeposit := o.nat "min", confirmations := o.nat "conf", taxRate := o.nat "rate", maxTax := o.nat "max", magic := o.bytes "magic" }
    (w, if o.str "net" != "regtest" && o.str "net" != "mainnet" && o.str "net" != "testnet3" && o.str "net" != "signet" then "=> err"
        else if Bitcoin.paramsValidate p then "=> ok" else "=> err")
  | "addr.decode" =>
    (w, match Addr.Net.ofString (o.str "net") with
        | none => "=> x"
        | some net =>
          match Addr.decodeBytes (fun _ => true) net (o.bytes "str") with
          | some sc => "=> " ++ hexD sc
          | none => "=> x")
  | "q.depositaddr" =>
    -- the DepositAddress query (x/bitcoin/keeper/query.go): `DecodeEthAddress` (hexutil: 0x prefix, even number of hex
    -- digits, 20 bytes), the builder of the requested version for the current relayer key, the address string on regtest
    let e := o.str "evm"
    let evm? : Option Bytes :=
      if (e.startsWith "0x" || e.startsWith "0X") && e.length > 2 then
        (fromHexAux (e.toList.drop 2) []).bind (fun b => if b.length == 20 then some b else none)
      else none
    (w, match evm? with
      | none => "=> err"
      | some evm =>
        let pk := w.btc.pubkey
        if o.nat "version" == 0 then
          match Bitcoin.depositOutputV0 bc pk evm with
          | some sc => s!"=> ok addr={Addr.encodeSegwit "bcrt" (if sc.head! == 0x51 then 1 else 0) (sc.drop 2)} opret=-"
          | none => "=> err"
        else if o.nat "version" == 1 then
          match Bitcoin.depositOutputsV1 bc pk w.btc.params.magic evm with
          | some (o0, o1) => s!"=> ok addr={Addr.encodeSegwit "bcrt" 0 (o0.drop 2)} opret={toHex o1}"
          | none => "=> err"
        else "=> err")
  | "req.decode" =>
    -- goattypes.DecodeRequests on the typed request items of an execution payload (GoatModel.Requests)
    (w, "=> " ++ Requests.execRaw (o.str "raw"))
  | "lock.validateparams" =>
    let p : LockingParams.RawParams :=
      { unlockDuration := o.int "unlock", exitingDuration := o.int "exit", downtimeJail := o.int "jail", maxValidators := o.int "maxvals",
        signedBlocksWindow := o.int "window", maxMissed := o.int "maxmissed", slashDoubleSign := o.int "slashds", slashDowntime := o.int "slashdt",
        halvingInterval := o.int "halving", initialReward := o.int "reward" }
    (w, if LockingParams.paramsValidate p then "=> ok" else "=> err")
  | "addr.verify" =>
    let pk := pubKeyOf (o.str "kind") (o.bytes "key")
    (w, "=> " ++ boolStr (if o.str "version" == "0" then Bitcoin.verifyDepositScriptV0 bc pk (o.bytes "evm") (o.bytes "out0")
                          else Bitcoin.verifyDepositScriptV1 bc pk (o.bytes "magic") (o.bytes "evm") (o.bytes "out0") (o.bytes "out1")))
  | "addr.deposit" =>
    let pk := pubKeyOf (o.str "kind") (o.bytes "key")
    let pk2 := pubKeyOf (o.str "kind2") (o.bytes "key2")
    let evm := o.bytes "evm"
    let evm2 := o.bytes "evm2"
    let magic := o.bytes "magic"
    if o.str "version" == "0" then
      match Bitcoin.depositOutputV0 bc pk evm with
      | none => (w, "=> none")
      | some sc =>
        let mutS := if (o.get? "mutpos").isSome then s!" mut={boolStr (Bitcoin.verifyDepositScriptV0 bc pk evm (sc.set (o.nat "mutpos") (UInt8.ofNat (o.nat "mutval"))))}" else ""
        (w, s!"=> {hexD sc} same={boolStr (Bitcoin.verifyDepositScriptV0 bc pk evm sc)} otherkey={boolStr (Bitcoin.verifyDepositScriptV0 bc pk2 evm sc)} otherevm={boolStr (Bitcoin.verifyDepositScriptV0 bc pk evm2 sc)}{mutS}")
    else
      match Bitcoin.depositOutputsV1 bc pk magic evm with
      | none => (w, "=> none")
      | some (o0, o1) =>
        let mutS := if (o.get? "mutpos").isSome then s!" mut={boolStr (Bitcoin.verifyDepositScriptV1 bc pk magic evm (o0.set (o.nat "mutpos") (UInt8.ofNat (o.nat "mutval"))) o1)}" else ""
        (w, s!"=> {hexD o0}+{hexD o1} same={boolStr (Bitcoin.verifyDepositScriptV1 bc pk magic evm o0 o1)} otherkey={boolStr (Bitcoin.verifyDepositScriptV1 bc pk2 magic evm o0 o1)} otherevm={boolStr (Bitcoin.verifyDepositScriptV1 bc pk magic evm2 o0 o1)}{mutS}")
  | "merkle.verify" =>
    let r := Merkle.verify Sha256.dsha256 (o.bytes "txid") (o.bytes "root") (o.bytes "proof") (o.nat "index")
    (w, s!"=> {boolStr r}")
  | "sha256" => (w, s!"=> {toHex (Sha256.sha256 (o.bytes "data"))}")
  | k => if k.startsWith "tx." then txStep w o else if k.startsWith "req." then reqStep w o else (w, s!"=> unknown-op {k}")

end Goat.World
