/-
  Parsers for the canonical dump format (inverse of World.dumpRel/dumpBtc/dumpLock): used to load a
  state observed on the real application (genesis of an A-layer run, or an imported export) into the
  model.
-/
import GoatModel.World
namespace Goat.Load
open Goat.Wire Goat.World

def fl (s : String) : List String := s.splitOn "|"
def plusList (s : String) : List String := if s == "-" || s == "" then [] else s.splitOn "+"
def strOfHex (s : String) : String := String.fromUTF8! (ByteArray.mk (bytesOf s).toArray)

def vstatusOf : Nat → Relayer.VStatus
  | 1 => .pending | 2 => .onBoarding | 3 => .offBoarding | 4 => .activated | _ => .unspecified

def loadRel (o : Op) : Relayer.State :=
  { params := { electingPeriod := o.int "period", acceptProposerTimeout := o.int "timeout" }
    proposer := o.str "prop", voters := o.list "voters", epoch := o.nat "epoch", lastElected := o.int "last",
    accepted := o.bool "acc", seq := o.nat "seq", randao := o.bytes "randao"
    recs := (o.list "recs").map (fun x => let f := fl x;
      (f[0]!, { address := bytesOf f[1]!, status := vstatusOf (natOf f[2]!), height := natOf f[3]!, voteKey := bytesOf f[4]! }))
    onBoarding := o.list "on", offBoarding := o.list "off", pubkeys := o.bytesList "keys" }

def wstatusOf : Nat → Bitcoin.WStatus
  | 1 => .pending | 2 => .processing | 3 => .canceling | 4 => .canceled | 5 => .paid | _ => .unspecified

def loadBtc (o : Op) : Bitcoin.State :=
  let p := fl (o.str "params")
  let pk := fl (o.str "pubkey")
  { params := { minDeposit := natOf p[0]!, confirmations := natOf p[1]!, taxRate := natOf p[2]!, maxTax := natOf p[3]!, magic := bytesOf p[4]! }
    pubkey := pubKeyOf pk[0]! (bytesOf pk[1]!)
    tip := o.nat "tip", nonce := o.nat "nonce", processId := o.nat "pid"
    hashes := (o.list "hashes").map (fun x => let f := fl x; (natOf f[0]!, bytesOf f[1]!))
    deposited := (o.list "deposited").map (fun x => let f := fl x; ((bytesOf f[0]!, natOf f[1]!), natOf f[2]!))
    withdrawals := (o.list "w").map (fun x => let f := fl x;
      let rc : Option Bitcoin.Receipt := if f[5]! == "-" then none else
        let r := (f[5]!).splitOn "/"; some { txid := bytesOf r[0]!, txout := natOf r[1]!, amount := natOf r[2]! }
      (natOf f[0]!, { address := strOfHex f[1]!, requestAmount := natOf f[2]!, maxTxPrice := natOf f[3]!, status := wstatusOf (natOf f[4]!), receipt := rc }))
    processing := (o.list "proc").map (fun x => let f := fl x;
      (natOf f[0]!, { fee := natOf f[1]!, withdrawals := (plusList f[2]!).map natOf, txids := (plusList f[3]!).map bytesOf,
                      outputs := (plusList f[4]!).map (fun vs => (vs.splitOn "/").map natOf) }))
    queue := { blockNumber := o.nat "qbn"
               deposits := (o.list "qdep").map (fun x => let f := fl x;
                 { address := bytesOf f[0]!, txid := bytesOf f[1]!, txout := natOf f[2]!, amount := natOf f[3]!, tax := natOf f[4]! })
               paid := (o.list "qpaid").map (fun x => let f := fl x; (natOf f[0]!, { txid := bytesOf f[1]!, txout := natOf f[2]!, amount := natOf f[3]! }))
               rejected := (o.list "qrej").map natOf } }

def lstatusOf : String → Locking.Status
  | "pending" => .pending | "active" => .active | "downgrade" => .downgrade | "tombstoned" => .tombstoned | _ => .inactive

def coinsOf (s : String) : Locking.Coins :=
  (plusList s).map (fun c =>
    -- denom may contain ':' but not '/', amount after the last '/'
    let parts := c.splitOn "/"
    (String.intercalate "/" parts.dropLast, intOf parts.getLast!))

def unlockOf (s : String) : Locking.Unlock :=
  let f := s.splitOn "/"
  { id := natOf f[0]!, token := bytesOf f[1]!, recipient := bytesOf f[2]!, amount := intOf f[3]! }

/-- state from a `lock …` dump; parameters are kept from `base` -/
def loadLock (base : Locking.State) (o : Op) : Locking.State :=
  let pool := fl (o.str "pool")
  { base with
    validators := (o.list "vals").map (fun x => let f := fl x;
      (bytesOf f[0]!, { status := lstatusOf f[1]!, power := natOf f[2]!, reward := intOf f[3]!, gasReward := intOf f[4]!,
                        offset := natOf f[5]!, missed := natOf f[6]!, jailedUntil := intOf f[7]!, locking := coinsOf f[8]!, pubkey := bytesOf f[9]! }))
    lockingIdx := (o.list "idx").map (fun x => let f := fl x; ((f[0]!, bytesOf f[1]!), intOf f[2]!))
    ranking := (o.list "rank").map (fun x => let f := fl x; (natOf f[0]!, bytesOf f[1]!))
    valset := (o.list "set").map (fun x => let f := fl x; (bytesOf f[0]!, natOf f[1]!))
    tokens := (o.list "tokens").map (fun x => let f := fl x; (f[0]!, { weight := natOf f[1]!, threshold := intOf f[2]! }))
    threshold := coinsOf (o.str "thr")
    slashed := (o.list "slashed").map (fun x => let f := fl x; (f[0]!, intOf f[1]!))
    nonce := o.nat "nonce"
    pool := { goat := intOf pool[0]!, gas := intOf pool[1]!, remain := intOf pool[2]! }
    qRewards := (o.list "qrew").map (fun x => let f := fl x; { id := natOf f[0]!, recipient := bytesOf f[1]!, goat := intOf f[2]!, gas := intOf f[3]! })
    qUnlocks := (o.list "qunl").map (fun x => let f := fl x; { id := natOf f[0]!, token := bytesOf f[1]!, recipient := bytesOf f[2]!, amount := intOf f[3]! })
    unlockQueue := (o.list "uq").map (fun x =>
      let i := (x.splitOn "|")
      (intOf i[0]!, (plusList (String.intercalate "|" i.tail)).map unlockOf)) }

end Goat.Load
