/-
  GoatModel.Requests — the decoder of execution-layer request lists.

  An execution payload carries `Requests [][]byte`; before any module of /repo sees them they are decoded by
  `goattypes.DecodeRequests` of the goat-geth dependency
  (goat-geth@v0.1.0/core/types/goattypes/{request.go, req_bridge.go, req_locking.go, req_relayer.go}).
  This file is an executable model of that function, quirks included (validated line by line against the real
  decoder with the `reqdecode` stream of the harness and a supplementary Go program):

  * more than 255 items: error (255 items are fine);
  * an item of length 0: error; an item that is ONLY a type byte: accepted, contributes nothing;
  * the type byte: 0 gas, 1 create, 2 lock, 3 unlock, 4 claim, 5 grant, 6 token weight, 7 token threshold,
    11 withdrawal, 12 replace-by-fee, 13 cancel1, 14 deposit tax, 15 confirmation number, 16 min deposit,
    20 add voter, 21 remove voter; 8–10, 17–19 and 22–255 are errors (whatever follows the type byte);
  * the rest of an item is read record by record in a `for reader.Len() != 0` loop.  A fixed-size record does
    `input := make([]byte, N); reader.Read(input); Decode(input)`, and `bytes.Reader.Read` with at least one byte
    left returns what is left WITHOUT an error: the buffer keeps its trailing zeros, its length is N, so `Decode`
    never fails.  A final record that is cut short is therefore ZERO-PADDED AT THE END and accepted.  The fixed
    size record types have NO error condition at all.
  * the withdrawal record is variable-length: 25 bytes (three little-endian uint64 and ONE length byte L), then
    `address := make([]byte, L); reader.Read(address)`.  `bytes.Reader.Read` answers `io.EOF` when nothing is
    left — even for a zero-length buffer.  So a withdrawal record is an error exactly when at most 25 bytes were
    left when it started (header cut short, or a complete header that ends the item — in particular a record with
    an EMPTY address at the end of an item is an error although the library's own `Encode` produces it); when
    more than 25 bytes are left the record is accepted, the address being the next L bytes, zero-padded at the end
    when fewer than L (but at least one) are left.  There is no limit of 90 on L here: L ranges up to 255.
  * amounts are 32 bytes big-endian (`big.Int.SetBytes`), EXCEPT that `GrantRequest.Decode` reads `input[1:]`:
    the first (most significant) byte of a grant is dropped, so a decoded grant is < 2^248.
  * records of several items of the same type are appended in the order of the items.
  Only the error/no-error outcome is modelled (`none`); the partial results the Go function returns next to an
  error are ignored by its callers.
-/
import GoatModel.Prelude
namespace Goat.Requests
open Goat

/-! ## records -/

structure GasRequest where
  height : Nat
  amount : Nat
  deriving Repr, DecidableEq, Inhabited

structure CreateRequest where
  validator : Bytes
  pubkey : Bytes
  deriving Repr, DecidableEq, Inhabited

structure LockRequest where
  validator : Bytes
  token : Bytes
  amount : Nat
  deriving Repr, DecidableEq, Inhabited

structure UnlockRequest where
  id : Nat
  validator : Bytes
  recipient : Bytes
  token : Bytes
  amount : Nat
  deriving Repr, DecidableEq, Inhabited

structure ClaimRequest where
  id : Nat
  validator : Bytes
  recipient : Bytes
  deriving Repr, DecidableEq, Inhabited

structure GrantRequest where
  amount : Nat
  deriving Repr, DecidableEq, Inhabited

structure UpdateTokenWeightRequest where
  token : Bytes
  weight : Nat
  deriving Repr, DecidableEq, Inhabited

structure UpdateTokenThresholdRequest where
  token : Bytes
  threshold : Nat
  deriving Repr, DecidableEq, Inhabited

structure WithdrawalRequest where
  id : Nat
  amount : Nat
  txPrice : Nat
  address : Bytes
  deriving Repr, DecidableEq, Inhabited

structure ReplaceByFeeRequest where
  id : Nat
  txPrice : Nat
  deriving Repr, DecidableEq, Inhabited

structure Cancel1Request where
  id : Nat
  deriving Repr, DecidableEq, Inhabited

structure DepositTaxRequest where
  rate : Nat
  max : Nat
  deriving Repr, DecidableEq, Inhabited

structure ConfirmationNumberRequest where
  number : Nat
  deriving Repr, DecidableEq, Inhabited

structure MinDepositRequest where
  satoshi : Nat
  deriving Repr, DecidableEq, Inhabited

structure AddVoterRequest where
  voter : Bytes
  pubkey : Bytes
  deriving Repr, DecidableEq, Inhabited

structure RemoveVoterRequest where
  voter : Bytes
  deriving Repr, DecidableEq, Inhabited

/-! ## the three families -/

structure BridgeRequests where
  withdraws : List WithdrawalRequest := []
  replaceByFees : List ReplaceByFeeRequest := []
  cancel1s : List Cancel1Request := []
  depositTax : List DepositTaxRequest := []
  confirmation : List ConfirmationNumberRequest := []
  minDeposit : List MinDepositRequest := []
  deriving Repr, DecidableEq, Inhabited

structure RelayerRequests where
  adds : List AddVoterRequest := []
  removes : List RemoveVoterRequest := []
  deriving Repr, DecidableEq, Inhabited

structure LockingRequests where
  gas : List GasRequest := []
  creates : List CreateRequest := []
  locks : List LockRequest := []
  unlocks : List UnlockRequest := []
  claims : List ClaimRequest := []
  grants : List GrantRequest := []
  updateWeights : List UpdateTokenWeightRequest := []
  updateThresholds : List UpdateTokenThresholdRequest := []
  deriving Repr, DecidableEq, Inhabited

structure Decoded where
  bridge : BridgeRequests := {}
  relayer : RelayerRequests := {}
  locking : LockingRequests := {}
  deriving Repr, DecidableEq, Inhabited

def Decoded.empty : Decoded := {}

/-! ## bytes -/

def zeros (n : Nat) : Bytes := List.replicate n 0

/-- `n` as `k` big-endian bytes (`big.Int.FillBytes(make([]byte, k))`; the Go call panics when `n ≥ 256^k`, the
    model truncates — the encoders are only used below their bound). -/
def beBytes (k n : Nat) : Bytes := (leBytes k n).reverse

def be32 (n : Nat) : Bytes := beBytes 32 n

/-- `input := make([]byte, n); reader.Read(input)` on a reader with `bs` left (at least one byte): what is left
    is copied to the front, the rest of the buffer stays zero. -/
def readPad (n : Nat) (bs : Bytes) : Bytes := bs.take n ++ zeros (n - bs.length)

/-- the `for reader.Len() != 0 { input := make([]byte, n); reader.Read(input); … }` loop: the buffers it
    produces.  `fuel` bounds the number of rounds (`records` passes the number of bytes). -/
def chunks (n : Nat) : Nat → Bytes → List Bytes
  | 0, _ => []
  | fuel + 1, bs =>
    match bs with
    | [] => []
    | _ :: _ => readPad n bs :: chunks n fuel (bs.drop n)

def records (n : Nat) (body : Bytes) : List Bytes := chunks n body.length body

/-! ## type bytes -/

inductive Kind where
  | gas | create | lock | unlock | claim | grant | weight | threshold
  | withdrawal | replaceByFee | cancel1 | depositTax | confirmation | minDeposit
  | addVoter | removeVoter
  deriving Repr, DecidableEq, Inhabited

def Kind.typeByte : Kind → UInt8
  | .gas => 0 | .create => 1 | .lock => 2 | .unlock => 3 | .claim => 4 | .grant => 5 | .weight => 6
  | .threshold => 7 | .withdrawal => 11 | .replaceByFee => 12 | .cancel1 => 13 | .depositTax => 14
  | .confirmation => 15 | .minDeposit => 16 | .addVoter => 20 | .removeVoter => 21

def Kind.all : List Kind :=
  [.gas, .create, .lock, .unlock, .claim, .grant, .weight, .threshold, .withdrawal, .replaceByFee, .cancel1,
   .depositTax, .confirmation, .minDeposit, .addVoter, .removeVoter]

def kindOf (t : UInt8) : Option Kind := Kind.all.find? (fun k => k.typeByte == t)

/-- the size of the read buffer of a record (for the withdrawal: of its fixed header) -/
def Kind.size : Kind → Nat
  | .gas => 40 | .create => 84 | .lock => 72 | .unlock => 100 | .claim => 48 | .grant => 32 | .weight => 28
  | .threshold => 52 | .withdrawal => 25 | .replaceByFee => 16 | .cancel1 => 8 | .depositTax => 16
  | .confirmation => 8 | .minDeposit => 8 | .addVoter => 52 | .removeVoter => 20

/-! ## decoders of one (full-size) buffer -/

def decGas (c : Bytes) : GasRequest := { height := leToNat (c.take 8), amount := beToNat (c.drop 8) }
def decCreate (c : Bytes) : CreateRequest := { validator := c.take 20, pubkey := c.drop 20 }
def decLock (c : Bytes) : LockRequest :=
  { validator := c.take 20, token := (c.drop 20).take 20, amount := beToNat (c.drop 40) }
def decUnlock (c : Bytes) : UnlockRequest :=
  { id := leToNat (c.take 8), validator := (c.drop 8).take 20, recipient := (c.drop 28).take 20,
    token := (c.drop 48).take 20, amount := beToNat (c.drop 68) }
def decClaim (c : Bytes) : ClaimRequest :=
  { id := leToNat (c.take 8), validator := (c.drop 8).take 20, recipient := c.drop 28 }
/-- `req.Amount = new(big.Int).SetBytes(input[1:])` — the first byte is dropped -/
def decGrant (c : Bytes) : GrantRequest := { amount := beToNat (c.drop 1) }
def decWeight (c : Bytes) : UpdateTokenWeightRequest := { token := c.take 20, weight := leToNat (c.drop 20) }
def decThreshold (c : Bytes) : UpdateTokenThresholdRequest := { token := c.take 20, threshold := beToNat (c.drop 20) }
def decRbf (c : Bytes) : ReplaceByFeeRequest := { id := leToNat (c.take 8), txPrice := leToNat (c.drop 8) }
def decCancel1 (c : Bytes) : Cancel1Request := { id := leToNat c }
def decTax (c : Bytes) : DepositTaxRequest := { rate := leToNat (c.take 8), max := leToNat (c.drop 8) }
def decConf (c : Bytes) : ConfirmationNumberRequest := { number := leToNat c }
def decMin (c : Bytes) : MinDepositRequest := { satoshi := leToNat c }
def decAddVoter (c : Bytes) : AddVoterRequest := { voter := c.take 20, pubkey := c.drop 20 }
def decRemoveVoter (c : Bytes) : RemoveVoterRequest := { voter := c }

/-- the withdrawal loop (`fuel` bounds the number of rounds; `decWithdrawals` passes the number of bytes).
    `none`: the second `reader.Read` of some record answered `io.EOF`. -/
def withdrawalsAux : Nat → Bytes → Option (List WithdrawalRequest)
  | 0, _ => some []
  | fuel + 1, bs =>
    match bs with
    | [] => some []
    | _ :: _ =>
      if bs.length ≤ 25 then none
      else
        let hd := bs.take 25
        let rest := bs.drop 25
        let l := ((hd.drop 24).headD 0).toNat
        let r : WithdrawalRequest :=
          { id := leToNat (hd.take 8), amount := leToNat ((hd.drop 8).take 8),
            txPrice := leToNat ((hd.drop 16).take 8), address := readPad l rest }
        match withdrawalsAux fuel (rest.drop l) with
        | none => none
        | some rs => some (r :: rs)

def decWithdrawals (body : Bytes) : Option (List WithdrawalRequest) := withdrawalsAux body.length body

/-! ## the decoder -/

/-- one item of the list, appended to what was decoded so far -/
def decodeItem (d : Decoded) (item : Bytes) : Option Decoded :=
  match item with
  | [] => none
  | t :: body =>
    match kindOf t with
    | none => none
    | some .gas => some { d with locking.gas := d.locking.gas ++ (records 40 body).map decGas }
    | some .create => some { d with locking.creates := d.locking.creates ++ (records 84 body).map decCreate }
    | some .lock => some { d with locking.locks := d.locking.locks ++ (records 72 body).map decLock }
    | some .unlock => some { d with locking.unlocks := d.locking.unlocks ++ (records 100 body).map decUnlock }
    | some .claim => some { d with locking.claims := d.locking.claims ++ (records 48 body).map decClaim }
    | some .grant => some { d with locking.grants := d.locking.grants ++ (records 32 body).map decGrant }
    | some .weight =>
      some { d with locking.updateWeights := d.locking.updateWeights ++ (records 28 body).map decWeight }
    | some .threshold =>
      some { d with locking.updateThresholds := d.locking.updateThresholds ++ (records 52 body).map decThreshold }
    | some .withdrawal =>
      match decWithdrawals body with
      | none => none
      | some ws => some { d with bridge.withdraws := d.bridge.withdraws ++ ws }
    | some .replaceByFee =>
      some { d with bridge.replaceByFees := d.bridge.replaceByFees ++ (records 16 body).map decRbf }
    | some .cancel1 => some { d with bridge.cancel1s := d.bridge.cancel1s ++ (records 8 body).map decCancel1 }
    | some .depositTax => some { d with bridge.depositTax := d.bridge.depositTax ++ (records 16 body).map decTax }
    | some .confirmation =>
      some { d with bridge.confirmation := d.bridge.confirmation ++ (records 8 body).map decConf }
    | some .minDeposit => some { d with bridge.minDeposit := d.bridge.minDeposit ++ (records 8 body).map decMin }
    | some .addVoter => some { d with relayer.adds := d.relayer.adds ++ (records 52 body).map decAddVoter }
    | some .removeVoter =>
      some { d with relayer.removes := d.relayer.removes ++ (records 20 body).map decRemoveVoter }

def decodeItems : Decoded → List Bytes → Option Decoded
  | d, [] => some d
  | d, item :: rest =>
    match decodeItem d item with
    | none => none
    | some d' => decodeItems d' rest

/-- `goattypes.DecodeRequests`; `none` = the Go function returns an error -/
def decodeRequests (reqs : List Bytes) : Option Decoded :=
  if 255 < reqs.length then none else decodeItems Decoded.empty reqs

/-! ## encoders (`Encode` of every record type, and a typed item) -/

def encodeGas (r : GasRequest) : Bytes := le64 r.height ++ be32 r.amount
def encodeCreate (r : CreateRequest) : Bytes := r.validator ++ r.pubkey
def encodeLock (r : LockRequest) : Bytes := r.validator ++ r.token ++ be32 r.amount
def encodeUnlock (r : UnlockRequest) : Bytes :=
  le64 r.id ++ r.validator ++ r.recipient ++ r.token ++ be32 r.amount
def encodeClaim (r : ClaimRequest) : Bytes := le64 r.id ++ r.validator ++ r.recipient
def encodeGrant (r : GrantRequest) : Bytes := be32 r.amount
def encodeWeight (r : UpdateTokenWeightRequest) : Bytes := r.token ++ le64 r.weight
def encodeThreshold (r : UpdateTokenThresholdRequest) : Bytes := r.token ++ be32 r.threshold
/-- `byte(len(req.Address))`: the length byte is the length modulo 256 -/
def encodeWithdrawal (r : WithdrawalRequest) : Bytes :=
  le64 r.id ++ le64 r.amount ++ le64 r.txPrice ++ [UInt8.ofNat r.address.length] ++ r.address
def encodeRbf (r : ReplaceByFeeRequest) : Bytes := le64 r.id ++ le64 r.txPrice
def encodeCancel1 (r : Cancel1Request) : Bytes := le64 r.id
def encodeTax (r : DepositTaxRequest) : Bytes := le64 r.rate ++ le64 r.max
def encodeConf (r : ConfirmationNumberRequest) : Bytes := le64 r.number
def encodeMin (r : MinDepositRequest) : Bytes := le64 r.satoshi
def encodeAddVoter (r : AddVoterRequest) : Bytes := r.voter ++ r.pubkey
def encodeRemoveVoter (r : RemoveVoterRequest) : Bytes := r.voter

/-- a typed item: the type byte followed by the concatenated records -/
def encodeTyped (typ : UInt8) (records : List Bytes) : Bytes := typ :: records.flatten

/-! ## rendering (the harness's trace text) -/

def strList (xs : List String) : String := if xs.isEmpty then "-" else ",".intercalate xs

/-- the harness's `tr.Hex`: `-` for the empty byte string -/
def hexOrDash (b : Bytes) : String := if b.isEmpty then "-" else toHex b

/-- /repo/pkg/crypto `CompressP256k1Pubkey`: 02/03 by the parity of the last byte of y, then x -/
def compressPubkey (pk : Bytes) : Bytes := (if pk.getD 63 0 &&& 1 == 1 then (3 : UInt8) else 2) :: pk.take 32

def render (d : Decoded) : String :=
  let b := d.bridge
  let r := d.relayer
  let l := d.locking
  "ok gasheights=" ++ strList (l.gas.map fun x => toString x.height)
  ++ " withdraws=" ++ strList (b.withdraws.map fun x => s!"{x.id}|{x.amount}|{x.txPrice}|{hexOrDash x.address}")
  ++ " rbf=" ++ strList (b.replaceByFees.map fun x => s!"{x.id}|{x.txPrice}")
  ++ " cancel=" ++ strList (b.cancel1s.map fun x => toString x.id)
  ++ " tax=" ++ strList (b.depositTax.map fun x => s!"{x.rate}|{x.max}")
  ++ " conf=" ++ strList (b.confirmation.map fun x => toString x.number)
  ++ " min=" ++ strList (b.minDeposit.map fun x => toString x.satoshi)
  ++ " adds=" ++ strList (r.adds.map fun x => s!"{toHex x.voter}|{toHex x.pubkey}")
  ++ " removes=" ++ strList (r.removes.map fun x => toHex x.voter)
  ++ " gas=" ++ strList (l.gas.map fun x => toString x.amount)
  ++ " grants=" ++ strList (l.grants.map fun x => toString x.amount)
  ++ " weights=" ++ strList (l.updateWeights.map fun x => s!"{toHex x.token}|{x.weight}")
  ++ " thresholds=" ++ strList (l.updateThresholds.map fun x => s!"{toHex x.token}|{x.threshold}")
  ++ " creates=" ++ strList (l.creates.map fun x =>
        s!"{toHex x.validator}|{toHex x.pubkey}|{toHex (compressPubkey x.pubkey)}")
  ++ " locks=" ++ strList (l.locks.map fun x => s!"{toHex x.validator}|{toHex x.token}|{x.amount}")
  ++ " unlocks=" ++ strList (l.unlocks.map fun x =>
        s!"{x.id}|{toHex x.validator}|{toHex x.recipient}|{toHex x.token}|{x.amount}")
  ++ " claims=" ++ strList (l.claims.map fun x => s!"{x.id}|{toHex x.validator}|{toHex x.recipient}")

def renderResult : Option Decoded → String
  | none => "err"
  | some d => render d

/-! ## the trace syntax of a request list: `-` (empty list) or comma-separated hex items, `e` = the empty item -/

def parseItem (s : String) : Option Bytes := if s == "e" then some [] else fromHex s

def parseRaw (raw : String) : Option (List Bytes) :=
  if raw == "-" then some [] else (raw.splitOn ",").mapM parseItem

/-- what the harness prints after `=> ` for `op req.decode raw=<raw>` -/
def execRaw (raw : String) : String :=
  match parseRaw raw with
  | none => "bad-input"
  | some reqs => renderResult (decodeRequests reqs)

end Goat.Requests
