/-
  x/locking/types/params.go — `Params.Validate` (genesis validation of the locking parameters).

  The keeper model (GoatModel.Locking) keeps the two slash fractions as natural numbers scaled by 10^18 and the
  durations as integers: that is sound only for parameters that passed this validation.  Here the parameters are raw
  (every field an integer; fractions scaled by 10^18, durations in nanoseconds), so that what the validation admits and
  refuses is itself a statement about the model, tied to the real `Validate` by the `lock.validateparams` operations
  of the streams.
-/
import GoatModel.Prelude
namespace Goat.LockingParams

structure RawParams where
  unlockDuration : Int
  exitingDuration : Int
  downtimeJail : Int
  maxValidators : Int
  signedBlocksWindow : Int
  maxMissed : Int
  slashDoubleSign : Int   -- LegacyDec, scaled by 10^18
  slashDowntime : Int     -- LegacyDec, scaled by 10^18
  halvingInterval : Int
  initialReward : Int
  deriving DecidableEq, Repr, Inhabited

def one : Int := 1000000000000000000
def minute : Int := 60000000000

/-- `Params.Validate`: one conjunct per check, in the order of the source (each Go check returns an error when its
    condition holds; the validation passes when none does) -/
def paramsValidate (p : RawParams) : Bool :=
  !(decide (p.maxValidators > 100) || decide (p.maxValidators < 1)) &&
  !(decide (p.maxMissed < 1) || decide (p.signedBlocksWindow < 1)) &&
  !decide (p.maxMissed ≥ p.signedBlocksWindow) &&
  !decide (p.slashDoubleSign ≥ one) &&
  !(decide (p.slashDoubleSign = 0) || decide (p.slashDoubleSign < 0)) &&
  !decide (p.slashDowntime ≥ one) &&
  !(decide (p.slashDowntime = 0) || decide (p.slashDowntime < 0)) &&
  !decide (p.downtimeJail < minute) &&
  !decide (p.exitingDuration < p.unlockDuration) &&
  !decide (p.initialReward < 1) &&
  !decide (p.halvingInterval < 1)

/-- the function at the pinned commit: the negativity test of the double-sign fraction looked at the DOWNTIME
    fraction (finding F14) -/
def paramsValidatePinned (p : RawParams) : Bool :=
  !(decide (p.maxValidators > 100) || decide (p.maxValidators < 1)) &&
  !(decide (p.maxMissed < 1) || decide (p.signedBlocksWindow < 1)) &&
  !decide (p.maxMissed ≥ p.signedBlocksWindow) &&
  !decide (p.slashDoubleSign ≥ one) &&
  !(decide (p.slashDoubleSign = 0) || decide (p.slashDowntime < 0)) &&
  !decide (p.slashDowntime ≥ one) &&
  !(decide (p.slashDowntime = 0) || decide (p.slashDowntime < 0)) &&
  !decide (p.downtimeJail < minute) &&
  !decide (p.exitingDuration < p.unlockDuration) &&
  !decide (p.initialReward < 1) &&
  !decide (p.halvingInterval < 1)

end Goat.LockingParams
