/-
  GoatModel.Prelude — bytes, hex, little-endian encoders, outcome type.
  Core Lean only (no Mathlib) so that the driver links as a lean_exe.
-/
namespace Goat

abbrev Bytes := List UInt8

/-- Outcome of an operation of the real code: success, a classified error, or a Go panic. -/
inductive Outcome (α : Type) where
  | ok : α → Outcome α
  | err : String → Outcome α
  | panic : String → Outcome α
  deriving Repr, DecidableEq

namespace Outcome
def isOk {α} : Outcome α → Bool
  | ok _ => true
  | _ => false
def bind {α β} (x : Outcome α) (f : α → Outcome β) : Outcome β :=
  match x with
  | ok a => f a
  | err e => err e
  | panic e => panic e
instance : Monad Outcome where
  pure := ok
  bind := bind
def cls {α} : Outcome α → String
  | ok _ => "ok"
  | err e => "err:" ++ e
  | panic e => "panic:" ++ e
end Outcome

def hexDigit (n : Nat) : Char :=
  if n < 10 then Char.ofNat (48 + n) else Char.ofNat (87 + n)

def hexOfByte (b : UInt8) : List Char :=
  [hexDigit (b.toNat / 16), hexDigit (b.toNat % 16)]

def toHex (bs : Bytes) : String :=
  String.ofList (bs.flatMap hexOfByte)

def hexVal (c : Char) : Option Nat :=
  if '0' ≤ c ∧ c ≤ '9' then some (c.toNat - 48)
  else if 'a' ≤ c ∧ c ≤ 'f' then some (c.toNat - 87)
  else if 'A' ≤ c ∧ c ≤ 'F' then some (c.toNat - 55)
  else none

def fromHexAux : List Char → Bytes → Option Bytes
  | [], acc => some acc.reverse
  | [_], _ => none
  | a :: b :: rest, acc =>
    match hexVal a, hexVal b with
    | some x, some y => fromHexAux rest (UInt8.ofNat (x * 16 + y) :: acc)
    | _, _ => none

/-- Hex decoding; "-" and "" denote the empty byte string. -/
def fromHex (s : String) : Option Bytes :=
  if s == "-" then some [] else fromHexAux s.toList []

/-- n as `k` little-endian bytes. -/
def leBytes : Nat → Nat → Bytes
  | 0, _ => []
  | k + 1, n => UInt8.ofNat (n % 256) :: leBytes k (n / 256)

def le64 (n : Nat) : Bytes := leBytes 8 n
def le32 (n : Nat) : Bytes := leBytes 4 n

/-- little-endian bytes to Nat -/
def leToNat : Bytes → Nat
  | [] => 0
  | b :: rest => b.toNat + 256 * leToNat rest

def beToNat (bs : Bytes) : Nat := bs.foldl (fun acc b => acc * 256 + b.toNat) 0

def strBytes (s : String) : Bytes := s.toUTF8.toList

def two64 : Nat := 18446744073709551616
def two63 : Nat := 9223372036854775808
def two32 : Nat := 4294967296

end Goat
