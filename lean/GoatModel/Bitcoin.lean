/-
  Model of x/bitcoin: keeper/keeper.go (VerifyDeposit), keeper/tx.go (eight message handlers),
  keeper/eth.go (DequeueBitcoinModuleTx, ProcessBridgeRequest), types/{deposit,withdrawal,
  consolidation,address,params}.go.  The relayer keeper underneath is the *model* of the real
  relayer keeper (GoatModel.Relayer), not a mock.
-/
import GoatModel.Prelude
import GoatModel.BtcTx
import GoatModel.Merkle
import GoatModel.Relayer
namespace Goat.Bitcoin
open Goat.Relayer (VoteMsg)

/-- relayer Bitcoin key: 0 = compressed secp256k1 (33 bytes), 1 = schnorr x-only (32 bytes);
    any other tag models a nil / unknown oneof. -/
structure PubKey where
  kind : Nat
  key : Bytes
  deriving DecidableEq, Repr, Inhabited

def PubKey.validate (p : PubKey) : Bool :=
  if p.kind = 0 then p.key.length == 33 && (p.key.head! == 2 || p.key.head! == 3)
  else if p.kind = 1 then p.key.length == 32
  else false

def PubKey.encode (p : PubKey) : Bytes :=
  if p.kind = 0 then 0 :: p.key else if p.kind = 1 then 1 :: p.key else []

/-- crypto parameters of the bridge model -/
structure Crypto where
  sha256 : Bytes → Bytes
  dsha256 : Bytes → Bytes
  hash160 : Bytes → Bytes
  /-- `schnorr.SerializePubKey(ComputeTaprootOutputKey(ParsePubKey k, data))`, none if the key does not parse -/
  tweak : Bytes → Bytes → Option Bytes
  /-- `…ComputeTaprootKeyNoScript…` -/
  tweakNoScript : Bytes → Option Bytes
  /-- `DecodeBtcAddress(address, network)` → pkScript -/
  decodeAddr : String → Option Bytes

structure Params where
  minDeposit : Nat
  confirmations : Nat
  taxRate : Nat
  maxTax : Nat
  magic : Bytes
  deriving DecidableEq, Repr, Inhabited

inductive WStatus where
  | unspecified | pending | processing | canceling | canceled | paid
  deriving DecidableEq, Repr, Inhabited

def WStatus.toNat : WStatus → Nat
  | .unspecified => 0 | .pending => 1 | .processing => 2 | .canceling => 3 | .canceled => 4 | .paid => 5

structure Receipt where
  txid : Bytes
  txout : Nat
  amount : Nat
  deriving DecidableEq, Repr, Inhabited

structure Withdrawal where
  address : String
  requestAmount : Nat
  maxTxPrice : Nat
  status : WStatus
  receipt : Option Receipt
  deriving DecidableEq, Repr, Inhabited

structure Processing where
  txids : List Bytes
  outputs : List (List Nat)
  withdrawals : List Nat
  fee : Nat
  deriving DecidableEq, Repr, Inhabited

structure DepositReceipt where
  address : Bytes
  txid : Bytes
  txout : Nat
  amount : Nat
  tax : Nat
  deriving DecidableEq, Repr, Inhabited

structure Queue where
  blockNumber : Nat
  deposits : List DepositReceipt
  paid : List (Nat × Receipt)
  rejected : List Nat
  deriving DecidableEq, Repr, Inhabited

structure State where
  params : Params
  pubkey : PubKey
  tip : Nat
  hashes : List (Nat × Bytes)
  deposited : List ((Bytes × Nat) × Nat)
  nonce : Nat
  withdrawals : List (Nat × Withdrawal)
  processId : Nat
  processing : List (Nat × Processing)
  queue : Queue
  deriving Repr, Inhabited

/-! ### maps keyed by Nat -/
def nlookup {α} (m : List (Nat × α)) (k : Nat) : Option α := (m.find? (·.1 == k)).map (·.2)
def ninsert {α} (m : List (Nat × α)) (k : Nat) (v : α) : List (Nat × α) :=
  if m.any (·.1 == k) then m.map (fun e => if e.1 == k then (k, v) else e) else m ++ [(k, v)]
def nerase {α} (m : List (Nat × α)) (k : Nat) : List (Nat × α) := m.filter (·.1 != k)

def hasDeposited (s : State) (txid : Bytes) (vout : Nat) : Bool :=
  s.deposited.any (fun e => e.1.1 == txid && e.1.2 == vout)

/-! ### scripts (types/address.go) -/

/-- `txscript.NewScriptBuilder().AddData(evm).AddOp(OP_DROP).AddData(key).AddOp(OP_CHECKSIG)` for a
    20-byte address and a 33-byte key -/
def depositScriptV0 (evm key : Bytes) : Bytes :=
  [UInt8.ofNat evm.length] ++ evm ++ [0x75] ++ [UInt8.ofNat key.length] ++ key ++ [0xac]

def verifyDepositScriptV0 (c : Crypto) (pk : PubKey) (evm out : Bytes) : Bool :=
  if evm.length ≠ 20 then false
  else if pk.kind = 0 then
    out.length == 34 && out[0]! == 0x00 && out[1]! == 0x20 &&
      c.sha256 (depositScriptV0 evm pk.key) == out.drop 2
  else if pk.kind = 1 then
    out.length == 34 && out[0]! == 0x51 && out[1]! == 0x20 &&
      (match c.tweak pk.key evm with
       | some w => w == out.drop 2
       | none => false)
  else false

def verifyDepositScriptV1 (c : Crypto) (pk : PubKey) (magic evm out0 out1 : Bytes) : Bool :=
  if magic.length ≠ 4 then false
  else if evm.length ≠ 20 then false
  else if pk.kind = 0 then
    out0.length == 22 && out0[0]! == 0x00 && out0[1]! == 0x14 && c.hash160 pk.key == out0.drop 2 &&
    out1.length == 26 && out1[0]! == 0x6a && out1[1]! == 0x18 && out1.drop 2 == magic ++ evm
  else false

/-- builders (what `DepositAddressV0/V1` hand out, as output scripts) -/
def depositOutputV0 (c : Crypto) (pk : PubKey) (evm : Bytes) : Option Bytes :=
  if evm.length ≠ 20 ∨ !pk.validate then none
  else if pk.kind = 0 then some ([0x00, 0x20] ++ c.sha256 (depositScriptV0 evm pk.key))
  else if pk.kind = 1 then (c.tweak pk.key evm).map ([0x51, 0x20] ++ ·)
  else none

def depositOutputsV1 (c : Crypto) (pk : PubKey) (magic evm : Bytes) : Option (Bytes × Bytes) :=
  if evm.length ≠ 20 ∨ magic.length ≠ 4 ∨ !pk.validate then none
  else if pk.kind = 0 then some ([0x00, 0x14] ++ c.hash160 pk.key, [0x6a, 0x18] ++ magic ++ evm)
  else none

def verifySystemAddressScript (c : Crypto) (pk : PubKey) (script : Bytes) : Bool :=
  if pk.kind = 0 then
    script.length == 22 && script[0]! == 0x00 && script[1]! == 0x14 && c.hash160 pk.key == script.drop 2
  else if pk.kind = 1 then
    script.length == 34 && script[0]! == 0x51 && script[1]! == 0x20 &&
      (match c.tweakNoScript pk.key with
       | some w => w == script.drop 2
       | none => false)
  else false

/-! ### deposits -/

structure Deposit where
  version : Nat
  blockNumber : Nat
  txIndex : Nat
  noWitnessTx : Bytes
  outputIndex : Nat
  proof : Bytes
  evm : Bytes
  pubkey : PubKey
  deriving Repr, Inhabited

def Deposit.validate (d : Deposit) : Bool :=
  d.evm.length == 20 && 94 ≤ d.noWitnessTx.length && d.noWitnessTx.length ≤ 32768 && d.pubkey.validate

/-- tax of VerifyDeposit: (amount credited, tax) -/
def taxOf (p : Params) (value : Nat) : Nat × Nat :=
  if p.taxRate > 0 ∧ value > 10000 then
    let t := (value / 10000 * p.taxRate) % two64
    let t := if p.maxTax > 0 ∧ t > p.maxTax then p.maxTax else t
    ((value + two64 - t) % two64, t)
  else (value, 0)

/-- `VerifyDeposit`. `headers` is the map built by `BlockHeadersMap`. -/
def verifyDeposit (c : Crypto) (rel : Relayer.State) (s : State) (headers : List (Nat × Bytes)) (d : Deposit) :
    Outcome DepositReceipt :=
  if !rel.pubkeys.contains d.pubkey.encode then .err "key-not-found"
  else match nlookup s.hashes d.blockNumber with
  | none => .err "not-found"
  | some blockHash =>
    if d.txIndex = 0 ∧ s.tip < d.blockNumber + 100 then .err "coinbase-immature"
    else
      let rawHeader := (nlookup headers d.blockNumber).getD []
      if rawHeader.length ≠ 80 then .err "header-size"
      else if blockHash ≠ c.dsha256 rawHeader then .err "block-hash"
      else match BtcTx.parseNoWitness d.noWitnessTx with
      | none => .err "bad-tx"
      | some outs =>
        if d.outputIndex ≥ outs.length then .err "output-index"
        else
          let txid := c.dsha256 d.noWitnessTx
          if hasDeposited s txid d.outputIndex then .err "duplicated"
          else
            let out := outs[d.outputIndex]!
            if out.value < s.params.minDeposit then .err "amount-low"
            else
              let scriptOk : Outcome Unit :=
                if d.version = 0 then
                  if verifyDepositScriptV0 c d.pubkey d.evm out.pkScript then .ok () else .err "script-v0"
                else if d.version = 1 then
                  if d.outputIndex ≠ 0 ∨ outs.length < 2 then .err "v1-index"
                  else if verifyDepositScriptV1 c d.pubkey s.params.magic d.evm out.pkScript (outs[1]!).pkScript then .ok ()
                  else .err "script-v1"
                else .err "version"
              match scriptOk with
              | .err e => .err e
              | .panic e => .panic e
              | .ok () =>
                if !Merkle.verify c.dsha256 txid ((rawHeader.drop 36).take 32) d.proof d.txIndex then .err "spv"
                else
                  let (amt, tax) := taxOf s.params out.value
                  .ok { address := d.evm, txid := txid, txout := d.outputIndex, amount := amt, tax := tax }

/-- `BlockHeadersMap` (nil items and wrong sizes are errors; duplicate heights rejected) -/
def blockHeadersMap (hs : List (Nat × Bytes)) : Option (List (Nat × Bytes)) :=
  hs.foldlM (fun acc (h : Nat × Bytes) =>
    if h.2.length ≠ 80 then none
    else if (nlookup acc h.1).isSome then none
    else some (acc ++ [h])) []

structure NewDepositsMsg where
  proposer : String
  headers : List (Nat × Bytes)
  deposits : List Deposit
  deriving Repr, Inhabited

/-- `NewDeposits`: (relayer state, bridge state) → new states -/
def newDeposits (c : Crypto) (rel : Relayer.State) (s : State) (m : NewDepositsMsg) :
    Outcome (Relayer.State × State) :=
  if m.deposits.length = 0 ∨ m.deposits.length > 16 then .err "validate"
  else if m.headers.length = 0 ∨ m.headers.length > m.deposits.length then .err "validate"
  else match blockHeadersMap m.headers with
  | none => .err "headers"
  | some headers =>
    match Relayer.verifyNonProposal rel m.proposer with
    | .err e => .err e
    | .panic e => .panic e
    | .ok rel' =>
      let rec go : List Deposit → State → List DepositReceipt → Outcome (State × List DepositReceipt)
        | [], s, acc => .ok (s, acc.reverse)
        | d :: rest, s, acc =>
          if !d.validate then .err "validate"
          else match verifyDeposit c rel' s headers d with
          | .err e => .err e
          | .panic e => .panic e
          | .ok r =>
            go rest { s with deposited := s.deposited ++ [((r.txid, r.txout), (r.amount + r.tax) % two64)] } (r :: acc)
      match go m.deposits s [] with
      | .err e => .err e
      | .panic e => .panic e
      | .ok (s', rs) => .ok (rel', { s' with queue := { s'.queue with deposits := s'.queue.deposits ++ rs } })

/-! ### voted handlers -/

def votesValidate (m : VoteMsg) : Bool := m.bitmap.length ≤ 32 && m.signature.length == 48

/-- NewBlockHashes. The sign-doc payload is `8 zero bytes ‖ LE64(start) ‖ hashes`. -/
def newBlockHashes (rc : Relayer.Crypto) (chainId : String) (rel : Relayer.State) (s : State)
    (vote : VoteMsg) (hasVote : Bool) (start : Nat) (hashes : List Bytes) : Outcome (Relayer.State × State) :=
  if !hasVote then .err "validate"
  else if start = 0 then .err "validate"
  else if hashes.length > 16 then .err "validate"
  else if hashes.any (·.length ≠ 32) then .err "validate"
  else if !votesValidate vote then .err "validate"
  else if start ≠ (s.tip + 1) % two64 then .err "not-next"
  else
    let vote := { vote with method := "Bitcoin/NewBlocks", sigDoc := List.replicate 8 0 ++ le64 start ++ hashes.flatten }
    match Relayer.verifyProposal rc chainId rel vote with
    | .err e => .err e
    | .panic e => .panic e
    | .ok (rel', seq) =>
      let (hs, tip) := hashes.foldl (fun (acc : List (Nat × Bytes) × Nat) h => (ninsert acc.1 (acc.2 + 1) h, acc.2 + 1)) (s.hashes, s.tip)
      .ok (Relayer.consumeVote rc rel' seq vote.signature, { s with hashes := hs, tip := tip })

def newPubkey (rc : Relayer.Crypto) (chainId : String) (rel : Relayer.State) (s : State)
    (vote : VoteMsg) (hasVote : Bool) (pk : PubKey) : Outcome (Relayer.State × State) :=
  if !hasVote then .err "validate"
  else if !pk.validate then .err "validate"
  else if !votesValidate vote then .err "validate"
  else
    let vote := { vote with method := "Bitcoin/NewPubkey", sigDoc := pk.encode }
    match Relayer.verifyProposal rc chainId rel vote with
    | .err e => .err e
    | .panic e => .panic e
    | .ok (rel', seq) =>
      if rel'.pubkeys.contains pk.encode then .err "key-exists"
      else
        let rel'' := Relayer.consumeVote rc { rel' with pubkeys := rel'.pubkeys ++ [pk.encode] } seq vote.signature
        .ok (rel'', { s with pubkey := pk })

/-- exact integer form of `float64(fee)/float64(len) > float64(maxPrice)` (see DESIGN §7) -/
def priceTooHigh (fee len maxPrice : Nat) : Bool := fee > maxPrice * len

/-- per-withdrawal checks shared by ProcessWithdrawal / ReplaceWithdrawal -/
def checkOutput (c : Crypto) (w : Withdrawal) (fee txLen : Nat) (out : BtcTx.TxOut) : Outcome Unit :=
  if priceTooHigh fee txLen w.maxTxPrice then .err "price"
  else match c.decodeAddr w.address with
  | none => .err "address"
  | some script =>
    if script ≠ out.pkScript then .err "script"
    else if w.requestAmount < out.value then .err "amount"
    else .ok ()

def changeOk (c : Crypto) (s : State) (outs : List BtcTx.TxOut) (n : Nat) : Bool :=
  if outs.length = n then true else verifySystemAddressScript c s.pubkey (outs[n]!).pkScript

def processWithdrawal (c : Crypto) (rc : Relayer.Crypto) (chainId : String) (rel : Relayer.State) (s : State)
    (vote : VoteMsg) (hasVote : Bool) (ids : List Nat) (tx : Bytes) (fee : Nat) : Outcome (Relayer.State × State) :=
  if !hasVote then .err "validate"
  else if tx.length < 82 ∨ tx.length > 32768 then .err "validate"
  else if fee = 0 then .err "validate"
  else if ids.length = 0 ∨ ids.length > 32 then .err "validate"
  else match BtcTx.parseNoWitness tx with
  | none => .err "bad-tx"
  | some outs =>
    if outs.length ≠ ids.length ∧ outs.length ≠ ids.length + 1 then .err "output-size"
    else
      let vote := { vote with method := "Bitcoin/ProcessWithdrawal",
                              sigDoc := (ids.map le64).flatten ++ rc.sha256 tx ++ le64 fee }
      match Relayer.verifyProposal rc chainId rel vote with
      | .err e => .err e
      | .panic e => .panic e
      | .ok (rel', seq) =>
        let txid := c.dsha256 tx
        let rec go : List Nat → Nat → State → List Nat → Outcome (State × List Nat)
          | [], _, s, vals => .ok (s, vals.reverse)
          | wid :: rest, idx, s, vals =>
            match nlookup s.withdrawals wid with
            | none => .err "not-found"
            | some w =>
              if w.status ≠ .pending ∧ w.status ≠ .canceling then .err "status"
              else
                let out := outs[idx]!
                match checkOutput c w fee tx.length out with
                | .err e => .err e
                | .panic e => .panic e
                | .ok () =>
                  let w' := { w with status := .processing, receipt := some { txid := txid, txout := idx, amount := out.value } }
                  go rest (idx + 1) { s with withdrawals := ninsert s.withdrawals wid w' } (out.value :: vals)
        match go ids 0 s [] with
        | .err e => .err e
        | .panic e => .panic e
        | .ok (s1, vals) =>
          if !changeOk c s1 outs ids.length then .err "change"
          else
            let pid := s1.processId
            let s2 := { s1 with processing := ninsert s1.processing pid { txids := [txid], outputs := [vals], withdrawals := ids, fee := fee },
                                processId := (pid + 1) % two64 }
            .ok (Relayer.consumeVote rc rel' seq vote.signature, s2)

def replaceWithdrawal (c : Crypto) (rc : Relayer.Crypto) (chainId : String) (rel : Relayer.State) (s : State)
    (vote : VoteMsg) (hasVote : Bool) (pid : Nat) (tx : Bytes) (fee : Nat) : Outcome (Relayer.State × State) :=
  if !hasVote then .err "validate"
  else if tx.length < 82 ∨ tx.length > 32768 then .err "validate"
  else if fee = 0 then .err "validate"
  else match BtcTx.parseNoWitness tx with
  | none => .err "bad-tx"
  | some outs =>
    let txid := c.dsha256 tx
    match nlookup s.processing pid with
    | none => .err "not-found"
    | some p =>
      if p.fee ≥ fee then .err "fee-not-higher"
      else if p.txids.contains txid then .err "same-tx"
      else if outs.length ≠ p.withdrawals.length ∧ outs.length ≠ p.withdrawals.length + 1 then .err "output-size"
      else
        let vote := { vote with method := "Bitcoin/ReplaceWithdrawal", sigDoc := le64 pid ++ le64 fee ++ rc.sha256 tx }
        match Relayer.verifyProposal rc chainId rel vote with
        | .err e => .err e
        | .panic e => .panic e
        | .ok (rel', seq) =>
          let rec go : List Nat → Nat → State → List Nat → Outcome (State × List Nat)
            | [], _, s, vals => .ok (s, vals.reverse)
            | wid :: rest, idx, s, vals =>
              match nlookup s.withdrawals wid with
              | none => .err "not-found"
              | some w =>
                match w.receipt with
                | none => .err "status"
                | some r =>
                if w.status ≠ .processing then .err "status"
                else
                  let out := outs[idx]!
                  match checkOutput c w fee tx.length out with
                  | .err e => .err e
                  | .panic e => .panic e
                  | .ok () =>
                    let w' := { w with receipt := some { r with txid := txid, amount := out.value } }
                    go rest (idx + 1) { s with withdrawals := ninsert s.withdrawals wid w' } (out.value :: vals)
          match go p.withdrawals 0 s [] with
          | .err e => .err e
          | .panic e => .panic e
          | .ok (s1, vals) =>
            if !changeOk c s1 outs p.withdrawals.length then .err "change"
            else
              let p' := { p with fee := fee, txids := p.txids ++ [txid], outputs := p.outputs ++ [vals] }
              .ok (Relayer.consumeVote rc rel' seq vote.signature, { s1 with processing := ninsert s1.processing pid p' })

structure FinalizeMsg where
  proposer : String
  pid : Nat
  txid : Bytes
  blockNumber : Nat
  txIndex : Nat
  proof : Bytes
  header : Bytes
  deriving Repr, Inhabited

def finalizeWithdrawal (c : Crypto) (rel : Relayer.State) (s : State) (m : FinalizeMsg) : Outcome (Relayer.State × State) :=
  if m.txid.length ≠ 32 then .err "validate"
  else if m.txIndex = 0 ∨ m.proof.length = 0 then .err "validate"
  else if m.header.length ≠ 80 then .err "validate"
  else match Relayer.verifyNonProposal rel m.proposer with
  | .err e => .err e
  | .panic e => .panic e
  | .ok rel' =>
    match nlookup s.processing m.pid with
    | none => .err "not-found"
    | some p =>
      if p.txids.length ≠ p.outputs.length then .err "internal"
      else match p.txids.findIdx? (· == m.txid) with
      | none => .err "txid-not-found"
      | some idx =>
        let vals := p.outputs[idx]!
        if vals.length ≠ p.withdrawals.length then .err "internal"
        else match nlookup s.hashes m.blockNumber with
        | none => .err "not-found"
        | some blockHash =>
          if blockHash ≠ c.dsha256 m.header then .err "block-hash"
          else if !Merkle.verify c.dsha256 m.txid ((m.header.drop 36).take 32) m.proof m.txIndex then .err "spv"
          else
            let rec go : List Nat → Nat → State → Outcome State
              | [], _, s => .ok s
              | wid :: rest, i, s =>
                match nlookup s.withdrawals wid with
                | none => .err "not-found"
                | some w =>
                  if w.status ≠ .processing then .err "status"
                  else match w.receipt with
                  | none => .err "status"
                  | some r =>
                    let r' := { r with txid := m.txid, amount := vals[i]! }
                    let w' := { w with status := .paid, receipt := some r' }
                    go rest (i + 1) { s with withdrawals := ninsert s.withdrawals wid w',
                                             queue := { s.queue with paid := s.queue.paid ++ [(wid, r')] } }
            match go p.withdrawals 0 s with
            | .err e => .err e
            | .panic e => .panic e
            | .ok s1 => .ok (rel', { s1 with processing := nerase s1.processing m.pid })

def approveCancellation (rel : Relayer.State) (s : State) (proposer : String) (ids : List Nat) : Outcome (Relayer.State × State) :=
  if ids.length = 0 ∨ ids.length > 32 then .err "validate"
  else match Relayer.verifyNonProposal rel proposer with
  | .err e => .err e
  | .panic e => .panic e
  | .ok rel' =>
    let rec go : List Nat → State → Outcome State
      | [], s => .ok s
      | wid :: rest, s =>
        match nlookup s.withdrawals wid with
        | none => .err "not-found"
        | some w =>
          if w.status ≠ .canceling then .err "status"
          else go rest { s with withdrawals := ninsert s.withdrawals wid { w with status := .canceled } }
    match go ids s with
    | .err e => .err e
    | .panic e => .panic e
    | .ok s1 => .ok (rel', { s1 with queue := { s1.queue with rejected := s1.queue.rejected ++ ids } })

/-- NewConsolidation (note: `Validate` dereferences a nil Vote ⇒ panic) -/
def newConsolidation (c : Crypto) (rc : Relayer.Crypto) (chainId : String) (rel : Relayer.State) (s : State)
    (vote : VoteMsg) (hasVote : Bool) (tx : Bytes) : Outcome (Relayer.State × State) :=
  if tx.length < 82 ∨ tx.length > 32768 then .err "validate"
  else if !hasVote then .panic "nil-vote"
  else if !votesValidate vote then .err "validate"
  else match BtcTx.parseNoWitness tx with
  | none => .err "bad-tx"
  | some outs =>
    if outs.length ≠ 1 then .err "output-size"
    else if !verifySystemAddressScript c s.pubkey (outs[0]!).pkScript then .err "change"
    else
      let vote := { vote with method := "Bitcoin/NewConsolidation", sigDoc := rc.sha256 tx }
      match Relayer.verifyProposal rc chainId rel vote with
      | .err e => .err e
      | .panic e => .panic e
      | .ok (rel', seq) => .ok (Relayer.consumeVote rc rel' seq vote.signature, s)

/-! ### execution-layer side (keeper/eth.go) -/

/-- abstract system transaction of the bridge module (RLP encoding is trusted, compared field-wise) -/
inductive SysTx where
  | newBlock (nonce : Nat) (hash : Bytes)
  | deposit (nonce : Nat) (r : DepositReceipt)
  | paid (nonce : Nat) (id : Nat) (r : Receipt)
  | cancel2 (nonce : Nat) (id : Nat)
  | reward (nonce : Nat) (id : Nat) (recipient : Bytes) (goat gas : Int)
  | unlock (nonce : Nat) (id : Nat) (recipient token : Bytes) (amount : Int)
  deriving DecidableEq, Repr, Inhabited

/-- give consecutive nonces `n, n+1, …` to a list of system transactions awaiting their nonce -/
def number : Nat → List (Nat → SysTx) → List SysTx
  | _, [] => []
  | n, f :: fs => f n :: number (n + 1) fs

/-- `DequeueBitcoinModuleTx`: ≤1 block hash, ≤8 deposits, ≤8 paid + refunds together. -/
def dequeue (s : State) : Outcome (State × List SysTx) :=
  let q := s.queue
  let hbPart : Outcome (List (Nat → SysTx)) :=
    if q.blockNumber < s.tip then
      match nlookup s.hashes (q.blockNumber + 1) with
      | none => .err "not-found"
      | some h => .ok [fun n => SysTx.newBlock n h]
    else .ok []
  match hbPart with
  | .err e => .err e
  | .panic e => .panic e
  | .ok hb =>
    let deps := q.deposits.take 8
    let paid := q.paid.take 8
    let rej := q.rejected.take (8 - paid.length)
    let items : List (Nat → SysTx) :=
      hb ++ deps.map (fun d n => SysTx.deposit n d) ++ paid.map (fun p n => SysTx.paid n p.1 p.2) ++
        rej.map (fun id n => SysTx.cancel2 n id)
    if items.isEmpty then .ok (s, [])
    else
      .ok ({ s with queue := { blockNumber := q.blockNumber + hb.length, deposits := q.deposits.drop deps.length,
                               paid := q.paid.drop paid.length, rejected := q.rejected.drop rej.length },
                    nonce := (s.nonce + items.length) % two64 },
           number s.nonce items)

structure WithdrawReq where
  id : Nat
  amount : Nat
  txPrice : Nat
  address : String
  deriving Repr, Inhabited

structure BridgeReqs where
  withdraws : List WithdrawReq := []
  rbf : List (Nat × Nat) := []          -- (id, new max price)
  cancel1 : List Nat := []
  depositTax : List (Nat × Nat) := []   -- (rate, max)
  confirmation : List Nat := []
  minDeposit : List Nat := []
  deriving Repr, Inhabited

def BridgeReqs.count (r : BridgeReqs) : Nat :=
  r.withdraws.length + r.rbf.length + r.cancel1.length + r.depositTax.length + r.confirmation.length + r.minDeposit.length

/-- parameter updates of ProcessBridgeRequest -/
def applyParamReqs (p : Params) (r : BridgeReqs) : Params :=
  let p := r.depositTax.foldl (fun (p : Params) (t : Nat × Nat) =>
    let p := { p with maxTax := t.2 }
    if t.1 < 10000 then { p with taxRate := t.1 } else p) p
  let p := r.confirmation.foldl (fun (p : Params) n => if n ≠ 0 then { p with confirmations := n } else p) p
  r.minDeposit.foldl (fun (p : Params) n => if n > 1000 then { p with minDeposit := n } else p) p

def processBridgeRequest (c : Crypto) (s : State) (r : BridgeReqs) : Outcome State :=
  if r.count = 0 then .ok s
  else
    -- withdraws
    let (ws, rejecting) := r.withdraws.foldl (fun (acc : List (Nat × Withdrawal) × List Nat) v =>
      let valid := (c.decodeAddr v.address).isSome
      let w : Withdrawal := { address := v.address, requestAmount := v.amount, maxTxPrice := v.txPrice,
                              status := if valid then .pending else .canceled, receipt := none }
      (ninsert acc.1 v.id w, if valid then acc.2 else acc.2 ++ [v.id])) (s.withdrawals, [])
    let s1 := { s with withdrawals := ws, queue := { s.queue with rejected := s.queue.rejected ++ rejecting } }
    -- replace-by-fee
    let rec goRbf : List (Nat × Nat) → State → Outcome State
      | [], s => .ok s
      | (id, price) :: rest, s =>
        match nlookup s.withdrawals id with
        | none => .err "not-found"
        | some w =>
          if w.status ≠ .pending ∧ w.status ≠ .processing then goRbf rest s
          else goRbf rest { s with withdrawals := ninsert s.withdrawals id { w with maxTxPrice := price } }
    match goRbf r.rbf s1 with
    | .err e => .err e
    | .panic e => .panic e
    | .ok s2 =>
      let rec goCancel : List Nat → State → Outcome State
        | [], s => .ok s
        | id :: rest, s =>
          match nlookup s.withdrawals id with
          | none => .err "not-found"
          | some w =>
            if w.status ≠ .pending then goCancel rest s
            else goCancel rest { s with withdrawals := ninsert s.withdrawals id { w with status := .canceling } }
      match goCancel r.cancel1 s2 with
      | .err e => .err e
      | .panic e => .panic e
      | .ok s3 => .ok { s3 with params := applyParamReqs s3.params r }

/-- `Params.Validate` (network name and magic length are checked by the harness separately) -/
def paramsValidate (p : Params) : Bool :=
  if p.minDeposit < 1000 then false
  else if p.magic.length ≠ 4 then false
  else if p.confirmations = 0 then false
  else if p.taxRate > 0 then
    if p.maxTax = 0 ∨ p.taxRate ≥ 10000 then false
    else if p.maxTax > 100000000 then false else true
  else if p.maxTax ≠ 0 then false
  else true

end Goat.Bitcoin
