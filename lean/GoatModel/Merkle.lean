/-
  Model of x/bitcoin/types/proof.go : VerifyMerkelProof.
  Parametric in the node hash `H` (the real code uses double SHA-256 of the 64-byte concatenation).
-/
import GoatModel.Prelude
namespace Goat.Merkle

/-- split a byte string into consecutive 32-byte chunks (a ragged tail is kept as a short chunk;
    `verify` rejects ragged inputs before chunking). -/
def chunks32 : Nat → Bytes → List Bytes
  | 0, _ => []
  | fuel + 1, bs => if bs.isEmpty then [] else bs.take 32 :: chunks32 fuel (bs.drop 32)

def chunks (bs : Bytes) : List Bytes := chunks32 (bs.length) bs

/-- One step of the loop body: combine `cur` with sibling `next`, steered by the low bit. -/
def stepNode (H : Bytes → Bytes) (cur next : Bytes) (index : Nat) : Bytes :=
  if index % 2 = 0 then H (cur ++ next) else H (next ++ cur)

/-- The loop: hash the leaf up the path, consuming one index bit per node. -/
def foldUp (H : Bytes → Bytes) : Bytes → List Bytes → Nat → Bytes
  | cur, [], _ => cur
  | cur, next :: rest, index => foldUp H (stepNode H cur next index) rest (index / 2)

/-- the index after the loop (`index >>= 1` per node) -/
def indexAfter (nodes : Nat) (index : Nat) : Nat := index / 2 ^ nodes

/-- Mirror of `VerifyMerkelProof` **as repaired** (fix: reject when the claimed position does not
    fit the path, i.e. `index >> nodes != 0`).  `index` is the uint32 argument. -/
def verify (H : Bytes → Bytes) (txid root proof : Bytes) (index : Nat) : Bool :=
  if txid.length ≠ 32 ∨ root.length ≠ 32 ∨ proof.length % 32 ≠ 0 then false
  else
    let path := chunks proof
    if indexAfter path.length index ≠ 0 then false
    else foldUp H txid path index == root

/-- Mirror of the function at the pinned commit (no range check) — kept to state precisely what
    the unrepaired code computes and to replay finding F2. -/
def verifyUnchecked (H : Bytes → Bytes) (txid root proof : Bytes) (index : Nat) : Bool :=
  if txid.length ≠ 32 ∨ root.length ≠ 32 ∨ proof.length % 32 ≠ 0 then false
  else foldUp H txid (chunks proof) index == root

end Goat.Merkle
