/-
  C04O — the fixed-length hypothesis `Out32 H` of the C04 theorems is met by the model's own double SHA-256
  (GoatModel.Sha256, the executable hash the driver uses for address checksums): the hypothesis is satisfiable
  by a concrete, computable hash, not only by toy functions.
-/
import GoatProofs.C04
import GoatProofs.C04S
namespace Goat.C04O

theorem out32_dsha256 : C04.Out32 Sha256.dsha256 := fun b => C04S.dsha256_length b
theorem out32_sha256 : C04.Out32 Sha256.sha256 := fun b => C04S.sha256_length b

end Goat.C04O
#print axioms Goat.C04O.out32_dsha256
