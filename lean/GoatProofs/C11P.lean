/-
  C11 / C13 / C14 — what the genesis validation of the locking parameters guarantees.

  The conservation and punishment theorems take the slash fractions as natural numbers below 10^18 ("fractions are
  validated to be below one", C11.slash_le_holding).  `validate_bounds` discharges that hypothesis from
  `Params.Validate`; `Finding.F14_…` shows that the function at the pinned commit did NOT give it.
-/
import GoatModel.LockingParams
import GoatModel.Locking
namespace Goat.C11P
open Goat.LockingParams

/-- **Validated parameters are in range**: every bound the keeper logic relies on. -/
theorem validate_bounds (p : RawParams) (h : paramsValidate p = true) :
    1 ≤ p.maxValidators ∧ p.maxValidators ≤ 100 ∧
    1 ≤ p.maxMissed ∧ p.maxMissed < p.signedBlocksWindow ∧
    0 < p.slashDoubleSign ∧ p.slashDoubleSign < one ∧
    0 < p.slashDowntime ∧ p.slashDowntime < one ∧
    minute ≤ p.downtimeJail ∧ p.unlockDuration ≤ p.exitingDuration ∧
    1 ≤ p.initialReward ∧ 1 ≤ p.halvingInterval := by
  simp only [paramsValidate, Bool.and_eq_true, Bool.not_eq_true', Bool.or_eq_false_iff, decide_eq_false_iff_not] at h
  refine ⟨?_, ?_, ?_, ?_, ?_, ?_, ?_, ?_, ?_, ?_, ?_, ?_⟩ <;> omega

/-- … and conversely: the validation refuses nothing else. -/
theorem validate_complete (p : RawParams)
    (h : 1 ≤ p.maxValidators ∧ p.maxValidators ≤ 100 ∧
      1 ≤ p.maxMissed ∧ p.maxMissed < p.signedBlocksWindow ∧
      0 < p.slashDoubleSign ∧ p.slashDoubleSign < one ∧
      0 < p.slashDowntime ∧ p.slashDowntime < one ∧
      minute ≤ p.downtimeJail ∧ p.unlockDuration ≤ p.exitingDuration ∧
      1 ≤ p.initialReward ∧ 1 ≤ p.halvingInterval) : paramsValidate p = true := by
  obtain ⟨a, b, c, d, e, f, g, i, j, k, l, m⟩ := h
  simp only [paramsValidate, Bool.and_eq_true, Bool.not_eq_true', Bool.or_eq_false_iff, decide_eq_false_iff_not]
  omega

/-- the fractions of validated parameters as the keeper model sees them: natural numbers strictly between 0 and 10^18,
    so that a slash takes a non-negative amount not above the holding (`C11.slash_le_holding`) -/
theorem validated_fractions_are_nat (p : RawParams) (h : paramsValidate p = true) :
    ∃ ds dt : Nat, (ds : Int) = p.slashDoubleSign ∧ (dt : Int) = p.slashDowntime ∧ 0 < ds ∧ ds < Goat.Locking.e18 ∧ 0 < dt ∧ dt < Goat.Locking.e18 := by
  obtain ⟨_, _, _, _, e, f, g, i, _⟩ := validate_bounds p h
  refine ⟨p.slashDoubleSign.toNat, p.slashDowntime.toNat, ?_, ?_, ?_, ?_, ?_, ?_⟩ <;>
    simp only [one, Goat.Locking.e18] at * <;> omega

namespace Finding

def negativeDoubleSign : RawParams :=
  { unlockDuration := 1
    exitingDuration := 2
    downtimeJail := minute
    maxValidators := 10
    signedBlocksWindow := 10
    maxMissed := 5
    slashDoubleSign := -500000000000000000
    slashDowntime := 20000000000000000
    halvingInterval := 1
    initialReward := 1 }

/-- **F14** (pinned commit): parameters with a double-sign fraction of −0.5 passed the validation — a "slash" then adds
    half of the holding to the tombstoned validator and drives the slashed total below zero (confirmed on the real
    keeper).  The repaired function refuses them. -/
theorem F14_pinned_validation_admits_negative_fraction :
    paramsValidatePinned negativeDoubleSign = true ∧ negativeDoubleSign.slashDoubleSign < 0 ∧
    paramsValidate negativeDoubleSign = false := by decide

end Finding

/-- non-vacuity: the module's default parameters are valid -/
def defaults : RawParams :=
  { unlockDuration := 604800000000000
    exitingDuration := 1814400000000000
    downtimeJail := 10800000000000
    maxValidators := 21
    signedBlocksWindow := 1200
    maxMissed := 200
    slashDoubleSign := 50000000000000000
    slashDowntime := 20000000000000000
    halvingInterval := 42048000
    initialReward := 2378234400000000000 }

example : paramsValidate defaults = true := by decide

end Goat.C11P
