/-
  C20 — bridge parameters set from the execution layer stay within safe bounds.
-/
import GoatModel.Bitcoin
namespace Goat.C20
open Goat.Bitcoin

/-- the safe bounds: tax rate below 100 %, minimum deposit at least the dust limit, depth ≥ 1 -/
def ParamInv (p : Params) : Prop := p.taxRate < 10000 ∧ p.minDeposit ≥ 1000 ∧ p.confirmations ≥ 1

instance (p : Params) : Decidable (ParamInv p) := by unfold ParamInv; exact inferInstance

/-- genesis validation (as repaired: a rate of exactly 100 % is refused) establishes the bounds -/
theorem validate_establishes (p : Params) (h : paramsValidate p = true) : ParamInv p := by
  unfold paramsValidate at h
  unfold ParamInv
  split at h; · cases h
  split at h; · cases h
  split at h; · cases h
  split at h
  · split at h; · cases h
    omega
  · omega

theorem tax_step (p : Params) (t : Nat × Nat) (h : ParamInv p) :
    ParamInv (let p := { p with maxTax := t.2 }; if t.1 < 10000 then { p with taxRate := t.1 } else p) := by
  unfold ParamInv at *
  simp only
  split <;> simp_all

/-- **Every request list keeps the bounds**, for arbitrary 64-bit (indeed arbitrary) values:
    out-of-range requests are ignored. -/
theorem requests_preserve_bounds (p : Params) (r : BridgeReqs) (h : ParamInv p) : ParamInv (applyParamReqs p r) := by
  unfold applyParamReqs
  have h1 : ∀ (l : List (Nat × Nat)) (p : Params), ParamInv p →
      ParamInv (l.foldl (fun (p : Params) (t : Nat × Nat) =>
        let p := { p with maxTax := t.2 }
        if t.1 < 10000 then { p with taxRate := t.1 } else p) p) := by
    intro l
    induction l with
    | nil => intro p hp; exact hp
    | cons t ts ih => intro p hp; rw [List.foldl_cons]; exact ih _ (tax_step p t hp)
  have h2 : ∀ (l : List Nat) (p : Params), ParamInv p →
      ParamInv (l.foldl (fun (p : Params) n => if n ≠ 0 then { p with confirmations := n } else p) p) := by
    intro l
    induction l with
    | nil => intro p hp; exact hp
    | cons n ns ih =>
      intro p hp; rw [List.foldl_cons]; apply ih
      unfold ParamInv at *
      split <;> simp_all <;> omega
  have h3 : ∀ (l : List Nat) (p : Params), ParamInv p →
      ParamInv (l.foldl (fun (p : Params) n => if n > 1000 then { p with minDeposit := n } else p) p) := by
    intro l
    induction l with
    | nil => intro p hp; exact hp
    | cons n ns ih =>
      intro p hp; rw [List.foldl_cons]; apply ih
      unfold ParamInv at *
      split <;> simp_all <;> omega
  exact h3 _ _ (h2 _ _ (h1 _ _ h))

/-- by induction: every history of request lists keeps the bounds -/
theorem history_preserves_bounds (p : Params) (rs : List BridgeReqs) (h : ParamInv p) :
    ParamInv (rs.foldl applyParamReqs p) := by
  induction rs generalizing p with
  | nil => exact h
  | cons r rs ih => exact ih _ (requests_preserve_bounds p r h)

/-- `ProcessBridgeRequest` changes the parameters only through `applyParamReqs` -/
theorem processBridgeRequest_params (c : Crypto) (s s' : State) (r : BridgeReqs)
    (h : processBridgeRequest c s r = .ok s') : s'.params = s.params ∨ s'.params = applyParamReqs s.params r := by
  unfold processBridgeRequest at h
  split at h
  · cases h; exact Or.inl rfl
  · simp only at h
    split at h
    · cases h
    · cases h
    · rename_i s2 h2
      split at h
      · cases h
      · cases h
      · rename_i s3 h3
        cases h
        right
        -- the rbf / cancel loops do not touch the parameters
        have hrbf : ∀ (l : List (Nat × Nat)) (a b : State), processBridgeRequest.goRbf l a = .ok b → b.params = a.params := by
          intro l
          induction l with
          | nil => intro a b h; simp [processBridgeRequest.goRbf] at h; rw [← h]
          | cons x xs ih =>
            intro a b h
            obtain ⟨id, price⟩ := x
            simp only [processBridgeRequest.goRbf] at h
            split at h
            · cases h
            · split at h
              · exact ih _ _ h
              · exact (ih _ _ h).trans rfl
        have hcan : ∀ (l : List Nat) (a b : State), processBridgeRequest.goCancel l a = .ok b → b.params = a.params := by
          intro l
          induction l with
          | nil => intro a b h; simp [processBridgeRequest.goCancel] at h; rw [← h]
          | cons x xs ih =>
            intro a b h
            simp only [processBridgeRequest.goCancel] at h
            split at h
            · cases h
            · split at h
              · exact ih _ _ h
              · exact (ih _ _ h).trans rfl
        simp only
        rw [hcan _ _ _ h3, hrbf _ _ _ h2]

/-! ### consequences for deposits -/

/-- **The tax never reaches the value, the credited amount is positive and nothing wraps**:
    for every parameter setting within the bounds and every 64-bit output value that passes the
    minimum-deposit test. -/
theorem tax_below_value (p : Params) (v : Nat) (h : ParamInv p) (hv : v < two64) (hmin : p.minDeposit ≤ v) :
    (taxOf p v).2 < v ∧ (taxOf p v).1 + (taxOf p v).2 = v ∧ 0 < (taxOf p v).1 := by
  unfold ParamInv at h
  obtain ⟨hr, hm, _⟩ := h
  unfold taxOf
  split
  · rename_i hc
    -- v / 10000 * rate ≤ v / 10000 * 9999 < v
    have h1 : v / 10000 * p.taxRate ≤ v / 10000 * 9999 := Nat.mul_le_mul_left _ (by omega)
    have h2 : v / 10000 * 9999 < v := by omega
    have ht : v / 10000 * p.taxRate < v := by omega
    have hmod : v / 10000 * p.taxRate % two64 = v / 10000 * p.taxRate := Nat.mod_eq_of_lt (by omega)
    simp only [hmod]
    split
    · rename_i hcap
      have : p.maxTax < v := by omega
      have e : (v + two64 - p.maxTax) % two64 = v - p.maxTax := by
        have : v + two64 - p.maxTax = (v - p.maxTax) + two64 := by omega
        rw [this, Nat.add_mod_right]; exact Nat.mod_eq_of_lt (by omega)
      simp only [e]; omega
    · have e : (v + two64 - v / 10000 * p.taxRate) % two64 = v - v / 10000 * p.taxRate := by
        have : v + two64 - v / 10000 * p.taxRate = (v - v / 10000 * p.taxRate) + two64 := by omega
        rw [this, Nat.add_mod_right]; exact Nat.mod_eq_of_lt (by omega)
      simp only [e]; omega
  · simp; omega

/-- the tax formula of the statement: `min(cap, ⌊value/10000⌋·rate)`, uncapped when the cap is 0,
    and no tax on values up to 10000 satoshi or with rate 0 -/
theorem tax_formula (p : Params) (v : Nat) (h : ParamInv p) (hv : v < two64) :
    (taxOf p v).2 =
      if p.taxRate > 0 ∧ v > 10000 then
        (if p.maxTax > 0 ∧ v / 10000 * p.taxRate > p.maxTax then p.maxTax else v / 10000 * p.taxRate)
      else 0 := by
  unfold ParamInv at h
  unfold taxOf
  split
  · have h1 : v / 10000 * p.taxRate ≤ v / 10000 * 9999 := Nat.mul_le_mul_left _ (by omega)
    have hmod : v / 10000 * p.taxRate % two64 = v / 10000 * p.taxRate := Nat.mod_eq_of_lt (by omega)
    simp only [hmod]
  · rfl

/-- no dust deposit is ever accepted: the minimum stays at or above 1000 satoshi -/
theorem no_dust (p : Params) (rs : List BridgeReqs) (h : ParamInv p) : (rs.foldl applyParamReqs p).minDeposit ≥ 1000 :=
  (history_preserves_bounds p rs h).2.1

/-! ### finding F8: the unrepaired genesis validation admitted a 100 % rate -/
theorem F8_rate_10000_takes_everything :
    ∃ p : Params, p.taxRate = 10000 ∧ p.maxTax = 0 ∧ (taxOf p 20000).1 = 0 := by
  exact ⟨{ minDeposit := 1000, confirmations := 1, taxRate := 10000, maxTax := 0, magic := [] }, rfl, rfl, by decide⟩

/-! ### non-vacuity -/
example : ParamInv { minDeposit := 1000, confirmations := 1, taxRate := 9999, maxTax := 0, magic := [] } := by decide

end Goat.C20
