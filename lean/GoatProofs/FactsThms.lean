/-
  Theorems over the facts regenerated from /repo's source on every run (GoatModel/Generated/Facts.lean,
  written by /verif/factgen).  They are re-decided against what the code says *now*.
-/
import GoatModel.Generated.Facts
import GoatModel.App
namespace Goat.FactsThms
open Goat.Facts

/-! ### C02: who can move the proposal sequence / randao -/

/-- the five voted bridge handlers -/
def votedHandlers : List String :=
  ["x/bitcoin/keeper.msgServer.NewBlockHashes", "x/bitcoin/keeper.msgServer.NewConsolidation", "x/bitcoin/keeper.msgServer.NewPubkey",
   "x/bitcoin/keeper.msgServer.ProcessWithdrawal", "x/bitcoin/keeper.msgServer.ReplaceWithdrawal"]

/-- `seqReach` (regenerated from the source) lists the entry points from which a write of the relayer keeper's
    Sequence / Randao item is statically reachable, through any chain of helpers and through the keeper interfaces —
    so extracting or inlining a helper does not change it.  The writes are reachable only from the five voted bridge
    handlers and from genesis. -/
theorem seq_writers_closed :
    seqReach.all (fun e => votedHandlers.contains e.1 || e.1 == "x/relayer/module.InitGenesis") = true := by decide

/-- … and from exactly these five (no voted handler lost its write) -/
theorem seq_callers_are_the_five_voted_handlers :
    votedHandlers.all (fun h => seqReach.any (fun e => e.1 == h)) = true ∧
    ((seqReach.map (·.1)).filter (fun n => n != "x/relayer/module.InitGenesis")).all (fun n => votedHandlers.contains n) = true := by decide

/-- each of the five reaches both the sequence and the randao write, and each of them starts with `VerifyProposal` -/
theorem voted_handlers_verify_and_consume :
    ["NewBlockHashes", "NewConsolidation", "NewPubkey", "ProcessWithdrawal", "ReplaceWithdrawal"].all (fun h =>
      seqReach.contains ("x/bitcoin/keeper.msgServer." ++ h, "Sequence.Set") &&
      seqReach.contains ("x/bitcoin/keeper.msgServer." ++ h, "Randao.Set") &&
      msgServerFirstChecks.contains ("bitcoin.msgServer." ++ h, "VerifyProposal")) = true := by decide

/-! ### C07: sources of non-determinism -/

/-- every `range` over a Go map in consensus-path code is on this allow-list; each entry is covered
    by an order-insensitivity argument (C07.endBlocker_removal_order_insensitive) -/
theorem map_ranges_allowlisted :
    mapRanges.all (fun e => e == ("x/locking/keeper.Keeper.EndBlocker", "map[string]uint64")) = true := by decide

/-- wall clock, randomness and goroutines are reachable only from where a proposal is built or checked (and from
    `app.New`, which dials the engine client at start-up): never from transaction execution, block hooks, genesis or
    request processing.  `nondetReach` attributes every use to the entry points it is reachable from, so renaming or
    splitting the helper that reads the clock does not change the fact. -/
theorem nondeterminism_confined :
    nondetReach.all (fun e =>
      ["app.New", "x/goat/keeper.Keeper.PrepareProposalHandler", "x/goat/keeper.Keeper.ProcessProposalHandler"].contains e.1) = true := by decide

/-- **how the application configures baseapp**: package app installs the ante handler and the two proposal handlers
    (wherever in the package: moving the three calls into a helper changes nothing here) and
    nothing else — no optimistic execution (which would run FinalizeBlock, with its engine notification, for proposals that
    are never decided), no pre-blocker, no other mempool, no further baseapp option.  The model's whole-application layer
    (Driver: ante → handler per transaction, hooks, `Finalized` once per finalised block) mirrors exactly this wiring. -/
theorem app_wiring_exact :
    (appWiring.all (fun e => ["baseapp.SetAnteHandler", "baseapp.SetPrepareProposal", "baseapp.SetProcessProposal"].contains e.2) &&
     ["baseapp.SetAnteHandler", "baseapp.SetPrepareProposal", "baseapp.SetProcessProposal"].all
       (fun n => (appWiring.map (·.2)).contains n)) = true := by decide

/-- **the order of the block hooks** the model's `a.blockstart` / `a.end` steps mirror: BeginBlock = locking only;
    EndBlock = relayer (election), goat (engine notification), locking (validator updates); no pre-blocker; genesis is
    imported in the order auth, relayer, bitcoin, locking, goat. -/
theorem module_order_exact :
    moduleOrder = [("BeginBlockers", "0:locking"),
                   ("EndBlockers", "0:relayer"), ("EndBlockers", "1:goat"), ("EndBlockers", "2:locking"),
                   ("InitGenesis", "0:auth"), ("InitGenesis", "1:relayer"), ("InitGenesis", "2:bitcoin"),
                   ("InitGenesis", "3:locking"), ("InitGenesis", "4:goat")] := by decide

/-! ### C08: the goroutines of the proposal handlers do not conflict -/

def conflicts (acc : List (String × String × String × String)) : List (String × String) :=
  (acc.filter (fun e => e.2.2.1 == "W")).filterMap (fun w =>
    if acc.any (fun o => o.1 == w.1 && o.2.1 != w.2.1 && o.2.2.2 == w.2.2.2) then some (w.1, w.2.2.2) else none)

/-- no object written by one goroutine of a proposal handler is read or written by its sibling
    (footprint model: captured variables and fields of the shared message, one call level deep) -/
theorem no_conflicting_access : conflicts goroutineAccess = [] := by decide

/-! ### C10: the message registry -/

theorem registry_known : registeredMsgsKnown = true := by decide

/-- every message type registered in the application outside the bridge / relayer namespaces, other
    than the execution-block message, is refused by the guard in all five execution modes, whatever
    the signer, memo and timeout -/
theorem registry_closed :
    (registeredMsgsC.filter (fun n => !App.isRelayerNs n && n != App.ethBlockMsg)).all (fun n =>
      [App.Mode.check, .recheck, .prepare, .process, .finalize].all (fun m =>
        [true, false].all (fun isProp =>
          !(App.guard m 0 1 0 1 [n] isProp).isOk))) = true := by decide

/-- the messages inside the two namespaces are exactly the ten known ones, each of whose handlers
    begins with a proposer check -/
theorem relayer_namespace_is_the_known_ten :
    (registeredMsgsC.filter App.isRelayerNs).length = 10 ∧ registeredMsgsC.length = registeredMsgs.length ∧
    (registeredMsgs.filter (fun n =>
      ["goat.bitcoin.v1.MsgApproveCancellation", "goat.bitcoin.v1.MsgFinalizeWithdrawal", "goat.bitcoin.v1.MsgNewBlockHashes",
       "goat.bitcoin.v1.MsgNewConsolidation", "goat.bitcoin.v1.MsgNewDeposits", "goat.bitcoin.v1.MsgNewPubkey",
       "goat.bitcoin.v1.MsgProcessWithdrawal", "goat.bitcoin.v1.MsgReplaceWithdrawal",
       "goat.relayer.v1.MsgAcceptProposerRequest", "goat.relayer.v1.MsgNewVoterRequest"].contains n)).length = 10 ∧
    msgServerFirstChecks.all (fun e => e.2 != "none") = true ∧ msgServerFirstChecks.length = 10 := by decide

/-- the guard sits right after context set-up and before every other decorator -/
theorem guard_is_second_decorator : anteDecorators[1]? = some "app.GoatGuardHandler" := by decide

end Goat.FactsThms
