/-
  C03U: the canonical serialisation determines the whole transaction (injectivity of
  C03T.serialize on well-formed transactions), and the bridge-model call sites only accept
  canonical serialisations.
-/
import GoatProofs.C03T
import GoatProofs.C03
import GoatProofs.C05H
namespace Goat.C03U
open Goat Goat.BtcTx Goat.C19R Goat.C03T

/-! ## Stage 1: prefix-freeness of each component, injectivity of `serialize` -/

theorem varint_inj {a b : Nat} {r1 r2 : Bytes} (ha : a < 2 ^ 64) (hb : b < 2 ^ 64)
    (h : encodeVarInt a ++ r1 = encodeVarInt b ++ r2) : a = b ∧ r1 = r2 := by
  have h1 := readVarInt_encode a r1 ha
  have h2 := readVarInt_encode b r2 hb
  rw [h, h2] at h1
  simp only [Option.some.injEq, Prod.mk.injEq] at h1
  exact ⟨h1.1.symm, h1.2.symm⟩

theorem script_inj {a b : Bytes} {r1 r2 : Bytes} (ha : a.length ≤ maxScript)
    (hb : b.length ≤ maxScript)
    (h : encodeScript a ++ r1 = encodeScript b ++ r2) : a = b ∧ r1 = r2 := by
  have h1 := readScript_encode (rest := r1) ha
  have h2 := readScript_encode (rest := r2) hb
  rw [h, h2] at h1
  simp only [Option.some.injEq, Prod.mk.injEq] at h1
  exact ⟨h1.1.symm, h1.2.symm⟩

theorem txin_ext {i1 i2 : TxIn} (h1 : i1.prev = i2.prev) (h2 : i1.script = i2.script)
    (h3 : i1.seq = i2.seq) : i1 = i2 := by
  cases i1; cases i2; simp_all

theorem in_inj {i1 i2 : TxIn} {r1 r2 : Bytes} (w1 : InWF i1) (w2 : InWF i2)
    (h : encodeIn i1 ++ r1 = encodeIn i2 ++ r2) : i1 = i2 ∧ r1 = r2 := by
  obtain ⟨hp1, hs1, hq1⟩ := w1
  obtain ⟨hp2, hs2, hq2⟩ := w2
  have e : ∀ (i : TxIn) (r : Bytes),
      encodeIn i ++ r = i.prev ++ (encodeScript i.script ++ (i.seq ++ r)) := by
    intro i r; simp [encodeIn, List.append_assoc]
  rw [e, e] at h
  obtain ⟨a1, h⟩ := List.append_inj h (hp1.trans hp2.symm)
  obtain ⟨a2, h⟩ := script_inj hs1 hs2 h
  obtain ⟨a3, h⟩ := List.append_inj h (hq1.trans hq2.symm)
  exact ⟨txin_ext a1 a2 a3, h⟩

theorem ins_inj (is1 : List TxIn) : ∀ (is2 : List TxIn) (r1 r2 : Bytes),
    is1.length = is2.length → (∀ i ∈ is1, InWF i) → (∀ i ∈ is2, InWF i) →
    encodeIns is1 ++ r1 = encodeIns is2 ++ r2 → is1 = is2 ∧ r1 = r2 := by
  induction is1 with
  | nil =>
    intro is2 r1 r2 hl _ _ h
    cases is2 with
    | nil => simpa [encodeIns] using h
    | cons _ _ => simp at hl
  | cons i is ih =>
    intro is2 r1 r2 hl w1 w2 h
    cases is2 with
    | nil => simp at hl
    | cons j js =>
      simp only [encodeIns, List.append_assoc] at h
      obtain ⟨a1, h⟩ := in_inj (w1 i (by simp)) (w2 j (by simp)) h
      obtain ⟨a2, h⟩ := ih js r1 r2 (by simpa using hl)
        (fun x hx => w1 x (by simp [hx])) (fun x hx => w2 x (by simp [hx])) h
      exact ⟨by rw [a1, a2], h⟩

theorem outs_inj {os1 os2 : List TxOut} {r1 r2 : Bytes} (hl : os1.length = os2.length)
    (w1 : ∀ o ∈ os1, OutWF o) (w2 : ∀ o ∈ os2, OutWF o)
    (h : encodeOuts os1 ++ r1 = encodeOuts os2 ++ r2) : os1 = os2 ∧ r1 = r2 := by
  have h1 := readOuts_encode os1 r1 [] w1
  have h2 := readOuts_encode os2 r2 [] w2
  rw [h, hl, h2] at h1
  simp only [List.reverse_nil, List.nil_append, Option.some.injEq, Prod.mk.injEq] at h1
  exact ⟨h1.1.symm, h1.2.symm⟩

theorem tx_ext {t1 t2 : Tx} (h1 : t1.version = t2.version) (h2 : t1.ins = t2.ins)
    (h3 : t1.outs = t2.outs) (h4 : t1.lock = t2.lock) : t1 = t2 := by
  cases t1; cases t2; simp_all

/-- the bytes hashed into the txid determine every field of the (well-formed) transaction -/
theorem serialize_injective {t1 t2 : Tx} (h1 : t1.WF) (h2 : t2.WF)
    (h : serialize t1 = serialize t2) : t1 = t2 := by
  obtain ⟨hv1, hl1, hni1, hno1, hi1, ho1⟩ := h1
  obtain ⟨hv2, hl2, hni2, hno2, hi2, ho2⟩ := h2
  simp only [serialize] at h
  obtain ⟨a1, h⟩ := List.append_inj h (hv1.trans hv2.symm)
  obtain ⟨a2, h⟩ := varint_inj (Nat.lt_of_le_of_lt hni1 maxTxIn_lt)
    (Nat.lt_of_le_of_lt hni2 maxTxIn_lt) h
  obtain ⟨a3, h⟩ := ins_inj _ _ _ _ a2 hi1 hi2 h
  obtain ⟨a4, h⟩ := varint_inj (Nat.lt_of_le_of_lt hno1 maxTxOut_lt)
    (Nat.lt_of_le_of_lt hno2 maxTxOut_lt) h
  obtain ⟨a5, h⟩ := outs_inj a4 ho1 ho2 h
  exact tx_ext a1 a3 a5 h

theorem parse_agree {t1 t2 : Tx} (h1 : t1.WF) (h2 : t2.WF)
    (h : serialize t1 = serialize t2) : t1.outs = t2.outs := by
  rw [serialize_injective h1 h2 h]

/-- the well-formed transaction behind accepted raw bytes is unique -/
theorem parse_unique {bs : Bytes} {outs : List TxOut} (h : parseNoWitness bs = some outs) :
    ∃ tx : Tx, (tx.WF ∧ tx.outs = outs ∧ bs = serialize tx) ∧
      ∀ tx' : Tx, tx'.WF → bs = serialize tx' → tx' = tx := by
  obtain ⟨tx, hwf, ho, hb⟩ := parse_canonical h
  exact ⟨tx, ⟨hwf, ho, hb⟩, fun tx' hwf' hb' => serialize_injective hwf' hwf (hb'.symm.trans hb)⟩

/-! ## Non-vacuity: two different well-formed transactions, different serialisations -/

def demoTx2 : Tx := { demoTx with lock := [1, 0, 0, 0] }

example : serialize demoTx ≠ serialize demoTx2 := by decide
example : parseNoWitness (serialize demoTx2) = some demoTx.outs := by decide

/-! ## Stage 2: the bridge-model call sites only accept canonical serialisations -/

/-- accepted bytes: a unique well-formed transaction, serialised canonically, with these outputs -/
theorem canon {raw : Bytes} {outs : List TxOut} (h : parseNoWitness raw = some outs) :
    ∃ tx : Tx, tx.WF ∧ raw = serialize tx ∧ tx.outs = outs ∧
      ∀ tx' : Tx, tx'.WF → raw = serialize tx' → tx' = tx := by
  obtain ⟨tx, ⟨hwf, ho, hb⟩, hu⟩ := parse_unique h
  exact ⟨tx, hwf, hb, ho, hu⟩

section
open Goat.Bitcoin

/-- VerifyDeposit: the accepted raw transaction is the canonical serialisation of a unique
well-formed transaction whose outputs are the ones the deposit check looked at. -/
theorem deposit_tx_canonical (c : Crypto) (rel : Relayer.State) (s : State)
    (headers : List (Nat × Bytes)) (d : Deposit) (r : DepositReceipt)
    (h : verifyDeposit c rel s headers d = .ok r) :
    ∃ tx : Tx, tx.WF ∧ d.noWitnessTx = serialize tx ∧
      (∀ tx' : Tx, tx'.WF → d.noWitnessTx = serialize tx' → tx' = tx) ∧
      parseNoWitness d.noWitnessTx = some tx.outs ∧ d.outputIndex < tx.outs.length ∧
      s.params.minDeposit ≤ (tx.outs[d.outputIndex]!).value ∧
      r.txid = c.dsha256 (serialize tx) ∧
      r.amount = (taxOf s.params (tx.outs[d.outputIndex]!).value).1 ∧
      r.tax = (taxOf s.params (tx.outs[d.outputIndex]!).value).2 := by
  obtain ⟨_, _, _, outs, _, _, _, _, _, hp, hidx, _, hmin, _, _, hr⟩ :=
    C03.C03_accept_implies c rel s headers d r h
  obtain ⟨tx, hwf, hb, ho, hu⟩ := canon hp
  subst ho
  refine ⟨tx, hwf, hb, hu, hp, hidx, hmin, ?_, ?_, ?_⟩
  · rw [hr, hb]
  · rw [hr]
  · rw [hr]

/-- ProcessWithdrawal: the voted raw transaction is canonical; its outputs are one per withdrawal
plus at most one change output. -/
theorem process_tx_canonical (c : Crypto) (rc : Relayer.Crypto) (chainId : String)
    (rel : Relayer.State) (s : State) (vote : Relayer.VoteMsg) (hv : Bool) (ids : List Nat)
    (raw : Bytes) (fee : Nat) (r : Relayer.State × State)
    (h : processWithdrawal c rc chainId rel s vote hv ids raw fee = .ok r) :
    ∃ tx : Tx, tx.WF ∧ raw = serialize tx ∧
      (∀ tx' : Tx, tx'.WF → raw = serialize tx' → tx' = tx) ∧
      parseNoWitness raw = some tx.outs ∧
      (tx.outs.length = ids.length ∨ tx.outs.length = ids.length + 1) ∧
      (∀ k, k < ids.length → ∃ w, C05.Terms c w fee raw.length (tx.outs[k]!) ∧
        (w.status = .pending ∨ w.status = .canceling)) ∧
      (tx.outs.length = ids.length + 1 →
        verifySystemAddressScript c s.pubkey (tx.outs[ids.length]!).pkScript = true) := by
  obtain ⟨_, outs, hp, hlen, hterms, _, hchg⟩ :=
    C05.process_terms c rc chainId rel s vote hv ids raw fee r h
  obtain ⟨tx, hwf, hb, ho, hu⟩ := canon hp
  subst ho
  exact ⟨tx, hwf, hb, hu, hp, hlen, hterms, hchg⟩

/-- ReplaceWithdrawal (RBF): the voted replacement raw transaction is canonical. -/
theorem replace_tx_canonical (c : Crypto) (rc : Relayer.Crypto) (chainId : String)
    (rel : Relayer.State) (s : State) (vote : Relayer.VoteMsg) (hv : Bool) (pid : Nat)
    (raw : Bytes) (fee : Nat) (r : Relayer.State × State)
    (h : replaceWithdrawal c rc chainId rel s vote hv pid raw fee = .ok r) :
    ∃ (tx : Tx) (p : Processing), tx.WF ∧ raw = serialize tx ∧
      (∀ tx' : Tx, tx'.WF → raw = serialize tx' → tx' = tx) ∧
      parseNoWitness raw = some tx.outs ∧ nlookup s.processing pid = some p ∧
      c.dsha256 (serialize tx) ∉ p.txids ∧
      (tx.outs.length = p.withdrawals.length ∨ tx.outs.length = p.withdrawals.length + 1) := by
  obtain ⟨_, outs, p, hp, hlk, _, hnew, hlen, _⟩ :=
    C05H.replace_terms c rc chainId rel s vote hv pid raw fee r h
  obtain ⟨tx, hwf, hb, ho, hu⟩ := canon hp
  subst ho
  refine ⟨tx, p, hwf, hb, hu, hp, hlk, ?_, hlen⟩
  rw [← hb]; exact hnew

/-- NewConsolidation: the voted raw transaction is canonical and has exactly one output, which
pays the current relayer key. -/
theorem consolidation_tx_canonical (c : Crypto) (rc : Relayer.Crypto) (chainId : String)
    (rel : Relayer.State) (s : State) (vote : Relayer.VoteMsg) (hv : Bool)
    (raw : Bytes) (r : Relayer.State × State)
    (h : newConsolidation c rc chainId rel s vote hv raw = .ok r) :
    ∃ tx : Tx, tx.WF ∧ raw = serialize tx ∧
      (∀ tx' : Tx, tx'.WF → raw = serialize tx' → tx' = tx) ∧
      parseNoWitness raw = some tx.outs ∧ tx.outs.length = 1 ∧
      verifySystemAddressScript c s.pubkey (tx.outs[0]!).pkScript = true := by
  unfold newConsolidation at h
  split at h
  · cases h
  split at h
  · cases h
  split at h
  · cases h
  split at h
  · cases h
  rename_i outs hp
  split at h
  · cases h
  rename_i hlen
  split at h
  · cases h
  rename_i hchg
  obtain ⟨tx, hwf, hb, ho, hu⟩ := canon hp
  subst ho
  refine ⟨tx, hwf, hb, hu, hp, Decidable.not_not.mp hlen, ?_⟩
  simpa using hchg

end

#print axioms serialize_injective
#print axioms parse_agree
#print axioms parse_unique
#print axioms deposit_tx_canonical
#print axioms process_tx_canonical
#print axioms replace_tx_canonical
#print axioms consolidation_tx_canonical

end Goat.C03U
