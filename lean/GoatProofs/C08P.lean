/-
  C08 — "a proposal built by an honest proposer is accepted by every honest validator", for the node's own
  PrepareProposal selection (GoatModel.Prepare): whatever the mempool holds — any number of transactions, any pattern of
  passing and failing ones — the proposal stays within the 16-transaction cap and ProcessProposal accepts it.
  (The seeded change C19-r4 — `>=` for `>` in ProcessProposal — is exactly the failure of `prepared_accepted` at a
  mempool of 15 or more passing transactions.)
-/
import GoatModel.Prepare
import GoatProofs.C08
namespace Goat.C08P
open Goat Goat.App Goat.Prepare

/-- the walk, generalised: selected so far `sel` (reversed), next index `i` -/
theorem walk_spec : ∀ (vs : List Bool) (i : Nat) (sel ev : List Nat), sel.length + 1 < maxTxLen →
    ((walk vs i sel ev).1).length ≤ 15 ∧ sel.length ≤ ((walk vs i sel ev).1).length ∧
    ((walk vs i sel ev).1).length ≤ sel.length + (vs.filter id).length ∧
    (((walk vs i sel ev).1).length < 15 → ((walk vs i sel ev).1).length = sel.length + (vs.filter id).length)
  | [], i, sel, ev, h => by
    unfold maxTxLen at h
    have e : ((walk [] i sel ev).1).length = sel.length := by simp [walk]
    simp only [e, List.filter_nil, List.length_nil, Nat.add_zero]
    exact ⟨by omega, by omega, by omega, fun _ => trivial⟩
  | false :: vs, i, sel, ev, h => by
    have ih := walk_spec vs (i + 1) sel (i :: ev) h
    simp only [walk]
    have hf : ((false :: vs).filter id).length = (vs.filter id).length := by simp
    rw [hf]
    exact ih
  | true :: vs, i, sel, ev, h => by
    simp only [walk]
    have hf : ((true :: vs).filter id).length = (vs.filter id).length + 1 := by simp
    rw [hf]
    unfold maxTxLen at h ⊢
    split
    · rename_i hfull
      simp only [List.length_reverse, List.length_cons] at hfull ⊢
      exact ⟨by omega, by omega, by omega, fun hlt => by omega⟩
    · rename_i hnot
      simp only [List.length_cons] at hnot
      have ih := walk_spec vs (i + 1) (i :: sel) ev (by simp only [List.length_cons, maxTxLen]; omega)
      simp only [List.length_cons] at ih
      exact ⟨ih.1, by omega, by omega, fun hlt => by have := ih.2.2.2 hlt; omega⟩

/-- **at most 15 mempool transactions are selected** (with the block message: 16 = maxTxLen) -/
theorem select_le (vs : List Bool) : (select vs).length ≤ 15 :=
  (walk_spec vs 0 [] [] (by decide)).1

/-- **exactly min(15, number of passing transactions)**: nothing that passes is left out while there is room -/
theorem select_length (vs : List Bool) : (select vs).length = min 15 (vs.filter id).length := by
  have h := walk_spec vs 0 [] [] (by decide)
  have h1 := h.1
  have h3 := h.2.2.1
  have h4 := h.2.2.2
  simp only [List.length_nil, Nat.zero_add] at h3 h4
  unfold select
  by_cases hlt : ((walk vs 0 [] []).1).length < 15
  · have := h4 hlt; omega
  · omega

/-- the proposal never exceeds the cap ProcessProposal enforces -/
theorem prepared_size (vs : List Bool) (pl : Payload) (pr : Bytes) (st : String) :
    (proposal vs pl pr st).kinds.length ≤ maxTxLen := by
  have := select_le vs
  simp only [proposal, List.length_cons, List.length_replicate, maxTxLen]
  omega

/-- **Whatever the mempool holds, the node's own proposal is accepted**: with a payload the execution client built on
    the recorded head (parent, number + 1, recorded beacon root, the proposer as fee recipient, exactly the due system
    transactions first, one gas request, a past timestamp) that the validators' execution clients report VALID. -/
theorem prepared_accepted (g : GState) (dueB dueL : List String) (proposer : Bytes) (user : List String)
    (hash : Bytes) (blob : Nat) (hcap : dueB.length + dueL.length < 256) (verdicts : List Bool) :
    processProposal g dueB dueL
      (proposal verdicts
        { parentHash := g.head.blockHash, feeRecipient := proposer, blockNumber := g.head.blockNumber + 1, blockHash := hash,
          blobGasUsed := blob, beaconRoot := g.beaconRoot,
          extraData := UInt8.ofNat (dueB.length + dueL.length) :: List.replicate 32 0,
          txs := dueB ++ dueL ++ user, timestampInFuture := false } proposer "VALID") = .ok () :=
  C08.honest_accepted g dueB dueL proposer user (select verdicts).length (select_le verdicts) hash blob hcap

/-- a cap of 15 in ProcessProposal (`>=` for `>`) would refuse the node's own proposal as soon as 15 transactions pass:
    the boundary the two handlers must agree on -/
theorem full_proposal_has_16 (vs : List Bool) (h : 15 ≤ (vs.filter id).length) (pl : Payload) (pr : Bytes) (st : String) :
    (proposal vs pl pr st).kinds.length = 16 := by
  have := select_length vs
  simp only [proposal, List.length_cons, List.length_replicate]
  omega

/-- non-vacuity: a mempool of 20 passing and 3 failing transactions -/
example : select (List.replicate 2 true ++ [false, false] ++ List.replicate 18 true ++ [false]) =
    [0, 1, 4, 5, 6, 7, 8, 9, 10, 11, 12, 13, 14, 15, 16] ∧
    evicted (List.replicate 2 true ++ [false, false] ++ List.replicate 18 true ++ [false]) = [2, 3] := by decide

end Goat.C08P

namespace Goat.C08P
open Goat Goat.App Goat.Prepare

/-! ### the walk with the removal outcomes (`walkV`: what the stream compares with the real handler) -/

/-- the selected transactions do not depend on what was evicted so far -/
theorem walk_fst_indep : ∀ (vs : List Bool) (i : Nat) (sel ev ev' : List Nat),
    (walk vs i sel ev).1 = (walk vs i sel ev').1
  | [], _, _, _, _ => rfl
  | false :: vs, i, sel, ev, ev' => by simp only [walk]; exact walk_fst_indep vs (i + 1) sel _ _
  | true :: vs, i, sel, ev, ev' => by
    simp only [walk]
    split
    · rfl
    · exact walk_fst_indep vs (i + 1) (i :: sel) ev ev'

/-- **when the handler answers, it selected exactly what the pass/fail pattern alone determines** (so every theorem about
    `select` — the cap, "min(15, passing)", acceptance by ProcessProposal — is about the real handler's answer) -/
theorem walkV_ok_sel : ∀ (vs : List Verdict) (i : Nat) (sel ev : List Nat) (r : List Nat × List Nat × Nat),
    walkV vs i sel ev = .ok r → r.1 = (walk (vs.map Verdict.isPass) i sel ev).1
  | [], i, sel, ev, r, h => by
    simp only [walkV, Outcome.ok.injEq] at h; subst h; rfl
  | .evict :: vs, i, sel, ev, r, h => by
    simp only [walkV] at h
    have := walkV_ok_sel vs (i + 1) sel (i :: ev) r h
    simpa [walk, Verdict.isPass] using this
  | .notFound :: vs, i, sel, ev, r, h => by
    simp only [walkV] at h
    have := walkV_ok_sel vs (i + 1) sel ev r h
    rw [this]
    simp only [List.map_cons, Verdict.isPass, walk]
    exact walk_fst_indep _ _ _ _ _
  | .removeErr :: vs, i, sel, ev, r, h => by simp [walkV] at h
  | .pass :: vs, i, sel, ev, r, h => by
    simp only [walkV] at h
    simp only [List.map_cons, Verdict.isPass, walk]
    split at h
    · rename_i hfull
      simp only [Outcome.ok.injEq] at h; subst h
      rw [if_pos hfull]
    · rename_i hnot
      rw [if_neg hnot]
      exact walkV_ok_sel vs (i + 1) (i :: sel) ev r h

/-- the handler's answer, from an empty start: at most 15 selected, exactly min(15, passing) -/
theorem walkV_ok_length (vs : List Verdict) (r : List Nat × List Nat × Nat) (h : walkV vs 0 [] [] = .ok r) :
    r.1.length = min 15 ((vs.map Verdict.isPass).filter id).length := by
  rw [walkV_ok_sel vs 0 [] [] r h]
  exact select_length _

/-- **the handler fails only on a removal error**: with a mempool whose removals succeed (or answer "not found") the
    walk always produces a proposal -/
theorem walkV_ok_of_no_removeErr : ∀ (vs : List Verdict) (i : Nat) (sel ev : List Nat),
    (∀ v ∈ vs, v ≠ .removeErr) → ∃ r, walkV vs i sel ev = .ok r
  | [], i, sel, ev, _ => ⟨_, rfl⟩
  | .evict :: vs, i, sel, ev, h => by
    simp only [walkV]; exact walkV_ok_of_no_removeErr vs _ _ _ (fun v hv => h v (by simp [hv]))
  | .notFound :: vs, i, sel, ev, h => by
    simp only [walkV]; exact walkV_ok_of_no_removeErr vs _ _ _ (fun v hv => h v (by simp [hv]))
  | .removeErr :: vs, i, sel, ev, h => absurd rfl (h .removeErr (by simp))
  | .pass :: vs, i, sel, ev, h => by
    simp only [walkV]
    split
    · exact ⟨_, rfl⟩
    · exact walkV_ok_of_no_removeErr vs _ _ _ (fun v hv => h v (by simp [hv]))

/-- a removal error met after the proposal is full is never seen: the walk has stopped -/
example : walkV (List.replicate 15 .pass ++ [.removeErr]) 0 [] [] =
    .ok ([0, 1, 2, 3, 4, 5, 6, 7, 8, 9, 10, 11, 12, 13, 14], [], 15) := by decide
example : walkV ([.pass, .evict, .notFound, .pass, .removeErr, .pass]) 0 [] [] = .err "mempool-remove" := by decide
example : walkV ([.pass, .evict, .notFound, .pass]) 0 [] [] = .ok ([0, 3], [1], 4) := by decide

end Goat.C08P

namespace Goat.C08P
open Goat Goat.App Goat.Prepare

/-- **nothing is both selected and evicted, and everything reported was looked at**: the indices the handler selects are
    entries that passed, the ones it evicts are entries that failed with a successful removal, all below the number of
    entries it looked at -/
theorem walkV_ok_members : ∀ (vs : List Verdict) (i : Nat) (sel ev : List Nat) (r : List Nat × List Nat × Nat),
    walkV vs i sel ev = .ok r →
    (∀ j ∈ r.1, j ∈ sel ∨ (i ≤ j ∧ j < r.2.2 ∧ vs[j - i]? = some .pass)) ∧
    (∀ j ∈ r.2.1, j ∈ ev ∨ (i ≤ j ∧ j < r.2.2 ∧ vs[j - i]? = some .evict)) ∧ i ≤ r.2.2 ∧ r.2.2 ≤ i + vs.length
  | [], i, sel, ev, r, h => by
    simp only [walkV, Outcome.ok.injEq] at h; subst h
    exact ⟨fun j hj => Or.inl (by simpa using hj), fun j hj => Or.inl (by simpa using hj), Nat.le_refl _, by simp⟩
  | .evict :: vs, i, sel, ev, r, h => by
    simp only [walkV] at h
    obtain ⟨h1, h2, h3, h4⟩ := walkV_ok_members vs (i + 1) sel (i :: ev) r h
    refine ⟨fun j hj => ?_, fun j hj => ?_, by omega, by simp only [List.length_cons]; omega⟩
    · rcases h1 j hj with a | ⟨a, b, c⟩
      · exact Or.inl a
      · right; refine ⟨by omega, b, ?_⟩
        have : j - i = (j - (i + 1)) + 1 := by omega
        rw [this, List.getElem?_cons_succ]; exact c
    · rcases h2 j hj with a | ⟨a, b, c⟩
      · rcases List.mem_cons.mp a with e | e
        · right; subst e; exact ⟨Nat.le_refl _, by omega, by simp⟩
        · exact Or.inl e
      · right; refine ⟨by omega, b, ?_⟩
        have : j - i = (j - (i + 1)) + 1 := by omega
        rw [this, List.getElem?_cons_succ]; exact c
  | .notFound :: vs, i, sel, ev, r, h => by
    simp only [walkV] at h
    obtain ⟨h1, h2, h3, h4⟩ := walkV_ok_members vs (i + 1) sel ev r h
    refine ⟨fun j hj => ?_, fun j hj => ?_, by omega, by simp only [List.length_cons]; omega⟩
    · rcases h1 j hj with a | ⟨a, b, c⟩
      · exact Or.inl a
      · right; refine ⟨by omega, b, ?_⟩
        have : j - i = (j - (i + 1)) + 1 := by omega
        rw [this, List.getElem?_cons_succ]; exact c
    · rcases h2 j hj with a | ⟨a, b, c⟩
      · exact Or.inl a
      · right; refine ⟨by omega, b, ?_⟩
        have : j - i = (j - (i + 1)) + 1 := by omega
        rw [this, List.getElem?_cons_succ]; exact c
  | .removeErr :: vs, i, sel, ev, r, h => by simp [walkV] at h
  | .pass :: vs, i, sel, ev, r, h => by
    simp only [walkV] at h
    split at h
    · simp only [Outcome.ok.injEq] at h; subst h
      dsimp only
      refine ⟨fun j hj => ?_, fun j hj => Or.inl (by simpa using hj), by omega, by simp only [List.length_cons]; omega⟩
      have hj' : j ∈ sel ∨ j = i := by simpa using hj
      rcases hj' with e | e
      · exact Or.inl e
      · right; subst e; exact ⟨Nat.le_refl _, by omega, by simp⟩
    · obtain ⟨h1, h2, h3, h4⟩ := walkV_ok_members vs (i + 1) (i :: sel) ev r h
      refine ⟨fun j hj => ?_, fun j hj => ?_, by omega, by simp only [List.length_cons]; omega⟩
      · rcases h1 j hj with a | ⟨a, b, c⟩
        · rcases List.mem_cons.mp a with e | e
          · right; subst e; exact ⟨Nat.le_refl _, by omega, by simp⟩
          · exact Or.inl e
        · right; refine ⟨by omega, b, ?_⟩
          have : j - i = (j - (i + 1)) + 1 := by omega
          rw [this, List.getElem?_cons_succ]; exact c
      · rcases h2 j hj with a | ⟨a, b, c⟩
        · exact Or.inl a
        · right; refine ⟨by omega, b, ?_⟩
          have : j - i = (j - (i + 1)) + 1 := by omega
          rw [this, List.getElem?_cons_succ]; exact c

/-- from an empty start: every selected entry passed, every evicted entry failed, nothing beyond what was looked at -/
theorem walkV_ok_sound (vs : List Verdict) (r : List Nat × List Nat × Nat) (h : walkV vs 0 [] [] = .ok r) :
    (∀ j ∈ r.1, j < r.2.2 ∧ vs[j]? = some .pass) ∧ (∀ j ∈ r.2.1, j < r.2.2 ∧ vs[j]? = some .evict) ∧ r.2.2 ≤ vs.length := by
  obtain ⟨h1, h2, _, h4⟩ := walkV_ok_members vs 0 [] [] r h
  refine ⟨fun j hj => ?_, fun j hj => ?_, by omega⟩
  · rcases h1 j hj with a | ⟨_, b, c⟩
    · simp at a
    · exact ⟨b, by simpa using c⟩
  · rcases h2 j hj with a | ⟨_, b, c⟩
    · simp at a
    · exact ⟨b, by simpa using c⟩

end Goat.C08P
