/-
  C08 — "a proposal built by an honest proposer is accepted by every honest validator", for the node's own
  PrepareProposal selection (GoatModel.Prepare): whatever the mempool holds — any number of transactions, any pattern of
  passing and failing ones — the proposal stays within the 16-transaction cap and ProcessProposal accepts it.
  (The seeded change C19-r4 — `>=` for `>` in ProcessProposal — is exactly the failure of `prepared_accepted` at a
  mempool of 15 or more passing transactions.)
-/
import GoatModel.Prepare
import GoatProofs.C08
namespace Goat.C08P
open Goat Goat.App Goat.Prepare

/-- the walk, generalised: selected so far `sel` (reversed), next index `i` -/
theorem walk_spec : ∀ (vs : List Bool) (i : Nat) (sel ev : List Nat), sel.length + 1 < maxTxLen →
    ((walk vs i sel ev).1).length ≤ 15 ∧ sel.length ≤ ((walk vs i sel ev).1).length ∧
    ((walk vs i sel ev).1).length ≤ sel.length + (vs.filter id).length ∧
    (((walk vs i sel ev).1).length < 15 → ((walk vs i sel ev).1).length = sel.length + (vs.filter id).length)
  | [], i, sel, ev, h => by
    unfold maxTxLen at h
    have e : ((walk [] i sel ev).1).length = sel.length := by simp [walk]
    simp only [e, List.filter_nil, List.length_nil, Nat.add_zero]
    exact ⟨by omega, by omega, by omega, fun _ => trivial⟩
  | false :: vs, i, sel, ev, h => by
    have ih := walk_spec vs (i + 1) sel (i :: ev) h
    simp only [walk]
    have hf : ((false :: vs).filter id).length = (vs.filter id).length := by simp
    rw [hf]
    exact ih
  | true :: vs, i, sel, ev, h => by
    simp only [walk]
    have hf : ((true :: vs).filter id).length = (vs.filter id).length + 1 := by simp
    rw [hf]
    unfold maxTxLen at h ⊢
    split
    · rename_i hfull
      simp only [List.length_reverse, List.length_cons] at hfull ⊢
      exact ⟨by omega, by omega, by omega, fun hlt => by omega⟩
    · rename_i hnot
      simp only [List.length_cons] at hnot
      have ih := walk_spec vs (i + 1) (i :: sel) ev (by simp only [List.length_cons, maxTxLen]; omega)
      simp only [List.length_cons] at ih
      exact ⟨ih.1, by omega, by omega, fun hlt => by have := ih.2.2.2 hlt; omega⟩

/-- **at most 15 mempool transactions are selected** (with the block message: 16 = maxTxLen) -/
theorem select_le (vs : List Bool) : (select vs).length ≤ 15 :=
  (walk_spec vs 0 [] [] (by decide)).1

/-- **exactly min(15, number of passing transactions)**: nothing that passes is left out while there is room -/
theorem select_length (vs : List Bool) : (select vs).length = min 15 (vs.filter id).length := by
  have h := walk_spec vs 0 [] [] (by decide)
  have h1 := h.1
  have h3 := h.2.2.1
  have h4 := h.2.2.2
  simp only [List.length_nil, Nat.zero_add] at h3 h4
  unfold select
  by_cases hlt : ((walk vs 0 [] []).1).length < 15
  · have := h4 hlt; omega
  · omega

/-- the proposal never exceeds the cap ProcessProposal enforces -/
theorem prepared_size (vs : List Bool) (pl : Payload) (pr : Bytes) (st : String) :
    (proposal vs pl pr st).kinds.length ≤ maxTxLen := by
  have := select_le vs
  simp only [proposal, List.length_cons, List.length_replicate, maxTxLen]
  omega

/-- **Whatever the mempool holds, the node's own proposal is accepted**: with a payload the execution client built on
    the recorded head (parent, number + 1, recorded beacon root, the proposer as fee recipient, exactly the due system
    transactions first, one gas request, a past timestamp) that the validators' execution clients report VALID. -/
theorem prepared_accepted (g : GState) (dueB dueL : List String) (proposer : Bytes) (user : List String)
    (hash : Bytes) (blob : Nat) (hcap : dueB.length + dueL.length < 256) (verdicts : List Bool) :
    processProposal g dueB dueL
      (proposal verdicts
        { parentHash := g.head.blockHash, feeRecipient := proposer, blockNumber := g.head.blockNumber + 1, blockHash := hash,
          blobGasUsed := blob, beaconRoot := g.beaconRoot,
          extraData := UInt8.ofNat (dueB.length + dueL.length) :: List.replicate 32 0,
          txs := dueB ++ dueL ++ user, timestampInFuture := false } proposer "VALID") = .ok () :=
  C08.honest_accepted g dueB dueL proposer user (select verdicts).length (select_le verdicts) hash blob hcap

/-- a cap of 15 in ProcessProposal (`>=` for `>`) would refuse the node's own proposal as soon as 15 transactions pass:
    the boundary the two handlers must agree on -/
theorem full_proposal_has_16 (vs : List Bool) (h : 15 ≤ (vs.filter id).length) (pl : Payload) (pr : Bytes) (st : String) :
    (proposal vs pl pr st).kinds.length = 16 := by
  have := select_length vs
  simp only [proposal, List.length_cons, List.length_replicate]
  omega

/-- non-vacuity: a mempool of 20 passing and 3 failing transactions -/
example : select (List.replicate 2 true ++ [false, false] ++ List.replicate 18 true ++ [false]) =
    [0, 1, 4, 5, 6, 7, 8, 9, 10, 11, 12, 13, 14, 15, 16] ∧
    evicted (List.replicate 2 true ++ [false, false] ++ List.replicate 18 true ++ [false]) = [2, 3] := by decide

end Goat.C08P
