/-
  C10 — only relayer-proposer bridge/relayer messages and the block message can run.
-/
import GoatModel.App
import GoatProofs.FactsThms
namespace Goat.C10
open Goat.App

/-- what the guard demands of one message in a given mode -/
def MsgOk (mode : Mode) (timeout height : Nat) (isProp : Bool) (name : Name) : Prop :=
  match mode with
  | .check | .recheck | .prepare => isRelayerNs name = true ∧ isProp = true
  | .process | .finalize => (name = ethBlockMsg ∧ timeout = height) ∨ (name ≠ ethBlockMsg ∧ isRelayerNs name = true ∧ isProp = true)
  | _ => True

theorem relayerTxOnly_ok (name : Name) (p : Bool) : relayerTxOnly name p = .ok () ↔ isRelayerNs name = true ∧ p = true := by
  unfold relayerTxOnly
  cases h1 : isRelayerNs name <;> cases p <;> simp

theorem guardStep_ok (mode : Mode) (timeout height : Nat) (isProp : Bool) (name : Name) :
    guardStep mode timeout height isProp name = .ok () ↔ MsgOk mode timeout height isProp name := by
  unfold guardStep MsgOk
  cases mode <;> simp only
  · exact relayerTxOnly_ok _ _
  · exact relayerTxOnly_ok _ _
  · exact relayerTxOnly_ok _ _
  · by_cases he : name = ethBlockMsg
    · subst he
      by_cases ht : timeout = height <;> simp [ht]
    · have : (name == ethBlockMsg) = false := by simpa using he
      simp only [this, Bool.false_eq_true, if_false, he, false_and, false_or, ne_eq, not_false_eq_true, true_and]
      exact relayerTxOnly_ok _ _
  · by_cases he : name = ethBlockMsg
    · subst he
      by_cases ht : timeout = height <;> simp [ht]
    · have : (name == ethBlockMsg) = false := by simpa using he
      simp only [this, Bool.false_eq_true, if_false, he, false_and, false_or, ne_eq, not_false_eq_true, true_and]
      exact relayerTxOnly_ok _ _

theorem foldlM_unit_ok {α} (f : α → Outcome Unit) (l : List α) :
    l.foldlM (fun (_ : Unit) a => f a) () = Outcome.ok () ↔ ∀ a ∈ l, f a = Outcome.ok () := by
  induction l with
  | nil => simp [List.foldlM]; rfl
  | cons x xs ih =>
    rw [List.foldlM_cons]
    cases hx : f x with
    | ok u =>
      cases u
      have : (Outcome.ok () >>= fun _ => xs.foldlM (fun (_ : Unit) a => f a) ()) = xs.foldlM (fun (_ : Unit) a => f a) () := rfl
      rw [this, ih]
      constructor
      · intro h a ha
        rcases List.mem_cons.mp ha with rfl | ha
        · exact hx
        · exact h a ha
      · intro h a ha; exact h a (List.mem_cons_of_mem _ ha)
    | err e =>
      constructor
      · intro h; cases h
      · intro h; have := h x (by simp); rw [hx] at this; cases this
    | panic e =>
      constructor
      · intro h; cases h
      · intro h; have := h x (by simp); rw [hx] at this; cases this

/-- **The guard, exactly.**  A transaction passes the guard iff it has no memo, exactly one signer,
    an unexpired timeout height, and every message is a bridge/relayer message signed by the current
    relayer proposer — or, only inside a proposed or finalised block, the execution-block message with
    timeout height equal to that block's height. -/
theorem guard_exact (mode : Mode) (memo signers timeout height : Nat) (msgs : List Name) (isProp : Bool) :
    guard mode memo signers timeout height msgs isProp = .ok () ↔
      memo = 0 ∧ signers = 1 ∧ (timeout = 0 ∨ height ≤ timeout) ∧ ∀ name ∈ msgs, MsgOk mode timeout height isProp name := by
  unfold App.guard
  by_cases h1 : memo > 0
  · simp [h1]; omega
  · by_cases h2 : signers ≠ 1
    · simp [h1, h2]
    · by_cases h3 : timeout > 0 ∧ height > timeout
      · simp [h1, h2, h3]; omega
      · simp only [h1, h2, h3, if_false]
        rw [foldlM_unit_ok]
        constructor
        · intro h; exact ⟨by omega, by omega, by omega, fun n hn => (guardStep_ok _ _ _ _ _).mp (h n hn)⟩
        · intro h n hn; exact (guardStep_ok _ _ _ _ _).mpr (h.2.2.2 n hn)

/-- the execution-block message never enters the mempool -/
theorem ethblock_never_in_mempool (mode : Mode) (hm : mode = .check ∨ mode = .recheck ∨ mode = .prepare)
    (memo signers timeout height : Nat) (msgs : List Name) (isProp : Bool) (h : ethBlockMsg ∈ msgs) :
    guard mode memo signers timeout height msgs isProp ≠ .ok () := by
  intro hok
  have := ((guard_exact mode memo signers timeout height msgs isProp).mp hok).2.2.2 ethBlockMsg h
  unfold MsgOk at this
  rcases hm with rfl | rfl | rfl <;> simp only at this <;> exact absurd this.1 (by decide)

/-- a message outside the two namespaces that is not the block message can never pass, in any of
    the five modes -/
theorem foreign_never_passes (mode : Mode) (hm : mode = .check ∨ mode = .recheck ∨ mode = .prepare ∨ mode = .process ∨ mode = .finalize)
    (memo signers timeout height : Nat) (msgs : List Name) (isProp : Bool) (name : Name) (hin : name ∈ msgs)
    (hns : isRelayerNs name = false) (hne : name ≠ ethBlockMsg) :
    guard mode memo signers timeout height msgs isProp ≠ .ok () := by
  intro hok
  have := ((guard_exact mode memo signers timeout height msgs isProp).mp hok).2.2.2 name hin
  unfold MsgOk at this
  rcases hm with rfl | rfl | rfl | rfl | rfl <;> simp only at this
  · rw [hns] at this; exact absurd this.1 (by decide)
  · rw [hns] at this; exact absurd this.1 (by decide)
  · rw [hns] at this; exact absurd this.1 (by decide)
  · rcases this with ⟨e, _⟩ | ⟨_, e, _⟩
    · exact hne e
    · rw [hns] at e; exact absurd e (by decide)
  · rcases this with ⟨e, _⟩ | ⟨_, e, _⟩
    · exact hne e
    · rw [hns] at e; exact absurd e (by decide)

/-- re-decided against the registry of the current tree: nothing registered outside the two
    namespaces (account / consensus-parameter administration included) passes -/
theorem registry_closed :
    (Facts.registeredMsgsC.filter (fun n => !App.isRelayerNs n && n != App.ethBlockMsg)).all (fun n =>
      [App.Mode.check, .recheck, .prepare, .process, .finalize].all (fun m =>
        [true, false].all (fun isProp =>
          !(App.guard m 0 1 0 1 [n] isProp).isOk))) = true := FactsThms.registry_closed

end Goat.C10
