/-
  Helper lemmas for C16 (relayer group well-formedness): association-list maps of the relayer model
  (`lookup` / `insert` / `erase`), record status, list permutation / counting facts.
  Core Lean only.
-/
import GoatModel.Relayer
namespace Goat.Relayer

/-! ### association lists -/

theorem lookup_nil {α} (k : String) : lookup ([] : List (String × α)) k = none := rfl

theorem lookup_cons {α} (e : String × α) (t : List (String × α)) (k : String) :
    lookup (e :: t) k = if e.1 = k then some e.2 else lookup t k := by
  unfold lookup
  by_cases h : e.1 = k
  · simp [h]
  · simp [h]

theorem any_key_iff {α} (m : List (String × α)) (k : String) :
    m.any (·.1 == k) = (lookup m k).isSome := by
  induction m with
  | nil => rfl
  | cons e t ih =>
    rw [lookup_cons, List.any_cons, ih]
    by_cases h : e.1 = k
    · simp [h]
    · simp [h]

theorem lookup_mapRepl {α} (m : List (String × α)) (k k' : String) (v : α) :
    lookup (m.map (fun e => if e.1 == k then (k, v) else e)) k'
      = if k' = k then (lookup m k').map (fun _ => v) else lookup m k' := by
  induction m with
  | nil => simp [lookup_nil]
  | cons e t ih =>
    rw [List.map_cons, lookup_cons, lookup_cons, ih]
    by_cases hk : k' = k
    · subst hk
      by_cases he : e.1 = k'
      · simp [he]
      · simp [he]
    · by_cases he : e.1 = k
      · have : ¬ e.1 = k' := fun h => hk (h.symm.trans he)
        have hk2 : ¬ k = k' := fun h => hk h.symm
        simp [he, hk, this, hk2]
      · simp [he, hk]

theorem lookup_append_single {α} (m : List (String × α)) (k k' : String) (v : α) :
    lookup (m ++ [(k, v)]) k' = (lookup m k').or (if k' = k then some v else none) := by
  induction m with
  | nil =>
    rw [List.nil_append, lookup_cons, lookup_nil]
    by_cases h : k = k'
    · simp [h]
    · have : ¬ k' = k := fun h' => h h'.symm
      simp [h, this]
  | cons e t ih =>
    rw [List.cons_append, lookup_cons, lookup_cons, ih]
    by_cases he : e.1 = k'
    · simp [he]
    · simp [he]

theorem lookup_insert {α} (m : List (String × α)) (k k' : String) (v : α) :
    lookup (insert m k v) k' = if k' = k then some v else lookup m k' := by
  unfold insert
  rw [any_key_iff]
  cases hl : lookup m k with
  | none =>
    simp only [Option.isSome_none, Bool.false_eq_true, if_false]
    rw [lookup_append_single]
    by_cases hk : k' = k
    · subst hk; simp [hl]
    · simp [hk]
  | some r =>
    simp only [Option.isSome_some, if_true]
    rw [lookup_mapRepl]
    by_cases hk : k' = k
    · subst hk; simp [hl]
    · simp [hk]

theorem lookup_erase {α} (m : List (String × α)) (k k' : String) :
    lookup (erase m k) k' = if k' = k then none else lookup m k' := by
  unfold erase
  induction m with
  | nil => simp [lookup_nil]
  | cons e t ih =>
    by_cases he : e.1 = k
    · have : List.filter (fun x => x.1 != k) (e :: t) = List.filter (fun x => x.1 != k) t := by
        simp [List.filter_cons, he]
      rw [this, ih, lookup_cons]
      by_cases hk : k' = k
      · simp [hk]
      · have : ¬ e.1 = k' := fun h => hk (h.symm.trans he)
        simp [hk, this]
    · have : List.filter (fun x => x.1 != k) (e :: t) = e :: List.filter (fun x => x.1 != k) t := by
        simp [List.filter_cons, he]
      rw [this, lookup_cons, lookup_cons, ih]
      by_cases hk : k' = k
      · subst hk; simp [he]
      · simp [hk]

/-! ### record status -/

/-- status of the record stored under key `k` (none: no record) -/
def stat (recs : List (String × Voter)) (k : String) : Option VStatus := (lookup recs k).map (·.status)

theorem stat_insert (recs : List (String × Voter)) (k k' : String) (v : Voter) :
    stat (insert recs k v) k' = if k' = k then some v.status else stat recs k' := by
  unfold stat
  rw [lookup_insert]
  by_cases h : k' = k
  · simp [h]
  · simp [h]

theorem stat_erase (recs : List (String × Voter)) (k k' : String) :
    stat (erase recs k) k' = if k' = k then none else stat recs k' := by
  unfold stat
  rw [lookup_erase]
  by_cases h : k' = k
  · simp [h]
  · simp [h]

theorem stat_eraseAll (l : List String) (recs : List (String × Voter)) (k : String) :
    stat (l.foldl erase recs) k = if k ∈ l then none else stat recs k := by
  induction l generalizing recs with
  | nil => simp
  | cons a t ih =>
    rw [List.foldl_cons, ih, stat_erase]
    by_cases h1 : k ∈ t
    · simp [h1]
    · by_cases h2 : k = a
      · simp [h2]
      · simp [h1, h2]

theorem stat_some_of_lookup {recs : List (String × Voter)} {k : String} {r : Voter}
    (h : lookup recs k = some r) : stat recs k = some r.status := by
  unfold stat; rw [h]; rfl

theorem lookup_of_stat_some {recs : List (String × Voter)} {k : String} {st : VStatus}
    (h : stat recs k = some st) : ∃ r, lookup recs k = some r ∧ r.status = st := by
  unfold stat at h
  cases hl : lookup recs k with
  | none => simp [hl] at h
  | some r => simp [hl] at h; exact ⟨r, rfl, h⟩

theorem stat_none_iff {recs : List (String × Voter)} {k : String} :
    stat recs k = none ↔ lookup recs k = none := by
  unfold stat; simp

/-- the activation fold of `EndBlocker` (stated for any step function that behaves like the one in
    the model): it succeeds when every entry has a record, and then exactly the entries' statuses are
    set to `activated`. -/
theorem activate_fold_spec
    (f : List (String × Voter) → String → Option (List (String × Voter)))
    (hf : ∀ recs v, f recs v = match lookup recs v with
        | some r => some (insert recs v { r with status := .activated })
        | none => none)
    (l : List String) (recs : List (String × Voter))
    (hall : ∀ k ∈ l, (stat recs k).isSome) :
    ∃ recs1, l.foldlM f recs = some recs1 ∧
      ∀ k, stat recs1 k = if k ∈ l then some .activated else stat recs k := by
  induction l generalizing recs with
  | nil => exact ⟨recs, rfl, by simp⟩
  | cons v t ih =>
    have hv := hall v (List.mem_cons_self ..)
    cases hl : lookup recs v with
    | none => simp [stat, hl] at hv
    | some r =>
      have hstep : f recs v = some (insert recs v { r with status := .activated }) := by
        rw [hf, hl]
      have hall' : ∀ k ∈ t, (stat (insert recs v { r with status := .activated }) k).isSome := by
        intro k hk
        rw [stat_insert]
        by_cases hkv : k = v
        · simp [hkv]
        · simp only [hkv, if_false]; exact hall k (List.mem_cons_of_mem _ hk)
      obtain ⟨recs1, h1, h2⟩ := ih _ hall'
      refine ⟨recs1, ?_, ?_⟩
      · rw [List.foldlM_cons, hstep]; exact h1
      · intro k
        rw [h2, stat_insert]
        by_cases hkt : k ∈ t
        · simp [hkt]
        · by_cases hkv : k = v
          · simp [hkv]
          · simp [hkt, hkv]

/-- when the activation fold succeeds, every entry had a record (converse direction) -/
theorem activate_fold_some
    (f : List (String × Voter) → String → Option (List (String × Voter)))
    (hf : ∀ recs v, f recs v = match lookup recs v with
        | some r => some (insert recs v { r with status := .activated })
        | none => none)
    (l : List String) (recs recs1 : List (String × Voter))
    (h : l.foldlM f recs = some recs1) :
    ∀ k, stat recs1 k = if k ∈ l ∧ (stat recs k).isSome then some .activated else stat recs k := by
  induction l generalizing recs with
  | nil => simp at h; subst h; simp
  | cons v t ih =>
    rw [List.foldlM_cons, hf] at h
    cases hl : lookup recs v with
    | none => simp [hl] at h
    | some r =>
      simp only [hl, Option.bind_eq_bind, Option.bind_some] at h
      intro k
      rw [ih _ h, stat_insert]
      have hsv : stat recs v = some r.status := stat_some_of_lookup hl
      by_cases hkv : k = v
      · subst hkv; simp [hsv]
      · simp [hkv]

/-! ### lists -/

theorem getElem_set_perm {α} (a : α) (l : List α) (i : Nat) (hi : i < l.length) :
    (l[i] :: l.set i a).Perm (a :: l) := by
  induction l generalizing i with
  | nil => simp at hi
  | cons b t ih =>
    cases i with
    | zero => simp only [List.getElem_cons_zero, List.set_cons_zero]; exact List.Perm.swap _ _ _
    | succ j =>
      simp only [List.getElem_cons_succ, List.set_cons_succ]
      have hj : j < t.length := by simpa using hi
      exact (List.Perm.swap _ _ _).trans (((ih j hj).cons b).trans (List.Perm.swap _ _ _))

/-- a duplicate-free list filtered by membership in `m` is no longer than `m` -/
theorem filter_contains_length_le (l m : List String) (hl : l.Nodup) :
    (l.filter (fun x => m.contains x)).length ≤ m.length := by
  induction l generalizing m with
  | nil => simp
  | cons b u ih =>
    have hu := (List.nodup_cons.mp hl).2
    have hb := (List.nodup_cons.mp hl).1
    by_cases hbm : b ∈ m
    · have h1 := ih (m.erase b) hu
      have h2 : u.filter (fun x => (m.erase b).contains x) = u.filter (fun x => m.contains x) := by
        apply List.filter_congr
        intro x hx
        have : x ≠ b := fun h => hb (h ▸ hx)
        simp [List.mem_erase_of_ne this]
      rw [h2, List.length_erase_of_mem hbm] at h1
      have hpos : 0 < m.length := List.length_pos_of_mem hbm
      have hc : m.contains b = true := by simpa using hbm
      rw [List.filter_cons, if_pos hc, List.length_cons]; omega
    · have h1 := ih m hu
      have hc : ¬ (m.contains b = true) := by simpa using hbm
      rw [List.filter_cons, if_neg hc]; exact h1

theorem exists_not_of_filter_length_lt {α} (p : α → Bool) (l : List α)
    (h : (l.filter p).length < l.length) : ∃ x ∈ l, p x = false := by
  induction l with
  | nil => simp at h
  | cons a t ih =>
    cases hp : p a with
    | false => exact ⟨a, List.mem_cons_self .., hp⟩
    | true =>
      rw [List.filter_cons, if_pos hp, List.length_cons, List.length_cons] at h
      obtain ⟨x, hx, hpx⟩ := ih (by omega)
      exact ⟨x, List.mem_cons_of_mem _ hx, hpx⟩

theorem ite_notEmpty_append {α} (a l : List α) :
    (if (!l.isEmpty) = true then a ++ l else a) = a ++ l := by
  cases l <;> simp

theorem ite_notEmpty_filter (off v1 : List String) :
    (if (!off.isEmpty) = true then v1.filter (fun v => !off.contains v) else v1)
      = v1.filter (fun v => !off.contains v) := by
  cases off with
  | nil =>
    have : v1.filter (fun v => ![].contains v) = v1 := List.filter_eq_self.mpr (by intro x _; simp)
    rw [this]; simp
  | cons a t => simp

theorem head_tail_of_ne_nil (l : List String) (h : l.isEmpty = false) : l.head! :: l.tail = l := by
  cases l with
  | nil => simp at h
  | cons a t => rfl

theorem ite_clear_on {α} (on off : List α) :
    (if (!on.isEmpty) = true ∨ (!off.isEmpty) = true then [] else on) = [] := by
  cases on <;> cases off <;> simp

theorem ite_clear_off {α} (on off : List α) :
    (if (!on.isEmpty) = true ∨ (!off.isEmpty) = true then [] else off) = [] := by
  cases on <;> cases off <;> simp

theorem notEmpty_of_contains (l : List String) (x : String) (h : l.contains x = true) :
    (!l.isEmpty) = true := by
  cases l with
  | nil => simp at h
  | cons a t => rfl

end Goat.Relayer
