import GoatModel.Locking
namespace Goat.Locking

/-! ### validator map -/

theorem vget_vset_same (s : State) (a : Bytes) (v : Validator) : vget (vset s a v) a = some v := by
  unfold vget vset
  by_cases h : s.validators.any (·.1 == a) = true
  · simp only [h, if_true]
    -- first entry with key a is mapped to (a, v)
    generalize s.validators = l at h
    induction l with
    | nil => simp at h
    | cons e es ih =>
      simp only [List.map_cons, List.find?_cons]
      by_cases he : e.1 == a
      · simp [he]
      · have he' : ¬ (e.1 == a) = true := he
        simp only [he', if_false, Bool.false_eq_true]
        simp only [List.any_cons, he', Bool.false_or] at h
        simpa using ih h
  · simp only [h, if_false, Bool.false_eq_true]
    rw [List.find?_append]
    have : s.validators.find? (fun e => e.1 == a) = none := by
      rw [List.find?_eq_none]
      intro e he hc
      exact h (List.any_eq_true.mpr ⟨e, he, hc⟩)
    simp [this]

theorem find_map_other (l : List (Bytes × Validator)) (a b : Bytes) (v : Validator) (hab : a ≠ b) :
    ((l.map (fun e => if e.1 == a then (a, v) else e)).find? (fun e => e.1 == b)).map (·.2)
      = (l.find? (fun e => e.1 == b)).map (·.2) := by
  induction l with
  | nil => rfl
  | cons e es ih =>
    rw [List.map_cons, List.find?_cons, List.find?_cons]
    by_cases he : (e.1 == a) = true
    · have hea : e.1 = a := by simpa using he
      have h1 : ((if (e.1 == a) = true then (a, v) else e).1 == b) = false := by
        rw [if_pos he]; simp [hab]
      have h2 : (e.1 == b) = false := by rw [hea]; simp [hab]
      rw [h1, h2]; exact ih
    · have h1 : (if (e.1 == a) = true then (a, v) else e) = e := if_neg he
      rw [h1]
      cases hb : (e.1 == b)
      · exact ih
      · rfl

theorem vget_vset_other (s : State) (a b : Bytes) (v : Validator) (hab : a ≠ b) : vget (vset s a v) b = vget s b := by
  unfold vget vset
  by_cases h : s.validators.any (·.1 == a) = true
  · simp only [h, if_true]
    exact find_map_other s.validators a b v hab
  · simp only [h, if_false, Bool.false_eq_true]
    rw [List.find?_append]
    have hab' : (a == b) = false := by simp [hab]
    cases hf : List.find? (fun e => e.1 == b) s.validators <;> simp [hab']

@[simp] theorem vset_ranking (s : State) (a : Bytes) (v : Validator) : (vset s a v).ranking = s.ranking := by
  unfold vset; rfl
@[simp] theorem vset_valset (s : State) (a : Bytes) (v : Validator) : (vset s a v).valset = s.valset := by
  unfold vset; rfl
@[simp] theorem vset_pool (s : State) (a : Bytes) (v : Validator) : (vset s a v).pool = s.pool := by
  unfold vset; rfl
@[simp] theorem vset_params (s : State) (a : Bytes) (v : Validator) : (vset s a v).params = s.params := by
  unfold vset; rfl
@[simp] theorem vset_slashed (s : State) (a : Bytes) (v : Validator) : (vset s a v).slashed = s.slashed := by
  unfold vset; rfl
@[simp] theorem vset_unlockQueue (s : State) (a : Bytes) (v : Validator) : (vset s a v).unlockQueue = s.unlockQueue := by
  unfold vset; rfl
@[simp] theorem vset_qUnlocks (s : State) (a : Bytes) (v : Validator) : (vset s a v).qUnlocks = s.qUnlocks := by
  unfold vset; rfl
@[simp] theorem vset_qRewards (s : State) (a : Bytes) (v : Validator) : (vset s a v).qRewards = s.qRewards := by
  unfold vset; rfl
@[simp] theorem vset_tokens (s : State) (a : Bytes) (v : Validator) : (vset s a v).tokens = s.tokens := by
  unfold vset; rfl
@[simp] theorem vset_threshold (s : State) (a : Bytes) (v : Validator) : (vset s a v).threshold = s.threshold := by
  unfold vset; rfl

@[simp] theorem rankRemove_validators (s : State) (p : Nat) (a : Bytes) : (rankRemove s p a).validators = s.validators := rfl
@[simp] theorem rankSet_validators (s : State) (p : Nat) (a : Bytes) : (rankSet s p a).validators = s.validators := by
  unfold rankSet; split <;> rfl
@[simp] theorem idxSet_validators (s : State) (d : String) (a : Bytes) (x : Int) : (idxSet s d a x).validators = s.validators := rfl
@[simp] theorem idxRemove_validators (s : State) (d : String) (a : Bytes) : (idxRemove s d a).validators = s.validators := rfl
@[simp] theorem slashedAdd_validators (s : State) (d : String) (x : Int) : (slashedAdd s d x).validators = s.validators := rfl
@[simp] theorem idxSet_ranking (s : State) (d : String) (a : Bytes) (x : Int) : (idxSet s d a x).ranking = s.ranking := rfl
@[simp] theorem idxRemove_ranking (s : State) (d : String) (a : Bytes) : (idxRemove s d a).ranking = s.ranking := rfl
@[simp] theorem slashedAdd_ranking (s : State) (d : String) (x : Int) : (slashedAdd s d x).ranking = s.ranking := rfl
@[simp] theorem idxSet_valset (s : State) (d : String) (a : Bytes) (x : Int) : (idxSet s d a x).valset = s.valset := rfl
@[simp] theorem idxRemove_valset (s : State) (d : String) (a : Bytes) : (idxRemove s d a).valset = s.valset := rfl
@[simp] theorem slashedAdd_valset (s : State) (d : String) (x : Int) : (slashedAdd s d x).valset = s.valset := rfl
@[simp] theorem rankRemove_valset (s : State) (p : Nat) (a : Bytes) : (rankRemove s p a).valset = s.valset := rfl

theorem vget_congr (s t : State) (h : s.validators = t.validators) (a : Bytes) : vget s a = vget t a := by
  unfold vget; rw [h]

theorem rankRemove_not_mem (s : State) (p : Nat) (a : Bytes) : (p, a) ∉ (rankRemove s p a).ranking := by
  unfold rankRemove
  simp

theorem mem_rankRemove (s : State) (p : Nat) (a : Bytes) (e : Nat × Bytes) (h : e ∈ (rankRemove s p a).ranking) :
    e ∈ s.ranking := by
  unfold rankRemove at h
  exact (List.mem_filter.mp h).1

theorem slashStep_frame (addr : Bytes) (frac : Nat) (acc : State × Coins) (c : String × Int) :
    (slashStep addr frac acc c).1.validators = acc.1.validators ∧ (slashStep addr frac acc c).1.ranking = acc.1.ranking ∧
    (slashStep addr frac acc c).1.valset = acc.1.valset := by
  unfold slashStep
  by_cases hz : ((slashAmount c.2.toNat frac : Nat) : Int) = 0
  · simp only [hz, if_true, slashedAdd_validators, idxRemove_validators, slashedAdd_ranking, idxRemove_ranking,
      slashedAdd_valset, idxRemove_valset, and_self]
  · simp only [hz, if_false, slashedAdd_validators, idxRemove_validators, slashedAdd_ranking, idxRemove_ranking,
      slashedAdd_valset, idxRemove_valset, and_self]

/-- slashing touches neither the validator records nor the ranking / recorded set -/
theorem slashAll_frame (s : State) (addr : Bytes) (v : Validator) (frac : Nat) :
    (slashAll s addr v frac).1.validators = s.validators ∧ (slashAll s addr v frac).1.ranking = s.ranking ∧
    (slashAll s addr v frac).1.valset = s.valset := by
  unfold slashAll
  generalize v.locking = cs
  have key : ∀ (cs : List (String × Int)) (acc : State × Coins),
      (acc.1.validators = s.validators ∧ acc.1.ranking = s.ranking ∧ acc.1.valset = s.valset) →
      ((cs.foldl (slashStep addr frac) acc).1.validators = s.validators ∧
       (cs.foldl (slashStep addr frac) acc).1.ranking = s.ranking ∧
       (cs.foldl (slashStep addr frac) acc).1.valset = s.valset) := by
    intro cs
    induction cs with
    | nil => intro acc h; exact h
    | cons c cs ih =>
      intro acc h
      rw [List.foldl_cons]
      apply ih
      obtain ⟨h1, h2, h3⟩ := slashStep_frame addr frac acc c
      exact ⟨h1.trans h.1, h2.trans h.2.1, h3.trans h.2.2⟩
  exact key cs (s, []) ⟨rfl, rfl, rfl⟩

end Goat.Locking
