/-
  Helper lemmas for C11H (history-level conservation of locked funds):
  Outcome-monad folds, integer sums, `Coins` arithmetic, and the projection of a locking state to the
  part the conservation measures depend on (`View`).
-/
import GoatModel.Locking
import GoatProofs.Lemmas.Locking
import GoatProofs.Lemmas.Arith
namespace Goat.Locking

/-! ### Outcome monad -/

theorem bind_eq_ok {α β : Type} (x : Outcome α) (f : α → Outcome β) (b : β) :
    (x >>= f) = .ok b ↔ ∃ a, x = .ok a ∧ f a = .ok b := by
  cases x <;> simp [Bind.bind, Outcome.bind]

theorem foldlM_nil_ok {α β : Type} (f : β → α → Outcome β) (b b' : β) (h : ([] : List α).foldlM f b = .ok b') :
    b' = b := by
  have h' : (Outcome.ok b : Outcome β) = .ok b' := h
  cases h'; rfl

theorem foldlM_cons_ok {α β : Type} (f : β → α → Outcome β) (a : α) (l : List α) (b b' : β)
    (h : (a :: l).foldlM f b = .ok b') : ∃ b1, f b a = .ok b1 ∧ l.foldlM f b1 = .ok b' := by
  rw [List.foldlM_cons] at h
  exact (bind_eq_ok _ _ _).mp h

/-- an invariant of every successful step is an invariant of a successful fold -/
theorem foldlM_inv {α β : Type} (P : β → Prop) (f : β → α → Outcome β)
    (hf : ∀ b a b', P b → f b a = .ok b' → P b') :
    ∀ (l : List α) (b b' : β), P b → l.foldlM f b = .ok b' → P b' := by
  intro l
  induction l with
  | nil => intro b b' hb h; rw [foldlM_nil_ok f b b' h]; exact hb
  | cons a l ih =>
    intro b b' hb h
    obtain ⟨b1, h1, h2⟩ := foldlM_cons_ok f a l b b' h
    exact ih b1 b' (hf b a b1 hb h1) h2

/-- as `foldlM_inv`, the steps restricted to the members of the list -/
theorem foldlM_inv_mem {α β : Type} (P : β → Prop) (f : β → α → Outcome β) :
    ∀ (l : List α), (∀ b a b', a ∈ l → P b → f b a = .ok b' → P b') →
    ∀ (b b' : β), P b → l.foldlM f b = .ok b' → P b' := by
  intro l
  induction l with
  | nil => intro _ b b' hb h; rw [foldlM_nil_ok f b b' h]; exact hb
  | cons a l ih =>
    intro hf b b' hb h
    obtain ⟨b1, h1, h2⟩ := foldlM_cons_ok f a l b b' h
    exact ih (fun b a' b' ha' => hf b a' b' (List.mem_cons_of_mem _ ha')) b1 b'
      (hf b a b1 (List.mem_cons_self) hb h1) h2

/-! ### integer sums -/

def isum : List Int → Int
  | [] => 0
  | x :: xs => x + isum xs

@[simp] theorem isum_nil : isum [] = 0 := rfl
@[simp] theorem isum_cons (x : Int) (xs : List Int) : isum (x :: xs) = x + isum xs := rfl

theorem isum_append (a b : List Int) : isum (a ++ b) = isum a + isum b := by
  induction a with
  | nil => simp
  | cons x xs ih => simp [ih]; omega

theorem isum_perm {a b : List Int} (h : a.Perm b) : isum a = isum b := by
  induction h with
  | nil => rfl
  | cons x _ ih => simp [ih]
  | swap x y l => simp; omega
  | trans _ _ ih1 ih2 => exact ih1.trans ih2

theorem isum_map_perm {α : Type} (f : α → Int) {a b : List α} (h : a.Perm b) : isum (a.map f) = isum (b.map f) :=
  isum_perm (h.map f)

theorem isum_map_filter_split {α : Type} (f : α → Int) (p : α → Bool) (l : List α) :
    isum (l.map f) = isum ((l.filter p).map f) + isum ((l.filter (fun x => !p x)).map f) := by
  induction l with
  | nil => rfl
  | cons x xs ih =>
    cases hp : p x
    · simp [hp, ih]; omega
    · simp [hp, ih]; omega

theorem isum_map_flatten {α : Type} (f : α → Int) (ll : List (List α)) :
    isum (ll.flatten.map f) = isum (ll.map (fun l => isum (l.map f))) := by
  induction ll with
  | nil => rfl
  | cons l ls ih => rw [List.flatten_cons, List.map_append, isum_append, ih]; rfl

theorem isum_map_take_drop {α : Type} (f : α → Int) (n : Nat) (l : List α) :
    isum (l.map f) = isum ((l.take n).map f) + isum ((l.drop n).map f) := by
  rw [← isum_append, ← List.map_append, List.take_append_drop]

theorem isum_nonneg (l : List Int) (h : ∀ x ∈ l, 0 ≤ x) : 0 ≤ isum l := by
  induction l with
  | nil => simp
  | cons x xs ih =>
    have h1 := h x (List.mem_cons_self)
    have h2 := ih (fun y hy => h y (List.mem_cons_of_mem _ hy))
    simp; omega

/-- a successful fold adds up the per-step increments of a measure -/
theorem foldlM_sum {α β : Type} (P : β → Prop) (m : β → Int) (δ : α → Int) (f : β → α → Outcome β)
    (hf : ∀ b a b', P b → f b a = .ok b' → P b' ∧ m b' = m b + δ a) :
    ∀ (l : List α) (b b' : β), P b → l.foldlM f b = .ok b' → P b' ∧ m b' = m b + isum (l.map δ) := by
  intro l
  induction l with
  | nil => intro b b' hb h; rw [foldlM_nil_ok f b b' h]; exact ⟨hb, by simp⟩
  | cons a l ih =>
    intro b b' hb h
    obtain ⟨b1, h1, h2⟩ := foldlM_cons_ok f a l b b' h
    obtain ⟨hp1, hm1⟩ := hf b a b1 hb h1
    obtain ⟨hp2, hm2⟩ := ih b1 b' hp1 h2
    refine ⟨hp2, ?_⟩
    simp only [List.map_cons, isum_cons]; omega

/-- as `foldlM_sum`, the steps restricted to the members of the list -/
theorem foldlM_sum_mem {α β : Type} (P : β → Prop) (m : β → Int) (δ : α → Int) (f : β → α → Outcome β) :
    ∀ (l : List α), (∀ b a b', a ∈ l → P b → f b a = .ok b' → P b' ∧ m b' = m b + δ a) →
    ∀ (b b' : β), P b → l.foldlM f b = .ok b' → P b' ∧ m b' = m b + isum (l.map δ) := by
  intro l
  induction l with
  | nil => intro _ b b' hb h; rw [foldlM_nil_ok f b b' h]; exact ⟨hb, by simp⟩
  | cons a l ih =>
    intro hf b b' hb h
    obtain ⟨b1, h1, h2⟩ := foldlM_cons_ok f a l b b' h
    obtain ⟨hp1, hm1⟩ := hf b a b1 List.mem_cons_self hb h1
    obtain ⟨hp2, hm2⟩ := ih (fun b a' b' ha' => hf b a' b' (List.mem_cons_of_mem _ ha')) b1 b' hp1 h2
    refine ⟨hp2, ?_⟩
    simp only [List.map_cons, isum_cons]; omega

/-! ### Coins -/

/-- sum of *all* entries of a denomination (`amountOf` reads the first one) -/
def coinsSum (c : Coins) (d : String) : Int := isum (c.map (fun e => if e.1 = d then e.2 else 0))

/-- every denomination occurs with its total in the first entry (true of every `sdk.Coins` value,
    where denominations are unique) -/
def Canon (c : Coins) : Prop := ∀ d, coinsSum c d = amountOf c d

def CoinsNonneg (c : Coins) : Prop := ∀ e ∈ c, 0 ≤ e.2

@[simp] theorem amountOf_nil (d : String) : amountOf [] d = 0 := rfl

theorem amountOf_cons (e : String × Int) (c : Coins) (d : String) :
    amountOf (e :: c) d = if e.1 = d then e.2 else amountOf c d := by
  unfold amountOf
  rw [List.find?_cons]
  by_cases h : e.1 = d
  · simp [h]
  · have : (e.1 == d) = false := by simpa using h
    simp [this, h]

@[simp] theorem coinsSum_nil (d : String) : coinsSum [] d = 0 := rfl

theorem coinsSum_cons (e : String × Int) (c : Coins) (d : String) :
    coinsSum (e :: c) d = (if e.1 = d then e.2 else 0) + coinsSum c d := rfl

theorem coinsSum_append (a b : Coins) (d : String) : coinsSum (a ++ b) d = coinsSum a d + coinsSum b d := by
  unfold coinsSum; rw [List.map_append, isum_append]

theorem canon_nil : Canon [] := fun _ => rfl

theorem amountOf_nonneg (c : Coins) (h : CoinsNonneg c) (d : String) : 0 ≤ amountOf c d := by
  induction c with
  | nil => simp
  | cons e c ih =>
    rw [amountOf_cons]
    split
    · exact h e (List.mem_cons_self)
    · exact ih (fun x hx => h x (List.mem_cons_of_mem _ hx))

theorem coinsSum_nonneg (c : Coins) (h : CoinsNonneg c) (d : String) : 0 ≤ coinsSum c d := by
  unfold coinsSum
  apply isum_nonneg
  intro x hx
  obtain ⟨e, he, rfl⟩ := List.mem_map.mp hx
  split
  · exact h e he
  · omega

theorem amountOf_filter_same (c : Coins) (d : String) : amountOf (c.filter (·.1 != d)) d = 0 := by
  induction c with
  | nil => rfl
  | cons e c ih =>
    rw [List.filter_cons]
    by_cases h : e.1 = d
    · simp [h, ih]
    · have : (e.1 != d) = true := by simpa using h
      rw [this, if_pos rfl, amountOf_cons, if_neg h, ih]

theorem amountOf_filter_other (c : Coins) (d d' : String) (hd : d' ≠ d) :
    amountOf (c.filter (·.1 != d)) d' = amountOf c d' := by
  induction c with
  | nil => rfl
  | cons e c ih =>
    rw [List.filter_cons]
    by_cases h : e.1 = d
    · have h' : e.1 ≠ d' := by rw [h]; exact fun x => hd x.symm
      simp only [h, bne_self_eq_false, Bool.false_eq_true, if_false]
      rw [amountOf_cons, ih, if_neg h']
    · have : (e.1 != d) = true := by simpa using h
      rw [this, if_pos rfl, amountOf_cons, amountOf_cons, ih]

theorem coinsSum_filter_same (c : Coins) (d : String) : coinsSum (c.filter (·.1 != d)) d = 0 := by
  induction c with
  | nil => rfl
  | cons e c ih =>
    rw [List.filter_cons]
    by_cases h : e.1 = d
    · simp [h, ih]
    · have : (e.1 != d) = true := by simpa using h
      rw [this, if_pos rfl, coinsSum_cons, if_neg h, ih]; rfl

theorem coinsSum_filter_other (c : Coins) (d d' : String) (hd : d' ≠ d) :
    coinsSum (c.filter (·.1 != d)) d' = coinsSum c d' := by
  induction c with
  | nil => rfl
  | cons e c ih =>
    rw [List.filter_cons]
    by_cases h : e.1 = d
    · have h' : ¬ e.1 = d' := by rw [h]; exact fun x => hd x.symm
      simp only [h, bne_self_eq_false, Bool.false_eq_true, if_false]
      rw [coinsSum_cons, ih, if_neg h']; omega
    · have : (e.1 != d) = true := by simpa using h
      rw [this, if_pos rfl, coinsSum_cons, coinsSum_cons, ih]

theorem mem_ins (d : String) (a : Int) (rest : Coins) (e : String × Int) :
    e ∈ setAmount.ins d a rest ↔ e = (d, a) ∨ e ∈ rest := by
  induction rest with
  | nil => simp [setAmount.ins]
  | cons x xs ih =>
    unfold setAmount.ins
    split
    · simp
    · simp only [List.mem_cons, ih]
      constructor
      · rintro (h | h | h)
        · exact Or.inr (Or.inl h)
        · exact Or.inl h
        · exact Or.inr (Or.inr h)
      · rintro (h | h | h)
        · exact Or.inr (Or.inl h)
        · exact Or.inl h
        · exact Or.inr (Or.inr h)

theorem coinsSum_ins (d : String) (a : Int) (rest : Coins) (d' : String) :
    coinsSum (setAmount.ins d a rest) d' = (if d = d' then a else 0) + coinsSum rest d' := by
  induction rest with
  | nil => simp [setAmount.ins, coinsSum_cons]
  | cons x xs ih =>
    unfold setAmount.ins
    split
    · rw [coinsSum_cons]
    · rw [coinsSum_cons, ih, coinsSum_cons]; omega

theorem amountOf_ins_other (d : String) (a : Int) (rest : Coins) (d' : String) (hd : d' ≠ d) :
    amountOf (setAmount.ins d a rest) d' = amountOf rest d' := by
  have hd' : ¬ d = d' := fun x => hd x.symm
  induction rest with
  | nil => simp [setAmount.ins, amountOf_cons, hd']
  | cons x xs ih =>
    unfold setAmount.ins
    split
    · rw [amountOf_cons, if_neg hd']
    · rw [amountOf_cons, ih, amountOf_cons]

theorem amountOf_ins_same (d : String) (a : Int) (rest : Coins) (hr : ∀ e ∈ rest, e.1 ≠ d) :
    amountOf (setAmount.ins d a rest) d = a := by
  induction rest with
  | nil => simp [setAmount.ins, amountOf_cons]
  | cons x xs ih =>
    unfold setAmount.ins
    split
    · rw [amountOf_cons, if_pos rfl]
    · rw [amountOf_cons, if_neg (hr x (List.mem_cons_self)), ih (fun e he => hr e (List.mem_cons_of_mem _ he))]

theorem filter_ne_no_key (c : Coins) (d : String) : ∀ e ∈ c.filter (·.1 != d), e.1 ≠ d := by
  intro e he
  have := (List.mem_filter.mp he).2
  simpa using this

theorem amountOf_setAmount_same (c : Coins) (d : String) (a : Int) : amountOf (setAmount c d a) d = a := by
  unfold setAmount
  by_cases ha : a = 0
  · simp only [ha, if_true]; exact amountOf_filter_same c d
  · simp only [ha, if_false]; exact amountOf_ins_same d a _ (filter_ne_no_key c d)

theorem amountOf_setAmount_other (c : Coins) (d : String) (a : Int) (d' : String) (hd : d' ≠ d) :
    amountOf (setAmount c d a) d' = amountOf c d' := by
  unfold setAmount
  by_cases ha : a = 0
  · simp only [ha, if_true]; exact amountOf_filter_other c d d' hd
  · simp only [ha, if_false]; rw [amountOf_ins_other d a _ d' hd]; exact amountOf_filter_other c d d' hd

theorem coinsSum_setAmount_same (c : Coins) (d : String) (a : Int) : coinsSum (setAmount c d a) d = a := by
  unfold setAmount
  by_cases ha : a = 0
  · simp only [ha, if_true]; exact coinsSum_filter_same c d
  · simp only [ha, if_false]; rw [coinsSum_ins, coinsSum_filter_same]; simp

theorem coinsSum_setAmount_other (c : Coins) (d : String) (a : Int) (d' : String) (hd : d' ≠ d) :
    coinsSum (setAmount c d a) d' = coinsSum c d' := by
  have hd' : ¬ d = d' := fun x => hd x.symm
  unfold setAmount
  by_cases ha : a = 0
  · simp only [ha, if_true]; exact coinsSum_filter_other c d d' hd
  · simp only [ha, if_false]; rw [coinsSum_ins, coinsSum_filter_other c d d' hd, if_neg hd']; omega

theorem canon_setAmount (c : Coins) (d : String) (a : Int) (h : Canon c) : Canon (setAmount c d a) := by
  intro d'
  by_cases hd : d' = d
  · subst hd; rw [coinsSum_setAmount_same, amountOf_setAmount_same]
  · rw [coinsSum_setAmount_other c d a d' hd, amountOf_setAmount_other c d a d' hd]; exact h d'

theorem mem_setAmount (c : Coins) (d : String) (a : Int) (e : String × Int) (he : e ∈ setAmount c d a) :
    e = (d, a) ∨ e ∈ c := by
  unfold setAmount at he
  by_cases ha : a = 0
  · simp only [ha, if_true] at he; exact Or.inr (List.mem_filter.mp he).1
  · simp only [ha, if_false] at he
    rcases (mem_ins d a _ e).mp he with h | h
    · exact Or.inl h
    · exact Or.inr (List.mem_filter.mp h).1

theorem nonneg_setAmount (c : Coins) (d : String) (a : Int) (h : CoinsNonneg c) (ha : 0 ≤ a) :
    CoinsNonneg (setAmount c d a) := by
  intro e he
  rcases mem_setAmount c d a e he with rfl | h'
  · exact ha
  · exact h e h'

theorem amountOf_addCoin (c : Coins) (d : String) (a : Int) (d' : String) :
    amountOf (addCoin c d a) d' = amountOf c d' + (if d = d' then a else 0) := by
  unfold addCoin
  by_cases hd : d' = d
  · subst hd; rw [amountOf_setAmount_same]; simp
  · rw [amountOf_setAmount_other c d _ d' hd, if_neg (fun x => hd x.symm)]; omega

theorem canon_addCoin (c : Coins) (d : String) (a : Int) (h : Canon c) : Canon (addCoin c d a) :=
  canon_setAmount c d _ h

theorem nonneg_addCoin (c : Coins) (d : String) (a : Int) (h : CoinsNonneg c) (ha : 0 ≤ a) :
    CoinsNonneg (addCoin c d a) := by
  have := amountOf_nonneg c h d
  exact nonneg_setAmount c d _ h (by omega)

theorem amountOf_addCoins (c cs : Coins) (d : String) :
    amountOf (addCoins c cs) d = amountOf c d + coinsSum cs d := by
  unfold addCoins
  induction cs generalizing c with
  | nil => simp
  | cons e es ih =>
    rw [List.foldl_cons, ih, amountOf_addCoin, coinsSum_cons]; omega

theorem canon_addCoins (c cs : Coins) (h : Canon c) : Canon (addCoins c cs) := by
  unfold addCoins
  induction cs generalizing c with
  | nil => exact h
  | cons e es ih => rw [List.foldl_cons]; exact ih _ (canon_addCoin c e.1 e.2 h)

theorem nonneg_addCoins (c cs : Coins) (h : CoinsNonneg c) (hs : CoinsNonneg cs) : CoinsNonneg (addCoins c cs) := by
  unfold addCoins
  induction cs generalizing c with
  | nil => exact h
  | cons e es ih =>
    rw [List.foldl_cons]
    exact ih _ (nonneg_addCoin c e.1 e.2 h (hs e (List.mem_cons_self))) (fun x hx => hs x (List.mem_cons_of_mem _ hx))

/-! ### the view of a state that the conservation measures read -/

/-- validators' holdings (by address), slashed totals, time queue of unlocks, matured unlocks -/
structure View where
  params : Params
  locks : List (Bytes × Coins)
  slashed : List (String × Int)
  unlockQueue : List (Int × List Unlock)
  qUnlocks : List Unlock

def view (s : State) : View :=
  { params := s.params, locks := s.validators.map (fun e => (e.1, e.2.locking)), slashed := s.slashed,
    unlockQueue := s.unlockQueue, qUnlocks := s.qUnlocks }

def locksGet (l : List (Bytes × Coins)) (a : Bytes) : Option Coins := (l.find? (·.1 == a)).map (·.2)

def locksSet (l : List (Bytes × Coins)) (a : Bytes) (c : Coins) : List (Bytes × Coins) :=
  if l.any (·.1 == a) then l.map (fun e => if e.1 == a then (a, c) else e) else l ++ [(a, c)]

def KeysNodup (l : List (Bytes × Coins)) : Prop := (l.map (·.1)).Nodup

def heldL (l : List (Bytes × Coins)) (d : String) : Int := isum (l.map (fun e => amountOf e.2 d))

@[simp] theorem view_rankRemove (s : State) (p : Nat) (a : Bytes) : view (rankRemove s p a) = view s := rfl
@[simp] theorem view_rankSet (s : State) (p : Nat) (a : Bytes) : view (rankSet s p a) = view s := by
  unfold rankSet; split <;> rfl
@[simp] theorem view_idxSet (s : State) (d : String) (a : Bytes) (x : Int) : view (idxSet s d a x) = view s := rfl
@[simp] theorem view_idxRemove (s : State) (d : String) (a : Bytes) : view (idxRemove s d a) = view s := rfl
@[simp] theorem view_tset (s : State) (d : String) (t : Token) : view (tset s d t) = view s := rfl

theorem view_vset (s : State) (a : Bytes) (v : Validator) :
    view (vset s a v) = { view s with locks := locksSet (view s).locks a v.locking } := by
  unfold vset view locksSet
  simp only [List.any_map, Function.comp_def]
  by_cases h : (s.validators.any fun e => e.1 == a) = true
  · simp only [h, if_true, List.map_map, Function.comp_def]
    congr 1
    apply List.map_congr_left
    intro e _
    by_cases he : (e.1 == a) = true
    · simp [he]
    · simp [he]
  · simp only [h, Bool.false_eq_true, if_false, List.map_append, List.map_cons, List.map_nil]

theorem locksGet_view (s : State) (a : Bytes) : locksGet (view s).locks a = (vget s a).map (·.locking) := by
  unfold locksGet view vget
  simp only
  generalize s.validators = l
  induction l with
  | nil => rfl
  | cons e es ih =>
    rw [List.map_cons, List.find?_cons, List.find?_cons]
    cases he : (e.1 == a)
    · simpa using ih
    · rfl

theorem locksGet_cons (e : Bytes × Coins) (l : List (Bytes × Coins)) (a : Bytes) :
    locksGet (e :: l) a = if e.1 = a then some e.2 else locksGet l a := by
  unfold locksGet
  rw [List.find?_cons]
  by_cases h : e.1 = a
  · simp [h]
  · have : (e.1 == a) = false := by simpa using h
    simp [this, h]

theorem locksGet_none_any (l : List (Bytes × Coins)) (a : Bytes) (h : locksGet l a = none) :
    l.any (·.1 == a) = false := by
  induction l with
  | nil => rfl
  | cons e es ih =>
    rw [locksGet_cons] at h
    by_cases he : e.1 = a
    · rw [if_pos he] at h; cases h
    · rw [if_neg he] at h
      rw [List.any_cons, ih h]; simpa using he

theorem locksGet_some_any (l : List (Bytes × Coins)) (a : Bytes) (c : Coins) (h : locksGet l a = some c) :
    l.any (·.1 == a) = true := by
  induction l with
  | nil => cases h
  | cons e es ih =>
    rw [locksGet_cons] at h
    by_cases he : e.1 = a
    · rw [List.any_cons]; simp [he]
    · rw [if_neg he] at h
      rw [List.any_cons, ih h]; simp

theorem locksGet_mem (l : List (Bytes × Coins)) (a : Bytes) (c : Coins) (h : locksGet l a = some c) : (a, c) ∈ l := by
  induction l with
  | nil => cases h
  | cons e es ih =>
    rw [locksGet_cons] at h
    by_cases he : e.1 = a
    · rw [if_pos he] at h; cases h; subst he; exact List.mem_cons_self
    · rw [if_neg he] at h; exact List.mem_cons_of_mem _ (ih h)

theorem locksGet_none_not_mem (l : List (Bytes × Coins)) (a : Bytes) (h : locksGet l a = none) : a ∉ l.map (·.1) := by
  induction l with
  | nil => simp
  | cons e es ih =>
    rw [locksGet_cons] at h
    by_cases he : e.1 = a
    · rw [if_pos he] at h; cases h
    · rw [if_neg he] at h
      rw [List.map_cons, List.mem_cons]
      rintro (h1 | h1)
      · exact he h1.symm
      · exact ih h h1

theorem map_set_noop (l : List (Bytes × Coins)) (a : Bytes) (c : Coins) (h : a ∉ l.map (·.1)) :
    l.map (fun e => if e.1 == a then (a, c) else e) = l := by
  induction l with
  | nil => rfl
  | cons e es ih =>
    rw [List.map_cons, List.mem_cons] at h
    have h1 : ¬ a = e.1 := fun x => h (Or.inl x)
    have h2 : (e.1 == a) = false := by simpa using fun x => h1 (Eq.symm x)
    rw [List.map_cons, h2, ih (fun x => h (Or.inr x))]; rfl

theorem keys_map_set (l : List (Bytes × Coins)) (a : Bytes) (c : Coins) :
    (l.map (fun e => if e.1 == a then (a, c) else e)).map (·.1) = l.map (·.1) := by
  rw [List.map_map]
  apply List.map_congr_left
  intro e _
  by_cases he : (e.1 == a) = true
  · have : e.1 = a := by simpa using he
    simp [this]
  · have : ¬ e.1 = a := by simpa using he
    simp [this]

theorem keysNodup_locksSet (l : List (Bytes × Coins)) (a : Bytes) (c : Coins) (h : KeysNodup l) :
    KeysNodup (locksSet l a c) := by
  unfold locksSet KeysNodup
  by_cases ha : l.any (·.1 == a) = true
  · rw [if_pos ha, keys_map_set]; exact h
  · rw [if_neg ha, List.map_append]
    have hn : a ∉ l.map (·.1) := by
      intro hm
      obtain ⟨e, he, hk⟩ := List.mem_map.mp hm
      exact ha (List.any_eq_true.mpr ⟨e, he, by simpa using hk⟩)
    refine List.nodup_append.mpr ⟨h, by simp, ?_⟩
    intro x hx y hy
    simp only [List.map_cons, List.map_nil, List.mem_singleton] at hy
    subst hy
    exact fun hxy => hn (hxy ▸ hx)

/-- writing back the holding that is already there changes nothing -/
theorem locksSet_same (l : List (Bytes × Coins)) (a : Bytes) (c : Coins) (hn : KeysNodup l)
    (hg : locksGet l a = some c) : locksSet l a c = l := by
  unfold locksSet
  rw [if_pos (locksGet_some_any l a c hg)]
  induction l with
  | nil => rfl
  | cons e es ih =>
    have hn' : e.1 ∉ es.map (·.1) ∧ KeysNodup es := by
      unfold KeysNodup at hn; rw [List.map_cons, List.nodup_cons] at hn; exact hn
    rw [locksGet_cons] at hg
    by_cases he : e.1 = a
    · rw [if_pos he] at hg; cases hg
      have : (e.1 == a) = true := by simpa using he
      rw [List.map_cons, this, if_pos rfl, map_set_noop es a e.2 (he ▸ hn'.1), ← he]
    · rw [if_neg he] at hg
      have : (e.1 == a) = false := by simpa using he
      rw [List.map_cons, this, ih hn'.2 hg]; rfl

theorem heldL_cons (e : Bytes × Coins) (l : List (Bytes × Coins)) (d : String) :
    heldL (e :: l) d = amountOf e.2 d + heldL l d := rfl

theorem heldL_append (a b : List (Bytes × Coins)) (d : String) : heldL (a ++ b) d = heldL a d + heldL b d := by
  unfold heldL; rw [List.map_append, isum_append]

theorem heldL_locksSet_some (l : List (Bytes × Coins)) (a : Bytes) (c c' : Coins) (d : String) (hn : KeysNodup l)
    (hg : locksGet l a = some c) : heldL (locksSet l a c') d = heldL l d - amountOf c d + amountOf c' d := by
  unfold locksSet
  rw [if_pos (locksGet_some_any l a c hg)]
  induction l with
  | nil => cases hg
  | cons e es ih =>
    have hn' : e.1 ∉ es.map (·.1) ∧ KeysNodup es := by
      unfold KeysNodup at hn; rw [List.map_cons, List.nodup_cons] at hn; exact hn
    rw [locksGet_cons] at hg
    by_cases he : e.1 = a
    · rw [if_pos he] at hg; cases hg
      have : (e.1 == a) = true := by simpa using he
      rw [List.map_cons, this, if_pos rfl, map_set_noop es a c' (he ▸ hn'.1), heldL_cons, heldL_cons]
      simp only; omega
    · rw [if_neg he] at hg
      have : (e.1 == a) = false := by simpa using he
      rw [List.map_cons, this, heldL_cons, heldL_cons, ih hn'.2 hg]
      simp only [Bool.false_eq_true, if_false]; omega

theorem heldL_locksSet_none (l : List (Bytes × Coins)) (a : Bytes) (c' : Coins) (d : String)
    (hg : locksGet l a = none) : heldL (locksSet l a c') d = heldL l d + amountOf c' d := by
  unfold locksSet
  rw [locksGet_none_any l a hg]
  simp only [Bool.false_eq_true, if_false]
  rw [heldL_append, heldL_cons]; simp [heldL]

theorem mem_locksSet (l : List (Bytes × Coins)) (a : Bytes) (c : Coins) (e : Bytes × Coins)
    (he : e ∈ locksSet l a c) : e = (a, c) ∨ e ∈ l := by
  unfold locksSet at he
  split at he
  · obtain ⟨x, hx, rfl⟩ := List.mem_map.mp he
    split
    · exact Or.inl rfl
    · exact Or.inr hx
  · rcases List.mem_append.mp he with h | h
    · exact Or.inr h
    · simp only [List.mem_singleton] at h; exact Or.inl h

/-- a property of every holding -/
def LAll (P : Coins → Prop) (l : List (Bytes × Coins)) : Prop := ∀ e ∈ l, P e.2

theorem lall_locksSet (P : Coins → Prop) (l : List (Bytes × Coins)) (a : Bytes) (c : Coins) (h : LAll P l) (hc : P c) :
    LAll P (locksSet l a c) := by
  intro e he
  rcases mem_locksSet l a c e he with rfl | h'
  · exact hc
  · exact h e h'

theorem lall_get (P : Coins → Prop) (l : List (Bytes × Coins)) (a : Bytes) (c : Coins) (h : LAll P l)
    (hg : locksGet l a = some c) : P c := h (a, c) (locksGet_mem l a c hg)

theorem heldL_nonneg (l : List (Bytes × Coins)) (d : String) (h : LAll CoinsNonneg l) : 0 ≤ heldL l d := by
  unfold heldL
  apply isum_nonneg
  intro x hx
  obtain ⟨e, he, rfl⟩ := List.mem_map.mp hx
  exact amountOf_nonneg e.2 (h e he) d

/-! ### slashed totals -/

theorem amountOf_filter_append (c : Coins) (d : String) (y : Int) (d' : String) :
    amountOf (c.filter (·.1 != d) ++ [(d, y)]) d' = if d = d' then y else amountOf c d' := by
  induction c with
  | nil => simp [amountOf_cons]
  | cons e c ih =>
    rw [List.filter_cons]
    by_cases h : e.1 = d
    · simp only [h, bne_self_eq_false, Bool.false_eq_true, if_false]
      rw [ih, amountOf_cons, h]
      split <;> rfl
    · have : (e.1 != d) = true := by simpa using h
      rw [this, if_pos rfl, List.cons_append, amountOf_cons, ih, amountOf_cons]
      by_cases h2 : e.1 = d'
      · have : ¬ d = d' := fun x => h (h2.trans x.symm)
        simp [h2, this]
      · simp [h2]

theorem view_slashedAdd (s : State) (d : String) (x : Int) :
    view (slashedAdd s d x) =
      { view s with slashed := (s.slashed.filter (·.1 != d)) ++ [(d, amountOf s.slashed d + x)] } := rfl

theorem slashed_slashedAdd (s : State) (d : String) (x : Int) (d' : String) :
    amountOf (slashedAdd s d x).slashed d' = amountOf s.slashed d' + (if d = d' then x else 0) := by
  show amountOf ((s.slashed.filter (·.1 != d)) ++ [(d, amountOf s.slashed d + x)]) d' = _
  rw [amountOf_filter_append]
  by_cases h : d = d'
  · subst h; simp
  · simp [h]

/-! ### unlock queues -/

/-- the amount of one unlock record counted for denomination `d`; the record carries the token
    address, `denomOf` is the address ↦ denomination map (`types.TokenDenom`) -/
def unlockAmt (denomOf : Bytes → String) (d : String) (u : Unlock) : Int := if denomOf u.token = d then u.amount else 0

def unlockSum (denomOf : Bytes → String) (us : List Unlock) (d : String) : Int := isum (us.map (unlockAmt denomOf d))

def queueSum (denomOf : Bytes → String) (q : List (Int × List Unlock)) (d : String) : Int :=
  isum (q.map (fun e => unlockSum denomOf e.2 d))

theorem unlockSum_append (denomOf : Bytes → String) (a b : List Unlock) (d : String) :
    unlockSum denomOf (a ++ b) d = unlockSum denomOf a d + unlockSum denomOf b d := by
  unfold unlockSum; rw [List.map_append, isum_append]

theorem unlockSum_single (denomOf : Bytes → String) (u : Unlock) (d : String) :
    unlockSum denomOf [u] d = unlockAmt denomOf d u := by
  simp [unlockSum]

theorem queueSum_cons (denomOf : Bytes → String) (e : Int × List Unlock) (q : List (Int × List Unlock)) (d : String) :
    queueSum denomOf (e :: q) d = unlockSum denomOf e.2 d + queueSum denomOf q d := rfl

theorem queueSum_append (denomOf : Bytes → String) (a b : List (Int × List Unlock)) (d : String) :
    queueSum denomOf (a ++ b) d = queueSum denomOf a d + queueSum denomOf b d := by
  unfold queueSum; rw [List.map_append, isum_append]

/-- the queue update of `enqueueUnlock` -/
def enq (q : List (Int × List Unlock)) (t : Int) (u : Unlock) : List (Int × List Unlock) :=
  if q.any (·.1 == t) then q.map (fun e => if e.1 == t then (t, e.2 ++ [u]) else e) else q ++ [(t, [u])]

theorem view_enqueueUnlock (s : State) (t : Int) (u : Unlock) :
    view (enqueueUnlock s t u) = { view s with unlockQueue := enq s.unlockQueue t u } := rfl

theorem enq_map_noop (q : List (Int × List Unlock)) (t : Int) (u : Unlock) (h : t ∉ q.map (·.1)) :
    q.map (fun e => if e.1 == t then (t, e.2 ++ [u]) else e) = q := by
  induction q with
  | nil => rfl
  | cons e es ih =>
    rw [List.map_cons, List.mem_cons] at h
    have h1 : ¬ t = e.1 := fun x => h (Or.inl x)
    have h2 : (e.1 == t) = false := by simpa using fun x => h1 (Eq.symm x)
    rw [List.map_cons, h2, ih (fun x => h (Or.inr x))]; rfl

theorem enq_keys_map (q : List (Int × List Unlock)) (t : Int) (u : Unlock) :
    (q.map (fun e => if e.1 == t then (t, e.2 ++ [u]) else e)).map (·.1) = q.map (·.1) := by
  rw [List.map_map]
  apply List.map_congr_left
  intro e _
  by_cases he : e.1 = t
  · simp [he]
  · simp [he]

theorem any_key_iff (q : List (Int × List Unlock)) (t : Int) : q.any (·.1 == t) = true ↔ t ∈ q.map (·.1) := by
  rw [List.any_eq_true, List.mem_map]
  constructor
  · rintro ⟨e, he, hk⟩; exact ⟨e, he, by simpa using hk⟩
  · rintro ⟨e, he, hk⟩; exact ⟨e, he, by simpa using hk⟩

theorem enq_keys_nodup (q : List (Int × List Unlock)) (t : Int) (u : Unlock) (h : (q.map (·.1)).Nodup) :
    ((enq q t u).map (·.1)).Nodup := by
  unfold enq
  by_cases ha : q.any (·.1 == t) = true
  · rw [if_pos ha, enq_keys_map]; exact h
  · rw [if_neg ha, List.map_append]
    have hn : t ∉ q.map (·.1) := fun hm => ha ((any_key_iff q t).mpr hm)
    refine List.nodup_append.mpr ⟨h, by simp, ?_⟩
    intro x hx y hy
    simp only [List.map_cons, List.map_nil, List.mem_singleton] at hy
    subst hy
    exact fun hxy => hn (hxy ▸ hx)

theorem queueSum_enq_map (denomOf : Bytes → String) (q : List (Int × List Unlock)) (t : Int) (u : Unlock) (d : String)
    (h : (q.map (·.1)).Nodup) (ht : t ∈ q.map (·.1)) :
    queueSum denomOf (q.map (fun e => if e.1 == t then (t, e.2 ++ [u]) else e)) d
      = queueSum denomOf q d + unlockAmt denomOf d u := by
  induction q with
  | nil => simp at ht
  | cons e es ih =>
    rw [List.map_cons, List.nodup_cons] at h
    by_cases he : e.1 = t
    · have h2 : (e.1 == t) = true := by simpa using he
      rw [List.map_cons, h2, if_pos rfl, enq_map_noop es t u (he ▸ h.1), queueSum_cons, queueSum_cons]
      simp only [unlockSum_append, unlockSum_single]; omega
    · have h2 : (e.1 == t) = false := by simpa using he
      have ht' : t ∈ es.map (·.1) := by
        rw [List.map_cons, List.mem_cons] at ht
        rcases ht with h3 | h3
        · exact absurd h3.symm he
        · exact h3
      rw [List.map_cons, h2, queueSum_cons, queueSum_cons, ih h.2 ht']
      simp only [Bool.false_eq_true, if_false]; omega

/-- with distinct time keys the enqueue adds exactly the one record -/
theorem queueSum_enq (denomOf : Bytes → String) (q : List (Int × List Unlock)) (t : Int) (u : Unlock) (d : String)
    (h : (q.map (·.1)).Nodup) : queueSum denomOf (enq q t u) d = queueSum denomOf q d + unlockAmt denomOf d u := by
  unfold enq
  by_cases ha : q.any (·.1 == t) = true
  · rw [if_pos ha]; exact queueSum_enq_map denomOf q t u d h ((any_key_iff q t).mp ha)
  · rw [if_neg ha, queueSum_append, queueSum_cons, unlockSum_single]; simp [queueSum]

theorem mem_enq (q : List (Int × List Unlock)) (t : Int) (u : Unlock) (e : Int × List Unlock) (x : Unlock)
    (he : e ∈ enq q t u) (hx : x ∈ e.2) : x = u ∨ ∃ e' ∈ q, x ∈ e'.2 := by
  unfold enq at he
  split at he
  · obtain ⟨e', he', rfl⟩ := List.mem_map.mp he
    split at hx
    · rcases List.mem_append.mp hx with h | h
      · exact Or.inr ⟨e', he', h⟩
      · simp only [List.mem_singleton] at h; exact Or.inl h
    · exact Or.inr ⟨e', he', hx⟩
  · rcases List.mem_append.mp he with h | h
    · exact Or.inr ⟨e, h, hx⟩
    · simp only [List.mem_singleton] at h; subst h
      simp only [List.mem_singleton] at hx; exact Or.inl hx

theorem unlockSum_flatten (denomOf : Bytes → String) (q : List (Int × List Unlock)) (d : String) :
    unlockSum denomOf ((q.map (·.2)).flatten) d = queueSum denomOf q d := by
  unfold unlockSum queueSum
  rw [isum_map_flatten, List.map_map]; rfl

theorem queueSum_perm (denomOf : Bytes → String) {a b : List (Int × List Unlock)} (h : a.Perm b) (d : String) :
    queueSum denomOf a d = queueSum denomOf b d := isum_map_perm _ h

/-- moving the matured entries to the delivery queue keeps the queued total -/
theorem queued_dequeueMature (denomOf : Bytes → String) (s : State) (now : Int) (d : String) :
    queueSum denomOf (dequeueMature s now).unlockQueue d + unlockSum denomOf (dequeueMature s now).qUnlocks d
      = queueSum denomOf s.unlockQueue d + unlockSum denomOf s.qUnlocks d := by
  unfold dequeueMature
  by_cases hd : (dueUnlocks s now).isEmpty = true
  · rw [if_pos hd]
  · rw [if_neg hd]
    simp only
    rw [unlockSum_append, unlockSum_flatten]
    unfold dueUnlocks
    rw [queueSum_perm denomOf (List.mergeSort_perm _ _)]
    have := isum_map_filter_split (fun e : Int × List Unlock => unlockSum denomOf e.2 d) (fun e => decide (e.1 ≤ now)) s.unlockQueue
    unfold queueSum
    omega

theorem view_dequeueMature_fields (s : State) (now : Int) :
    (view (dequeueMature s now)).params = (view s).params ∧ (view (dequeueMature s now)).locks = (view s).locks ∧
    (view (dequeueMature s now)).slashed = (view s).slashed := by
  unfold dequeueMature; split <;> exact ⟨rfl, rfl, rfl⟩

theorem dequeueMature_keys_nodup (s : State) (now : Int) (h : (s.unlockQueue.map (·.1)).Nodup) :
    ((dequeueMature s now).unlockQueue.map (·.1)).Nodup := by
  unfold dequeueMature
  split
  · exact h
  · exact List.Nodup.sublist ((List.filter_sublist).map _) h

/-! ### aggregation of lock requests -/

/-- total requested for denomination `d` -/
def lockSum (reqs : List LockReq) (d : String) : Int := isum (reqs.map (fun r => if r.token = d then r.amount else 0))

theorem lockSum_cons (r : LockReq) (reqs : List LockReq) (d : String) :
    lockSum (r :: reqs) d = (if r.token = d then r.amount else 0) + lockSum reqs d := rfl

def aggStep (acc : List (Bytes × Coins)) (r : LockReq) : List (Bytes × Coins) :=
  let cur := ((acc.find? (·.1 == r.validator)).map (·.2)).getD []
  let cur' := addCoin cur r.token r.amount
  if acc.any (·.1 == r.validator) then acc.map (fun e => if e.1 == r.validator then (e.1, cur') else e)
  else acc ++ [(r.validator, cur')]

theorem aggregateLocks_ok (reqs : List LockReq) (agg : List (Bytes × Coins)) (h : aggregateLocks reqs = .ok agg) :
    agg = reqs.foldl aggStep [] := by
  unfold aggregateLocks at h
  dsimp only at h
  split at h
  · cases h
  · cases h; rfl

theorem aggStep_eq (acc : List (Bytes × Coins)) (r : LockReq) :
    aggStep acc r = locksSet acc r.validator (addCoin ((locksGet acc r.validator).getD []) r.token r.amount) := by
  unfold aggStep locksSet locksGet
  dsimp only
  split
  · apply List.map_congr_left
    intro e _
    by_cases he : e.1 = r.validator
    · simp [he]
    · simp [he]
  · rfl

theorem aggStep_spec (acc : List (Bytes × Coins)) (r : LockReq) (hn : KeysNodup acc) (hc : LAll Canon acc) :
    KeysNodup (aggStep acc r) ∧ LAll Canon (aggStep acc r) ∧
    (∀ d, heldL (aggStep acc r) d = heldL acc d + (if r.token = d then r.amount else 0)) ∧
    (LAll CoinsNonneg acc → 0 ≤ r.amount → LAll CoinsNonneg (aggStep acc r)) := by
  rw [aggStep_eq]
  refine ⟨keysNodup_locksSet _ _ _ hn, ?_, ?_, ?_⟩
  · apply lall_locksSet Canon _ _ _ hc
    apply canon_addCoin
    cases hg : locksGet acc r.validator with
    | none => exact canon_nil
    | some c => exact lall_get Canon acc _ c hc hg
  · intro d
    cases hg : locksGet acc r.validator with
    | none =>
      rw [heldL_locksSet_none _ _ _ _ hg, amountOf_addCoin]; simp
    | some c =>
      rw [heldL_locksSet_some _ _ c _ _ hn hg, amountOf_addCoin]; simp only [Option.getD_some]; omega
  · intro hnn ha
    apply lall_locksSet CoinsNonneg _ _ _ hnn
    apply nonneg_addCoin _ _ _ _ ha
    cases hg : locksGet acc r.validator with
    | none => intro e he; cases he
    | some c => exact lall_get CoinsNonneg acc _ c hnn hg

theorem agg_fold_spec (reqs : List LockReq) (acc : List (Bytes × Coins)) (hn : KeysNodup acc) (hc : LAll Canon acc) :
    KeysNodup (reqs.foldl aggStep acc) ∧ LAll Canon (reqs.foldl aggStep acc) ∧
    (∀ d, heldL (reqs.foldl aggStep acc) d = heldL acc d + lockSum reqs d) ∧
    (LAll CoinsNonneg acc → (∀ r ∈ reqs, 0 ≤ r.amount) → LAll CoinsNonneg (reqs.foldl aggStep acc)) := by
  induction reqs generalizing acc with
  | nil => exact ⟨hn, hc, fun d => by simp [lockSum], fun h _ => h⟩
  | cons r rs ih =>
    obtain ⟨h1, h2, h3, h4⟩ := aggStep_spec acc r hn hc
    obtain ⟨i1, i2, i3, i4⟩ := ih (aggStep acc r) h1 h2
    rw [List.foldl_cons]
    refine ⟨i1, i2, ?_, ?_⟩
    · intro d; rw [i3, h3, lockSum_cons]; omega
    · intro hnn hr
      exact i4 (h4 hnn (hr r List.mem_cons_self)) (fun x hx => hr x (List.mem_cons_of_mem _ hx))

/-- the aggregated coins: distinct validators, canonical coin sets, and per denomination they add up
    to exactly the requested amounts -/
theorem aggregateLocks_spec (reqs : List LockReq) (agg : List (Bytes × Coins)) (h : aggregateLocks reqs = .ok agg) :
    KeysNodup agg ∧ LAll Canon agg ∧ (∀ d, heldL agg d = lockSum reqs d) ∧
    ((∀ r ∈ reqs, 0 ≤ r.amount) → LAll CoinsNonneg agg) := by
  rw [aggregateLocks_ok reqs agg h]
  obtain ⟨h1, h2, h3, h4⟩ := agg_fold_spec reqs [] (by simp [KeysNodup]) (fun e he => by cases he)
  exact ⟨h1, h2, fun d => by rw [h3]; simp [heldL], fun hr => h4 (fun e he => by cases he) hr⟩

end Goat.Locking
