import GoatModel.Merkle
namespace Goat.Merkle

theorem chunks32_length (fuel : Nat) (bs : Bytes) (hf : bs.length ≤ fuel) (h : bs.length % 32 = 0) :
    (chunks32 fuel bs).length = bs.length / 32 := by
  induction fuel generalizing bs with
  | zero =>
    have : bs.length = 0 := by omega
    simp [chunks32, this]
  | succ n ih =>
    unfold chunks32
    by_cases he : bs.isEmpty
    · simp [he]; simp [List.isEmpty_iff] at he; simp [he]
    · simp [he]
      have hne : bs.length ≠ 0 := by
        intro h0; apply he; simp [List.isEmpty_iff]; exact List.eq_nil_of_length_eq_zero h0
      have h32 : 32 ≤ bs.length := by omega
      rw [ih (bs.drop 32) (by simp; omega) (by simp; omega)]
      simp; omega

theorem chunks_length (bs : Bytes) (h : bs.length % 32 = 0) :
    (chunks bs).length = bs.length / 32 := chunks32_length _ _ (Nat.le_refl _) h

theorem chunks32_all32 (fuel : Nat) (bs : Bytes) (hf : bs.length ≤ fuel) (h : bs.length % 32 = 0) :
    ∀ c ∈ chunks32 fuel bs, c.length = 32 := by
  induction fuel generalizing bs with
  | zero => intro c hc; simp [chunks32] at hc
  | succ n ih =>
    intro c hc
    unfold chunks32 at hc
    by_cases he : bs.isEmpty
    · simp [he] at hc
    · simp [he] at hc
      have hne : bs.length ≠ 0 := by
        intro h0; apply he; simp [List.isEmpty_iff]; exact List.eq_nil_of_length_eq_zero h0
      have h32 : 32 ≤ bs.length := by omega
      rcases hc with hc | hc
      · subst hc; simp; omega
      · exact ih (bs.drop 32) (by simp; omega) (by simp; omega) c hc

theorem chunks_all32 (bs : Bytes) (h : bs.length % 32 = 0) : ∀ c ∈ chunks bs, c.length = 32 :=
  chunks32_all32 _ _ (Nat.le_refl _) h

theorem foldUp_append (H : Bytes → Bytes) (cur : Bytes) (path : List Bytes) (x : Bytes) (idx : Nat) :
    foldUp H cur (path ++ [x]) idx = stepNode H (foldUp H cur path idx) x (idx / 2 ^ path.length) := by
  induction path generalizing cur idx with
  | nil => simp [foldUp]
  | cons p ps ih =>
    simp only [List.cons_append, foldUp, List.length_cons]
    rw [ih]
    congr 1
    rw [Nat.div_div_eq_div_mul, Nat.pow_succ, Nat.mul_comm]

end Goat.Merkle

namespace Goat.Merkle
/-- only the low `path.length` bits of the index matter for the fold -/
theorem foldUp_mod (H : Bytes → Bytes) (cur : Bytes) (path : List Bytes) (i : Nat) :
    foldUp H cur path i = foldUp H cur path (i % 2 ^ path.length) := by
  induction path generalizing cur i with
  | nil => simp [foldUp]
  | cons p ps ih =>
    simp only [foldUp, List.length_cons]
    have h1 : (i % 2 ^ (ps.length + 1)) % 2 = i % 2 := by
      rw [Nat.pow_succ, Nat.mul_comm]; exact Nat.mod_mul_right_mod i 2 (2 ^ ps.length)
    have h2 : (i % 2 ^ (ps.length + 1)) / 2 = (i / 2) % 2 ^ ps.length := by
      rw [Nat.pow_succ, Nat.mul_comm, Nat.mod_mul_right_div_self]
    unfold stepNode
    rw [h1, h2]
    split <;> exact ih _ _
end Goat.Merkle
